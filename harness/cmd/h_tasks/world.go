package main

import (
	"context"
	"fmt"
	"os"
	"runtime"
	"strings"
	"sync"
	"sync/atomic"
	"time"

	"github.com/safing/portbase/log"
	"github.com/safing/portbase/modules"
	"github.com/safing/portbase/utils/vhook"

	"verifharness/internal/vlib"
)

// ---------------------------------------------------------------------------------
// event log (recorded only at the harness/portbase boundary and inside vhook handlers)

// Ev is one event. Seq is the logical clock; T is monotonic ns since the child's base
// time and is used only for the "not before its scheduled time" comparisons.
type Ev struct {
	Seq  uint64 `json:"s"`
	T    int64  `json:"t"`
	K    string `json:"k"`            // call | ret | begin | end | hook | mark
	C    string `json:"c,omitempty"`  // client: c0.. | in:<task>#<run> | sup | plan
	Op   string `json:"op,omitempty"` // operation / hook point / mark name
	Task int    `json:"task"`         // task index, -1 = none
	ID   int    `json:"id,omitempty"` // links call and ret
	At   int64  `json:"at,omitempty"` // Schedule: requested time (ns since base)
	D    int64  `json:"d,omitempty"`  // MaxDelay value (ns)
	Run  int    `json:"run,omitempty"`
	Done bool   `json:"ctxdone,omitempty"` // begin: context already cancelled
	By   string `json:"by,omitempty"`      // hook: goroutine that runs the start (queue | sched | other)
	In   int    `json:"in,omitempty"`      // call issued from inside a run of this task (index+1), 0 = outside
}

var base = time.Now()

func rel(t time.Time) int64 { return int64(t.Sub(base)) }

type evlog struct {
	mu  sync.Mutex
	seq uint64
	evs []Ev
}

func (l *evlog) rec(e Ev) uint64 {
	if e.T == 0 {
		e.T = rel(time.Now())
	}
	l.mu.Lock()
	l.seq++
	e.Seq = l.seq
	l.evs = append(l.evs, e)
	l.mu.Unlock()
	return e.Seq
}

func (l *evlog) now() uint64 { l.mu.Lock(); defer l.mu.Unlock(); return l.seq }

func (l *evlog) snapshot() []Ev {
	l.mu.Lock()
	defer l.mu.Unlock()
	out := make([]Ev, len(l.evs))
	copy(out, l.evs)
	return out
}

// ---------------------------------------------------------------------------------
// the world of one child process

type world struct {
	mods      []*modules.Module
	mgmt      bool                   // module management enabled: mods = storage <- service <- app (only app is enabled itself)
	other     *modules.Module        // unrelated module that the management passes switch on and off
	life      *modules.Module        // module that the managed-restart plan stops and starts again
	lifeStart atomic.Pointer[func()] // what the start function of "life" does (set by the plan)
	cur       atomic.Pointer[histRun]

	// sentinel: a harness task outside all histories (MaxDelay 0: never in the
	// schedule). One pass of it through the normal queue is a barrier for the queue
	// handler: when it has run, the handler has finished processing everything it had
	// popped before.
	sentinel     *modules.Task
	sentinelRuns atomic.Int64

	// schedSentinel: the same for the schedule handler. It is scheduled with a past
	// time; the handler's decision about it (modules.sched.decided) is a barrier: the
	// handler goroutine has returned from whatever runWithLocking/StartASAP it was in.
	schedSentinel *modules.Task
	schedDecided  atomic.Int64
}

type taskRun struct {
	idx       int
	name      string
	spec      TaskSpec
	t         *modules.Task
	hr        *histRun
	runs      atomic.Int32 // begins
	ends      atomic.Int32
	active    atomic.Int32
	withdrawn atomic.Bool   // a Cancel or Schedule(zero) has been called for the task (set before the call)
	decided   atomic.Int32  // schedule handler decisions about this task (modules.sched.decided)
	subs      atomic.Int32  // submissions (Queue/QueuePrioritized/StartASAP/Schedule) called so far
	block     chan struct{} // if non-nil: the first execution waits for it before returning
}

type park struct {
	hit     chan struct{} // closed when the hooked goroutine arrived
	release chan struct{} // closed by the plan to let it continue
	once    sync.Once
	skip    atomic.Int32 // number of hits that pass before the one that parks
	by      string       // goroutine class of the parked hit (set before hit is closed)
}

func (p *park) open() {
	select {
	case <-p.release:
	default:
		close(p.release)
	}
}

type histRun struct {
	w       *world
	h       *Hist
	log     *evlog
	tasks   []*taskRun
	byName  map[string]*taskRun
	opID    atomic.Int64
	rmu     sync.Mutex
	rnd     *vlib.Rand
	pmu     sync.Mutex
	parks   map[string]*park // key: point + "/" + task name
	lastClr atomic.Pointer[taskRun]
	hookHit [5]atomic.Int64
	notes   []string
	supN    int
	failed  string // harness-side problem: history is inconclusive

	// online monitor: set by the task function as soon as a task has begun more often
	// than submissions for it were *called* so far (every execution needs its own
	// submission whose call precedes it, so this is a violation on any schedule), or
	// when the logical execution/event cap of the history is exceeded. The history is
	// then stopped (no quiescence needed) and decided on the log recorded so far.
	lastAt      time.Time // time value of the latest Schedule call (Op.Same)
	noStructure bool
	noQuiesce   bool // the plan is decided at its own idle point; tasks stay scheduled far in the future
	q0, p0, s0  int  // list lengths when the history started (leftovers of earlier histories)

	abort    atomic.Bool
	abortMu  sync.Mutex
	abortWhy string
	capped   bool
}

// logical (not wall-clock) caps of one history
const (
	maxRunsPerSubmission = 50
	maxEventsPerHistory  = 200000
)

var noOnline = os.Getenv("VERIF_C07_NO_ONLINE") != "" // self-test of the watchdog path only

func (hr *histRun) setAbort(capped bool, f string, a ...any) {
	if noOnline {
		return
	}
	hr.abortMu.Lock()
	if hr.abortWhy == "" {
		hr.abortWhy = fmt.Sprintf(f, a...)
		hr.capped = capped
	}
	hr.abortMu.Unlock()
	hr.abort.Store(true)
}

func (hr *histRun) aborted() (string, bool) {
	hr.abortMu.Lock()
	defer hr.abortMu.Unlock()
	return hr.abortWhy, hr.capped
}

const (
	hkCleared = "modules.task.cleared"
	hkDefer   = "modules.task.defer"
	hkPrelock = "modules.task.prelock"
	hkPrerun  = "modules.task.prerun"   // top of runWithLocking, before the task lock is taken
	hkSched   = "modules.sched.decided" // schedule handler: after its unlock, before runWithLocking / StartASAP
)

func startWorld(mgmt bool) (*world, error) {
	w := &world{mgmt: mgmt}
	nop := func() error { return nil }
	w.mods = append(w.mods, modules.Register("vtasks0", nop, nop, nop))
	w.mods = append(w.mods, modules.Register("vtasks1", nop, nop, nop, "vtasks0"))
	if mgmt {
		// app -> service -> storage: only the app is enabled itself, the other two run
		// as its first- and second-level dependencies
		w.mods = append(w.mods, modules.Register("vtasks2", nop, nop, nop, "vtasks1"))
		w.other = modules.Register("vother", nop, nop, nop)
		w.life = modules.Register("vlife", nop, func() error {
			if f := w.lifeStart.Load(); f != nil {
				(*f)()
			}
			return nil
		}, nop)
		modules.EnableModuleManagement(func(*modules.Module) {})
		w.mods[2].Enable()
	}
	log.SetLogLevel(log.CriticalLevel)
	// panics of task functions are reported through a channel that nobody drains
	// (capacity 1): a report must never hold up the task that panicked
	modules.SetErrorReportingChannel(make(chan *modules.ModuleError, 1))
	modules.SetStdErrReporting(false)
	// keep os.Args free of anything flag.Parse (called by modules.Start) could trip over
	os.Args = os.Args[:1]
	if err := modules.Start(); err != nil {
		return nil, err
	}
	log.SetLogLevel(log.CriticalLevel)
	w.sentinel = w.mods[0].NewTask("verif-sentinel", func(context.Context, *modules.Task) error {
		w.sentinelRuns.Add(1)
		return nil
	}).MaxDelay(0)
	w.schedSentinel = w.mods[0].NewTask(schedSentinelName, func(context.Context, *modules.Task) error { return nil }).MaxDelay(0)
	for i, p := range []string{hkCleared, hkDefer, hkPrelock, hkPrerun, hkSched} {
		i, p := i, p
		vhook.Set(p, func(point, subject string) { w.onHook(i, p, subject) })
	}
	return w, nil
}

// startedBy classifies the goroutine that executes runWithLocking.
func startedBy() string {
	var pcs [24]uintptr
	n := runtime.Callers(3, pcs[:])
	fr := runtime.CallersFrames(pcs[:n])
	for {
		f, more := fr.Next()
		switch {
		case strings.HasSuffix(f.Function, "modules.taskQueueHandler"):
			return "queue"
		case strings.HasSuffix(f.Function, "modules.taskScheduleHandler"):
			return "sched"
		}
		if !more {
			return "other"
		}
	}
}

func (w *world) onHook(i int, point, subject string) {
	if subject == schedSentinelName {
		if point == hkSched {
			w.schedDecided.Add(1)
		}
		return
	}
	hr := w.cur.Load()
	if hr == nil {
		return
	}
	tr := hr.byName[subject]
	if tr == nil {
		return // task of an earlier history (cleanup)
	}
	hr.hookHit[i].Add(1)
	switch point {
	case hkCleared:
		hr.log.rec(Ev{K: "hook", Op: "cleared", Task: tr.idx, By: startedBy()})
		hr.lastClr.Store(tr)
	case hkSched:
		hr.log.rec(Ev{K: "hook", Op: "decided", Task: tr.idx})
		tr.decided.Add(1)
	case hkPrerun:
		hr.log.rec(Ev{K: "hook", Op: "prerun", Task: tr.idx, By: startedBy()})
	case hkPrelock:
		hr.log.rec(Ev{K: "hook", Op: "prelock", Task: tr.idx})
	case hkDefer:
		// Give the goroutine that releases the queue slot (started right after the
		// execution goroutine) a moment to pick up the task's context before the
		// deferred reset replaces it. Without this, executions that return at once
		// frequently end in the legitimate but slow 60 s queue stall (DESIGN C07
		// limits). Pacing only; the stalled interleaving still occurs and is handled
		// by the supervisor in quiesce.
		time.Sleep(150 * time.Microsecond)
	}
	// explicit ordering plan?
	hr.pmu.Lock()
	p := hr.parks[point+"/"+subject]
	hr.pmu.Unlock()
	if p != nil {
		if p.skip.Add(-1) >= 0 {
			return
		}
		first := false
		p.once.Do(func() { first = true })
		if first {
			p.by = startedBy()
			close(p.hit)
			select {
			case <-p.release:
			case <-time.After(30 * time.Second): // watchdog: the plan died
			}
		}
		return
	}
	// random delay / yield
	if hr.h.HookP > 0 {
		hr.rmu.Lock()
		do := hr.rnd.Intn(100) < hr.h.HookP
		us := 0
		if do {
			us = hr.rnd.Intn(hr.h.HookMaxUs + 1)
		}
		hr.rmu.Unlock()
		if do {
			if us < 20 {
				runtime.Gosched()
			} else {
				time.Sleep(time.Duration(us) * time.Microsecond)
			}
		}
	}
}

func (hr *histRun) park(point string, task int) *park { return hr.parkNth(point, task, 0) }

// parkNth parks the (skip+1)-th arrival at the point for the task.
func (hr *histRun) parkNth(point string, task int, skip int) *park {
	p := &park{hit: make(chan struct{}), release: make(chan struct{})}
	p.skip.Store(int32(skip))
	hr.pmu.Lock()
	hr.parks[point+"/"+hr.tasks[task].name] = p
	hr.pmu.Unlock()
	return p
}

func (hr *histRun) note(f string, a ...any) { hr.notes = append(hr.notes, fmt.Sprintf(f, a...)) }

// ---------------------------------------------------------------------------------
// boundary: API calls (client side) and the task function (callee side)

func (hr *histRun) do(client string, in int, o Op) {
	if o.PreUs > 0 {
		time.Sleep(time.Duration(o.PreUs) * time.Microsecond)
	}
	tr := hr.tasks[o.Task]
	id := int(hr.opID.Add(1))
	runsBefore := tr.runs.Load()
	switch o.Kind {
	case opQueue, opQueueP, opASAP, opSchedule:
		tr.subs.Add(1) // before the call is issued: in-flight submissions count
	case opCancel, opUnsched:
		tr.withdrawn.Store(true)
	}
	switch o.Kind {
	case opQueue:
		hr.log.rec(Ev{K: "call", C: client, Op: o.Kind, Task: o.Task, ID: id, In: in})
		tr.t.Queue()
	case opQueueP:
		hr.log.rec(Ev{K: "call", C: client, Op: o.Kind, Task: o.Task, ID: id, In: in})
		tr.t.QueuePrioritized()
	case opASAP:
		hr.log.rec(Ev{K: "call", C: client, Op: o.Kind, Task: o.Task, ID: id, In: in})
		tr.t.StartASAP()
	case opSchedule:
		now := time.Now()
		at := now.Add(time.Duration(o.OffMs) * time.Millisecond)
		hr.rmu.Lock()
		if o.Same && !hr.lastAt.IsZero() {
			at = hr.lastAt // the identical time.Time value
		}
		hr.lastAt = at
		hr.rmu.Unlock()
		hr.log.rec(Ev{K: "call", C: client, Op: o.Kind, Task: o.Task, ID: id, In: in, T: rel(now), At: rel(at)})
		tr.t.Schedule(at)
	case opMaxDelay:
		d := time.Duration(o.DelayMs) * time.Millisecond
		hr.log.rec(Ev{K: "call", C: client, Op: o.Kind, Task: o.Task, ID: id, In: in, D: int64(d) + 1}) // +1: distinguish 0 from unset
		tr.t.MaxDelay(d)
	case opCancel:
		hr.log.rec(Ev{K: "call", C: client, Op: o.Kind, Task: o.Task, ID: id, In: in})
		tr.t.Cancel()
	case opUnsched:
		hr.log.rec(Ev{K: "call", C: client, Op: o.Kind, Task: o.Task, ID: id, In: in})
		tr.t.Schedule(time.Time{})
	default:
		return
	}
	hr.log.rec(Ev{K: "ret", C: client, Op: o.Kind, Task: o.Task, ID: id, In: in})
	switch o.Kind {
	case opQueue, opQueueP, opASAP, opSchedule:
		hr.checkEffect(tr, o.Kind, runsBefore)
	}
}

// checkEffect decides online whether a submission that has just returned had any effect.
// On the unchanged code a submission on a task that was never cancelled or withdrawn
// leaves the task in at least one list (under the task lock), until a start takes it out
// - and a start makes the task executing and then increments its run counter. So if,
// after the call returned, the task is in no list, not executing, and has not begun a run
// since before the call, while no Cancel / Schedule(zero) was ever called for it and its
// module reports Online, the submission was silently dropped: nothing is left that could
// execute the task. That is "lost" on any schedule; the history is stopped at once
// instead of waiting for watchdogs.
func (hr *histRun) checkEffect(tr *taskRun, kind string, runsBefore int32) {
	if hr.abort.Load() {
		return
	}
	ex, _, qd, pr, sc := tr.t.VerifTaskState()
	if ex || qd || pr || sc || tr.active.Load() != 0 || tr.runs.Load() != runsBefore {
		return
	}
	if tr.withdrawn.Load() || !hr.w.modsOnline() {
		return
	}
	hr.log.rec(Ev{K: "mark", Op: "no-effect:" + kind, Task: tr.idx,
		C: fmt.Sprintf("%s on task t%d returned, but the task is in no list, not executing and has not begun since before the call (no Cancel or Schedule(zero) was ever called for it, its module reports Online): the submission was dropped", kind, tr.idx)})
	hr.setAbort(false, "a submission had no effect")
}

func (tr *taskRun) fn(ctx context.Context, _ *modules.Task) error {
	bt := time.Now()
	hr := tr.hr
	tr.active.Add(1)
	run := int(tr.runs.Add(1))
	seq := hr.log.rec(Ev{K: "begin", Task: tr.idx, Run: run, T: rel(bt), Done: ctx.Err() != nil})
	if sc := int(tr.subs.Load()); run > sc {
		hr.setAbort(false, "task t%d began execution #%d although only %d submissions had been called for it", tr.idx, run, sc)
	} else if run > maxRunsPerSubmission*sc+maxRunsPerSubmission || seq > maxEventsPerHistory {
		hr.setAbort(true, "logical cap of the history exceeded (task t%d execution #%d, %d submissions, event %d)", tr.idx, run, sc, seq)
	}
	if hr.abort.Load() {
		// the history is being stopped: no further calls from inside, no run time
		hr.log.rec(Ev{K: "end", Task: tr.idx, Run: run})
		tr.active.Add(-1)
		tr.ends.Add(1)
		return nil
	}
	for _, o := range tr.spec.Inner[run] {
		hr.do(fmt.Sprintf("in:%d#%d", tr.idx, run), tr.idx+1, o)
	}
	if n := len(tr.spec.RunUs); n > 0 {
		if us := tr.spec.RunUs[(run-1)%n]; us > 0 {
			time.Sleep(time.Duration(us) * time.Microsecond)
		}
	}
	if tr.block != nil && run == 1 {
		select {
		case <-tr.block:
		case <-time.After(60 * time.Second):
		}
	}
	hr.log.rec(Ev{K: "end", Task: tr.idx, Run: run})
	tr.active.Add(-1)
	tr.ends.Add(1)
	if tr.spec.Panic == run {
		panic(fmt.Sprintf("verif: scripted panic of task t%d in execution #%d", tr.idx, run))
	}
	return nil
}

// ---------------------------------------------------------------------------------
// running one history

var histCounter atomic.Int64

func (w *world) newHist(h *Hist) *histRun {
	hr := &histRun{w: w, h: h, log: &evlog{}, byName: map[string]*taskRun{}, parks: map[string]*park{},
		rnd: vlib.NewRand(h.Seed, "hook", 0)}
	hr.q0, hr.p0, hr.s0 = modules.VerifTaskLists()
	n := histCounter.Add(1)
	for i, ts := range h.Tasks {
		tr := &taskRun{idx: i, name: fmt.Sprintf("h%d.%d.t%d", h.ID, n, i), spec: ts, hr: hr}
		hr.tasks = append(hr.tasks, tr)
		hr.byName[tr.name] = tr
	}
	w.cur.Store(hr)
	for _, tr := range hr.tasks {
		id := int(hr.opID.Add(1))
		hr.log.rec(Ev{K: "call", C: "setup", Op: opNewTask, Task: tr.idx, ID: id})
		mi := tr.spec.Mod % 2
		if w.mgmt {
			mi = (tr.spec.Mod + tr.idx) % 3
		}
		tr.t = w.mods[mi].NewTask(tr.name, tr.fn)
		hr.log.rec(Ev{K: "ret", C: "setup", Op: opNewTask, Task: tr.idx, ID: id})
	}
	return hr
}

func waitFor(d time.Duration, cond func() bool) bool { return waitForAbort(nil, d, cond) }

func waitForAbort(abort *atomic.Bool, d time.Duration, cond func() bool) bool {
	dl := time.Now().Add(d)
	for i := 0; ; i++ {
		if cond() {
			return true
		}
		if abort != nil && abort.Load() {
			return false
		}
		if time.Now().After(dl) {
			return false
		}
		if i < 50 {
			runtime.Gosched()
		} else {
			time.Sleep(200 * time.Microsecond)
		}
	}
}

// idle reports whether no task of the history is in a list or executing and the
// global lists are empty.
func (hr *histRun) idle() bool {
	q, p, s := modules.VerifTaskLists()
	if q+p+s != 0 {
		return false
	}
	for _, tr := range hr.tasks {
		ex, _, qd, pr, sc := tr.t.VerifTaskState()
		if ex || qd || pr || sc || tr.active.Load() != 0 {
			return false
		}
	}
	return true
}

// reading is one observation of the bookkeeping: what every task of the history claims
// (under its own lock) and how long the three lists are (under their locks).
type reading struct {
	states     string // all per-task tuples
	busy       bool   // some task executing
	cq, cp, cs int    // tasks claiming membership of the queue / prioritized queue / schedule
	q, p, s    int    // list lengths
	who        [3][]int
}

func (hr *histRun) read() reading {
	var r reading
	var sb strings.Builder
	for _, tr := range hr.tasks {
		ex, ca, qd, pr, sc := tr.t.VerifTaskState()
		act := tr.active.Load() != 0
		fmt.Fprintf(&sb, "%v%v%v%v%v%v;", ex, ca, qd, pr, sc, act)
		if ex || act {
			r.busy = true
		}
		if qd {
			r.cq++
			r.who[0] = append(r.who[0], tr.idx)
		}
		if pr {
			r.cp++
			r.who[1] = append(r.who[1], tr.idx)
		}
		if sc {
			r.cs++
			r.who[2] = append(r.who[2], tr.idx)
		}
	}
	r.q, r.p, r.s = modules.VerifTaskLists()
	// the two sentinels are the only tasks outside the history that can be listed
	for _, st := range []*modules.Task{hr.w.sentinel, hr.w.schedSentinel} {
		_, _, qd, pr, sc := st.VerifTaskState()
		for i, in := range []bool{qd, pr, sc} {
			if in {
				*[]*int{&r.q, &r.p, &r.s}[i]--
			}
		}
	}
	r.states = fmt.Sprintf("%s|%d,%d,%d", sb.String(), r.q, r.p, r.s)
	return r
}

func (r reading) mismatch() bool { return !r.busy && (r.cq != r.q || r.cp != r.p || r.cs != r.s) }

const schedSentinelName = "verif-sched-sentinel"

// schedBarrier returns when the schedule handler has made a decision that it can only
// make after returning from the call it was in.
func (hr *histRun) schedBarrier() bool {
	n := hr.w.schedDecided.Load()
	hr.w.schedSentinel.Schedule(time.Now().Add(-time.Millisecond))
	return waitForAbort(&hr.abort, 10*time.Second, func() bool { return hr.w.schedDecided.Load() > n })
}

// barrier sends the sentinel once through the queue.
func (hr *histRun) barrier() bool {
	n := hr.w.sentinelRuns.Load()
	hr.w.sentinel.Queue()
	return waitForAbort(&hr.abort, 5*time.Second, func() bool { return hr.w.sentinelRuns.Load() > n })
}

// checkStructure decides the list-membership invariant at an idle point: no client call
// in flight (callers guarantee it), nothing executing, and the complete bookkeeping
// (every task's state tuple and the three list lengths) identical in three readings that
// are separated by two complete passes of the sentinel through the queue, with no event
// recorded in between. On the unchanged code a task's element pointer is non-nil exactly
// while the element is in its list, except between the queue handler's pop and its
// runWithLocking on that task - and that window is closed by the barrier (the handler
// pops the sentinel only after it finished with everything popped before, and finishing
// changes the task's tuple). So a persisting difference between the number of tasks that
// claim membership and the length of the list is a corrupted bookkeeping, on any
// schedule and without waiting for any max delay. All tasks in the lists belong to the
// running history (lists that were not empty when the history started are skipped).
func (hr *histRun) checkStructure() bool {
	if hr.noStructure {
		return false
	}
	seq := hr.log.now()
	r0 := hr.read()
	if !r0.mismatch() {
		return false
	}
	for i := 0; i < 2; i++ {
		if !hr.barrier() {
			// the queue does not move although nothing executes (a stalled slot
			// releaser on trees without the watcher fix): no structural verdict
			hr.noStructure = true
			return false
		}
		if r := hr.read(); r.states != r0.states || hr.log.now() != seq {
			return false
		}
	}
	found := false
	for li, name := range []string{"queue", "prioritized", "schedule"} {
		claims := []int{r0.cq, r0.cp, r0.cs}[li]
		length := []int{r0.q, r0.p, r0.s}[li]
		if claims == length || []int{hr.q0, hr.p0, hr.s0}[li] != 0 {
			continue
		}
		found = true
		hr.log.rec(Ev{K: "mark", Op: "structure:" + name, Task: -1,
			C: fmt.Sprintf("%d task(s) of the history %v claim to be in the %s list, but the list holds %d element(s)", claims, r0.who[li], name, length)})
	}
	if found {
		hr.setAbort(false, "list-membership bookkeeping is corrupted at an idle point")
	}
	return found
}

func (hr *histRun) anyExecuting() bool {
	for _, tr := range hr.tasks {
		if ex, _, _, _, _ := tr.t.VerifTaskState(); ex || tr.active.Load() != 0 {
			return true
		}
	}
	return false
}

// quiesce waits for logical quiescence: everything empty and idle twice in a row with
// no new event in between. While waiting it plays the supervisor client: when the queue
// makes no progress although nothing executes (the legitimate stall in which the slot
// releaser of a finished execution waits on the task's *next* context for the
// execution-wait limit), it issues a recorded Cancel for finished idle tasks, which ends
// the stall. The Cancel is an ordinary call of the history; no verdict depends on it.
func (hr *histRun) quiesce(limit time.Duration, supervise bool) bool {
	dl := time.Now().Add(limit)
	lastSeq := hr.log.now()
	lastChange := time.Now()
	var idleSeq, prevPoll uint64
	idleSeen := false
	round := 0
	for i := 0; ; i++ {
		if hr.abort.Load() {
			return false
		}
		s := hr.log.now()
		if s != lastSeq {
			lastSeq, lastChange = s, time.Now()
		}
		if hr.idle() {
			if idleSeen && idleSeq == hr.log.now() {
				return true
			}
			idleSeen, idleSeq = true, s
		} else {
			idleSeen = false
			// not idle, but nothing moved since the last poll: is the bookkeeping itself
			// inconsistent (then quiescence can never be reached or means nothing)?
			if s == prevPoll && i > 20 && i%8 == 0 && (hr.checkStructure() || hr.checkStuck() || hr.checkParkedInReport()) {
				return false
			}
		}
		prevPoll = s
		if time.Now().After(dl) {
			return false
		}
		if supervise && time.Since(lastChange) > 1500*time.Millisecond {
			q, p, _ := modules.VerifTaskLists()
			if q+p > 0 && !hr.anyExecuting() {
				round++
				hr.unstall(round)
				lastChange = time.Now()
			}
		}
		if i < 20 {
			runtime.Gosched()
		} else {
			time.Sleep(300 * time.Microsecond)
		}
	}
}

func (hr *histRun) unstall(round int) {
	for _, tr := range hr.tasks {
		if tr.runs.Load() == 0 {
			continue
		}
		// (an already cancelled task is cancelled again: Cancel always cancels the
		// task's current context, which is what a stale slot releaser waits on)
		ex, _, qd, pr, sc := tr.t.VerifTaskState()
		if ex {
			continue
		}
		if round == 1 && (qd || pr || sc) {
			continue
		}
		hr.supN++
		hr.do("sup", 0, Op{Kind: opCancel, Task: tr.idx})
	}
}

func (hr *histRun) runClients() {
	var wg sync.WaitGroup
	for ci, ops := range hr.h.Clients {
		wg.Add(1)
		go func(ci int, ops []Op) {
			defer wg.Done()
			for _, o := range ops {
				hr.do(fmt.Sprintf("c%d", ci), 0, o)
			}
		}(ci, ops)
	}
	wg.Wait()
}

// result of one executed history
type histResult struct {
	Aborted    string // online monitor stopped the history (reason)
	Capped     bool   // ... because of the logical cap, not because of runs > submissions
	ModsOnline bool   // all task modules reported Online at the end of the history
	NoQuiesce  bool   // decided at the plan's own idle point, quiescence not awaited
	Partial    bool   // log of a history that was still running when the child's watchdog fired
	Hist       *Hist
	Events     []Ev
	Quiescent  bool
	Failed     string
	Notes      []string
	SupCancel  int
	WallMs     int64
}

func (w *world) run(h *Hist) *histResult {
	t0 := time.Now()
	w.mgmtPass()
	hr := w.newHist(h)
	limit := 150 * time.Second
	quiet := false
	switch h.Class {
	case clsGate:
		quiet = hr.runGate(limit)
	case clsPlan:
		quiet = hr.runPlan(limit)
	case clsLong:
		quiet = hr.runLong()
	case clsIdle:
		// the tasks exist since newHist; nothing is called for them for 62 s (longer
		// than the execution-wait limit, the max delay and the timeslot wait)
		time.Sleep(62 * time.Second)
		hr.do("c0", 0, Op{Kind: opQueue, Task: 0})
		hr.do("c0", 0, Op{Kind: opQueueP, Task: 1})
		hr.do("c0", 0, Op{Kind: opASAP, Task: 2})
		hr.do("c0", 0, Op{Kind: opSchedule, Task: 3, OffMs: 20})
		quiet = hr.quiesce(limit, true)
	default:
		hr.runClients()
		quiet = hr.quiesce(limit, true)
	}
	evs := hr.log.snapshot()
	// cleanup (not part of the history): cancel everything, let the handlers drain
	for _, tr := range hr.tasks {
		tr.t.Cancel()
		tr.t.Schedule(time.Time{}) // takes the cancelled task out of all lists right away
		w.schedSentinel.Schedule(time.Time{})
		if tr.block != nil {
			select {
			case <-tr.block:
			default:
				close(tr.block)
			}
		}
	}
	hr.pmu.Lock()
	for _, p := range hr.parks {
		select {
		case <-p.release:
		default:
			close(p.release)
		}
	}
	hr.pmu.Unlock()
	waitFor(20*time.Second, func() bool {
		q, p, s := modules.VerifTaskLists()
		return q+p+s == 0 && !hr.anyExecuting()
	})
	w.cur.Store(nil)
	why, capped := hr.aborted()
	online := w.modsOnline()
	return &histResult{ModsOnline: online, Hist: h, Events: evs, Quiescent: quiet && why == "", Failed: hr.failed, Notes: hr.notes, SupCancel: hr.supN,
		WallMs: time.Since(t0).Milliseconds(), Aborted: why, Capped: capped, NoQuiesce: hr.noQuiesce}
}

func (hr *histRun) mark(name string) { hr.log.rec(Ev{K: "mark", Op: name, Task: -1}) }

func (hr *histRun) waitBegin(task, n int) bool {
	ok := waitForAbort(&hr.abort, 40*time.Second, func() bool { return int(hr.tasks[task].runs.Load()) >= n })
	if !ok && hr.failed == "" && !hr.abort.Load() {
		hr.failed = fmt.Sprintf("task %d did not reach begin #%d within the watchdog", task, n)
	}
	return ok
}

func (hr *histRun) waitEnd(task, n int) bool {
	ok := waitForAbort(&hr.abort, 40*time.Second, func() bool { return int(hr.tasks[task].ends.Load()) >= n })
	if !ok && hr.failed == "" && !hr.abort.Load() {
		hr.failed = fmt.Sprintf("task %d did not reach end #%d within the watchdog", task, n)
	}
	return ok
}

func (hr *histRun) waitHit(p *park) bool {
	dl := time.After(40 * time.Second)
	for {
		select {
		case <-p.hit:
			return true
		case <-dl:
			if hr.failed == "" {
				hr.failed = "hook point was not reached within the watchdog"
			}
			return false
		case <-time.After(5 * time.Millisecond):
			if hr.abort.Load() {
				return false
			}
		}
	}
}

// runGate: park the queue behind the gate task (task 0), submit the scripted batch from
// one client, open the gate.
func (hr *histRun) runGate(limit time.Duration) bool {
	g := hr.tasks[0]
	g.block = make(chan struct{})
	hr.do("c0", 0, Op{Kind: opASAP, Task: 0})
	if !hr.waitBegin(0, 1) {
		return false
	}
	hr.mark("gate-closed")
	for i, o := range hr.h.Clients[0] {
		if i == len(hr.h.Clients[0])/2 {
			hr.w.mgmtPass() // only the gate task runs, and it makes no calls
		}
		hr.do("c0", 0, o)
	}
	hr.mark("gate-open")
	close(g.block)
	return hr.quiesce(limit, true)
}

func (hr *histRun) runLong() bool {
	hr.do("c0", 0, Op{Kind: opQueue, Task: 0})
	if !hr.waitBegin(0, 1) {
		return false
	}
	// a long max delay keeps the overdue path (default: also 60 s) out of the picture:
	// only the execution-wait limit can let the next queued task start
	hr.do("c0", 0, Op{Kind: opMaxDelay, Task: 1, DelayMs: 600000})
	hr.do("c0", 0, Op{Kind: opMaxDelay, Task: 2, DelayMs: 600000})
	hr.do("c0", 0, Op{Kind: opQueue, Task: 1})
	hr.do("c0", 0, Op{Kind: opQueueP, Task: 2})
	return hr.quiesce(200*time.Second, false)
}

// runPlan executes one deterministic ordering plan. T=0, U=1, V=2.
func (hr *histRun) runPlan(limit time.Duration) bool {
	const T, U, V = 0, 1, 2
	off, md := 250, 30
	if len(hr.h.Clients) > 0 && len(hr.h.Clients[0]) > 0 {
		off, md = hr.h.Clients[0][0].OffMs, hr.h.Clients[0][0].DelayMs
	}
	c := "plan"
	switch hr.h.Plan {
	case "cancel-parked":
		p := hr.park(hkCleared, T)
		hr.do(c, 0, Op{Kind: opQueue, Task: T})
		if hr.waitHit(p) {
			hr.do(c, 0, Op{Kind: opCancel, Task: T})
			hr.mark("cancel-overlapped-pending-start")
		}
		close(p.release)
	case "cancel-queued":
		hr.tasks[U].block = make(chan struct{})
		hr.do(c, 0, Op{Kind: opQueue, Task: U})
		if hr.waitBegin(U, 1) {
			hr.do(c, 0, Op{Kind: vlibPickKind(hr), Task: T})
			hr.do(c, 0, Op{Kind: opCancel, Task: T})
			hr.do(c, 0, Op{Kind: opQueue, Task: V})
		}
		close(hr.tasks[U].block)
	case "sched-parked":
		p := hr.park(hkCleared, T)
		hr.do(c, 0, Op{Kind: opQueue, Task: T})
		if hr.waitHit(p) {
			hr.do(c, 0, Op{Kind: opSchedule, Task: T, OffMs: off})
			hr.mark("schedule-overlapped-pending-start")
		}
		close(p.release)
		if hr.waitEnd(T, 1) {
			hr.do(c, 0, Op{Kind: opQueue, Task: U})
		}
	case "sched-defer":
		p := hr.park(hkPrelock, T)
		hr.do(c, 0, Op{Kind: opQueue, Task: T})
		if hr.waitHit(p) {
			hr.do(c, 0, Op{Kind: opSchedule, Task: T, OffMs: off})
			hr.mark("schedule-overlapped-deferred-reset")
		}
		close(p.release)
		hr.do(c, 0, Op{Kind: opQueue, Task: U})
	case "queue-defer":
		p := hr.park(hkPrelock, T)
		hr.do(c, 0, Op{Kind: opQueue, Task: T})
		if hr.waitHit(p) {
			hr.do(c, 0, Op{Kind: vlibPickKind(hr), Task: T})
			hr.mark("queue-overlapped-deferred-reset")
		}
		close(p.release)
	case "stale-timer":
		// T waits a moment behind V (so the schedule handler arms its timer for T's
		// max-delay entry), then runs via the queue long before the max delay
		hr.tasks[V].block = make(chan struct{})
		hr.do(c, 0, Op{Kind: opQueue, Task: V})
		if hr.waitBegin(V, 1) {
			hr.do(c, 0, Op{Kind: opMaxDelay, Task: T, DelayMs: md})
			hr.do(c, 0, Op{Kind: opSchedule, Task: U, OffMs: off})
			hr.do(c, 0, Op{Kind: opQueue, Task: T})
			time.Sleep(3 * time.Millisecond) // workload pacing only
		}
		close(hr.tasks[V].block)
	case "requeue-running":
		hr.tasks[T].spec.RunUs = []int{md * 3000, 1000}
		hr.do(c, 0, Op{Kind: opMaxDelay, Task: T, DelayMs: md})
		hr.do(c, 0, Op{Kind: opQueue, Task: T})
		if hr.waitBegin(T, 1) {
			hr.do(c, 0, Op{Kind: vlibPickKind(hr), Task: T})
		}
	case "requeue-overdue":
		hr.tasks[U].block = make(chan struct{})
		hr.tasks[T].spec.Inner = map[int][]Op{1: {{Kind: opQueue, Task: T}}}
		hr.do(c, 0, Op{Kind: opQueue, Task: U})
		if hr.waitBegin(U, 1) {
			hr.do(c, 0, Op{Kind: opMaxDelay, Task: T, DelayMs: md})
			hr.do(c, 0, Op{Kind: opQueue, Task: T})
			hr.waitBegin(T, 1)
		}
		close(hr.tasks[U].block)
	case "sched-while-run":
		hr.tasks[T].spec.RunUs = []int{20000, 1000}
		hr.do(c, 0, Op{Kind: opQueue, Task: T})
		if hr.waitBegin(T, 1) {
			hr.do(c, 0, Op{Kind: opSchedule, Task: T, OffMs: off})
			hr.do(c, 0, Op{Kind: opQueue, Task: U})
		}
	case "sched-after-queued-run":
		// T is queued (default max delay) behind U and runs via the queue; the next queue
		// start (V) proves that this execution is completely over. Then T is only
		// scheduled and comes due while V runs: a due scheduled task is queued
		// (StartASAP) and must wait for V; nothing entitles the schedule handler to
		// start it beside the queue.
		hr.tasks[U].block = make(chan struct{})
		hr.tasks[V].block = make(chan struct{})
		hr.do(c, 0, Op{Kind: opQueue, Task: U})
		if hr.waitBegin(U, 1) {
			hr.do(c, 0, Op{Kind: vlibPickKind(hr), Task: T})
		}
		close(hr.tasks[U].block)
		if hr.waitEnd(T, 1) {
			hr.do(c, 0, Op{Kind: opQueue, Task: V})
			if hr.waitBegin(V, 1) {
				hr.do(c, 0, Op{Kind: opSchedule, Task: T, OffMs: md})
				// pacing: until the schedule handler has dealt with T (T is in the
				// prioritized queue, or began again)
				tr := hr.tasks[T]
				waitForAbort(&hr.abort, 10*time.Second, func() bool {
					if tr.runs.Load() >= 2 {
						return true
					}
					_, _, _, pr, _ := tr.t.VerifTaskState()
					return tr.decided.Load() >= 1 && pr
				})
				hr.mark("scheduled-task-due-while-queue-busy")
			}
		}
		close(hr.tasks[V].block)
	case "sched-order":
		hr.noQuiesce = true
		for _, o := range hr.h.Clients[1] {
			hr.do(c, 0, o)
		}
		// the requested times are in the log (At, relative to base)
		model := map[int]time.Time{}
		for _, e := range hr.log.snapshot() {
			if e.K == "call" && e.Op == opSchedule {
				model[e.Task] = base.Add(time.Duration(e.At))
			}
		}
		hr.checkScheduleOrder(model)
		return false
	case "cancelled-rescheduled":
		hr.do(c, 0, Op{Kind: opSchedule, Task: T, OffMs: 300})
		hr.do(c, 0, Op{Kind: opCancel, Task: T})
		hr.do(c, 0, Op{Kind: opSchedule, Task: T, OffMs: md})
	case "panic-requeue":
		// T's first execution panics (the panic is recovered and reported by portbase);
		// afterwards T is submitted again and has to run again.
		hr.tasks[T].spec.Panic = 1
		hr.do(c, 0, Op{Kind: opQueue, Task: T})
		if hr.waitEnd(T, 1) {
			tr := hr.tasks[T]
			waitForAbort(&hr.abort, 3*time.Second, func() bool { // pacing: deferred reset done
				ex, _, _, _, _ := tr.t.VerifTaskState()
				return !ex
			})
			hr.do(c, 0, Op{Kind: vlibPickKind(hr), Task: T})
		}
	case "managed-restart":
		// managed world only: the "life" module is stopped and started again by
		// management passes; the start function of its new life creates three tasks and
		// submits them. Once the module is online they have to run.
		w := hr.w
		if !w.mgmt {
			return hr.quiesce(limit, true)
		}
		w.life.Enable()
		_ = modules.ManageModules() // a first life (a no-op if it already runs)
		w.life.Disable()
		_ = modules.ManageModules() // stopped
		startFn := func() {
			for _, i := range []int{T, U, V} {
				tr := hr.tasks[i]
				tr.t = w.life.NewTask(tr.name, tr.fn)
			}
			hr.do("start-fn", 0, Op{Kind: opQueue, Task: T})
			hr.do("start-fn", 0, Op{Kind: opSchedule, Task: U, OffMs: md})
			hr.do("start-fn", 0, Op{Kind: opASAP, Task: V})
		}
		w.lifeStart.Store(&startFn)
		w.life.Enable()
		_ = modules.ManageModules() // second life: the start function runs
		w.lifeStart.Store(nil)
		if !w.life.Online() {
			hr.failed = "the restarted module did not come online"
		}
		hr.mark("tasks-submitted-from-start-function-of-second-life")
	case "zero-exposure":
		// T is the head of the schedule (+10 s, never due within the history) and is
		// withdrawn and re-scheduled again and again while a second client keeps waking
		// the schedule handler (re-scheduling U, +1 h). T must never be started. Not
		// deterministic: there is no hook inside Schedule between writing the time and
		// removing the task from the lists.
		stop := make(chan struct{})
		done := make(chan struct{})
		go func() {
			defer close(done)
			for i := 0; ; i++ {
				select {
				case <-stop:
					return
				default:
				}
				hr.do("plan2", 0, Op{Kind: opSchedule, Task: U, OffMs: 3600000 + i})
			}
		}()
		for i := 0; i < 150 && !hr.abort.Load(); i++ {
			hr.do(c, 0, Op{Kind: opSchedule, Task: T, OffMs: 10000})
			hr.do(c, 0, Op{Kind: opUnsched, Task: T})
		}
		close(stop)
		<-done
		hr.do(c, 0, Op{Kind: opUnsched, Task: U})
	case "same-instant":
		// two tasks scheduled for the identical time value: both have to be started
		hr.do(c, 0, Op{Kind: opSchedule, Task: T, OffMs: md})
		hr.do(c, 0, Op{Kind: opSchedule, Task: U, Same: true})
		hr.do(c, 0, Op{Kind: opSchedule, Task: V, OffMs: md + 15})
	case "unschedule-queued":
		// T waits in the queue behind the running U (its schedule entry is its max-delay
		// deadline) and is withdrawn with Schedule(zero): on the unchanged code that
		// takes it out of the queue and the schedule. V is queued afterwards (wakes the
		// schedule handler); a pass of the schedule sentinel proves that the handler has
		// looked at everything that was due. T must not be started while U runs.
		hr.tasks[U].block = make(chan struct{})
		hr.do(c, 0, Op{Kind: opQueue, Task: U})
		if hr.waitBegin(U, 1) {
			hr.do(c, 0, Op{Kind: vlibPickKind(hr), Task: T})
			hr.do(c, 0, Op{Kind: opUnsched, Task: T})
			hr.do(c, 0, Op{Kind: opQueue, Task: V})
			hr.schedBarrier()
			hr.mark("queued-task-withdrawn-while-queue-busy")
		}
		close(hr.tasks[U].block)
	case "stale-queue-pop":
		// Mirror image of the stale overdue decision: the queue handler pops T and is
		// parked at the entry of runWithLocking (before the task lock). T's short max
		// delay passes, the schedule handler starts T as overdue for the same
		// submission; that execution ends completely. Then the queue handler continues
		// with the element it popped: it must not run T again (one submission).
		pPre := hr.park(hkPrerun, T)
		hr.do(c, 0, Op{Kind: opMaxDelay, Task: T, DelayMs: md})
		hr.do(c, 0, Op{Kind: vlibPickKind(hr), Task: T})
		if hr.waitHit(pPre) && pPre.by == "queue" && hr.waitEnd(T, 1) {
			tr := hr.tasks[T]
			waitForAbort(&hr.abort, 10*time.Second, func() bool { // deferred reset done
				ex, _, _, _, _ := tr.t.VerifTaskState()
				return !ex
			})
			hr.mark("stale-queue-pop-released")
			pPre.open()
			hr.barrier()
		}
		pPre.open()
	case "stale-overdue-finished", "stale-overdue-running":
		// U holds the queue slot; T (short max delay) is queued behind it. When the max
		// delay passes, the schedule handler decides that T is overdue and enters
		// runWithLocking: that start is parked at its entry (prerun, before the task
		// lock). U is released, the queue handler starts T for the same submission.
		// finished: T's execution ends completely, then the parked overdue start
		//   continues: it must not run T again (one submission).
		// running: T's function schedules T for +off ms and keeps running; the parked
		//   overdue start continues meanwhile: the new schedule entry must survive, T's
		//   next execution must not begin before that time.
		// A pass of the schedule sentinel proves that the overdue start has returned.
		running := hr.h.Plan == "stale-overdue-running"
		hr.tasks[U].block = make(chan struct{})
		if running {
			hr.tasks[T].block = make(chan struct{})
			hr.tasks[T].spec.Inner = map[int][]Op{1: {{Kind: opSchedule, Task: T, OffMs: off}}}
		}
		hr.do(c, 0, Op{Kind: opQueue, Task: U})
		var pPre *park
		if hr.waitBegin(U, 1) {
			pPre = hr.park(hkPrerun, T)
			hr.do(c, 0, Op{Kind: opMaxDelay, Task: T, DelayMs: md})
			hr.do(c, 0, Op{Kind: vlibPickKind(hr), Task: T})
			if !hr.waitHit(pPre) || pPre.by != "sched" {
				pPre.open()
				pPre = nil
			}
		}
		close(hr.tasks[U].block)
		if pPre != nil && hr.waitBegin(T, 1) {
			tr := hr.tasks[T]
			if running {
				waitForAbort(&hr.abort, 10*time.Second, func() bool { // the inner Schedule has returned
					_, _, _, _, sc := tr.t.VerifTaskState()
					return sc
				})
			} else {
				hr.waitEnd(T, 1)
				waitForAbort(&hr.abort, 10*time.Second, func() bool { // deferred reset done
					ex, _, _, _, _ := tr.t.VerifTaskState()
					return !ex
				})
			}
			hr.mark("stale-overdue-decision-released:" + hr.h.Plan)
			pPre.open()
			hr.schedBarrier()
		}
		if pPre != nil {
			pPre.open()
		}
		if running {
			close(hr.tasks[T].block)
		}
	case "overdue-parked":
		// The queue slot is held by U; T is queued with a short max delay, so its first
		// start is the overdue path of the schedule handler. That start is parked at its
		// very entry (prerun, before the task lock). If it runs on the schedule handler
		// itself (as in the original code) the handler cannot do anything else meanwhile
		// and the park is released at once. If it runs on another goroutine, the handler
		// is given the chance to make its next round over the still-listed T: its next
		// decision about T is parked after its unlock, the overdue start is let through
		// (T is removed from all lists and begins), then the handler continues. Whether
		// T then runs more often than it was submitted is decided by the usual oracles.
		hr.tasks[U].block = make(chan struct{})
		hr.tasks[T].spec.RunUs = []int{2000}
		hr.do(c, 0, Op{Kind: opQueue, Task: U})
		if hr.waitBegin(U, 1) {
			pPre := hr.park(hkPrerun, T)
			pDec := hr.parkNth(hkSched, T, 1)
			hr.do(c, 0, Op{Kind: opMaxDelay, Task: T, DelayMs: md})
			hr.do(c, 0, Op{Kind: vlibPickKind(hr), Task: T})
			if hr.waitHit(pPre) {
				if pPre.by != "sched" {
					select {
					case <-pDec.hit: // the handler decided about T again
						hr.mark("overdue-start-overlapped-next-schedule-round")
						pPre.open()
						hr.waitBegin(T, 1)
					case <-time.After(3 * time.Second): // pacing only
					}
				}
			}
			pPre.open()
			pDec.open()
			hr.waitBegin(T, 1)
			// let a possible second start happen while U still holds the slot
			if pPre.by != "sched" {
				waitForAbort(&hr.abort, 5*time.Second, func() bool { return hr.tasks[T].runs.Load() >= 2 }) // pacing only
			}
		}
		close(hr.tasks[U].block)
	case "cancel-scheduled":
		hr.do(c, 0, Op{Kind: opSchedule, Task: T, OffMs: 50})
		hr.do(c, 0, Op{Kind: opCancel, Task: T})
		hr.do(c, 0, Op{Kind: opSchedule, Task: U, OffMs: 70})
	default:
		hr.failed = "unknown plan " + hr.h.Plan
		return false
	}
	return hr.quiesce(limit, true)
}

// vlibPickKind picks one of the three queue submissions from the history's stream.
func vlibPickKind(hr *histRun) string {
	hr.rmu.Lock()
	defer hr.rmu.Unlock()
	return vlib.Pick(hr.rnd, opQueue, opQueueP, opASAP)
}

// partial returns what the running history recorded so far (used when the child's
// watchdog fires: the log is analysed instead of being thrown away).
func (w *world) partial() *histResult {
	hr := w.cur.Load()
	if hr == nil {
		return nil
	}
	why, capped := hr.aborted()
	return &histResult{Hist: hr.h, Events: hr.log.snapshot(), Quiescent: false, Partial: true, Aborted: why, Capped: capped,
		Failed: "the child's watchdog fired while this history was running; its partial event log was analysed"}
}

// checkScheduleOrder decides, at the idle point after a strictly sequential series of
// Schedule calls on never-due tasks (no call in flight, nothing executing, no handler
// activity on the schedule), that the task schedule is sorted by execution time and
// equals the model order. On the unchanged code addToSchedule - under scheduleLock -
// moves/inserts the task before the first *other* entry with a later time (ties: behind
// the equal ones), else to the back; with sequential calls every entry's time is the
// one it was sorted by, so the list is sorted after every call. (This does not hold for
// concurrent calls - the time is written under the task lock before the list lock is
// taken - nor for a Schedule on a cancelled listed task, which changes the time without
// re-sorting; neither occurs in this plan.) The reading is confirmed over two sentinel
// barriers like the list-membership invariant.
func (hr *histRun) checkScheduleOrder(model map[int]time.Time) {
	read := func() (string, []string, []time.Time) {
		names, at := modules.VerifScheduleOrder()
		var sb strings.Builder
		for i := range names {
			fmt.Fprintf(&sb, "%s@%d;", names[i], at[i].UnixNano())
		}
		return sb.String(), names, at
	}
	if hr.s0 != 0 || hr.anyExecuting() {
		hr.note("schedule-order not decided: schedule not empty at history start or a task executing")
		return
	}
	seq := hr.log.now()
	sig0, names, at := read()
	for i := 0; i < 2; i++ {
		if !hr.barrier() {
			hr.failed = "sentinel barrier did not complete"
			return
		}
		if s, _, _ := read(); s != sig0 || hr.log.now() != seq {
			hr.failed = "schedule changed at the idle point of the sched-order plan"
			return
		}
	}
	var order []string
	bad := ""
	for i := range names {
		tr := hr.byName[names[i]]
		if tr == nil {
			hr.failed = "foreign task in the schedule"
			return
		}
		order = append(order, fmt.Sprintf("t%d@+%dmin", tr.idx, int(at[i].Sub(base).Minutes())))
		if i > 0 && at[i].Before(at[i-1]) && bad == "" {
			bad = fmt.Sprintf("entry %d (%s) is scheduled earlier than the entry before it", i+1, order[i])
		}
		if want, ok := model[tr.idx]; bad == "" && (!ok || !want.Equal(at[i])) {
			bad = fmt.Sprintf("entry %d (%s) does not carry the time of the task's last Schedule call", i+1, order[i])
		}
	}
	if bad == "" && len(names) != len(model) {
		bad = fmt.Sprintf("%d tasks were scheduled but the schedule holds %d entries", len(model), len(names))
	}
	hr.log.rec(Ev{K: "mark", Op: "schedule-order-checked", Task: -1})
	if bad != "" {
		hr.log.rec(Ev{K: "mark", Op: "structure:schedule-order", Task: -1,
			C: fmt.Sprintf("after %d sequential Schedule calls by one client on never-due tasks the schedule is not sorted by execution time: %s; list order: %v", len(hr.h.Clients[1]), bad, order)})
	}
}

// mgmtPass is one module-management pass for something unrelated to the task modules:
// the "other" module is switched on or off and ManageModules rebuilds the enabled tree.
// It is only called at points where no task call is in flight and no task function
// runs inner calls (the rebuild un-marks and re-marks all dependencies; a submission
// falling into that moment is a different question and is not driven here).
func (w *world) mgmtPass() {
	if !w.mgmt {
		return
	}
	w.other.SetEnabled(!w.other.Enabled())
	_ = modules.ManageModules()
}

func (w *world) modsOnline() bool {
	for _, m := range w.mods {
		if !m.Online() {
			return false
		}
	}
	return true
}

// schedHandlerParked reports whether the goroutine dump shows the schedule handler
// goroutine blocked in its own select (not running, not inside a call).
func schedHandlerParked() bool {
	buf := make([]byte, 1<<20)
	buf = buf[:runtime.Stack(buf, true)]
	for _, blk := range strings.Split(string(buf), "\n\n") {
		lines := strings.Split(blk, "\n")
		if len(lines) < 2 || !strings.HasPrefix(lines[0], "goroutine ") {
			continue
		}
		top := ""
		for _, ln := range lines[1:] {
			if ln == "" || ln[0] == '\t' || strings.HasPrefix(ln, "runtime.") {
				continue
			}
			top = ln
			break
		}
		if !strings.Contains(top, "modules.taskScheduleHandler(") {
			continue
		}
		st := lines[0]
		if i := strings.Index(st, "["); i >= 0 {
			st = st[i+1:]
		}
		return strings.HasPrefix(st, "select]") || strings.HasPrefix(st, "select,")
	}
	return false
}

// checkStuck decides whether the schedule handler is stuck: nothing executes, both
// queues are empty, no event since the last poll, yet the first entry of the schedule
// is due (by more than 50 ms on the monotonic clock). The handler is then woken eight
// times (a Schedule call of the schedule sentinel sends the wake-up before it returns);
// after each wake-up it must be seen parked in its select again (a goroutine parks in a
// select only if no case is ready, so the wake-up has been consumed and the head of the
// schedule has been evaluated since) with the same due head, no decision about any task
// in between. On the unchanged code every evaluation of a due head arms a timer that is
// already expired, whose firing leads to a decision (modules.sched.decided) about the
// head; three consecutive evaluations without a decision mean that the handler waits on
// something that will not fire for this head. (Assumption, stated in the evidence: an
// expired Go timer fires before its waiter has been woken and parked again three times.)
func (hr *histRun) checkStuck() bool {
	if hr.anyExecuting() {
		return false
	}
	q, p, _ := modules.VerifTaskLists()
	if q+p != 0 {
		return false
	}
	head := func() (string, bool) {
		names, at := modules.VerifScheduleOrder()
		if len(names) == 0 || time.Since(at[0]) < 50*time.Millisecond || names[0] == schedSentinelName {
			return "", false
		}
		return fmt.Sprintf("%s@%d", names[0], at[0].UnixNano()), true
	}
	h0, due := head()
	if !due {
		return false
	}
	seq := hr.log.now()
	dec := hr.w.schedDecided.Load()
	// (8 rounds, at least 250 ms apart: one unexplained occurrence of the 3-round
	// version on the unchanged tree made the evidence demanded much stronger; a handler
	// that is really stuck stays stuck)
	for round := 0; round < 8; round++ {
		hr.w.schedSentinel.Schedule(time.Now().Add(-time.Millisecond)) // wakes the handler
		if _, _, _, _, listed := hr.w.schedSentinel.VerifTaskState(); !listed {
			return false // the sentinel was not taken into the schedule: no wake-up was sent
		}
		time.Sleep(250 * time.Millisecond)
		if !waitForAbort(&hr.abort, 2*time.Second, schedHandlerParked) {
			return false
		}
		if h, d := head(); !d || h != h0 || hr.log.now() != seq || hr.w.schedDecided.Load() != dec || hr.anyExecuting() {
			return false
		}
	}
	names, at := modules.VerifScheduleOrder()
	var order []string
	for i := range names {
		order = append(order, fmt.Sprintf("%s@%.1fms", names[i], float64(rel(at[i]))/1e6))
	}
	dump := make([]byte, 1<<18)
	dump = dump[:runtime.Stack(dump, true)]
	hr.note("stuck diagnostics: now=%.1fms schedule=%v goroutines:\n%s", float64(rel(time.Now()))/1e6, order, string(dump))
	tr := hr.byName[strings.SplitN(h0, "@", 2)[0]]
	who := "a task"
	if tr != nil {
		who = fmt.Sprintf("task t%d", tr.idx)
	}
	hr.log.rec(Ev{K: "mark", Op: "stuck:schedule-handler-parked-with-due-head", Task: -1,
		C: fmt.Sprintf("the first entry of the schedule (%s) is due for more than 50 ms, both queues are empty and nothing executes, but the schedule handler does not act on it: woken eight times at least 250 ms apart, it was each time found parked in its select again without any decision (modules.sched.decided) about any task", who)})
	hr.setAbort(false, "the schedule handler is stuck with a due head entry")
	return true
}

// checkParkedInReport decides a structural stuck state of an execution: the task
// function has returned (its end event is recorded) but the task stays executing, and
// the goroutine dump shows a goroutine *parked* (select / chan send) inside
// (*ModuleError).Report below executeWithLocking's deferred handler - seen in two dumps
// with no event in between. On the unchanged code Report hands the error to the
// reporting channel with a non-blocking send (select with default), in which a
// goroutine can never be parked; a task held there never resets its executing state, so
// every later submission of it is swallowed.
func (hr *histRun) checkParkedInReport() bool {
	cand := false
	for _, tr := range hr.tasks {
		if ex, _, _, _, _ := tr.t.VerifTaskState(); ex && tr.active.Load() == 0 && tr.ends.Load() == tr.runs.Load() && tr.runs.Load() > 0 {
			cand = true
		}
	}
	if !cand {
		return false
	}
	parked := func() bool {
		buf := make([]byte, 1<<20)
		buf = buf[:runtime.Stack(buf, true)]
		for _, blk := range strings.Split(string(buf), "\n\n") {
			lines := strings.Split(blk, "\n")
			if len(lines) < 2 || !strings.Contains(blk, "executeWithLocking") {
				continue
			}
			if !(strings.Contains(lines[0], "[select") || strings.Contains(lines[0], "[chan send")) {
				continue
			}
			for _, ln := range lines[1:] {
				if ln == "" || ln[0] == '\t' || strings.HasPrefix(ln, "runtime.") {
					continue
				}
				if strings.Contains(ln, "modules.(*ModuleError).Report(") {
					return true
				}
				break
			}
		}
		return false
	}
	seq := hr.log.now()
	if !parked() {
		return false
	}
	time.Sleep(20 * time.Millisecond)
	if !parked() || hr.log.now() != seq {
		return false
	}
	hr.log.rec(Ev{K: "mark", Op: "stuck:task-parked-in-error-report", Task: -1,
		C: "a task function has returned (after a panic) but the task stays executing: its goroutine is parked inside (*ModuleError).Report below the deferred handler of executeWithLocking, waiting for somebody to read the error reporting channel; the executing state is never reset and every later submission of the task is swallowed"})
	hr.setAbort(false, "an execution is parked in the error report")
	return true
}
