package main

import (
	"encoding/json"
	"fmt"

	"verifharness/internal/vlib"
)

// ---------------------------------------------------------------------------------
// Scenario description. A child process runs a list of histories against one started
// module system; every history uses fresh tasks and ends at logical quiescence.

// Operation kinds (the calls the property quantifies over).
const (
	opQueue    = "Queue"
	opQueueP   = "QueuePrioritized"
	opASAP     = "StartASAP"
	opSchedule = "Schedule"
	opMaxDelay = "MaxDelay"
	opCancel   = "Cancel"
	opUnsched  = "ScheduleZero" // Schedule(time.Time{}): takes the task out of the schedule AND out of both queues (withdraws every pending submission; the task stays usable)
	opNewTask  = "NewTask"
)

// History classes.
const (
	clsGate  = "gate"  // queue parked behind a gate task, scripted batch from one client, exact order
	clsConc  = "conc"  // concurrent queue-only submissions, default MaxDelay: porcupine order model
	clsMixed = "mixed" // everything incl. Schedule, small MaxDelay, re-queueing from inside: T1-T4
	clsPlan  = "plan"  // deterministic pairwise ordering plans built on the yield hooks
	clsIdle  = "idle"  // tasks that stay idle for more than a minute between creation and first submission
	clsLong  = "long"  // thorough only: one execution longer than the execution-wait limit
)

// Op is one API call of a history.
type Op struct {
	Kind    string `json:"k"`
	Task    int    `json:"t"`
	OffMs   int    `json:"off,omitempty"`  // Schedule: offset from "now" in ms (may be negative)
	DelayMs int    `json:"d,omitempty"`    // MaxDelay value in ms (0 = disable max delay)
	PreUs   int    `json:"pre,omitempty"`  // pause before issuing the call (µs)
	Same    bool   `json:"same,omitempty"` // Schedule: use exactly the time value of the history's previous Schedule call
}

// TaskSpec describes the behaviour of one task function.
type TaskSpec struct {
	RunUs []int        `json:"run"`             // run time of the k-th execution (cycled), µs
	Inner map[int][]Op `json:"inner,omitempty"` // calls issued from inside the k-th execution (1-based)
	Mod   int          `json:"mod,omitempty"`   // module index (0/1)
	Panic int          `json:"panic,omitempty"` // this execution (1-based) panics when it is done
}

// Hist is one history.
type Hist struct {
	ID      int        `json:"id"`
	Class   string     `json:"class"`
	Plan    string     `json:"plan,omitempty"`
	Tasks   []TaskSpec `json:"tasks"`
	Clients [][]Op     `json:"clients,omitempty"`
	// random hook delays: with probability P/100 sleep up to MaxUs at the named points
	HookP     int    `json:"hook_p,omitempty"`
	HookMaxUs int    `json:"hook_max_us,omitempty"`
	Seed      uint64 `json:"seed"` // stream for in-history random choices (hook delays)
}

func (h *Hist) sig() string {
	c := *h
	c.ID = 0
	c.Seed = 0
	b, _ := json.Marshal(&c)
	return string(b)
}

// childSpec is what one child process gets.
type childSpec struct {
	Prop   string `json:"prop"`
	Tier   string `json:"tier"`
	Kind   string `json:"kind"`           // plain | race
	Mgmt   bool   `json:"mgmt,omitempty"` // world with module management enabled (tasks on an enabled module and on its first- and second-level dependencies)
	Hists  []Hist `json:"hists"`
	Repeat int    `json:"repeat,omitempty"` // replay: run the history list this many times
}

// ---------------------------------------------------------------------------------
// generators

var runChoicesUs = []int{0, 0, 300, 1000, 1000, 5000, 20000}

func genRun(r *vlib.Rand, n int) []int {
	out := make([]int, n)
	for i := range out {
		out[i] = vlib.Pick(r, runChoicesUs...)
	}
	return out
}

func genPre(r *vlib.Rand) int {
	return vlib.Pick(r, 0, 0, 0, 50, 200, 1000, 3000)
}

// genGate: a scripted batch submitted by one client while the queue is parked behind a
// gate task (task 0). Default MaxDelay (1 min), no Schedule: the start order after the
// gate opens is fully determined by the sequential three-list model.
func genGate(r *vlib.Rand, id int) Hist {
	nt := r.Range(3, 9)
	h := Hist{ID: id, Class: clsGate, Seed: r.Uint64()}
	h.Tasks = make([]TaskSpec, nt+1)
	h.Tasks[0] = TaskSpec{RunUs: []int{0}} // the gate
	for i := 1; i <= nt; i++ {
		h.Tasks[i] = TaskSpec{RunUs: genRun(r, 2), Mod: r.Intn(2)}
		// short run times keep the history fast
		for k := range h.Tasks[i].RunUs {
			if h.Tasks[i].RunUs[k] > 5000 {
				h.Tasks[i].RunUs[k] = 1000
			}
		}
	}
	nops := r.Range(6, 30)
	var ops []Op
	for i := 0; i < nops; i++ {
		t := r.Range(1, nt)
		var k string
		switch x := r.Intn(100); {
		case x < 35:
			k = opQueue
		case x < 60:
			k = opQueueP
		case x < 84:
			k = opASAP
		case x < 92:
			k = opUnsched
		default:
			k = opCancel
		}
		ops = append(ops, Op{Kind: k, Task: t})
	}
	h.Clients = [][]Op{ops}
	// inner calls: made from inside a running task while the handler waits for it, so
	// they are sequential with respect to the queue as well
	for i := 1; i <= nt; i++ {
		if r.Chance(1, 3) {
			var in []Op
			for n := r.Range(1, 2); n > 0; n-- {
				tgt := i
				if r.Chance(1, 2) {
					tgt = r.Range(1, nt)
				}
				k := vlib.Pick(r, opQueue, opQueueP, opASAP, opASAP, opQueue)
				if r.Chance(1, 10) {
					k = opCancel
				}
				in = append(in, Op{Kind: k, Task: tgt})
			}
			// a Cancel releases the queue slot at once: keep it the last call of the
			// execution so that all inner calls stay sequential with the queue
			// (a Cancel of the running task itself at most once and as the very last)
			var nc, cc, self []Op
			for _, o := range in {
				switch {
				case o.Kind == opCancel && o.Task == i:
					self = []Op{o}
				case o.Kind == opCancel:
					cc = append(cc, o)
				default:
					nc = append(nc, o)
				}
			}
			h.Tasks[i].Inner = map[int][]Op{1: append(append(nc, cc...), self...)}
		}
	}
	if r.Chance(1, 3) {
		h.HookP, h.HookMaxUs = 40, 400
	}
	return h
}

// genConc: 1-4 clients submit queue operations concurrently while the queue handler
// runs. Default MaxDelay, no Schedule.
func genConc(r *vlib.Rand, id int) Hist {
	nt := r.Range(2, 8)
	nc := r.Range(1, 4)
	h := Hist{ID: id, Class: clsConc, Seed: r.Uint64()}
	h.Tasks = make([]TaskSpec, nt)
	for i := range h.Tasks {
		h.Tasks[i] = TaskSpec{RunUs: genRun(r, 3), Mod: r.Intn(2)}
		for k := range h.Tasks[i].RunUs {
			if h.Tasks[i].RunUs[k] > 5000 {
				h.Tasks[i].RunUs[k] = 5000
			}
		}
		if r.Chance(1, 4) {
			k := vlib.Pick(r, opQueue, opQueueP, opASAP)
			h.Tasks[i].Inner = map[int][]Op{r.Range(1, 2): {{Kind: k, Task: i}}}
		}
	}
	total := r.Range(10, 40)
	h.Clients = make([][]Op, nc)
	for i := 0; i < total; i++ {
		c := r.Intn(nc)
		var k string
		switch x := r.Intn(100); {
		case x < 40:
			k = opQueue
		case x < 65:
			k = opQueueP
		case x < 88:
			k = opASAP
		case x < 94:
			k = opUnsched
		default:
			k = opCancel
		}
		h.Clients[c] = append(h.Clients[c], Op{Kind: k, Task: r.Intn(nt), PreUs: genPre(r)})
	}
	if r.Chance(1, 2) {
		h.HookP, h.HookMaxUs = r.Range(10, 60), vlib.Pick(r, 100, 500, 2000)
	}
	return h
}

// genMixed: all operation kinds, schedule offsets, a class of tasks with small MaxDelay
// (drives the overdue path), re-queueing and re-scheduling from inside.
func genMixed(r *vlib.Rand, id int) Hist {
	nt := r.Range(2, 8)
	nc := r.Range(1, 4)
	h := Hist{ID: id, Class: clsMixed, Seed: r.Uint64()}
	h.Tasks = make([]TaskSpec, nt)
	smallDelay := r.Chance(1, 2)
	var pre []Op
	for i := range h.Tasks {
		h.Tasks[i] = TaskSpec{RunUs: genRun(r, 3), Mod: r.Intn(2)}
		if r.Chance(2, 5) {
			in := map[int][]Op{}
			for n := r.Range(1, 2); n > 0; n-- {
				tgt := i
				if r.Chance(1, 3) {
					tgt = r.Intn(nt)
				}
				var o Op
				switch x := r.Intn(100); {
				case x < 30:
					o = Op{Kind: opQueue, Task: tgt}
				case x < 45:
					o = Op{Kind: opQueueP, Task: tgt}
				case x < 60:
					o = Op{Kind: opASAP, Task: tgt}
				case x < 92:
					o = Op{Kind: opSchedule, Task: tgt, OffMs: vlib.Pick(r, -50, 10, 20, 100)}
				case x < 94:
					o = Op{Kind: opMaxDelay, Task: tgt, DelayMs: vlib.Pick(r, 20, 50, 0)}
				case x < 97:
					o = Op{Kind: opUnsched, Task: tgt}
				default:
					o = Op{Kind: opCancel, Task: tgt}
				}
				run := r.Range(1, 3)
				in[run] = append(in[run], o)
			}
			h.Tasks[i].Inner = in
		}
		if smallDelay && r.Chance(1, 2) {
			pre = append(pre, Op{Kind: opMaxDelay, Task: i, DelayMs: r.Range(20, 50)})
		}
		if r.Chance(1, 8) {
			h.Tasks[i].Panic = r.Range(1, 2)
		}
	}
	total := r.Range(10, 60)
	h.Clients = make([][]Op, nc)
	h.Clients[0] = append(h.Clients[0], pre...)
	for i := 0; i < total; i++ {
		c := r.Intn(nc)
		t := r.Intn(nt)
		var o Op
		switch x := r.Intn(100); {
		case x < 25:
			o = Op{Kind: opQueue, Task: t}
		case x < 38:
			o = Op{Kind: opQueueP, Task: t}
		case x < 52:
			o = Op{Kind: opASAP, Task: t}
		case x < 88:
			o = Op{Kind: opSchedule, Task: t, OffMs: vlib.Pick(r, -50, 20, 20, 100, 100, 300)}
		case x < 93:
			o = Op{Kind: opMaxDelay, Task: t, DelayMs: vlib.Pick(r, 20, 30, 50, 0, 60000)}
		case x < 97:
			o = Op{Kind: opUnsched, Task: t}
		default:
			o = Op{Kind: opCancel, Task: t}
		}
		o.PreUs = genPre(r)
		h.Clients[c] = append(h.Clients[c], o)
	}
	if r.Chance(1, 2) {
		h.HookP, h.HookMaxUs = r.Range(10, 60), vlib.Pick(r, 100, 500, 2000)
	}
	return h
}

// plans: deterministic two-party orderings (see runPlan in world.go)
var planNames = []string{
	"cancel-parked",          // Cancel returns while the handler is parked after its state checks
	"cancel-queued",          // Cancel returns while the task still waits behind a running task
	"sched-parked",           // Schedule returns while the handler is parked after its state checks
	"sched-defer",            // Schedule returns while the deferred reset of the execution is parked
	"queue-defer",            // Queue returns while the deferred reset of the execution is parked
	"stale-timer",            // a max-delay schedule entry is removed before its timer fires; another task is scheduled later
	"requeue-running",        // a running task with a short MaxDelay is queued again from outside
	"requeue-overdue",        // a task started by the overdue path re-queues itself
	"sched-while-run",        // Schedule from outside while the task runs
	"cancel-scheduled",       // Cancel while the task waits in the schedule
	"sched-after-queued-run", // a task that ran via the queue is later only scheduled and comes due while a queued task runs
	"sched-order",            // sequential re-scheduling of listed tasks: the schedule stays sorted
	"cancelled-rescheduled",  // a cancelled task that is still listed gets an earlier time (no re-sort, no wake-up of the handler)
	"panic-requeue",          // a task function panics; the task is queued again afterwards
	"managed-restart",        // managed world: a module is stopped and started again; its start function submits tasks
	"zero-exposure",          // stress: Schedule(zero)/Schedule(+10s) on the head of the schedule while the handler is kept busy
	"same-instant",           // two tasks scheduled for the identical time value
	"unschedule-queued",      // Schedule(zero) on a task that waits in the queue behind a running task
	"stale-queue-pop",        // queue handler parked between popping the task and locking it; the overdue path runs the task meanwhile
	"stale-overdue-finished", // overdue start parked at its entry; the queue handler starts and finishes the task; then the overdue start continues
	"stale-overdue-running",  // ... continues while the task still runs and has scheduled itself again
	"overdue-parked",         // overdue start parked at its entry while the schedule handler makes its next round
}

func genPlan(r *vlib.Rand, id int, name string) Hist {
	h := Hist{ID: id, Class: clsPlan, Plan: name, Seed: r.Uint64()}
	// the plan scripts are fixed; the PRNG varies the timing parameters
	h.Tasks = []TaskSpec{
		{RunUs: []int{vlib.Pick(r, 300, 1000, 5000)}},
		{RunUs: []int{vlib.Pick(r, 300, 1000, 5000)}},
		{RunUs: []int{vlib.Pick(r, 300, 1000)}},
	}
	// generic numeric knobs live in Clients[0][0] to keep the spec self-describing
	h.Clients = [][]Op{{{Kind: "knob", OffMs: vlib.Pick(r, 150, 250, 400), DelayMs: vlib.Pick(r, 20, 30, 40)}}}
	if name == "sched-order" {
		// 3-6 tasks that are only ever scheduled far in the future (never due within the
		// history) by ONE client: Schedule calls are strictly sequential and no handler
		// touches the schedule, so it must be sorted after every call
		nt := r.Range(3, 6)
		h.Tasks = make([]TaskSpec, nt)
		for i := range h.Tasks {
			h.Tasks[i] = TaskSpec{RunUs: []int{300}}
		}
		used := map[int]bool{}
		var ops []Op
		for i := 0; i < nt; i++ { // everybody gets listed first
			ops = append(ops, Op{Kind: opSchedule, Task: i})
		}
		for n := r.Range(6, 14); n > 0; n-- { // then re-schedule listed tasks earlier and later
			ops = append(ops, Op{Kind: opSchedule, Task: r.Intn(nt)})
		}
		for i := range ops {
			m := r.Range(10, 600) // minutes, all distinct
			for used[m] {
				m = r.Range(10, 600)
			}
			used[m] = true
			ops[i].OffMs = m * 60000
		}
		h.Clients = append(h.Clients, ops)
	}
	return h
}

func genLong(id int) Hist {
	// task 0 runs 65 s (crosses maxExecutionWait); tasks 1,2 are queued behind it
	return Hist{ID: id, Class: clsLong, Tasks: []TaskSpec{{RunUs: []int{65_000_000}}, {RunUs: []int{1000}}, {RunUs: []int{1000}}}}
}

// caseList derives the fixed list of children (each with its histories) from the seed.
func caseList(cfg vlib.Cfg) []childSpec {
	var out []childSpec
	nPlain, nRace, per := 24, 16, 40
	if cfg.Thorough() {
		nPlain, nRace, per = 96, 48, 60
	}
	id := 0
	mk := func(kind string, ci int) childSpec {
		cs := childSpec{Prop: cfg.Prop, Tier: cfg.Tier, Kind: kind, Mgmt: ci%4 == 3}
		r := vlib.NewRand(cfg.Seed, "C07/"+kind, uint64(ci))
		// every child: all plans once, then a mix of the random classes
		for _, p := range planNames {
			id++
			cs.Hists = append(cs.Hists, genPlan(r, id, p))
		}
		for i := 0; i < per; i++ {
			id++
			switch x := r.Intn(100); {
			case x < 30:
				cs.Hists = append(cs.Hists, genGate(r, id))
			case x < 55:
				cs.Hists = append(cs.Hists, genConc(r, id))
			default:
				cs.Hists = append(cs.Hists, genMixed(r, id))
			}
		}
		return cs
	}
	for i := 0; i < nPlain; i++ {
		out = append(out, mk("plain", i))
	}
	if cfg.BinRace != "" {
		for i := 0; i < nRace; i++ {
			out = append(out, mk("race", i))
		}
	}
	if cfg.Thorough() {
		id++
		out = append(out, childSpec{Prop: cfg.Prop, Tier: cfg.Tier, Kind: "plain", Hists: []Hist{genLong(id)}})
	}
	// one child whose tasks stay idle for 62 s before they are submitted for the first
	// time; it is put first so that it runs in parallel with everything else
	id++
	idle := childSpec{Prop: cfg.Prop, Tier: cfg.Tier, Kind: "plain", Hists: []Hist{{ID: id, Class: clsIdle,
		Tasks: []TaskSpec{{RunUs: []int{1000}}, {RunUs: []int{300}, Mod: 1}, {RunUs: []int{0}}, {RunUs: []int{1000}, Mod: 1}}}}}
	out = append([]childSpec{idle}, out...)
	return out
}

func (o Op) String() string {
	switch o.Kind {
	case opSchedule:
		return fmt.Sprintf("%s(t%d,%+dms)", o.Kind, o.Task, o.OffMs)
	case opMaxDelay:
		return fmt.Sprintf("%s(t%d,%dms)", o.Kind, o.Task, o.DelayMs)
	}
	return fmt.Sprintf("%s(t%d)", o.Kind, o.Task)
}
