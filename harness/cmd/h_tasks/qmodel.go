package main

import (
	"fmt"
	"strconv"
	"strings"
	"time"

	"github.com/anishathalye/porcupine"
)

// ---------------------------------------------------------------------------------
// The sequential reference model of the statement's order clause:
//   start-as-soon-as-possible tasks (latest request first) ▸ prioritized tasks in
//   submission order ▸ normal tasks in submission order;
// a task is in each list at most once, re-submission keeps its position, StartASAP moves
// it to the very front, a start removes the task from both lists, a cancelled task is
// never started.

type qstate struct {
	prio, norm []int
	cancelled  map[int]bool
}

func newQ() *qstate { return &qstate{cancelled: map[int]bool{}} }

func idxOf(l []int, t int) int {
	for i, x := range l {
		if x == t {
			return i
		}
	}
	return -1
}

func without(l []int, t int) []int {
	out := make([]int, 0, len(l))
	for _, x := range l {
		if x != t {
			out = append(out, x)
		}
	}
	return out
}

func (s *qstate) apply(kind string, t int) {
	if kind == opUnsched { // withdraws the task from both queues, nothing else
		s.prio, s.norm = without(s.prio, t), without(s.norm, t)
		return
	}
	if kind == opCancel {
		s.cancelled[t] = true
		s.prio, s.norm = without(s.prio, t), without(s.norm, t)
		return
	}
	if s.cancelled[t] {
		return
	}
	switch kind {
	case opQueue:
		if idxOf(s.norm, t) < 0 {
			s.norm = append(s.norm, t)
		}
	case opQueueP:
		if idxOf(s.prio, t) < 0 {
			s.prio = append(s.prio, t)
		}
	case opASAP:
		s.prio = append([]int{t}, without(s.prio, t)...)
	}
}

func (s *qstate) head() (int, bool) {
	if len(s.prio) > 0 {
		return s.prio[0], true
	}
	if len(s.norm) > 0 {
		return s.norm[0], true
	}
	return 0, false
}

func (s *qstate) pop() (int, bool) {
	t, ok := s.head()
	if ok {
		s.prio, s.norm = without(s.prio, t), without(s.norm, t)
	}
	return t, ok
}

// expectedGateOrder simulates a gate history: the batch of client 0 is applied while the
// gate task (0) runs, then tasks are popped one after the other; the calls a task makes
// from inside its k-th execution are applied when it is popped (the handler waits for
// the execution, so they are sequential with respect to the queue).
func expectedGateOrder(h *Hist) []int {
	s := newQ()
	for _, o := range h.Clients[0] {
		if o.Task != 0 {
			s.apply(o.Kind, o.Task)
		}
	}
	runs := map[int]int{}
	var out []int
	for len(out) < 10000 {
		t, ok := s.pop()
		if !ok {
			break
		}
		out = append(out, t)
		runs[t]++
		for _, o := range h.Tasks[t].Inner[runs[t]] {
			s.apply(o.Kind, o.Task)
		}
	}
	return out
}

// ---------------------------------------------------------------------------------
// porcupine adapter for concurrent queue-only histories

type qIn struct {
	kind    string // Queue | QueuePrioritized | StartASAP | Cancel | pop
	task    int
	call    uint64 // submissions: seq of the call event
	cleared uint64 // pop: seq of the "cleared" hook event of this start
}

// state encoding: "p:1,2|n:3|x:4,5|l:task@cleared"
type qs struct {
	prio, norm, canc []int
	last             int
	lastClr          uint64
}

func encInts(l []int) string {
	var sb strings.Builder
	for i, x := range l {
		if i > 0 {
			sb.WriteByte(',')
		}
		sb.WriteString(strconv.Itoa(x))
	}
	return sb.String()
}

func (s qs) enc() string {
	return "p:" + encInts(s.prio) + "|n:" + encInts(s.norm) + "|x:" + encInts(s.canc) + "|l:" + strconv.Itoa(s.last) + "@" + strconv.FormatUint(s.lastClr, 10)
}

func decInts(s string) []int {
	if s == "" {
		return nil
	}
	var out []int
	for _, f := range strings.Split(s, ",") {
		v, _ := strconv.Atoi(f)
		out = append(out, v)
	}
	return out
}

func decQS(e string) qs {
	parts := strings.Split(e, "|")
	var s qs
	s.prio = decInts(parts[0][2:])
	s.norm = decInts(parts[1][2:])
	s.canc = decInts(parts[2][2:])
	l := strings.Split(parts[3][2:], "@")
	s.last, _ = strconv.Atoi(l[0])
	s.lastClr, _ = strconv.ParseUint(l[1], 10, 64)
	return s
}

func insertSorted(l []int, t int) []int {
	if idxOf(l, t) >= 0 {
		return l
	}
	out := append(append([]int{}, l...), t)
	for i := len(out) - 1; i > 0 && out[i] < out[i-1]; i-- {
		out[i], out[i-1] = out[i-1], out[i]
	}
	return out
}

func qStep(state, input, output interface{}) []interface{} {
	s := decQS(state.(string))
	in := input.(qIn)
	switch in.kind {
	case "pop":
		want := output.(int)
		var head int
		switch {
		case len(s.prio) > 0:
			head = s.prio[0]
		case len(s.norm) > 0:
			head = s.norm[0]
		default:
			return nil
		}
		if head != want {
			return nil
		}
		s.prio, s.norm = without(s.prio, want), without(s.norm, want)
		s.last, s.lastClr = want, in.cleared
		return []interface{}{s.enc()}
	case opCancel:
		s.prio, s.norm = without(s.prio, in.task), without(s.norm, in.task)
		s.canc = insertSorted(s.canc, in.task)
		return []interface{}{s.enc()}
	case opUnsched:
		s.prio, s.norm = without(s.prio, in.task), without(s.norm, in.task)
		return []interface{}{s.enc()}
	}
	if idxOf(s.canc, in.task) >= 0 {
		return []interface{}{state}
	}
	var out []interface{}
	// A submission that arrives after the handler picked the task but before the start
	// removed it from the lists is absorbed by that start (it is "executed after its
	// submission" by it). The harness cannot see the pick, only the "cleared" hook after
	// the removal, so both outcomes are admitted for such a submission.
	if s.last == in.task && s.lastClr != 0 && in.call < s.lastClr {
		out = append(out, state)
	}
	switch in.kind {
	case opQueue:
		if idxOf(s.norm, in.task) < 0 {
			s.norm = append(append([]int{}, s.norm...), in.task)
		}
	case opQueueP:
		if idxOf(s.prio, in.task) < 0 {
			s.prio = append(append([]int{}, s.prio...), in.task)
		}
	case opASAP:
		s.prio = append([]int{in.task}, without(s.prio, in.task)...)
	}
	e := s.enc()
	if len(out) == 0 || out[0].(string) != e {
		out = append(out, e)
	}
	return out
}

var qModel = func() porcupine.Model {
	nm := porcupine.NondeterministicModel{
		Init: func() []interface{} { return []interface{}{qs{last: -1}.enc()} },
		Step: qStep,
		DescribeOperation: func(input, output interface{}) string {
			in := input.(qIn)
			if in.kind == "pop" {
				return fmt.Sprintf("start -> t%d", output.(int))
			}
			return fmt.Sprintf("%s(t%d)", in.kind, in.task)
		},
	}
	return nm.ToModel()
}()

// checkQueueLinearizable returns porcupine's verdict for the operations.
func checkQueueLinearizable(ops []porcupine.Operation, timeout time.Duration) porcupine.CheckResult {
	return porcupine.CheckOperationsTimeout(qModel, ops, timeout)
}
