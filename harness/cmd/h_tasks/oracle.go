package main

import (
	"fmt"
	"math"
	"sort"
	"strings"
	"time"

	"github.com/anishathalye/porcupine"
)

// ---------------------------------------------------------------------------------
// Offline oracles over the event log of one history.
//
// Notation: for the k-th execution ("run") of a task, begin_k / end_k are the events the
// task function records, cleared_k is the event the vhook handler records right after
// runWithLocking released the task lock (the start is decided and the task removed from
// all lists before that point), d_k is the (unobservable) instant of that removal.
// Known by construction: end_{k-1} < d_k < cleared_k < begin_k < end_k.

const inf = uint64(math.MaxUint64)

type sub struct {
	kind      string
	call, ret uint64
	callT     int64
	at        int64
	client    string
	in        int
}

func (s sub) sched() bool { return s.kind == opSchedule }

type callRec struct {
	call, ret uint64
	callT     int64
	d         int64
	client    string
}

type runRec struct {
	n          int
	begin, end uint64
	beginT     int64
	endT       int64
	cleared    uint64
	clearedT   int64
	prerun     uint64
	prelock    uint64 // deferred reset of this execution is about to take the task lock
	by         string
	done       bool
}

type taskView struct {
	idx     int
	subs    []sub
	cancels []callRec
	unsched []callRec // Schedule(zero): withdraws every pending submission
	maxd    []callRec
	runs    []runRec
}

type startRec struct {
	task    int
	run     int // index into taskView.runs
	cleared uint64
	by      string
}

type view struct {
	h         *Hist
	evs       []Ev
	tasks     []*taskView
	starts    []startRec // in order of the cleared events
	marks     map[string]uint64
	last      uint64
	structure []finding
}

type finding struct {
	Sig  string `json:"sig"`
	What string `json:"what"`
}

func buildView(h *Hist, evs []Ev) *view {
	v := &view{h: h, evs: evs, marks: map[string]uint64{}}
	for i := range h.Tasks {
		v.tasks = append(v.tasks, &taskView{idx: i})
	}
	calls := map[int]Ev{}
	clearedQ := map[int][]Ev{}
	prerunQ := map[int][]Ev{}
	prelockQ := map[int][]Ev{}
	for _, e := range evs {
		v.last = e.Seq
		switch e.K {
		case "mark":
			v.marks[e.Op] = e.Seq
			if strings.HasPrefix(e.Op, "no-effect:") {
				v.structure = append(v.structure, finding{"C07:lost:" + strings.TrimPrefix(e.Op, "no-effect:") + ":no-effect", e.C})
			}
			if strings.HasPrefix(e.Op, "stuck:") {
				v.structure = append(v.structure, finding{"C07:" + e.Op, e.C})
			}
			if strings.HasPrefix(e.Op, "structure:") {
				sig := "C07:structure:list-membership:" + strings.TrimPrefix(e.Op, "structure:")
				if e.Op == "structure:schedule-order" {
					sig = "C07:structure:schedule-order"
				}
				v.structure = append(v.structure, finding{sig,
					"at an idle point (no call in flight, nothing executing, all task states and list lengths identical in three readings separated by two passes of a sentinel task through the queue, no event in between) " + e.C})
			}
		case "call":
			calls[e.ID] = e
		case "ret":
			c, ok := calls[e.ID]
			if !ok {
				continue
			}
			delete(calls, e.ID)
			v.addCall(c, e.Seq)
		case "begin":
			tv := v.tasks[e.Task]
			tv.runs = append(tv.runs, runRec{n: e.Run, begin: e.Seq, beginT: e.T, done: e.Done})
		case "end":
			tv := v.tasks[e.Task]
			for i := range tv.runs {
				if tv.runs[i].n == e.Run {
					tv.runs[i].end, tv.runs[i].endT = e.Seq, e.T
				}
			}
		case "hook":
			switch e.Op {
			case "cleared":
				clearedQ[e.Task] = append(clearedQ[e.Task], e)
			case "prerun":
				prerunQ[e.Task] = append(prerunQ[e.Task], e)
			case "prelock":
				prelockQ[e.Task] = append(prelockQ[e.Task], e)
			}
		}
	}
	for _, c := range calls { // still in flight at the end of the log
		v.addCall(c, inf)
	}
	for ti, tv := range v.tasks {
		sort.Slice(tv.runs, func(a, b int) bool { return tv.runs[a].begin < tv.runs[b].begin })
		cl := clearedQ[ti]
		for k := range tv.runs {
			if pl := prelockQ[ti]; k < len(pl) && pl[k].Seq > tv.runs[k].begin {
				tv.runs[k].prelock = pl[k].Seq
			}
			if k < len(cl) && cl[k].Seq < tv.runs[k].begin {
				tv.runs[k].cleared, tv.runs[k].clearedT, tv.runs[k].by = cl[k].Seq, cl[k].T, cl[k].By
				for _, p := range prerunQ[ti] {
					// prerun and cleared of one start are recorded by the same handler
					// goroutine; a prerun of the *other* handler (which may return without
					// starting anything) says nothing about when this start was decided.
					if p.Seq < cl[k].Seq && p.By == cl[k].By {
						tv.runs[k].prerun = p.Seq
					}
				}
				v.starts = append(v.starts, startRec{task: ti, run: k, cleared: cl[k].Seq, by: cl[k].By})
			}
		}
		sort.Slice(tv.subs, func(a, b int) bool { return tv.subs[a].call < tv.subs[b].call })
	}
	sort.Slice(v.starts, func(a, b int) bool { return v.starts[a].cleared < v.starts[b].cleared })
	return v
}

func (v *view) addCall(c Ev, ret uint64) {
	if c.Task < 0 || c.Task >= len(v.tasks) {
		return
	}
	tv := v.tasks[c.Task]
	switch c.Op {
	case opQueue, opQueueP, opASAP, opSchedule:
		tv.subs = append(tv.subs, sub{kind: c.Op, call: c.Seq, ret: ret, callT: c.T, at: c.At, client: c.C, in: c.In})
	case opCancel:
		tv.cancels = append(tv.cancels, callRec{call: c.Seq, ret: ret, callT: c.T, client: c.C})
	case opUnsched:
		tv.unsched = append(tv.unsched, callRec{call: c.Seq, ret: ret, callT: c.T, client: c.C})
	case opMaxDelay:
		tv.maxd = append(tv.maxd, callRec{call: c.Seq, ret: ret, callT: c.T, d: c.D - 1, client: c.C})
	}
}

func (r runRec) ref() uint64 { // latest event known to follow the start decision
	if r.cleared != 0 {
		return r.cleared
	}
	return r.begin
}

// ---------------------------------------------------------------------------------
// T1: a task's function never runs concurrently with itself.

func (v *view) checkT1() []finding {
	var out []finding
	for _, tv := range v.tasks {
		depth := 0
		for _, e := range v.evs {
			if e.Task != tv.idx {
				continue
			}
			switch e.K {
			case "begin":
				depth++
				if depth > 1 {
					out = append(out, finding{"C07:self-overlap", fmt.Sprintf("task t%d: execution #%d began (seq %d) while an earlier execution of the same task had not returned", tv.idx, e.Run, e.Seq)})
				}
			case "end":
				depth--
			}
		}
	}
	return out
}

// ---------------------------------------------------------------------------------
// T2 / "not more often than submitted": every execution needs its own submission that
// can explain it. A submission S can explain run b only if S.call precedes the start
// decision of b, and
//   * Schedule(at): only if begin_b is not earlier than `at` (same monotonic clock);
//   * Queue/QueuePrioritized/StartASAP: not if S returned before end_{b-2}: then S took
//     effect before d_{b-1} and start b-1 (or an earlier one) removed the task from all
//     lists, consuming it. (For Schedule the analogous exclusion is not applied, because
//     the schedule handler's promotion is a separate later call on behalf of S.)
// A maximum bipartite matching decides whether all runs can be explained.

func (v *view) explain(tv *taskView, timed bool) (unmatched int, matchOf []int) {
	nb, ns := len(tv.runs), len(tv.subs)
	adj := make([][]int, nb)
	for b, r := range tv.runs {
		ref := r.ref()
		var endBm2 uint64
		if b >= 2 {
			endBm2 = tv.runs[b-2].end
		}
		for si, s := range tv.subs {
			if s.call >= ref {
				continue
			}
			if s.sched() {
				if timed && r.beginT < s.at {
					continue
				}
			} else if endBm2 != 0 && s.ret < endBm2 {
				continue
			}
			adj[b] = append(adj[b], si)
		}
	}
	matchS := make([]int, ns)
	for i := range matchS {
		matchS[i] = -1
	}
	var try func(b int, seen []bool) bool
	try = func(b int, seen []bool) bool {
		for _, si := range adj[b] {
			if seen[si] {
				continue
			}
			seen[si] = true
			if matchS[si] < 0 || try(matchS[si], seen) {
				matchS[si] = b
				return true
			}
		}
		return false
	}
	matchOf = make([]int, nb)
	unmatched = -1
	for b := 0; b < nb; b++ {
		matchOf[b] = -1
		if !try(b, make([]bool, ns)) && unmatched < 0 {
			unmatched = b
		}
	}
	for si, b := range matchS {
		if b >= 0 {
			matchOf[b] = si
		}
	}
	return unmatched, matchOf
}

func (v *view) checkT2() []finding {
	var out []finding
	for _, tv := range v.tasks {
		if len(tv.runs) == 0 {
			continue
		}
		ub, _ := v.explain(tv, true)
		if ub < 0 {
			continue
		}
		r := tv.runs[ub]
		if ub2, _ := v.explain(tv, false); ub2 < 0 {
			// explainable only by a Schedule whose time had not come
			cls := "not-due"
			var early []string
			for _, s := range tv.subs {
				if s.sched() && s.call < r.ref() && r.beginT < s.at {
					early = append(early, fmt.Sprintf("Schedule(call seq %d, at=%.3fms)", s.call, float64(s.at)/1e6))
					if ub > 0 {
						p := tv.runs[ub-1]
						if p.cleared != 0 && s.ret > p.cleared && s.call < p.begin {
							cls = "schedule-during-previous-start"
						}
					}
				}
			}
			out = append(out, finding{"C07:early-start:" + cls + ":by-" + r.by,
				fmt.Sprintf("task t%d: execution #%d began at %.3fms (seq %d, started by the %s handler) although every submission left to explain it is a Schedule whose time had not come: %s",
					tv.idx, r.n, float64(r.beginT)/1e6, r.begin, r.by, strings.Join(early, ", "))})
		} else {
			out = append(out, finding{"C07:extra-run:by-" + r.by,
				fmt.Sprintf("task t%d: execution #%d (begin seq %d, started by the %s handler) cannot be attributed to any submission: %d executions, %d submissions that could precede them", tv.idx, r.n, r.begin, r.by, len(tv.runs), len(tv.subs))})
		}
	}
	return out
}

// ---------------------------------------------------------------------------------
// T3: never started once it was cancelled while still waiting. Sound only with a
// witness event X that is known to precede the start decision d_b:
//   Cancel.ret < X < d_b  ⇒ violation.
// Witnesses: the "prerun" hook event of that start (if the point exists); end_{b-1};
// the call of the earliest submission that can explain b; for starts by the queue
// handler the previous start's cleared event of the same goroutine and, if that
// execution was neither cancelled nor over the wait limit, its end event.

const execWaitNs = int64(60 * time.Second)

func (v *view) cancelledBefore(tv *taskView, seq uint64) bool {
	for _, c := range tv.cancels {
		if c.call < seq {
			return true
		}
	}
	return false
}

func (v *view) checkT3() []finding {
	var out []finding
	// previous queue-handler start for every start
	prevQ := map[[2]int]*startRec{}
	var lastQ *startRec
	for i := range v.starts {
		s := &v.starts[i]
		if s.by == "queue" {
			if lastQ != nil {
				prevQ[[2]int{s.task, s.run}] = lastQ
			}
			lastQ = s
		}
	}
	for _, tv := range v.tasks {
		if len(tv.cancels) == 0 {
			continue
		}
		for b, r := range tv.runs {
			var x uint64
			kind := ""
			set := func(s uint64, k string) {
				if s != 0 && s != inf && s < r.ref() && s > x {
					x, kind = s, k
				}
			}
			set(r.prerun, "prerun")
			if b > 0 {
				set(tv.runs[b-1].end, "after-own-previous-run")
			}
			// the start was decided after the call of the earliest submission that can
			// still explain it (same candidate rule as in explain)
			first := inf
			for _, s := range tv.subs {
				if s.call >= r.ref() || s.call >= first {
					continue
				}
				if !s.sched() && b >= 2 && tv.runs[b-2].end != 0 && s.ret < tv.runs[b-2].end {
					continue
				}
				first = s.call
			}
			set(first, "before-submission")
			if p := prevQ[[2]int{tv.idx, b}]; p != nil && r.by == "queue" {
				set(p.cleared, "behind-earlier-queue-start")
				pr := v.tasks[p.task].runs[p.run]
				if pr.end != 0 && !v.cancelledBefore(v.tasks[p.task], pr.end) && pr.endT-pr.clearedT < execWaitNs {
					set(pr.end, "behind-running-task")
				}
			}
			if x == 0 {
				continue
			}
			for _, c := range tv.cancels {
				if c.ret < x {
					out = append(out, finding{"C07:cancelled-run:" + kind + ":by-" + r.by,
						fmt.Sprintf("task t%d: Cancel returned at seq %d, yet execution #%d was started afterwards (start decided after seq %d [%s], cleared seq %d, begin seq %d)",
							tv.idx, c.ret, r.n, x, kind, r.cleared, r.begin)})
					break
				}
			}
		}
	}
	return out
}

// ---------------------------------------------------------------------------------
// T4: at quiescence every non-cancelled task was executed after its last submission.

func (v *view) checkT4() []finding {
	var out []finding
	for _, tv := range v.tasks {
		if len(tv.subs) == 0 || len(tv.cancels) > 0 {
			continue
		}
		last := tv.subs[0]
		for _, s := range tv.subs {
			if s.call > last.call {
				last = s
			}
		}
		ok := false
		for _, r := range tv.runs {
			if r.begin > last.call {
				ok = true
			}
		}
		// a Schedule(zero) that may have taken effect after the submission withdrew it
		for _, u := range tv.unsched {
			if u.ret > last.call {
				ok = true
			}
		}
		if ok {
			continue
		}
		state := "idle"
		for _, r := range tv.runs {
			// (the task counts as executing until the deferred reset after the function
			// returned; the prelock hook event marks the latest point known to precede it)
			until := r.end
			if r.prelock != 0 {
				until = r.prelock
			}
			if r.cleared != 0 && r.cleared < last.ret && (r.end == 0 || last.call < until) {
				state = "while-running"
			}
		}
		md := "default-maxdelay"
		for _, m := range tv.maxd {
			if m.call < last.call && m.d < int64(time.Second) {
				md = "short-maxdelay"
			}
		}
		out = append(out, finding{"C07:lost:" + last.kind + ":" + state + ":" + md,
			fmt.Sprintf("task t%d was never cancelled; its last submission %s (call seq %d, client %s) was made %s, and at quiescence (all lists empty, nothing executing) no execution had begun after it (%d executions, last begin seq %d)",
				tv.idx, last.kind, last.call, last.client, state, len(tv.runs), lastBegin(tv))})
	}
	return out
}

func lastBegin(tv *taskView) uint64 {
	var m uint64
	for _, r := range tv.runs {
		if r.begin > m {
			m = r.begin
		}
	}
	return m
}

// ---------------------------------------------------------------------------------
// T5a: executions started by the queue handler are serialised: the next one is started
// only after the previous one returned, was cancelled or exceeded the execution-wait
// limit. Executions started by the schedule handler run beside the queue by design once
// the max delay has passed; one that is started *before* the max delay of every
// submission that can explain it has passed is treated like a queue start.

// overdueLegit reports whether a start by the schedule handler can be the overdue path.
func (v *view) overdueLegit(tv *taskView, r runRec) bool {
	minDelay := int64(60 * time.Second) // default
	for _, m := range tv.maxd {
		if m.call < r.ref() && m.d > 0 && m.d < minDelay {
			minDelay = m.d
		}
	}
	for _, s := range tv.subs {
		if s.call >= r.ref() {
			continue
		}
		if s.sched() {
			if r.beginT >= s.at {
				return true
			}
		} else if r.beginT >= s.callT+minDelay {
			return true
		}
	}
	return false
}

// schedStartUnexplained reports whether a start by the schedule handler provably had no
// queue submission behind it: the schedule handler starts a task itself only if the task
// is marked overtime, and that mark is set only by a queue submission (Queue /
// QueuePrioritized / StartASAP incl. the handler's own promotion of a due scheduled task
// and the re-submission after an execution) and cleared by every start. The start is
// unexplained if
//   - every queue submission of the task returned before the prerun event of an earlier
//     start (so that start or an earlier one consumed it),
//   - no submission at all overlaps the executing window of an earlier execution (then
//     nothing can have been dropped and re-submitted): the window of execution j is
//     bounded by its prerun event and the cleared event of the next queue start, which
//     the queue handler reaches only after execution j released the slot; needs j
//     started by the queue handler, not cancelled, shorter than the wait limit,
//   - exactly one Schedule is pending (a second one could override the time of a
//     promoted, hence overtime, entry) and its promotion cannot be overdue yet
//     (begin earlier than its time plus the smallest max delay).
//
// Such a task came due as a merely scheduled task: it has to be queued and its start
// must respect the queue's serialisation.
func (v *view) schedStartUnexplained(tv *taskView, b int) bool {
	if len(tv.cancels) > 0 || len(tv.unsched) > 0 {
		return false
	}
	r := tv.runs[b]
	ref := r.ref()
	var qcl []uint64
	for _, s := range v.starts {
		if s.by == "queue" {
			qcl = append(qcl, s.cleared)
		}
	}
	consumed := func(s sub) bool {
		for j := 0; j < b; j++ {
			if p := tv.runs[j].prerun; p != 0 && s.ret < p {
				return true
			}
		}
		return false
	}
	for j := 0; j < b; j++ {
		rj := tv.runs[j]
		if rj.prerun == 0 || rj.by != "queue" || rj.end == 0 || rj.endT-rj.clearedT >= execWaitNs {
			return false
		}
		ub := inf
		for _, c := range qcl {
			if c > rj.cleared && c < ub {
				ub = c
			}
		}
		if ub == inf || ub >= ref {
			return false
		}
		for _, s := range tv.subs {
			if s.ret > rj.prerun && s.call < ub {
				return false
			}
		}
	}
	minDelay := int64(60 * time.Second)
	for _, m := range tv.maxd {
		if m.call < ref && m.d < minDelay {
			minDelay = m.d // (0 = no max delay entry at all: then be conservative as well)
		}
	}
	pending := 0
	for _, s := range tv.subs {
		if s.call >= ref {
			continue
		}
		if !s.sched() {
			if !consumed(s) {
				return false
			}
			continue
		}
		if consumed(s) {
			continue
		}
		pending++
		if r.beginT >= s.at+minDelay {
			return false
		}
	}
	return pending == 1
}

func (v *view) checkT5a() (out []finding, pairs int) {
	var prev *startRec
	for i := range v.starts {
		s := &v.starts[i]
		tv := v.tasks[s.task]
		r := tv.runs[s.run]
		queueLike := s.by == "queue"
		unexplained := false
		if s.by == "sched" && !v.overdueLegit(tv, r) {
			queueLike = true
		} else if s.by == "sched" && v.schedStartUnexplained(tv, s.run) {
			queueLike, unexplained = true, true
		}
		if !queueLike {
			continue
		}
		if prev != nil && prev.by == "queue" {
			ptv := v.tasks[prev.task]
			pr := ptv.runs[prev.run]
			pairs++
			returned := pr.end != 0 && pr.end < s.cleared
			cancelled := v.cancelledBefore(ptv, s.cleared)
			overtime := r.clearedT-pr.clearedT >= execWaitNs
			if !returned && !cancelled && !overtime {
				kind := "queue-start"
				if s.by == "sched" {
					kind = "overdue-start-before-maxdelay"
				}
				if unexplained {
					kind = "scheduled-task-started-beside-queue"
				}
				out = append(out, finding{"C07:not-serialised:" + kind,
					fmt.Sprintf("task t%d execution #%d was started by the %s handler (cleared seq %d, %.3fms) while the previous queue-started execution (t%d #%d, cleared seq %d, %.3fms) had not returned, was not cancelled and had not exceeded the execution-wait limit",
						s.task, r.n, s.by, s.cleared, float64(r.clearedT)/1e6, prev.task, pr.n, prev.cleared, float64(pr.clearedT)/1e6)})
			}
		}
		if s.by == "queue" {
			prev = s
		}
	}
	return out, pairs
}

// ---------------------------------------------------------------------------------
// T5b (gate): exact comparison with the sequential model.

// With prefixOnly the history did not reach quiescence: the starts observed so far must
// still be a prefix of the model order (a task that the model puts first but that was
// overtaken shows as a mismatch at its position); missing starts are not judged.
func (v *view) checkGate(prefixOnly bool) (out []finding, inconclusive string) {
	exp := expectedGateOrder(v.h)
	var obs []int
	type br struct {
		seq  uint64
		task int
	}
	var bs []br
	for _, tv := range v.tasks {
		if tv.idx == 0 {
			continue
		}
		for _, r := range tv.runs {
			bs = append(bs, br{r.begin, tv.idx})
			if r.by == "sched" {
				if v.overdueLegit(tv, r) {
					return nil, "the overdue path started a task (history took longer than the max delay)"
				}
			}
		}
	}
	sort.Slice(bs, func(a, b int) bool { return bs[a].seq < bs[b].seq })
	for _, b := range bs {
		obs = append(obs, b.task)
	}
	// supervisor cancels change the script: then the exact order is not defined
	for _, tv := range v.tasks {
		for _, c := range tv.cancels {
			if c.client == "sup" {
				return nil, ""
			}
		}
	}
	n := len(exp)
	if len(obs) < n {
		n = len(obs)
	}
	for i := 0; i < n; i++ {
		if exp[i] != obs[i] {
			return []finding{{"C07:order:gated:" + v.orderClass(exp[i], obs[i]),
				fmt.Sprintf("gated batch: start #%d should be t%d but t%d was started; expected order %v, observed %v", i+1, exp[i], obs[i], exp, obs)}}, ""
		}
	}
	if len(obs) > len(exp) {
		return []finding{{"C07:order:gated:extra-start", fmt.Sprintf("gated batch: more starts than the model allows; expected order %v, observed %v", exp, obs)}}, ""
	}
	if len(obs) < len(exp) && !prefixOnly {
		return []finding{{"C07:order:gated:missing-start", fmt.Sprintf("gated batch: at quiescence fewer starts than the model demands; expected order %v, observed %v", exp, obs)}}, ""
	}
	return nil, ""
}

// orderClass names the clause of the order rule that the first divergence breaks.
func (v *view) orderClass(want, got int) string {
	cls := func(t int) string {
		tv := v.tasks[t]
		if len(tv.cancels) > 0 {
			return "cancelled"
		}
		k := "normal"
		for _, s := range tv.subs {
			switch s.kind {
			case opASAP:
				return "asap"
			case opQueueP:
				k = "prioritized"
			}
		}
		return k
	}
	return cls(want) + "-expected-" + cls(got) + "-started"
}

// ---------------------------------------------------------------------------------
// T5b (concurrent): is the observed start order a linearization of the submissions
// under the model?

func (v *view) checkConc(timeout time.Duration) (out []finding, inconclusive string, nops int) {
	var ops []porcupine.Operation
	cid := map[string]int{}
	client := func(c string) int {
		if _, ok := cid[c]; !ok {
			cid[c] = len(cid)
		}
		return cid[c]
	}
	for _, tv := range v.tasks {
		for _, s := range tv.subs {
			if s.sched() {
				return nil, "", 0 // not a queue-only history
			}
			ret := s.ret
			if ret == inf {
				ret = v.last + 1
			}
			ops = append(ops, porcupine.Operation{ClientId: client(s.client), Input: qIn{kind: s.kind, task: tv.idx, call: s.call}, Call: int64(s.call), Return: int64(ret)})
		}
		for _, c := range tv.cancels {
			ret := c.ret
			if ret == inf {
				ret = v.last + 1
			}
			ops = append(ops, porcupine.Operation{ClientId: client(c.client), Input: qIn{kind: opCancel, task: tv.idx}, Call: int64(c.call), Return: int64(ret)})
		}
		for _, c := range tv.unsched {
			ret := c.ret
			if ret == inf {
				ret = v.last + 1
			}
			ops = append(ops, porcupine.Operation{ClientId: client(c.client), Input: qIn{kind: opUnsched, task: tv.idx}, Call: int64(c.call), Return: int64(ret)})
		}
	}
	var prev *startRec
	for i := range v.starts {
		s := &v.starts[i]
		tv := v.tasks[s.task]
		r := tv.runs[s.run]
		if s.by == "sched" && v.overdueLegit(tv, r) {
			return nil, "the overdue path started a task (history took longer than the max delay)", 0
		}
		var lo uint64
		if s.by == "queue" && prev != nil {
			lo = prev.cleared
			ptv := v.tasks[prev.task]
			pr := ptv.runs[prev.run]
			if pr.end != 0 && pr.end < s.cleared && !v.cancelledBefore(ptv, pr.end) && pr.endT-pr.clearedT < execWaitNs {
				lo = pr.end
			}
		}
		ops = append(ops, porcupine.Operation{ClientId: client("handler:" + s.by), Input: qIn{kind: "pop", task: s.task, cleared: s.cleared}, Output: s.task,
			Call: int64(lo), Return: int64(s.cleared)})
		if s.by == "queue" {
			prev = s
		}
	}
	nops = len(ops)
	switch checkQueueLinearizable(ops, timeout) {
	case porcupine.Ok:
		return nil, "", nops
	case porcupine.Unknown:
		return nil, "porcupine timed out", nops
	}
	var order []string
	for _, s := range v.starts {
		order = append(order, fmt.Sprintf("t%d", s.task))
	}
	return []finding{{"C07:order:concurrent:not-linearizable",
		fmt.Sprintf("the observed start order %v is not a linearization of the %d concurrent submissions under the model ASAP-stack ▸ prioritized FIFO ▸ normal FIFO", order, nops-len(v.starts))}}, "", nops
}
