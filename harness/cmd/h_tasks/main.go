// h_tasks — engine for property C07 (tasks: no self-overlap, no early or cancelled runs,
// queue order, nothing lost).
//
// Parent mode: derives the fixed list of children from VERIF_SEED; every child is a fresh
// process with a started module system that runs several short histories (fresh tasks
// per history, logical quiescence in between) and decides them with the offline oracles
// of oracle.go. The -race build repeats a share of the children; race reports are turned
// into verdicts only when they touch the task state the property's mechanism is made of.
package main

import (
	"encoding/json"
	"fmt"
	"hash/fnv"
	"os"
	"os/signal"
	"regexp"
	"runtime/pprof"
	"strconv"
	"strings"
	"syscall"
	"time"

	"verifharness/internal/vlib"
)

func main() {
	if dir, ok := vlib.IsChild(); ok {
		childMain(dir)
		return
	}
	cfg := vlib.Load()
	rep := vlib.NewReport(cfg)
	rep.Rule("case = one history of NewTask/Queue/QueuePrioritized/StartASAP/Schedule/MaxDelay/Cancel calls (from 1-4 client goroutines and from inside running task functions) on 2-9 fresh tasks of two online modules, run against a started module system until logical quiescence; classes: gate (scripted batch behind a gate task, exact order), conc (concurrent queue-only, porcupine), mixed (all calls, short max delays), plan (deterministic pairwise orderings via yield hooks). Distinct = distinct history scripts with at least two task executions, and separately the set of distinct observed start orders.")
	rep.Assume("vhook handlers only delay, park or record at ordinary preemptible statement boundaries of portbase; they add no synchronisation the production code relies on")
	rep.Assume("'is executed' is decided at logical quiescence (all three lists empty, no task executing, twice in a row without a new event), not as unbounded eventually")
	rep.Assume("race scope: reports whose top portbase frame is a task-scheduler function and whose source line touches executeAt/executing/canceled/overtime/list elements/the lists/queueWg are verdicts; the by-design cross-lock read of a listed task's executeAt (written under Task.lock, read under scheduleLock by addToSchedule/waitUntilNextScheduledTask/the handler's due check) is a diagnostic")
	rep.Assume("time is used only to order two readings of the same monotonic clock (begin of an execution vs. the requested schedule time / submission time + max delay)")

	var specs []vlib.ChildSpec
	var cspecs []childSpec
	if cfg.Replay != "" {
		cs, err := replaySpec(cfg)
		if err != nil {
			fmt.Println("h_tasks: cannot use replay file:", err)
			rep.Note("replay file not usable: %v", err)
			_ = rep.Finish()
			return
		}
		cspecs = []childSpec{cs}
	} else {
		cspecs = caseList(cfg)
	}
	for i, cs := range cspecs {
		bin := cfg.BinPlain
		if cs.Kind == "race" {
			bin = cfg.BinRace
		}
		to := 6 * time.Minute
		if cfg.Thorough() {
			to = 12 * time.Minute
		}
		if v, err := strconv.Atoi(os.Getenv("VERIF_C07_CHILD_TIMEOUT_S")); err == nil && v > 0 {
			to = time.Duration(v) * time.Second // self-test of the watchdog path
		}
		specs = append(specs, vlib.ChildSpec{Name: fmt.Sprintf("%s-%03d", cs.Kind, i), Bin: bin, Spec: cs, Timeout: to, Race: cs.Kind == "race"})
	}
	raceSeen := map[string]bool{}
	vlib.RunChildren(cfg, specs, func(i int, c *vlib.ChildResult) {
		cs := cspecs[i]
		rep.Seen("builds_run", cs.Kind)
		rep.Count("children", 1)
		rep.Max("max_child_wall_s", int64(c.Wall.Seconds()))
		rep.MergeChild(c)
		for _, rr := range c.Races {
			triageRace(cfg, rep, &rr, raceSeen)
		}
		if c.TimedOut {
			rep.Count("children_watchdog", 1)
			rep.Inconclusive("child %s hit the %s watchdog (partial log of the running history analysed: %v); stderr tail: %s", c.Name, specs[i].Timeout, len(c.Out) > 0, tail(c.StderrTail(600), 600))
			return
		}
		if !c.Done {
			st := c.StderrTail(6000)
			if site := taskPanicSite(st); site != "" {
				rep.Violation("C07:crash:"+site, fmt.Sprintf("child %s died (exit=%d signal=%q) with a fatal error inside the task scheduler", c.Name, c.Exit, c.Signal),
					map[string]any{"child": cs, "stderr_tail": st})
			} else {
				rep.Inconclusive("child %s died (exit=%d signal=%q) outside the code under test; stderr tail: %s", c.Name, c.Exit, c.Signal, tail(st, 1200))
			}
		}
	})

	if cfg.Replay == "" {
		// floors: quantities the workload reaches by construction, wide margin
		ex := rep.Counter("executions")
		rep.Floor(ex >= int64(cfg.N(300, 5000)), "only %d task executions observed", ex)
		for _, k := range []string{opQueue, opQueueP, opASAP, opSchedule, opCancel, opMaxDelay} {
			rep.Floor(rep.Counter("op_outside:"+k) > 0, "operation %s was never issued from outside", k)
		}
		for _, k := range []string{opQueue, opQueueP, opASAP, opSchedule} {
			rep.Floor(rep.Counter("op_inside:"+k) > 0, "operation %s was never issued from inside a running task", k)
		}
		rep.Floor(rep.Counter("cancel_overlapped_pending_start") >= 1, "no history in which a Cancel overlapped a pending start")
		rep.Floor(rep.Counter("gate_histories_decided") >= int64(cfg.N(5, 100)), "only %d gated order histories decided", rep.Counter("gate_histories_decided"))
		rep.Floor(rep.Counter("conc_histories_decided") >= int64(cfg.N(5, 100)), "only %d concurrent order histories decided", rep.Counter("conc_histories_decided"))
		rep.Floor(rep.Counter("starts_by:queue") > 0 && rep.Counter("starts_by:sched") > 0, "starts by the queue handler and by the schedule handler (overdue path) were not both observed")
		rep.Floor(rep.Counter("histories_quiescent") >= int64(cfg.N(100, 1500)), "only %d histories reached quiescence", rep.Counter("histories_quiescent"))
	}
	if err := rep.Finish(); err != nil {
		fmt.Println("h_tasks: cannot write result:", err)
		os.Exit(2)
	}
}

func tail(s string, n int) string {
	if len(s) > n {
		return s[len(s)-n:]
	}
	return s
}

// taskPanicSite returns a short signature if the fatal error on stderr has its origin in
// the task scheduler (modules/tasks.go); "" otherwise.
func taskPanicSite(st string) string {
	if !strings.Contains(st, "modules/tasks.go") {
		return ""
	}
	for _, ln := range strings.Split(st, "\n") {
		if strings.HasPrefix(ln, "panic:") || strings.HasPrefix(ln, "fatal error:") {
			s := strings.TrimSpace(ln)
			s = regexp.MustCompile(`0x[0-9a-f]+|\d+`).ReplaceAllString(s, "N")
			if len(s) > 70 {
				s = s[:70]
			}
			return s
		}
	}
	return ""
}

func replaySpec(cfg vlib.Cfg) (childSpec, error) {
	var doc struct {
		Detail struct {
			Hist *Hist `json:"hist"`
		} `json:"detail"`
	}
	b, err := os.ReadFile(cfg.Replay)
	if err != nil {
		return childSpec{}, err
	}
	if err := json.Unmarshal(b, &doc); err != nil {
		return childSpec{}, err
	}
	if doc.Detail.Hist == nil {
		return childSpec{}, fmt.Errorf("no history in the witness (race or crash witness: nothing to re-execute)")
	}
	return childSpec{Prop: cfg.Prop, Tier: cfg.Tier, Kind: "plain", Hists: []Hist{*doc.Detail.Hist}, Repeat: 30}, nil
}

// ---------------------------------------------------------------------------------
// race reports

var (
	frameLoc = regexp.MustCompile(`^\s+(/\S+\.go):(\d+)`)
	// fields the property's mechanism is made of (anchors: Task.canceled / executing /
	// overtime / executeAt / *Element, the three lists, queueWg)
	scopeField = regexp.MustCompile(`executeAt|\.executing|\.canceled|\.overtime|[qQ]ueueElement|scheduleListElement|taskQueue\b|prioritizedTaskQueue|taskSchedule\b|queueWg`)
	scopeFunc  = regexp.MustCompile(`modules\.\(\*Task\)\.|modules\.taskQueueHandler|modules\.taskScheduleHandler|modules\.waitUntilNextScheduledTask`)
)

// accessSite returns function, file:line and source text of the top portbase frame of
// access i of a race report.
func accessSite(rr *vlib.RaceReport, i int) (fn, loc, src string) {
	lines := strings.Split(rr.Text, "\n")
	sec := -1
	for li := 0; li < len(lines); li++ {
		ln := lines[li]
		if ln != "" && !strings.HasPrefix(ln, " ") && !strings.HasPrefix(ln, "WARNING") && !strings.HasPrefix(ln, "=====") {
			sec++
			continue
		}
		if sec != i {
			continue
		}
		if strings.HasPrefix(ln, "  ") && !strings.HasPrefix(ln, "   ") && strings.Contains(ln, "safing/portbase") && li+1 < len(lines) {
			m := frameLoc.FindStringSubmatch(lines[li+1])
			if m == nil {
				continue
			}
			fn = strings.TrimSpace(ln)
			if p := strings.LastIndex(fn, "("); p > 0 {
				fn = fn[:p]
			}
			loc = m[1] + ":" + m[2]
			n, _ := strconv.Atoi(m[2])
			if b, err := os.ReadFile(m[1]); err == nil {
				sl := strings.Split(string(b), "\n")
				if n >= 1 && n <= len(sl) {
					src = strings.TrimSpace(sl[n-1])
				}
			}
			return
		}
	}
	return
}

func shortFn(fn string) string {
	fn = strings.TrimPrefix(fn, "github.com/safing/portbase/")
	return fn
}

func triageRace(cfg vlib.Cfg, rep *vlib.Report, rr *vlib.RaceReport, seen map[string]bool) {
	rep.Count("race_reports", 1)
	if rr.HarnessOnly() {
		rep.Inconclusive("race report with harness-only frames (the monitor itself is racy): %s", tail(rr.Text, 1500))
		return
	}
	f0, l0, s0 := accessSite(rr, 0)
	f1, l1, s1 := accessSite(rr, 1)
	if strings.Contains(f0, "modules.Verif") || strings.Contains(f1, "modules.Verif") {
		// one side is a verif accessor that the harness called while a handler was
		// active (VerifScheduleOrder reads the times without the task locks): an
		// artefact of the observation, not a property of the code under test
		rep.Count("race_reports_verif_accessor", 1)
		return
	}
	in := func(fn, src string) string {
		if fn == "" || !scopeFunc.MatchString(fn) {
			return ""
		}
		return scopeField.FindString(src)
	}
	fld := in(f0, s0)
	if f := in(f1, s1); fld == "" || f == "executeAt" {
		if f != "" {
			fld = f
		}
	}
	// Narrowing of the scope (recorded in the evidence as an assumption): executeAt is
	// written under the task's own lock and read, for tasks that are in the schedule
	// list, under scheduleLock by the list code (sorting in addToSchedule, arming the
	// timer in waitUntilNextScheduledTask, the due check of the schedule handler).
	// That cross-lock read is by design; a stale value can only misplace an entry or
	// arm a wrong timer, which delays a start but - with the handler checking that an
	// entry is due - never causes an early, lost, duplicate or out-of-order start.
	// Such reports are diagnostics. A write that is not under the task lock (e.g. in
	// executeWithLocking itself) stays in scope.
	listReader := func(fn, src string) bool {
		return strings.Contains(src, "executeAt") && (strings.HasSuffix(fn, ".addToSchedule") || strings.HasSuffix(fn, ".waitUntilNextScheduledTask") || strings.HasSuffix(fn, ".taskScheduleHandler"))
	}
	lockedWriter := func(fn, src string) bool {
		if !strings.Contains(src, "executeAt") {
			return false
		}
		for _, sfx := range []string{"(*Task).Schedule", "(*Task).prepForQueueing", "(*Task).Repeat", "(*Task).runWithLocking", "(*Task).executeWithLocking.func1"} {
			if strings.HasSuffix(fn, sfx) {
				return true
			}
		}
		return false
	}
	if fld != "" && ((listReader(f0, s0) && lockedWriter(f1, s1)) || (listReader(f1, s1) && lockedWriter(f0, s0))) {
		rep.Count("race_reports_crosslock_executeAt_read", 1)
		fld = ""
	}
	a, b := shortFn(f0), shortFn(f1)
	if a > b {
		a, b = b, a
	}
	key := a + " <-> " + b
	if fld == "" {
		if !seen[key] {
			seen[key] = true
			rep.Seen("race_diagnostics", key)
			rep.Note("race report outside the property's protected state (diagnostic only): %s [%s | %s]", key, s0, s1)
		}
		return
	}
	fld = strings.TrimPrefix(fld, ".")
	rep.Violation("C07:race:"+fld+":"+key,
		fmt.Sprintf("data race on task scheduling state (%s): %s (%s) vs %s (%s)", fld, shortFn(f0), s0, shortFn(f1), s1),
		map[string]any{"report": rr.Text, "access0": l0 + " " + s0, "access1": l1 + " " + s1})
}

// ---------------------------------------------------------------------------------
// child

func childMain(dir string) {
	var cs childSpec
	if err := vlib.ChildSpecInto(dir, &cs); err != nil {
		fmt.Println("bad spec:", err)
		os.Exit(3)
	}
	b := vlib.NewBatch()
	w, err := startWorld(cs.Mgmt)
	if err != nil {
		fmt.Println("cannot start module system:", err)
		os.Exit(3)
	}
	// The parent's watchdog sends SIGQUIT: do not throw the running history away -
	// decide what can be decided on its partial event log (the safety oracles need no
	// quiescence), write the batch, then leave the goroutine dump the watchdog wants.
	sigq := make(chan os.Signal, 1)
	signal.Notify(sigq, syscall.SIGQUIT)
	go func() {
		<-sigq
		if res := w.partial(); res != nil {
			judge(res, b, worldLabel(cs))
		}
		b.Finish(dir)
		_ = pprof.Lookup("goroutine").WriteTo(os.Stderr, 2)
		os.Exit(3)
	}()
	rounds := cs.Repeat
	if rounds < 1 {
		rounds = 1
	}
	for r := 0; r < rounds; r++ {
		for i := range cs.Hists {
			h := cs.Hists[i]
			res := w.run(&h)
			judge(res, b, worldLabel(cs))
		}
	}
	b.Finish(dir)
}

func worldLabel(cs childSpec) string {
	if cs.Mgmt {
		return cs.Kind + "+module-mgmt"
	}
	return cs.Kind
}

func judge(res *histResult, b *vlib.Batch, build string) {
	h := res.Hist
	v := buildView(h, res.Events)
	b.Eval(1)
	b.Count("histories:"+h.Class, 1)
	if strings.HasSuffix(build, "+module-mgmt") {
		b.Count("histories_with_module_management", 1)
	}
	b.Max("max_history_wall_ms", res.WallMs)
	if d := os.Getenv("VERIF_C07_DEBUG"); d != "" && res.WallMs > 5000 {
		bb, _ := json.Marshal(map[string]any{"detail": map[string]any{"hist": h, "events": res.Events, "build": build, "findings": []finding{}}})
		_ = os.WriteFile(fmt.Sprintf("%s/slow-%d.json", d, h.ID), bb, 0o644)
	}
	if res.WallMs > 5000 {
		b.Note("slow history %d (%s %s, build %s): %d ms, supervisor cancels %d, quiescent %v, last events: %s", h.ID, h.Class, h.Plan, build, res.WallMs, res.SupCancel, res.Quiescent, lastEvents(res.Events, 14))
	}
	nexec := 0
	for _, tv := range v.tasks {
		nexec += len(tv.runs)
		for _, r := range tv.runs {
			if r.done {
				b.Count("begins_with_cancelled_ctx", 1)
			}
		}
	}
	b.Count("executions", int64(nexec))
	b.Count("events", int64(len(res.Events)))
	for _, e := range res.Events {
		if e.K == "call" && e.Op != opNewTask {
			if e.In > 0 {
				b.Count("op_inside:"+e.Op, 1)
			} else {
				b.Count("op_outside:"+e.Op, 1)
			}
		}
		if e.K == "hook" {
			b.Count("hook:"+e.Op, 1)
		}
	}
	for _, s := range v.starts {
		b.Count("starts_by:"+s.by, 1)
	}
	for m := range v.marks {
		if m == "cancel-overlapped-pending-start" {
			b.Count("cancel_overlapped_pending_start", 1)
		}
		b.Seen("plan_marks", m)
	}
	if h.Plan != "" {
		b.Seen("plans_run", h.Plan)
	}
	if res.SupCancel > 0 {
		b.Count("supervisor_cancels_after_queue_stall", int64(res.SupCancel))
	}
	if nexec >= 2 {
		b.DistinctS(h.sig())
		hs := fnv.New64a()
		for _, s := range v.starts {
			fmt.Fprintf(hs, "%d%s,", s.task, s.by[:1])
		}
		b.Seen("start_orders", h.Class+":"+strconv.FormatUint(hs.Sum64(), 36))
	}

	var fs []finding
	fs = append(fs, v.checkT1()...)
	fs = append(fs, v.checkT2()...)
	fs = append(fs, v.checkT3()...)
	f5, pairs := v.checkT5a()
	fs = append(fs, f5...)
	b.Count("serialisation_pairs_checked", int64(pairs))
	var inconcl []string
	if res.Failed != "" {
		inconcl = append(inconcl, res.Failed)
	}
	fs = append(fs, v.structure...)
	if h.Class == clsGate && (res.Aborted != "" || !res.Quiescent) && v.marks["gate-open"] != 0 {
		// no quiescence: the starts so far must still be a prefix of the model order
		f, _ := v.checkGate(true)
		fs = append(fs, f...)
	}
	switch {
	case res.Aborted != "":
		// stopped by the online monitor; the safety oracles above decide on the log so far
		b.Count("histories_stopped_online", 1)
		if len(fs) == 0 {
			inconcl = append(inconcl, "stopped online ("+res.Aborted+") but no oracle explains it")
		}
	case res.NoQuiesce:
		b.Count("histories_decided_at_plan_idle_point", 1)
	case !res.Quiescent:
		if !res.Partial {
			inconcl = append(inconcl, "no logical quiescence within the watchdog")
		}
	default:
		b.Count("histories_quiescent", 1)
		if !res.ModsOnline {
			inconcl = append(inconcl, "a task module was not online at the end of the history: nothing-lost not judged")
		} else {
			for _, f := range v.checkT4() {
				if strings.HasSuffix(build, "+module-mgmt") {
					// module management enabled; the module reports Online the whole time
					f.Sig += ":managed-modules"
					f.What += " (module management enabled; the task's module reported status Online)"
				}
				fs = append(fs, f)
			}
		}
		switch h.Class {
		case clsGate:
			f, inc := v.checkGate(false)
			fs = append(fs, f...)
			if inc != "" {
				inconcl = append(inconcl, inc)
			} else {
				b.Count("gate_histories_decided", 1)
			}
		case clsConc:
			f, inc, nops := v.checkConc(20 * time.Second)
			fs = append(fs, f...)
			if inc != "" {
				inconcl = append(inconcl, inc)
			} else if nops > 0 {
				b.Count("conc_histories_decided", 1)
				b.Count("porcupine_operations", int64(nops))
				b.Max("porcupine_max_operations", int64(nops))
			}
		}
	}
	for _, s := range inconcl {
		b.Inconclusive("history %d (%s %s, build %s): %s", h.ID, h.Class, h.Plan, build, s)
	}
	if len(fs) > 0 {
		evs := res.Events
		if len(evs) > 600 {
			evs = evs[:600]
		}
		for _, f := range fs {
			b.Violation(f.Sig, f.What, map[string]any{"hist": h, "findings": fs, "events": evs, "build": build, "quiescent": res.Quiescent, "stopped_online": res.Aborted, "notes": res.Notes, "partial_log_after_watchdog": res.Partial})
		}
	} else if nexec >= 2 {
		b.Sample(map[string]any{"class": h.Class, "plan": h.Plan, "tasks": len(h.Tasks), "executions": nexec, "events": len(res.Events), "starts": startOrder(v)})
	}
}

func startOrder(v *view) []string {
	var out []string
	for i, s := range v.starts {
		if i >= 40 {
			break
		}
		out = append(out, fmt.Sprintf("t%d/%s", s.task, s.by))
	}
	return out
}

func lastEvents(evs []Ev, n int) string {
	if len(evs) > n {
		evs = evs[len(evs)-n:]
	}
	var sb strings.Builder
	for _, e := range evs {
		fmt.Fprintf(&sb, "[%d %.1fms %s %s%s t%d] ", e.Seq, float64(e.T)/1e6, e.K, e.C, e.Op, e.Task)
	}
	return sb.String()
}
