// h_c03 — engine for property C03: secret and crown-jewel records never cross a
// non-privileged database interface.
//
// Orchestrator: derives the child list (one fresh database world per backend x
// shadow-delete x part x shard), runs the children, merges what they observed, checks
// that every cell of the finite table was executed.
//
// Child: initialises the real database system on a scratch directory, registers one
// database of the requested backend (hashmap, bbolt, fstree, badger, or a
// runtime.Registry injected as database) and executes
//
//	part "table"  — the complete table flags x privileges(+external API) x cache x path,
//	part "reflag" — a record that an observer (cached or not) has legitimately read is
//	                re-flagged and re-written by the privileged side, then the observer
//	                reads / writes again,
//	part "failmod" — a privileged metadata change that fails at the Put step (vetoing
//	                PrePut hook, read-only runtime provider), then every observer path,
//	part "ws"     — the API message cells over the real websocket endpoint
//	                (module system started, api main handler served by httptest),
//	part "storm"  — concurrent privileged writers of large flagged records next to
//	                writers of unflagged records, then read-back and observer probes,
//	part "hist"   — PRNG-generated histories of privileged writes and observer
//	                operations with persistent (cached) observer interfaces.
//
// Oracles (see oracle.go): token scan over every byte string handed to an observer,
// "record object / key handed over", "refused write returned an error and the
// privileged read-back is unchanged", "permitted pair works".
package main

import (
	"encoding/json"
	"fmt"
	"os"
	"time"

	"verifharness/internal/vlib"
)

const prop = "C03"

// spec is the scenario of one child process.
type spec struct {
	Tier    string `json:"tier"`
	Seed    uint64 `json:"seed"`
	Part    string `json:"part"` // table | reflag | hist
	Backend string `json:"backend"`
	Shadow  bool   `json:"shadow"`
	Shard   int    `json:"shard"` // table: flag set (0..3); hist: history number
	Round   int    `json:"round"`
	// Only restricts a table/reflag child to the cell with this signature (replay).
	Only string `json:"only,omitempty"`
}

func (s spec) name() string {
	sd := "hd"
	if s.Shadow {
		sd = "sd"
	}
	return fmt.Sprintf("%s-%s-%s-%d-r%d", s.Part, s.Backend, sd, s.Shard, s.Round)
}

func (s spec) thorough() bool { return s.Tier == "thorough" }

var backends = []string{"hashmap", "bbolt", "fstree", "badger", "runtime"}

// childSpecs is the fixed, seed-determined case list.
func childSpecs(cfg vlib.Cfg) []spec {
	var out []spec
	rounds := 1 // the table is finite: repeating it only changes the random tokens
	for round := 0; round < rounds; round++ {
		for _, be := range backends {
			for _, sd := range []bool{false, true} {
				if be == "runtime" && sd {
					continue // injected databases never shadow-delete
				}
				for f := 0; f < 4; f++ {
					out = append(out, spec{Tier: cfg.Tier, Seed: cfg.Seed, Part: "table", Backend: be, Shadow: sd, Shard: f, Round: round})
				}
				out = append(out, spec{Tier: cfg.Tier, Seed: cfg.Seed, Part: "reflag", Backend: be, Shadow: sd, Round: round})
				out = append(out, spec{Tier: cfg.Tier, Seed: cfg.Seed, Part: "failmod", Backend: be, Shadow: sd, Round: round})
				out = append(out, spec{Tier: cfg.Tier, Seed: cfg.Seed, Part: "ws", Backend: be, Shadow: sd, Round: round})
			}
		}
	}
	// first in the list: the storms run while the table children run
	var storms []spec
	for _, be := range []string{"fstree", "bbolt", "badger", "hashmap"} {
		storms = append(storms, spec{Tier: cfg.Tier, Seed: cfg.Seed, Part: "storm", Backend: be})
	}
	out = append(storms, out...)
	nh := cfg.N(2, 32)
	for _, be := range backends {
		for h := 0; h < nh; h++ {
			out = append(out, spec{Tier: cfg.Tier, Seed: cfg.Seed, Part: "hist", Backend: be, Shadow: h%2 == 1 && be != "runtime", Shard: h})
		}
	}
	return out
}

func main() {
	if dir, ok := vlib.IsChild(); ok {
		childMain(dir)
		return
	}
	cfg := vlib.Load()
	rep := vlib.NewReport(cfg)
	rep.Rule("table: every cell (backend x shadow-delete x flag set {none,secret,crownjewel,both} x how the flag was set x record kind x observer {4 Local/Internal combinations x cache off/on, external API} x read/write path) once per round, fresh key and unique random tokens per cell; " +
		"reflag: flag set x observer x cache x operation after the observer legitimately read the then-unflagged record; " +
		"failmod: flag set x failing privileged modifier (5) x failure mechanism (PrePut veto, read-only runtime provider) x plain/cached actor, then get/query/subscription/API/delete probes by every non-privileged observer; " +
		"ws: flag set x how flagged x API message kind over the real /api/database/v1 websocket endpoint; " +
		"how flagged now includes privileged PutNew of a pre-flagged record, PutNew with AlwaysMake* options and load + PutNew; " +
		"table write paths also run under four non-canonical spellings of the key (same record only on fstree); on the injected runtime registry: records of exact-key providers (get, parent-prefix query, query with prefix == key) and writes while the provider's lookup fails; " +
		"non-privileged observers with Always* options on every interface path; " +
		"table also holds non-privileged observers created with DelayCachedWrites on the batch-capable storages (put, putmany, held-back write + flush / + eviction); " +
		"hist: PRNG histories over 6 keys with persistent observers. A case is distinct by its cell signature (table/reflag) or by the hash of its operation script (hist); all cells are non-trivial (each performs at least one operation through the observer on a record written by the privileged side).")

	specs := childSpecs(cfg)
	if cfg.Replay != "" {
		specs = replaySpecs(cfg)
	}
	var cs []vlib.ChildSpec
	wantCells := 0
	for _, s := range specs {
		cs = append(cs, vlib.ChildSpec{Name: s.name(), Bin: cfg.BinPlain, Spec: s, Timeout: 12 * time.Minute})
		if s.Only == "" {
			wantCells += expectedCells(s)
		}
	}
	done := 0
	vlib.RunChildren(cfg, cs, func(i int, c *vlib.ChildResult) {
		s := specs[i]
		if c.TimedOut {
			rep.Inconclusive("child %s timed out (watchdog); stderr tail: %s", c.Name, c.StderrTail(1500))
			return
		}
		b := rep.MergeChild(c)
		if !c.Done || b == nil {
			// A child that dies is not an observation about confidentiality; the
			// check did not get to decide its cells.
			rep.Inconclusive("child %s died (exit=%d signal=%q) before finishing; stderr tail: %s", c.Name, c.Exit, c.Signal, c.StderrTail(1500))
			return
		}
		done++
		rep.Seen("backends", s.Backend)
		rep.Seen("parts", s.Part)
	})
	rep.Set("exhaustive", true)
	rep.Set("exhaustive_scope", "the table part: flag sets x privilege sets (+external API) x cache off/on x paths x backends x shadow-delete; payloads/tokens, the reflag order and the histories are sampled")
	rep.Set("children", len(specs))
	rep.Set("children_done", done)
	rep.Set("cells_expected", wantCells)
	if cfg.Replay == "" {
		got := int(rep.Counter("cells_table") + rep.Counter("cells_reflag") + rep.Counter("cells_failmod") + rep.Counter("cells_ws") + rep.Counter("cells_storm"))
		rep.Floor(got == wantCells, "executed %d of %d table/reflag cells", got, wantCells)
		dec := int(rep.Counter("cells_decided"))
		rep.Floor(dec*10 >= wantCells*9, "only %d of %d table/reflag cells were decided (the rest is inconclusive)", dec, wantCells)
		rep.Floor(rep.Counter("permitted_ok") > 0 && rep.Counter("refused_ok") > 0, "no permitted or no refused cell decided (permitted_ok=%d refused_ok=%d)", rep.Counter("permitted_ok"), rep.Counter("refused_ok"))
		rep.Floor(rep.Counter("hist_ops") > 0, "no history operation executed")
	}
	rep.Assume("the harness-side value provider of the injected runtime database and the privileged writer are trusted (they are the 'internal' side)")
	rep.Assume("a token is looked for in every byte string handed to an observer: marshalled records, wrapper data, struct fields, error texts, API messages; side channels (timing, sizes) are out of scope")
	rep.Assume("a non-privileged cached interface serving its own outdated copy (data it legitimately received earlier) is documented behaviour (Options.CacheSize) and only counted, not judged")
	if err := rep.Finish(); err != nil {
		fmt.Println("h_c03: cannot write result:", err)
		os.Exit(2)
	}
}

func replaySpecs(cfg vlib.Cfg) []spec {
	var doc struct {
		Detail struct {
			Child spec   `json:"child"`
			Cell  string `json:"cell"`
		} `json:"detail"`
	}
	b, err := os.ReadFile(cfg.Replay)
	if err == nil {
		err = json.Unmarshal(b, &doc)
	}
	if err != nil || doc.Detail.Child.Part == "" {
		fmt.Println("h_c03: replay file has no child spec:", err)
		os.Exit(2)
	}
	s := doc.Detail.Child
	s.Only = doc.Detail.Cell
	return []spec{s}
}

func childMain(dir string) {
	var sp spec
	if err := vlib.ChildSpecInto(dir, &sp); err != nil {
		fmt.Println("bad spec:", err)
		os.Exit(3)
	}
	b := vlib.NewBatch()
	w, err := newWorld(dir, sp, b)
	if err != nil {
		b.Inconclusive("child %s: cannot set up database world: %v", sp.name(), err)
		b.Finish(dir)
		return
	}
	switch sp.Part {
	case "table":
		w.runTable()
	case "reflag":
		w.runReflag()
	case "failmod":
		w.runFailmod()
	case "ws":
		w.runWS()
	case "storm":
		w.runStorm()
	case "hist":
		w.runHist()
	default:
		fmt.Println("unknown part", sp.Part)
		os.Exit(3)
	}
	w.close()
	b.Finish(dir)
}
