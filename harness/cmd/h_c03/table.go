package main

import (
	"bytes"
	"context"
	"errors"
	"fmt"
	"strings"
	"time"

	"github.com/safing/portbase/database"
	"github.com/safing/portbase/database/query"
	"github.com/safing/portbase/database/record"
)

// cell is one entry of the finite table (also used for the reflag part).
type cell struct {
	Part    string `json:"part"`
	Backend string `json:"backend"`
	Shadow  bool   `json:"shadow"`
	F       int    `json:"flags"`    // bit 0 secret, bit 1 crown jewel
	H       string `json:"how"`      // meta | opts | call
	K       string `json:"kind"`     // wrapped | struct
	Obs     string `json:"observer"` // "--" "L-" "-I" "LI" (Local, Internal) or "api"
	Cache   bool   `json:"cache"`
	Delay   bool   `json:"delayed_writes,omitempty"` // observer created with DelayCachedWrites=<db>
	Opt     string `json:"observer_options,omitempty"` // Always* options of the observer: S, C, SC, rel, abs, SC+rel+abs
	Path    string `json:"path"`
}

func (c cell) sig() string {
	return fmt.Sprintf("%s/%s/%v/%s/%s/%s/%s/%v%s/%s", c.Part, c.Backend, c.Shadow, flagNames[c.F], c.H, c.K, c.Obs, c.Cache, c.delayTag(), c.Path)
}

func (c cell) delayTag() string {
	t := ""
	if c.Delay {
		t = "+delayed-writes"
	}
	if c.Opt != "" {
		t += "+always:" + c.Opt
	}
	return t
}

// observerOptions are the Always* option sets a non-privileged observer may carry.
// They change what the observer writes, never what it may access.
var observerOptions = []string{"S", "C", "SC", "rel", "abs", "SC+rel+abs"}

func applyObserverOptions(o *database.Options, opt string) {
	for _, p := range strings.Split(opt, "+") {
		switch p {
		case "S":
			o.AlwaysMakeSecret = true
		case "C":
			o.AlwaysMakeCrownjewel = true
		case "SC":
			o.AlwaysMakeSecret, o.AlwaysMakeCrownjewel = true, true
		case "rel":
			o.AlwaysSetRelativateExpiry = 2 * farFuture
		case "abs":
			o.AlwaysSetAbsoluteExpiry = time.Now().Unix() + 2*farFuture
		}
	}
}

// coord is the cell without the sampled dimensions (how, kind): the coordinates of
// the table the property quantifies over.
func (c cell) coord() string {
	return fmt.Sprintf("%s/%v/%s/%s/%v%s/%s", c.Backend, c.Shadow, flagNames[c.F], c.Obs, c.Cache, c.delayTag(), c.Path)
}

func (c cell) priv() (local, internal bool) {
	if c.Obs == "api" || c.Obs == "ws" {
		return false, false
	}
	return c.Obs[0] == 'L', c.Obs[1] == 'I'
}

var observers = []string{"--", "L-", "-I", "LI"}

func isDeleter(be string) bool { return be != "runtime" }
func isBatcher(be string) bool { return be == "hashmap" || be == "bbolt" }

func ifacePaths(be string, flags int, obs string) []string {
	p := []string{"get", "get2", "exists", "query", "query-where", "sub-put", "sub-insert"}
	if flags != 0 {
		p = append(p, "sub-flag")
	}
	if isDeleter(be) {
		p = append(p, "sub-delete")
	}
	if be == "runtime" {
		p = append(p, "sub-push")
	}
	p = append(p, "insert", "setabs", "setrel", "mksecret", "mkcrown", "put", "putnew")
	if isDeleter(be) {
		p = append(p, "delete")
	}
	// Interface.PutMany with all permissions on a storage without batch support
	// is not usable (C02 territory); refused callers never reach the storage.
	if obs != "LI" || isBatcher(be) {
		p = append(p, "putmany")
	}
	p = append(p, "purge")
	return p
}

// aliasSpellings are non-canonical spellings of a key. The file-tree storage cleans
// paths, so there an alias addresses the same record; on every other storage it is a
// different (free) key.
var aliasSpellings = []string{"dslash", "dot", "dotdot", "tslash"}

func aliasKey(key, spelling string) string {
	db, dbKey := record.ParseKey(key)
	i := strings.LastIndex(dbKey, "/")
	dir, leaf := dbKey[:i], dbKey[i+1:]
	switch spelling {
	case "dslash":
		dbKey = dir + "//" + leaf
	case "dot":
		dbKey = dir + "/./" + leaf
	case "dotdot":
		dbKey = "o/../" + dbKey
	case "tslash":
		dbKey += "/"
	}
	return db + ":" + dbKey
}

func aliasSame(be string) bool { return be == "fstree" }

// extraIfacePaths: write paths under key aliases (all storages), and for the injected
// runtime registry: records of exact-key (single-record) providers read by get,
// parent-prefix query and a query whose prefix IS the key; writes while the
// provider's lookup fails.
func extraIfacePaths(be string) []string {
	var p []string
	for _, s := range aliasSpellings {
		p = append(p, "put-alias-"+s, "putnew-alias-"+s)
	}
	if be == "runtime" {
		p = append(p, "xget", "xquery", "xquery-exact", "put-getfault", "putnew-getfault")
	}
	return p
}

func extraAPIPaths(be string) []string {
	var p []string
	for _, s := range aliasSpellings {
		p = append(p, "api-update-alias-"+s, "api-create-alias-"+s)
	}
	if be == "runtime" {
		p = append(p, "api-xget", "api-xquery-exact", "api-update-getfault", "api-create-getfault")
	}
	return p
}

func isExactKeyPath(p string) bool {
	return strings.HasPrefix(p, "x") || strings.HasPrefix(p, "api-x")
}

var delayPaths = []string{"get", "insert", "put", "putnew", "delete", "putmany", "put-flush", "put-evict"}

func apiPaths(be string) []string {
	p := []string{"api-get", "api-query", "api-sub", "api-qsub", "api-create", "api-update", "api-insert"}
	if isDeleter(be) {
		p = append(p, "api-delete")
	}
	return p
}

func howsFor(flags int) []string {
	if flags == 0 {
		return []string{"meta"}
	}
	return []string{"meta", "opts", "call", "putnew-meta", "putnew-opts", "putnew-reload"}
}

// coordsFor lists the table coordinates of one table child (one flag set).
func coordsFor(sp spec) []cell {
	var out []cell
	f := sp.Shard
	for _, obs := range observers {
		for _, cache := range []bool{false, true} {
			for _, p := range append(ifacePaths(sp.Backend, f, obs), extraIfacePaths(sp.Backend)...) {
				out = append(out, cell{Part: "table", Backend: sp.Backend, Shadow: sp.Shadow, F: f, Obs: obs, Cache: cache, Path: p})
			}
		}
	}
	for _, p := range append(apiPaths(sp.Backend), extraAPIPaths(sp.Backend)...) {
		out = append(out, cell{Part: "table", Backend: sp.Backend, Shadow: sp.Shadow, F: f, Obs: "api", Path: p})
	}
	// Non-privileged observers that carry Always* options, on every interface path.
	// Quick: the observer without any privilege gets every option set, the two
	// half-privileged ones rotate through the option sets, the cache setting
	// alternates; thorough: everything.
	n := 0
	for _, obs := range []string{"--", "L-", "-I"} {
		for pi, p := range ifacePaths(sp.Backend, f, obs) {
			for oi, opt := range observerOptions {
				if !sp.thorough() && obs != "--" && oi != (pi+f)%len(observerOptions) {
					continue
				}
				for ci, cache := range []bool{false, true} {
					if !sp.thorough() && ci != n%2 {
						continue
					}
					out = append(out, cell{Part: "table", Backend: sp.Backend, Shadow: sp.Shadow, F: f, Obs: obs, Cache: cache, Opt: opt, Path: p})
				}
				n++
			}
		}
	}
	// Non-privileged interfaces created with a read cache and DelayCachedWrites (the
	// documentation reserves delayed writes for Local+Internal interfaces, the
	// constructor accepts them for everybody): the write paths, the batch write and
	// the two ways a held-back write reaches the storage later (flush, eviction).
	if isBatcher(sp.Backend) {
		for _, obs := range []string{"--", "L-", "-I"} {
			for _, p := range delayPaths {
				out = append(out, cell{Part: "table", Backend: sp.Backend, Shadow: sp.Shadow, F: f, Obs: obs, Cache: true, Delay: true, Path: p})
			}
		}
	}
	return out
}

// variants returns how many (how, kind) variants of a coordinate are executed.
func variantsFor(sp spec) (allHows, allKinds bool) {
	if sp.thorough() {
		return true, true
	}
	// live (unserialised) record objects only exist in these two storages
	return false, sp.Backend == "hashmap" || sp.Backend == "runtime"
}

func expectedCells(sp spec) int {
	switch sp.Part {
	case "table":
		allH, allK := variantsFor(sp)
		n := len(coordsFor(sp))
		if allH {
			n *= len(howsFor(sp.Shard))
		}
		if allK {
			n *= 2
		}
		return n
	case "reflag":
		return len(reflagCells(sp))
	case "failmod":
		return failmodCells(sp)
	case "ws":
		return len(wsCells(sp))
	case "storm":
		return stormProbes(sp)
	}
	return 0
}

func (w *world) runTable() {
	allH, allK := variantsFor(w.sp)
	for _, co := range coordsFor(w.sp) {
		hows := howsFor(co.F)
		if !allH {
			hows = []string{hows[w.rng.Intn(len(hows))]}
		}
		kinds := []string{"wrapped", "struct"}
		if !allK {
			kinds = []string{kinds[w.rng.Intn(2)]}
		}
		for _, h := range hows {
			for _, k := range kinds {
				c := co
				c.H, c.K = h, k
				if w.sp.Only != "" && c.coord() != w.sp.Only {
					continue
				}
				w.runCell(c)
			}
		}
	}
	if w.sp.Only == "" {
		w.bulkCheck()
		if w.sp.Shard == flagSecret {
			w.probeLateDrain()
		}
	}
}

// probeLateDrain is a diagnostic, not an oracle. A record is pushed to a
// non-privileged subscriber while it is unflagged (which is allowed) and stays in the
// feed buffer; the privileged side then marks it secret and writes a new payload
// generation; only then the subscriber drains its feed. On storages that keep live
// record objects (hashmap, injected) the buffered element is the stored object itself,
// so the subscriber reads the later, secret generation. The push itself happened when
// the statement allowed it, so this is reported as an observation (coverage counters
// late_drain_probe_*), never as a violation.
func (w *world) probeLateDrain() {
	key := w.db + ":c/probe/k"
	if _, err := w.privPut(key, 0, "meta", "struct"); err != nil {
		return
	}
	o := database.NewInterface(nil)
	sub, err := o.Subscribe(prefixQuery(w.db, "c/probe/"))
	if err != nil {
		return
	}
	tb := w.newTok(key, 0, "priv")
	err1 := w.W.InsertValue(key, "Name", tb) // pushed, not yet drained
	tc := w.newTok(key, flagSecret, "priv")
	err2 := w.Wf[flagSecret].InsertValue(key, "Name", tc) // secret from here on; push refused
	var seen []byte
	n := 0
drain:
	for {
		select {
		case r := <-sub.Feed:
			if r == nil {
				break drain
			}
			n++
			seen = append(seen, bytesJoin(observe(r).Bytes)...)
		default:
			break drain
		}
	}
	_ = sub.Cancel()
	if err1 != nil || err2 != nil || n == 0 {
		return
	}
	w.b.Count("late_drain_probe_runs", 1)
	if bytes.Contains(seen, []byte(tc)) {
		w.b.Count("late_drain_probe_secret_generation_read", 1)
		w.b.Seen("late_drain_probe_aliasing_storages", w.backend)
	}
}

// exec is the state of one executing cell.
type exec struct {
	w      *world
	c      cell
	key    string // target record
	ctl    string // unflagged control record under the same prefix
	prefix string
	tok    string
	l, i   bool
	perm   bool
	s0     snap
	decided bool
	own    map[string]bool // tokens the observer supplied itself in this cell
	stale  string          // reflag part: token of the generation the observer legitimately read
}

func (w *world) runCell(c cell) {
	w.b.Eval(1)
	w.b.Count("cells_"+c.Part, 1)
	w.b.DistinctS(c.sig())
	w.b.Seen("paths", c.Path)
	w.b.Seen("observers", fmt.Sprintf("%s cache=%v%s", c.Obs, c.Cache, c.delayTag()))
	w.b.Seen("flagsets", flagNames[c.F])
	w.b.Seen("flag_set_by", c.H)
	w.b.Seen("record_kinds", c.K)
	if c.Opt != "" {
		w.b.Seen("observer_always_options", c.Opt)
		w.b.Count("cells_with_observer_always_options", 1)
	}
	id := w.nextCell
	w.nextCell++
	x := &exec{w: w, c: c}
	x.prefix = fmt.Sprintf("c/%d/", id)
	x.key = w.db + ":" + x.prefix + "k"
	x.ctl = w.db + ":" + x.prefix + "ctl"
	x.l, x.i = c.priv()
	x.perm = permitted(x.l, x.i, c.F)

	if isExactKeyPath(c.Path) {
		// the target and the control record each live in a provider registered on
		// exactly their key
		x.prefix = fmt.Sprintf("x/%d/", id)
		x.key = w.db + ":" + x.prefix + "k"
		x.ctl = w.db + ":" + x.prefix + "ctl"
		if err := w.exactKey(x.key); err == nil {
			err = w.exactKey(x.ctl)
		} else {
			w.b.Inconclusive("cell %s: cannot register exact-key provider: %v", c.sig(), err)
			return
		}
	}
	if c.Path == "put-flush" || c.Path == "put-evict" {
		x.runLate()
		if x.decided {
			w.b.Count("cells_decided", 1)
		}
		return
	}
	initF := c.F
	if c.Path == "sub-flag" {
		initF = 0 // flagged while the observer is subscribed
	}
	tok, err := w.privPut(x.key, initF, c.H, c.K)
	if err == nil {
		_, err = w.privPut(x.ctl, 0, "meta", c.K)
	}
	x.tok = tok
	x.s0 = w.audit(x.key)
	if err != nil || !x.s0.Exists || !strings.Contains(x.s0.Data, tok) {
		w.b.Inconclusive("cell %s: privileged setup failed (err=%v, read-back %+v)", c.sig(), err, x.s0)
		return
	}
	if x.s0.Flags != initF {
		// The stored record does not carry the flags its privileged writer gave
		// it. Not a verdict by itself (nobody has seen it yet): the expectation
		// stays what the writer marked, and the observer's operation decides.
		w.b.Count("stored_flags_differ_from_written", 1)
	}
	if c.Obs == "api" || c.Obs == "ws" {
		x.runAPI()
	} else {
		x.runIface(x.newObserver())
	}
	if x.decided {
		w.b.Count("cells_decided", 1)
	}
	if w.samples < 2 && x.decided && (w.samples == 0) == x.perm {
		w.samples++
		w.b.Sample(map[string]any{"cell": c, "permitted": x.perm, "target_after": w.audit(x.key)})
	}
}

const delayCacheSize = 8

func (x *exec) newObserver() *database.Interface {
	opts := &database.Options{Local: x.l, Internal: x.i, CacheSize: cacheSize(x.c.Cache)}
	if x.c.Delay {
		opts.CacheSize = delayCacheSize
		opts.DelayCachedWrites = x.w.db
	}
	applyObserverOptions(opts, x.c.Opt)
	return database.NewInterface(opts)
}

// runLate: the observer (with delayed writes) puts a record under a still free key —
// the write is only held in its write cache —, then the privileged side stores a
// flagged record under that key, then the held-back write is brought to the storage
// by a flush or by cache eviction. A refused observer must not replace the record.
func (x *exec) runLate() {
	w := x.w
	c := x.c
	if _, err := w.privPut(x.ctl, 0, "meta", c.K); err != nil {
		w.b.Inconclusive("cell %s: privileged setup failed: %v", c.sig(), err)
		return
	}
	o := x.newObserver()
	ot := x.ownTok(0)
	perr := o.Put(newRec(x.key, ot, c.K))
	tok, err := w.privPut(x.key, c.F, c.H, c.K)
	x.tok = tok
	x.s0 = w.audit(x.key)
	if x.s0.Exists && x.s0.Flags != c.F {
		w.b.Count("stored_flags_differ_from_written", 1) // see runCell
	}
	if perr != nil || err != nil || !x.s0.Exists || !strings.Contains(x.s0.Data, tok) {
		w.b.Inconclusive("cell %s: setup failed (observer put err=%v, privileged err=%v, read-back %+v)", c.sig(), perr, err, x.s0)
		return
	}
	if c.Path == "put-flush" {
		o.FlushCache()
	} else {
		for n := 0; n < 3*delayCacheSize; n++ {
			_ = o.Put(newRec(fmt.Sprintf("%s:%sfill%d", w.db, x.prefix, n), x.ownTok(0), c.K))
		}
	}
	// no error to look at: only the privileged read-back decides (nothing is
	// demanded for permitted observers, whose flush is refused as well)
	x.writeOutcome(nil, false, true, nil)
}

func cacheSize(on bool) int {
	if on {
		return 256
	}
	return 0
}

// ---------------------------------------------------------------------------------
// oracles

func (x *exec) detail(extra map[string]any) map[string]any {
	d := map[string]any{"child": x.w.sp, "cell": x.c.coord(), "cell_full": x.c, "key": x.key,
		"permitted_by_statement": x.perm, "target_before": x.s0, "target_now": x.w.audit(x.key)}
	for k, v := range extra {
		d[k] = v
	}
	return d
}

// pathSig is the path part of a violation signature: the storage is part of it where
// the permission check lives in the storage's own code.
func (x *exec) pathSig() string { return pathSig(x.pathName(), x.c.Backend) }

// pathName is the path as it appears in signatures: the real websocket endpoint is
// a different construction site of the API than CreateDatabaseAPI.
func (x *exec) pathName() string {
	if i := strings.Index(x.c.Path, "-alias-"); i > 0 {
		return x.c.Path[:i+len("-alias")] // one signature whatever the spelling
	}
	if x.c.Obs == "ws" {
		return "ws-" + strings.TrimPrefix(x.c.Path, "api-")
	}
	return x.c.Path
}

func pathSig(path, backend string) string {
	switch path {
	case "query", "query-where", "api-query", "api-qsub", "ws-query", "ws-qsub", "purge", "sub-push", "xquery", "xquery-exact", "api-xquery-exact":
		return path + ":" + backend
	}
	return path
}

// staleCache is the precondition class "the observer has a read cache that may hold
// an outdated copy of the record".
func (x *exec) staleCache() bool { return x.c.Part == "reflag" && x.c.Cache && x.c.Path != "query" }

// vsig builds a violation signature: C03:<oracle>:<path>[:<storage>][:stale-cache]:<clause>.
func vsig(kind, path, backend string, class string, cl string) string {
	s := prop + ":" + kind + ":" + pathSig(path, backend)
	if class != "" {
		s += ":" + class
	}
	if cl != "" {
		s += ":" + cl
	}
	return s
}

// class is the precondition class of a signature: the observer may hold an outdated
// cached copy, or the observer carries Always* options.
func (x *exec) class() string {
	switch {
	case x.staleCache():
		return "stale-cache"
	case x.c.Opt != "":
		return "always-options"
	case x.c.Part == "storm":
		return "concurrent-writes"
	}
	return ""
}

func (x *exec) vsig(kind string, withClause bool) string {
	cl := ""
	if withClause && !x.staleCache() {
		// (one defect class whatever the flag: the stale-cache signatures carry no clause)
		cl = clause(x.l, x.i, x.c.F)
	}
	return vsig(kind, x.pathName(), x.c.Backend, x.class(), cl)
}

// hand judges what was handed to the observer: no record object / key of a refused
// record, and no token of any record version the observer may not see in any byte string.
func (x *exec) hand(recs []obsRec, texts ...[]byte) (targetSeen, ctlSeen bool, targetBytes []byte) {
	for _, r := range recs {
		if r.Key == x.key {
			targetSeen = true
			var rb []byte
			for _, b := range r.Bytes {
				rb = append(rb, b...)
			}
			targetBytes = append(targetBytes, rb...)
			if !x.perm && x.staleCache() && x.stale != "" && bytes.Contains(rb, []byte(x.stale)) && !bytes.Contains(rb, []byte(x.tok)) {
				// the observer's own outdated copy (documented cache behaviour)
				x.w.b.Count("stale_cache_reads", 1)
			} else if !x.perm {
				x.w.b.Violation(x.vsig("returned", true),
					fmt.Sprintf("a %s record was handed to an observer with Local=%v Internal=%v through %s", flagNames[x.c.F], x.l, x.i, x.c.Path),
					x.detail(map[string]any{"handed": string(bytesJoin(r.Bytes))}))
			}
		}
		if r.Key == x.ctl {
			ctlSeen = true
		}
		x.scan(r.Bytes...)
	}
	x.scan(texts...)
	return
}

func bytesJoin(bs [][]byte) []byte {
	var out []byte
	for _, b := range bs {
		out = append(out, b...)
		out = append(out, ' ')
	}
	if len(out) > 2000 {
		out = out[:2000]
	}
	return out
}

func (x *exec) scan(texts ...[]byte) {
	x.w.scanFor(x.l, x.i, x.pathName(), x.class(), func(t string) bool { return x.own[t] }, func() map[string]any { return x.detail(nil) }, texts...)
}

// scanFor is the token scan: every token found must belong to a record version the
// observer is allowed to see.
func (w *world) scanFor(l, i bool, path string, class string, skip func(tok string) bool, detail func() map[string]any, texts ...[]byte) {
	for _, t := range texts {
		w.b.Count("byte_strings_scanned", 1)
		for _, m := range tokRe.FindAll(t, -1) {
			v := w.toks[string(m)]
			if v == nil || (skip != nil && skip(string(m))) {
				continue
			}
			w.b.Count("tokens_seen_by_observers", 1)
			if !permitted(l, i, v.Flags) {
				d := detail()
				d["token"] = string(m)
				d["token_of"] = v
				s := string(t)
				if len(s) > 1500 {
					s = s[:1500]
				}
				d["byte_string"] = s
				w.b.Violation(vsig("token-leak", path, w.backend, class, clause(l, i, v.Flags)),
					fmt.Sprintf("payload token of a %s record reached an observer with Local=%v Internal=%v through %s", flagNames[v.Flags], l, i, path), d)
			}
		}
	}
}

func errText(err error) []byte {
	if err == nil {
		return nil
	}
	return []byte(err.Error())
}

// readOutcome judges a read path: found says whether the observer got the target.
func (x *exec) readOutcome(found bool, err error, ctlNeeded, ctlSeen bool) {
	if ctlNeeded && !ctlSeen {
		x.w.b.Inconclusive("cell %s: the unflagged control record was not delivered (err=%v): the path itself did not work", x.c.sig(), err)
		return
	}
	x.decided = true
	if !x.perm {
		// violations (if any) were raised by hand()
		x.w.b.Count("refused_ok", 1)
		return
	}
	if !found {
		x.w.b.Violation(x.vsig("permitted-refused", false),
			fmt.Sprintf("an observer with Local=%v Internal=%v did not get a %s record through %s although the statement permits it", x.l, x.i, flagNames[x.c.F], x.c.Path),
			x.detail(map[string]any{"error": fmt.Sprint(err)}))
		return
	}
	x.w.b.Count("permitted_ok", 1)
}

// retag makes the token table follow the record: after a write the tokens now stored
// in the record carry the record's current flags.
func (w *world) retag(after snap) {
	if !after.Exists {
		return
	}
	for _, m := range tokRe.FindAllString(after.Data, -1) {
		if v := w.toks[m]; v != nil {
			v.Flags = after.Flags
		}
	}
}

// writeOutcome judges a write path. mustErr: a refused write has to report an error
// (false for purge, which skips records). effect checks the permitted case.
func (x *exec) writeOutcome(err error, mustErr bool, expectRefusedAnyway bool, effect func(after snap) bool) {
	after := x.w.audit(x.key)
	x.w.retag(after)
	if !x.perm || expectRefusedAnyway {
		bad := false
		if !x.perm && mustErr && err == nil {
			bad = true
			x.w.b.Violation(x.vsig("write-accepted", true),
				fmt.Sprintf("%s on a %s record through an observer with Local=%v Internal=%v returned no error", x.c.Path, flagNames[x.c.F], x.l, x.i),
				x.detail(map[string]any{"target_after": after}))
		}
		if !x.perm && after != x.s0 && !bad {
			bad = true
			x.w.b.Violation(x.vsig("state-changed", true),
				fmt.Sprintf("%s on a %s record through an observer with Local=%v Internal=%v changed the record (privileged read-back differs)", x.c.Path, flagNames[x.c.F], x.l, x.i),
				x.detail(map[string]any{"target_after": after, "error": fmt.Sprint(err)}))
		}
		x.decided = true
		if !bad {
			if x.perm {
				x.w.b.Count("refused_by_all_permissions_rule", 1)
			} else {
				x.w.b.Count("refused_ok", 1)
			}
		}
		return
	}
	if err != nil {
		if errors.Is(err, database.ErrPermissionDenied) {
			x.w.b.Violation(x.vsig("permitted-refused", false),
				fmt.Sprintf("%s on a %s record through an observer with Local=%v Internal=%v was denied although the statement permits it", x.c.Path, flagNames[x.c.F], x.l, x.i),
				x.detail(map[string]any{"error": err.Error()}))
			x.decided = true
			return
		}
		x.w.b.Inconclusive("cell %s: permitted write failed for a reason unrelated to permissions: %v", x.c.sig(), err)
		return
	}
	if effect != nil && !effect(after) {
		x.w.b.Inconclusive("cell %s: permitted write returned no error but its effect is not visible to the privileged read-back (%+v)", x.c.sig(), after)
		return
	}
	x.decided = true
	x.w.b.Count("permitted_ok", 1)
}

// ---------------------------------------------------------------------------------
// paths through a database.Interface

const farFuture = 1000000

func (x *exec) runIface(o *database.Interface) {
	w := x.w
	c := x.c
	pq := prefixQuery(w.db, x.prefix)
	path := c.Path
	if isExactKeyPath(path) {
		path = path[1:]
	}
	switch {
	case strings.HasPrefix(path, "put-alias-"), strings.HasPrefix(path, "putnew-alias-"):
		x.runAliasWrite(strings.HasPrefix(path, "putnew"), path[strings.LastIndex(path, "-")+1:], func(r record.Record, isNew bool) error {
			if isNew {
				return o.PutNew(r)
			}
			return o.Put(r)
		})
		return
	case path == "put-getfault" || path == "putnew-getfault":
		x.runGetFaultWrite(func(r record.Record) error {
			if path == "putnew-getfault" {
				return o.PutNew(r)
			}
			return o.Put(r)
		})
		return
	case path == "query-exact":
		// a query whose prefix is exactly the key; the same kind of query on the
		// control record proves that such queries list records at all
		_, dbCtl := record.ParseKey(x.ctl)
		_, dbKey := record.ParseKey(x.key)
		ctlSeen := false
		var lastErr error
		var found bool
		for n, dk := range []string{dbCtl, dbKey} {
			it, err := o.Query(prefixQuery(w.db, dk))
			if err != nil {
				x.hand(nil, errText(err))
				lastErr = err
				continue
			}
			recs, qerr := drainQuery(it, it.Next)
			seen, cs, tb := x.hand(recs, errText(qerr))
			lastErr = qerr
			if n == 0 {
				ctlSeen = cs
			} else {
				found = seen && strings.Contains(string(tb), x.tok)
			}
		}
		x.readOutcome(found, lastErr, true, ctlSeen)
		return
	}
	switch path {
	case "get", "get2":
		n := 1
		if path == "get2" {
			n = 2 // the second get is served from the read cache when there is one
		}
		var found bool
		var err error
		for k := 0; k < n; k++ {
			var r record.Record
			r, err = o.Get(x.key)
			var recs []obsRec
			if r != nil {
				recs = append(recs, observe(r))
			}
			seen, _, tb := x.hand(recs, errText(err))
			found = seen && err == nil && (strings.Contains(string(tb), x.tok) ||
				(x.staleCache() && x.stale != "" && strings.Contains(string(tb), x.stale)))
		}
		x.readOutcome(found, err, false, false)

	case "exists":
		ok, err := o.Exists(x.key)
		x.hand(nil, errText(err))
		x.readOutcome(ok && err == nil, err, false, false)

	case "query", "query-where":
		q := pq
		if path == "query-where" {
			// a condition on the confidential payload: matching must not reveal it
			q = query.New(w.db + ":" + x.prefix).Where(query.Where("Name", query.SameAs, x.tok)).MustBeValid()
		}
		it, err := o.Query(q)
		if err != nil {
			x.hand(nil, errText(err))
			x.readOutcome(false, err, true, false)
			return
		}
		recs, qerr := drainQuery(it, it.Next)
		seen, ctlSeen, tb := x.hand(recs, errText(qerr))
		x.readOutcome(seen && strings.Contains(string(tb), x.tok), qerr, path == "query", ctlSeen)

	case "sub-put", "sub-insert", "sub-flag", "sub-delete", "sub-push":
		sub, err := o.Subscribe(pq)
		if err != nil {
			x.hand(nil, errText(err))
			x.readOutcome(false, err, true, false)
			return
		}
		want := x.tok
		var aerr error
		switch c.Path {
		case "sub-put":
			how := c.H
			if how == "call" {
				how = "meta"
			}
			want, aerr = w.privPut(x.key, c.F, how, c.K)
		case "sub-insert":
			want = w.newTok(x.key, c.F, "priv")
			aerr = w.W.InsertValue(x.key, "Name", want)
		case "sub-flag":
			// the payload generation becomes confidential with this call
			w.toks[x.tok].Flags = c.F
			switch c.F {
			case flagSecret:
				aerr = w.W.MakeSecret(x.key)
			case flagCrown:
				aerr = w.W.MakeCrownJewel(x.key)
			default:
				aerr = w.Wf[c.F].MakeSecret(x.key) // both flags in one write
			}
		case "sub-delete":
			want = ""
			aerr = w.W.Delete(x.key)
		case "sub-push":
			want = w.newTok(x.key, c.F, "priv")
			r, push := w.liveRec(x.key)
			if r == nil {
				aerr = errors.New("record not in provider")
			} else {
				r.Lock()
				setPayload(r, want)
				push(r)
				r.Unlock()
			}
		}
		// a write to the control record proves that the subscription delivers
		_, cerr := w.privPut(x.ctl, 0, "meta", c.K)
		var recs []obsRec
	drain:
		for {
			select {
			case r := <-sub.Feed:
				if r == nil {
					break drain
				}
				recs = append(recs, observe(r))
			default:
				break drain
			}
		}
		_ = sub.Cancel()
		if aerr != nil || cerr != nil {
			w.b.Inconclusive("cell %s: privileged update failed: %v / %v", c.sig(), aerr, cerr)
			return
		}
		seen, ctlSeen, tb := x.hand(recs)
		x.readOutcome(seen && strings.Contains(string(tb), want), nil, true, ctlSeen)

	case "insert":
		ot := x.ownTok(c.F)
		err := o.InsertValue(x.key, "Name", ot)
		x.hand(nil, errText(err))
		x.writeOutcome(err, true, false, func(a snap) bool { return strings.Contains(a.Data, ot) })

	case "setabs":
		v := time.Now().Unix() + farFuture
		err := o.SetAbsoluteExpiry(x.key, v)
		x.hand(nil, errText(err))
		x.writeOutcome(err, true, false, func(a snap) bool { return a.Expires == v })

	case "setrel":
		err := o.SetRelativateExpiry(x.key, farFuture)
		x.hand(nil, errText(err))
		x.writeOutcome(err, true, false, func(a snap) bool { return a.Deleted == -farFuture })

	case "mksecret":
		err := o.MakeSecret(x.key)
		x.hand(nil, errText(err))
		x.writeOutcome(err, true, false, func(a snap) bool { return a.Flags&flagSecret != 0 })

	case "mkcrown":
		err := o.MakeCrownJewel(x.key)
		x.hand(nil, errText(err))
		x.writeOutcome(err, true, false, func(a snap) bool { return a.Flags&flagCrown != 0 })

	case "put", "putnew":
		ot := x.ownTok(0)
		r := newRec(x.key, ot, c.K)
		var err error
		if c.Path == "put" {
			err = o.Put(r)
		} else {
			err = o.PutNew(r)
		}
		x.hand(nil, errText(err))
		eff := func(a snap) bool { return strings.Contains(a.Data, ot) }
		if c.Delay {
			eff = nil // the accepted write is only held in the observer's write cache
		}
		x.writeOutcome(err, true, false, eff)

	case "delete":
		err := o.Delete(x.key)
		x.hand(nil, errText(err))
		x.writeOutcome(err, true, false, func(a snap) bool { return !a.Exists })

	case "putmany":
		ot := x.ownTok(0)
		var err error
		// (a batch on a storage without batch support can block forever; the
		// refusal normally happens before the storage is involved)
		if !watchdog(30*time.Second, func() {
			put := o.PutMany(w.db)
			err = put(newRec(x.key, ot, c.K))
			if err == nil {
				err = put(nil)
			}
		}) {
			w.b.Inconclusive("cell %s: PutMany did not return (watchdog)", c.sig())
			return
		}
		x.hand(nil, errText(err))
		// documented rule: batch writes need all permissions, whatever the record
		x.writeOutcome(err, true, c.Obs != "LI", func(a snap) bool { return strings.Contains(a.Data, ot) })

	case "purge":
		ctx, cancel := context.WithTimeout(context.Background(), time.Minute)
		n, err := o.Purge(ctx, pq)
		cancel()
		x.hand(nil, errText(err))
		if !w.purger() {
			// storages without purge support refuse for everybody
			after := w.audit(x.key)
			if err == nil || after != x.s0 {
				if !x.perm && after != x.s0 {
					x.writeOutcome(err, false, false, nil)
					return
				}
				w.b.Inconclusive("cell %s: purge on a storage without purge support returned n=%d err=%v", c.sig(), n, err)
				return
			}
			x.decided = true
			w.b.Count("unsupported_refused", 1)
			if x.perm {
				w.b.Count("permitted_ok", 1)
			} else {
				w.b.Count("refused_ok", 1)
			}
			return
		}
		if cs := w.audit(x.ctl); cs.Exists {
			w.b.Inconclusive("cell %s: purge did not remove the unflagged control record (n=%d err=%v)", c.sig(), n, err)
			return
		}
		x.writeOutcome(err, false, false, func(a snap) bool { return !a.Exists })
	}
}

// ownTok creates a token the observer itself supplies (it is not a leak when the
// observer sees its own input again within the cell).
func (x *exec) ownTok(flags int) string {
	t := x.w.newTok(x.key, flags, "observer")
	if x.own == nil {
		x.own = map[string]bool{}
	}
	x.own[t] = true
	return t
}

// watchdog runs fn and reports whether it returned in time (never a verdict).
func watchdog(d time.Duration, fn func()) bool {
	done := make(chan struct{})
	go func() {
		defer close(done)
		fn()
	}()
	select {
	case <-done:
		return true
	case <-time.After(d):
		return false
	}
}

// runAliasWrite: the observer writes a record under a non-canonical spelling of the
// target's key. Where the storage resolves the alias to the same record the usual
// write oracle applies; elsewhere the alias is a free key and only the target's
// privileged read-back is judged.
func (x *exec) runAliasWrite(isNew bool, spelling string, write func(r record.Record, isNew bool) error) {
	ot := x.ownTok(0)
	err := write(newRec(aliasKey(x.key, spelling), ot, x.c.K), isNew)
	x.hand(nil, errText(err))
	if aliasSame(x.c.Backend) {
		x.writeOutcome(err, true, false, func(a snap) bool { return strings.Contains(a.Data, ot) })
	} else {
		x.writeOutcome(err, false, true, nil)
	}
}

// runGetFaultWrite: the provider's lookup of the target fails while the observer
// writes; its Set would work. "Could not check" must not become "free key".
func (x *exec) runGetFaultWrite(write func(r record.Record) error) {
	_, dbKey := record.ParseKey(x.key)
	ot := x.ownTok(0)
	x.w.prv.setFault(dbKey, true)
	err := write(newRec(x.key, ot, x.c.K))
	x.w.prv.setFault(dbKey, false)
	x.hand(nil, errText(err))
	if x.perm {
		// nothing is demanded of a permitted writer while the provider is down
		x.writeOutcome(err, false, true, nil)
		return
	}
	x.writeOutcome(err, true, false, nil)
}

func setPayload(r record.Record, tok string) {
	switch t := r.(type) {
	case *srec:
		t.Name = tok
	case *record.Wrapper:
		t.Data = []byte(`{"Name":"` + tok + `","Score":7}`)
	}
}

// ---------------------------------------------------------------------------------
// bulk check: one query over everything the child has written, per observer,
// compared with the privileged view filtered by the statement's rule.

func (w *world) bulkCheck() {
	pq := prefixQuery(w.db, "c/")
	ref := map[string]int{} // key -> flags, as the privileged side sees them
	refQuery := func() error {
		it, err := w.A.Query(pq)
		if err != nil {
			return err
		}
		var raw []record.Record
		for r := range it.Next {
			raw = append(raw, r)
		}
		for _, r := range raw {
			r.Lock()
			ref[r.Key()] = metaFlags(r.Meta())
			w.retag(snap{Exists: true, Data: recData(r), Flags: metaFlags(r.Meta())})
			r.Unlock()
		}
		return it.Err()
	}
	if err := refQuery(); err != nil || len(ref) == 0 {
		w.b.Inconclusive("bulk: privileged query failed: %v (%d records)", err, len(ref))
		return
	}
	type view struct {
		name  string
		l, i  bool
		cache bool
		api   bool
		ws    bool
		keys  map[string]bool
	}
	var views []*view
	for _, obs := range observers {
		for _, cache := range []bool{false, true} {
			views = append(views, &view{name: fmt.Sprintf("%s/%v", obs, cache), l: obs[0] == 'L', i: obs[1] == 'I', cache: cache, keys: map[string]bool{}})
		}
	}
	views = append(views, &view{name: "api", api: true, keys: map[string]bool{}})
	if w.srv != nil {
		views = append(views, &view{name: "ws", api: true, ws: true, keys: map[string]bool{}})
	}
	// list runs the observer's query once, scans everything handed over and adds the
	// listed keys to the view
	list := func(v *view, try int) error {
		if v.api {
			a := newAPIConn(w)
			if v.ws {
				var err error
				if a, err = w.newWSConn(); err != nil {
					return err
				}
				defer a.ws.Close()
			}
			id := fmt.Sprintf("9%d", try)
			msgs, ok := a.query(id, "query "+w.db+":c/")
			if !ok {
				return errors.New("api query did not finish (watchdog)")
			}
			for _, m := range msgs {
				if k, isRec := apiRecordKey(m, id); isRec {
					v.keys[k] = true
				}
				w.scanFor(false, false, "bulk-"+v.name+"-query:"+w.backend, "", nil, func() map[string]any {
					return map[string]any{"child": w.sp, "observer": v.name, "message": clip(string(m))}
				}, m)
				if isType(id, "error")(m) {
					return errors.New(clip(string(m)))
				}
			}
			return nil
		}
		o := database.NewInterface(&database.Options{Local: v.l, Internal: v.i, CacheSize: cacheSize(v.cache)})
		it, err := o.Query(pq)
		if err != nil {
			return err
		}
		recs, qerr := drainQuery(it, it.Next)
		for _, r := range recs {
			v.keys[r.Key] = true
			w.scanFor(v.l, v.i, "bulk-query:"+w.backend, "", nil, func() map[string]any {
				return map[string]any{"child": w.sp, "observer": v.name, "key": r.Key}
			}, r.Bytes...)
		}
		return qerr
	}
	missing := func(v *view) int {
		n := 0
		for k, f := range ref {
			if !v.keys[k] && permitted(v.l, v.i, f) {
				n++
			}
		}
		return n
	}
	for _, v := range views {
		w.b.Eval(1)
		w.b.DistinctS("bulk/" + w.sp.name() + "/" + v.name)
		// A query that the storage cut short (its executor gives up when the
		// consumer stalls for a second; the iterator may be closed before the
		// error is stored) lists too little: a permission defect is deterministic,
		// so a record counts as withheld only if every try withholds it.
		var lerr error
		for try := 0; try < 4; try++ {
			lerr = list(v, try)
			if lerr == nil && missing(v) == 0 {
				break
			}
			w.b.Count("bulk_query_retries", 1)
		}
		if lerr != nil {
			w.b.Inconclusive("bulk: query of observer %s failed: %v", v.name, lerr)
			continue
		}
		unknown := 0
		for k := range v.keys {
			if _, ok := ref[k]; !ok {
				unknown++
			}
		}
		if unknown > 0 {
			// the privileged reference itself was cut short: complete it
			if err := refQuery(); err != nil {
				w.b.Inconclusive("bulk: privileged query failed: %v", err)
				return
			}
		}
		okAll := true
		for k, f := range ref {
			p := permitted(v.l, v.i, f)
			switch {
			case v.keys[k] && !p:
				okAll = false
				bq := "bulk-query:"
				if v.ws {
					bq = "bulk-ws-query:"
				}
				w.b.Violation(prop+":returned:"+bq+w.backend+":"+clause(v.l, v.i, f),
					fmt.Sprintf("a query over the whole database listed a %s record for observer %s", flagNames[f], v.name),
					map[string]any{"child": w.sp, "observer": v.name, "key": k, "flags": flagNames[f]})
			case !v.keys[k] && p:
				okAll = false
				w.b.Violation(prop+":permitted-refused:bulk-query:"+w.backend,
					fmt.Sprintf("a query over the whole database did not list a %s record for observer %s in any of 4 tries although the statement permits it", flagNames[f], v.name),
					map[string]any{"child": w.sp, "observer": v.name, "key": k, "flags": flagNames[f]})
			}
		}
		if okAll {
			w.b.Count("bulk_views_ok", 1)
		}
	}
	w.b.Max("bulk_records", int64(len(ref)))
}

func clip(s string) string {
	if len(s) > 1500 {
		return s[:1500]
	}
	return s
}
