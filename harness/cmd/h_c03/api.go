package main

import (
	"bytes"
	"errors"
	"fmt"
	"strings"
	"sync"
	"time"

	"github.com/gorilla/websocket"

	"github.com/safing/portbase/api"
	"github.com/safing/portbase/database"
	"github.com/safing/portbase/database/record"
)

// apiConn is the far end of one external database API connection: everything the API
// sends is recorded (and is, by definition, handed to a non-local non-internal party).
type apiConn struct {
	w    *world
	mu   sync.Mutex
	cond *sync.Cond
	msgs [][]byte
	api  api.DatabaseAPI
	ws   *websocket.Conn // set: the real websocket endpoint instead of a CreateDatabaseAPI object
	wmu  sync.Mutex
}

const apiWatchdog = 90 * time.Second

func newAPIConn(w *world) *apiConn {
	a := &apiConn{w: w}
	a.cond = sync.NewCond(&a.mu)
	a.api = api.CreateDatabaseAPI(a.recv) //nolint:govet // value constructor of the API under test
	return a
}

func (a *apiConn) recv(data []byte) {
	cp := append([]byte(nil), data...)
	a.mu.Lock()
	a.msgs = append(a.msgs, cp)
	a.cond.Broadcast()
	a.mu.Unlock()
}

func (a *apiConn) send(msg string) {
	a.w.b.Count("api_messages_sent", 1)
	if a.ws != nil {
		a.wmu.Lock()
		_ = a.ws.WriteMessage(websocket.TextMessage, []byte(msg))
		a.wmu.Unlock()
		return
	}
	a.api.Handle([]byte(msg))
}

// wait blocks until a message at index >= from satisfies pred (wall clock only as a
// watchdog: ok=false means undecided).
func (a *apiConn) wait(from int, pred func([]byte) bool, d time.Duration) (int, bool) {
	deadline := time.Now().Add(d)
	timer := time.AfterFunc(d+time.Millisecond, func() {
		a.mu.Lock()
		a.cond.Broadcast()
		a.mu.Unlock()
	})
	defer timer.Stop()
	a.mu.Lock()
	defer a.mu.Unlock()
	pos := from
	for {
		for ; pos < len(a.msgs); pos++ {
			if pred(a.msgs[pos]) {
				return pos, true
			}
		}
		if !time.Now().Before(deadline) {
			return -1, false
		}
		a.cond.Wait()
	}
}

func (a *apiConn) snapshot() [][]byte {
	a.mu.Lock()
	defer a.mu.Unlock()
	return append([][]byte(nil), a.msgs...)
}

func hasOp(opID string) func([]byte) bool {
	p := []byte(opID + "|")
	return func(m []byte) bool { return bytes.HasPrefix(m, p) }
}

func isType(opID string, types ...string) func([]byte) bool {
	return func(m []byte) bool {
		for _, t := range types {
			p := opID + "|" + t
			if string(m) == p || bytes.HasPrefix(m, []byte(p+"|")) {
				return true
			}
		}
		return false
	}
}

func hasTok(tok string) func([]byte) bool {
	return func(m []byte) bool { return bytes.Contains(m, []byte(tok)) }
}

// apiRecordKey parses "<op>|ok|<key>|<data>" style messages that carry a record (or
// the key of a deleted one).
func apiRecordKey(m []byte, opID string) (string, bool) {
	parts := bytes.SplitN(m, []byte("|"), 4)
	if len(parts) < 3 || string(parts[0]) != opID {
		return "", false
	}
	switch string(parts[1]) {
	case "ok", "upd", "new", "del":
		return string(parts[2]), true
	}
	return "", false
}

// request sends one request and waits for its single reply.
func (a *apiConn) request(opID, rest string) ([]byte, bool) {
	from := len(a.snapshot())
	a.send(opID + "|" + rest)
	idx, ok := a.wait(from, hasOp(opID), apiWatchdog)
	if !ok {
		return nil, false
	}
	return a.snapshot()[idx], true
}

// query runs a query to its done/error message and returns all its messages.
func (a *apiConn) query(opID, queryText string) ([][]byte, bool) {
	from := len(a.snapshot())
	a.send(opID + "|query|" + queryText)
	idx, ok := a.wait(from, isType(opID, "done", "error"), apiWatchdog)
	if !ok {
		return nil, false
	}
	var out [][]byte
	for _, m := range a.snapshot()[from : idx+1] {
		if hasOp(opID)(m) {
			out = append(out, m)
		}
	}
	return out, true
}

// split turns API messages into handed-over records and other texts.
func splitAPI(msgs [][]byte, opID string) (recs []obsRec, texts [][]byte) {
	for _, m := range msgs {
		if k, ok := apiRecordKey(m, opID); ok {
			recs = append(recs, obsRec{Key: k, Bytes: [][]byte{m}})
		} else {
			texts = append(texts, m)
		}
	}
	return
}

func apiErr(reply []byte, opID string) error {
	if isType(opID, "success")(reply) {
		return nil
	}
	s := string(reply)
	if strings.Contains(s, database.ErrPermissionDenied.Error()) {
		return fmt.Errorf("%w (api reply %q)", database.ErrPermissionDenied, clip(s))
	}
	return errors.New("api reply: " + clip(s))
}

func (x *exec) runAPI() {
	w := x.w
	c := x.c
	a := newAPIConn(w)
	if c.Obs == "ws" {
		var err error
		if a, err = w.newWSConn(); err != nil {
			w.b.Inconclusive("cell %s: cannot connect to the websocket endpoint: %v", c.sig(), err)
			return
		}
		defer a.ws.Close()
	}
	qtext := "query " + w.db + ":" + x.prefix
	path := c.Path
	switch {
	case path == "api-xget":
		path = "api-get"
	case path == "api-xquery-exact":
		msgsC, ok1 := a.query("2c", "query "+x.ctl)
		msgs, ok2 := a.query("2", "query "+x.key)
		if !ok1 || !ok2 {
			w.b.Inconclusive("cell %s: API query did not finish (watchdog)", c.sig())
			return
		}
		recsC, textsC := splitAPI(msgsC, "2c")
		_, ctlSeen, _ := x.hand(recsC, textsC...)
		recs, texts := splitAPI(msgs, "2")
		seen, _, tb := x.hand(recs, texts...)
		x.readOutcome(seen && strings.Contains(string(tb), x.tok), nil, true, ctlSeen)
		return
	case strings.Contains(path, "-alias-"), strings.HasSuffix(path, "-getfault"):
		verb := "update"
		if strings.HasPrefix(path, "api-create") {
			verb = "create"
		}
		send := func(r record.Record) error {
			reply, ok := a.request("6", verb+"|"+r.Key()+"|J"+recData(r))
			if !ok {
				return errors.New("no API reply (watchdog)")
			}
			recs, texts := splitAPI([][]byte{reply}, "6")
			x.hand(recs, texts...)
			return apiErr(reply, "6")
		}
		if strings.HasSuffix(path, "-getfault") {
			x.runGetFaultWrite(send)
		} else {
			x.runAliasWrite(verb == "create", path[strings.LastIndex(path, "-")+1:], func(r record.Record, _ bool) error { return send(r) })
		}
		return
	}
	switch path {
	case "api-get":
		reply, ok := a.request("1", "get|"+x.key)
		if !ok {
			w.b.Inconclusive("cell %s: no API reply (watchdog)", c.sig())
			return
		}
		recs, texts := splitAPI([][]byte{reply}, "1")
		seen, _, tb := x.hand(recs, texts...)
		x.readOutcome(seen && strings.Contains(string(tb), x.tok), apiErr(reply, "1"), false, false)

	case "api-query":
		msgs, ok := a.query("2", qtext)
		if !ok {
			w.b.Inconclusive("cell %s: API query did not finish (watchdog)", c.sig())
			return
		}
		recs, texts := splitAPI(msgs, "2")
		seen, ctlSeen, tb := x.hand(recs, texts...)
		x.readOutcome(seen && strings.Contains(string(tb), x.tok), nil, true, ctlSeen)

	case "api-sub", "api-qsub":
		op := "3"
		from := 0
		foundQ := true
		if c.Path == "api-sub" {
			a.send(op + "|sub|" + qtext)
			// there is no acknowledgement for sub: write the control record until
			// one of the writes is delivered
			active := false
			for n := 0; n < 2000 && !active; n++ {
				pt, err := w.privPut(x.ctl, 0, "meta", c.K)
				if err != nil {
					w.b.Inconclusive("cell %s: control write failed: %v", c.sig(), err)
					return
				}
				_, active = a.wait(0, hasTok(pt), 30*time.Millisecond)
			}
			if !active {
				w.b.Inconclusive("cell %s: API subscription never delivered the control record (watchdog)", c.sig())
				return
			}
		} else {
			op = "4"
			a.send(op + "|qsub|" + qtext)
			idx, ok := a.wait(0, isType(op, "done", "error"), apiWatchdog)
			if !ok {
				w.b.Inconclusive("cell %s: API qsub query part did not finish (watchdog)", c.sig())
				return
			}
			qmsgs := a.snapshot()[:idx+1]
			recs, texts := splitAPI(qmsgs, op)
			seen, ctlSeen, tb := x.hand(recs, texts...)
			if !ctlSeen {
				w.b.Inconclusive("cell %s: API qsub query part did not list the control record", c.sig())
				return
			}
			foundQ = seen && strings.Contains(string(tb), x.tok)
			from = idx + 1
		}
		how := c.H
		if how == "call" {
			how = "meta"
		}
		want, aerr := w.privPut(x.key, c.F, how, c.K)
		pt, cerr := w.privPut(x.ctl, 0, "meta", c.K)
		if aerr != nil || cerr != nil {
			w.b.Inconclusive("cell %s: privileged update failed: %v / %v", c.sig(), aerr, cerr)
			return
		}
		// the feed is FIFO and served by one goroutine: once the control write
		// arrived, everything pushed before it has been sent
		idx, ok := a.wait(from, hasTok(pt), apiWatchdog)
		if !ok {
			w.b.Inconclusive("cell %s: API subscription did not deliver the control write (watchdog)", c.sig())
			return
		}
		recs, texts := splitAPI(a.snapshot()[from:idx+1], op)
		seen, _, tb := x.hand(recs, texts...)
		a.send(op + "|cancel")
		_, _ = a.wait(idx, isType(op, "done"), 5*time.Second)
		x.readOutcome(foundQ && seen && strings.Contains(string(tb), want), nil, false, false)

	case "api-create", "api-update", "api-insert", "api-delete":
		ot := x.ownTok(0)
		var opID, rest string
		var effect func(a snap) bool = func(a snap) bool { return strings.Contains(a.Data, ot) }
		switch c.Path {
		case "api-create":
			opID, rest = "5", "create|"+x.key+`|J{"Name":"`+ot+`","Score":7}`
		case "api-update":
			opID, rest = "6", "update|"+x.key+`|J{"Name":"`+ot+`","Score":7}`
		case "api-insert":
			w.toks[ot].Flags = c.F // stays in the record with its flags
			opID, rest = "7", "insert|"+x.key+`|{"Name":"`+ot+`"}`
		case "api-delete":
			opID, rest = "8", "delete|"+x.key
			effect = func(a snap) bool { return !a.Exists }
		}
		reply, ok := a.request(opID, rest)
		if !ok {
			w.b.Inconclusive("cell %s: no API reply (watchdog)", c.sig())
			return
		}
		recs, texts := splitAPI([][]byte{reply}, opID)
		x.hand(recs, texts...)
		x.writeOutcome(apiErr(reply, opID), true, false, effect)
	}
}
