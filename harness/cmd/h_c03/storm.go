package main

import (
	"fmt"
	"strings"
	"sync"
	"sync/atomic"

	"github.com/safing/portbase/database"
	"github.com/safing/portbase/database/record"
	"github.com/safing/portbase/formats/dsd"
)

// Part "storm": concurrency. Privileged writer goroutines store flagged records with
// large data sections while other goroutines store small unflagged records (into the
// same database and into a second, fast marshalling database), for a fixed number
// of rounds. Every flagged write is read back by its writer (privileged interface,
// flags by reflection); a key whose stored flags differ from what was written is
// frozen. At quiescence every flagged key is read back again and every one of them
// is probed through the non-privileged observers (get, query, API get, insert) with
// the oracles of the table: the expectation is the flag set the writer marked.
// hashmap (no marshalling) runs as control.

type stormKey struct {
	g, j   int
	key    string
	flags  int
	tok    string // token of the last write
	frozen bool   // read-back showed other flags than written
}

func stormDims(sp spec) (writers, keysPer, rounds, size int) {
	writers, keysPer, rounds, size = 24, 2, 10, 1<<20
	if sp.Backend == "bbolt" {
		rounds = 6 // every write is an fsynced transaction
	}
	if sp.thorough() {
		writers, rounds = 32, 2*rounds // (badger keeps every version in its value log: the volume is bounded by disk, not time)
	}
	return
}

var stormObservers = []string{"--", "L-", "-I"}
var stormPaths = []string{"get", "query", "insert"}

func stormProbes(sp spec) int {
	w, k, _, _ := stormDims(sp)
	return w * k * (len(stormObservers)*len(stormPaths) + 1)
}

func bigRec(key, tok string, flags int, pad string) record.Record {
	r, _ := record.NewWrapper(key, nil, dsd.JSON, []byte(`{"Name":"`+tok+`","Score":7,"Pad":"`+pad+`"}`))
	r.CreateMeta()
	if flags&flagSecret != 0 {
		r.Meta().MakeSecret()
	}
	if flags&flagCrown != 0 {
		r.Meta().MakeCrownJewel()
	}
	return r
}

func (w *world) runStorm() {
	writers, keysPer, rounds, size := stormDims(w.sp)
	pad := strings.Repeat("p", size)
	noiseDB := "c03noise"
	if _, err := database.Register(&database.Database{Name: noiseDB, Description: "C03 storm noise", StorageType: "badger"}); err != nil {
		w.b.Inconclusive("storm %s: cannot register noise database: %v", w.sp.name(), err)
		return
	}
	// keys and tokens are fixed before the goroutines start (the token table is not
	// written concurrently)
	keys := make([][]*stormKey, writers)
	toks := make([][][]string, writers)
	for g := 0; g < writers; g++ {
		f := 1 + g%3
		for j := 0; j < keysPer; j++ {
			k := &stormKey{g: g, j: j, key: fmt.Sprintf("%s:s/%d/%d", w.db, g, j), flags: f}
			keys[g] = append(keys[g], k)
			var ts []string
			for r := 0; r < rounds; r++ {
				ts = append(ts, w.newTok(k.key, f, "priv"))
			}
			toks[g] = append(toks[g], ts)
		}
	}
	var stop atomic.Bool
	var wg, noise sync.WaitGroup
	var nWrites, nNoise, nErr, nHits atomic.Int64
	for g := 0; g < writers; g++ {
		wg.Add(1)
		go func(g int) {
			defer wg.Done()
			iface := database.NewInterface(&database.Options{Local: true, Internal: true})
			for r := 0; r < rounds; r++ {
				for j, k := range keys[g] {
					if k.frozen {
						continue
					}
					tok := toks[g][j][r]
					if err := iface.Put(bigRec(k.key, tok, k.flags, pad)); err != nil {
						nErr.Add(1)
						continue
					}
					k.tok = tok
					nWrites.Add(1)
					// privileged read-back by the writer
					rec, err := iface.Get(k.key)
					if err != nil {
						nErr.Add(1)
						continue
					}
					rec.Lock()
					f := metaFlags(rec.Meta())
					rec.Unlock()
					if f != k.flags {
						k.frozen = true
						nHits.Add(1)
					}
				}
			}
		}(g)
		noise.Add(1)
		go func(g int) {
			defer noise.Done()
			iface := database.NewInterface(&database.Options{Local: true, Internal: true})
			for n := 0; !stop.Load(); n++ {
				db := noiseDB
				if n%8 == 0 {
					db = w.db
				}
				r, _ := record.NewWrapper(fmt.Sprintf("%s:u/%d/%d", db, g, n%16), nil, dsd.JSON, []byte(`{"Name":"public","Score":1}`))
				if err := iface.Put(r); err == nil {
					nNoise.Add(1)
				}
			}
		}(g)
	}
	wg.Wait()
	stop.Store(true)
	noise.Wait()
	w.b.Count("storm_flagged_writes", nWrites.Load())
	w.b.Count("storm_unflagged_writes", nNoise.Load())
	w.b.Count("storm_write_errors", nErr.Load())
	w.b.Count("storm_readback_flags_differ", nHits.Load())
	w.b.Max("storm_writer_goroutines", int64(2*writers))
	w.b.Max("storm_record_bytes", int64(size))
	if nWrites.Load() == 0 {
		w.b.Inconclusive("storm %s: no flagged write succeeded", w.sp.name())
	}

	// quiescent check
	for g := 0; g < writers; g++ {
		prefix := fmt.Sprintf("s/%d/", g)
		ctl := w.db + ":" + prefix + "ctl"
		if _, err := w.privPut(ctl, 0, "meta", "wrapped"); err != nil {
			w.b.Inconclusive("storm %s: control write failed: %v", w.sp.name(), err)
		}
		for _, k := range keys[g] {
			first := true
			probe := func(obs, path string) {
				c := cell{Part: "storm", Backend: w.backend, F: k.flags, H: "concurrent-put", K: "wrapped", Obs: obs, Path: path}
				w.b.Eval(1)
				w.b.Count("cells_storm", 1)
				w.b.DistinctS(fmt.Sprintf("%s/%d/%d", c.sig(), k.g, k.j))
				x := &exec{w: w, c: c, key: k.key, ctl: ctl, prefix: prefix, tok: k.tok}
				x.l, x.i = c.priv()
				x.perm = permitted(x.l, x.i, k.flags)
				x.s0 = w.audit(k.key)
				if k.tok == "" || !x.s0.Exists || (first && !strings.Contains(x.s0.Data, k.tok)) {
					w.b.Inconclusive("cell %s: flagged record not readable after the storm (%v)", c.sig(), x.s0.Err)
					return
				}
				first = false
				// an earlier permitted probe may have written its own payload
				x.tok = tokRe.FindString(x.s0.Data)
				for _, t := range tokRe.FindAllString(x.s0.Data, -1) {
					if v := w.toks[t]; v != nil {
						v.Flags = k.flags
					}
				}
				if x.s0.Flags != k.flags {
					w.b.Count("stored_flags_differ_from_written", 1)
				}
				if obs == "api" {
					x.runAPI()
				} else {
					x.runIface(x.newObserver())
				}
				if x.decided {
					w.b.Count("cells_decided", 1)
				}
			}
			for _, obs := range stormObservers {
				for _, p := range stormPaths {
					probe(obs, p)
				}
			}
			probe("api", "api-get")
		}
	}
	w.b.Sample(map[string]any{"storm": w.sp.name(), "flagged_writes": nWrites.Load(), "unflagged_writes": nNoise.Load(),
		"writer_goroutines": 2 * writers, "record_bytes": size, "readback_flags_differ": nHits.Load()})
}
