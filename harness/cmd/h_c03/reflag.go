package main

import (
	"fmt"
	"strings"

	"github.com/safing/portbase/database"
)

// Part "reflag": the observer first reads the record while it is unflagged (which
// it may; with a read cache the copy stays in the observer's cache), then the
// privileged side marks the record secret / crown jewel and writes a new payload
// generation, then the observer operates on the key again. The new generation must
// never reach a refused observer and refused writes must leave the record alone —
// with and without the cache.

func reflagOps(be string) []string {
	p := []string{"get", "exists", "query", "insert", "setabs", "setrel", "mksecret", "mkcrown", "put", "putnew"}
	if isDeleter(be) {
		p = append(p, "delete")
	}
	return p
}

func reflagCells(sp spec) []cell {
	var out []cell
	for f := 1; f < 4; f++ {
		for _, obs := range observers {
			for _, cache := range []bool{false, true} {
				for _, how := range []string{"call", "put"} {
					for _, op := range reflagOps(sp.Backend) {
						out = append(out, cell{Part: "reflag", Backend: sp.Backend, Shadow: sp.Shadow, F: f, H: how, Obs: obs, Cache: cache, Path: op})
					}
				}
			}
		}
	}
	return out
}

func (w *world) runReflag() {
	for _, c := range reflagCells(w.sp) {
		c.K = []string{"wrapped", "struct"}[w.rng.Intn(2)]
		if w.sp.Only != "" && c.coord()+"/"+c.H != w.sp.Only && c.coord() != w.sp.Only {
			continue
		}
		w.runReflagCell(c)
	}
}

func (w *world) runReflagCell(c cell) {
	w.b.Eval(1)
	w.b.Count("cells_reflag", 1)
	w.b.DistinctS(c.sig())
	w.b.Seen("reflag_ops", c.Path)
	id := w.nextCell
	w.nextCell++
	x := &exec{w: w, c: c}
	x.prefix = fmt.Sprintf("c/%d/", id)
	x.key = w.db + ":" + x.prefix + "k"
	x.ctl = w.db + ":" + x.prefix + "ctl"
	x.l, x.i = c.priv()
	x.perm = permitted(x.l, x.i, c.F)

	// 1. unflagged record, legitimately read by the observer
	tok1, err := w.privPut(x.key, 0, "meta", c.K)
	if err == nil {
		_, err = w.privPut(x.ctl, 0, "meta", c.K)
	}
	if err != nil {
		w.b.Inconclusive("cell %s: privileged setup failed: %v", c.sig(), err)
		return
	}
	o := database.NewInterface(&database.Options{Local: x.l, Internal: x.i, CacheSize: cacheSize(c.Cache)})
	r, err := o.Get(x.key)
	if err != nil || r == nil {
		w.b.Violation(vsig("permitted-refused", "get", w.backend, "", ""),
			fmt.Sprintf("an observer with Local=%v Internal=%v could not read an unflagged record", x.l, x.i),
			map[string]any{"child": w.sp, "cell": c.coord(), "error": fmt.Sprint(err)})
		return
	}
	first := observe(r)
	x.stale = tok1
	x.tok = tok1
	x.hand([]obsRec{{Key: "", Bytes: first.Bytes}}) // token scan only; tok1 is unflagged

	// 2. the privileged side flags the record and writes a new generation
	var tok2 string
	if c.H == "put" {
		tok2, err = w.privPut(x.key, c.F, "meta", c.K)
	} else {
		switch c.F {
		case flagSecret:
			err = w.W.MakeSecret(x.key)
		case flagCrown:
			err = w.W.MakeCrownJewel(x.key)
		default:
			err = w.Wf[c.F].MakeSecret(x.key)
		}
		if err == nil {
			tok2 = w.newTok(x.key, c.F, "priv")
			err = w.W.InsertValue(x.key, "Name", tok2)
		}
	}
	x.tok = tok2
	x.s0 = w.audit(x.key)
	if err != nil || !x.s0.Exists || x.s0.Flags != c.F || !strings.Contains(x.s0.Data, tok2) {
		w.b.Inconclusive("cell %s: privileged re-flag failed (err=%v, read-back %+v)", c.sig(), err, x.s0)
		return
	}

	// 3. the observer comes back
	x.runIface(o)
	if x.decided {
		w.b.Count("cells_decided", 1)
	}
	if w.samples < 1 && x.decided && !x.perm {
		w.samples++
		w.b.Sample(map[string]any{"cell": c, "permitted": x.perm, "first_read": string(bytesJoin(first.Bytes[1:])), "target_after": w.audit(x.key)})
	}
}
