package main

import (
	"fmt"
	"strings"
	"time"

	"github.com/safing/portbase/database"
)

// Part "hist": PRNG-generated histories. Observer interfaces (and one API connection)
// live for the whole history, so read caches persist across flag changes. The state
// of every record is taken from the privileged read-back before and after every
// operation (nothing is predicted), the oracles are the same as in the table:
// no record of a currently refused key is handed over (except the observer's own
// outdated cached copy), no token the observer has never legitimately seen and may
// not see appears in any byte string, refused writes fail and change nothing.

type hobs struct {
	name    string
	l, i    bool
	cache   bool
	iface   *database.Interface
	api     *apiConn
	seen    map[string]bool // tokens this observer legitimately knows
	touched map[string]bool // keys that may sit in its read cache
}

type hist struct {
	w      *world
	keys   []string
	kinds  []string
	obs    []*hobs
	script []string
	opID   int
}

func (w *world) runHist() {
	h := &hist{w: w}
	for k := 0; k < 6; k++ {
		h.keys = append(h.keys, fmt.Sprintf("%s:c/h/%d", w.db, k))
		h.kinds = append(h.kinds, []string{"wrapped", "struct"}[w.rng.Intn(2)])
	}
	for _, o := range observers {
		for _, cache := range []bool{false, true} {
			ho := &hobs{name: fmt.Sprintf("%s/%v", o, cache), l: o[0] == 'L', i: o[1] == 'I', cache: cache, seen: map[string]bool{}, touched: map[string]bool{}}
			ho.iface = database.NewInterface(&database.Options{Local: ho.l, Internal: ho.i, CacheSize: cacheSize(cache)})
			h.obs = append(h.obs, ho)
		}
	}
	// non-privileged observers carrying Always* options
	for n, oo := range []struct{ o, opt string }{{"--", "S"}, {"--", "C"}, {"L-", "S"}, {"-I", "C"}, {"--", "SC+rel+abs"}} {
		ho := &hobs{name: oo.o + "/always:" + oo.opt, l: oo.o[0] == 'L', i: oo.o[1] == 'I', cache: n%2 == 1, seen: map[string]bool{}, touched: map[string]bool{}}
		opts := &database.Options{Local: ho.l, Internal: ho.i, CacheSize: cacheSize(ho.cache)}
		applyObserverOptions(opts, oo.opt)
		ho.iface = database.NewInterface(opts)
		h.obs = append(h.obs, ho)
	}
	h.obs = append(h.obs, &hobs{name: "api", api: newAPIConn(w), seen: map[string]bool{}, touched: map[string]bool{}})

	steps := 250
	if w.sp.thorough() {
		steps = 1200
	}
	for s := 0; s < steps; s++ {
		k := w.rng.Intn(len(h.keys))
		if s < len(h.keys) {
			h.privStep(s, "put") // every key exists early
		} else if w.rng.Chance(35, 100) {
			h.privStep(k, "")
		} else {
			h.obsStep(k)
		}
	}
	w.b.Eval(1)
	w.b.Count("hist_histories", 1)
	w.b.Count("hist_ops", int64(len(h.script)))
	w.b.DistinctS("hist/" + w.sp.name() + "/" + strings.Join(h.script, ";"))
	if w.sp.Shard == 0 {
		n := len(h.script)
		if n > 25 {
			n = 25
		}
		w.b.Sample(map[string]any{"history": w.sp.name(), "first_steps": h.script[:n], "steps": len(h.script)})
	}
}

func (h *hist) log(format string, a ...any) {
	h.script = append(h.script, fmt.Sprintf(format, a...))
}

func (h *hist) tail() []string {
	n := len(h.script)
	if n > 120 {
		return h.script[n-120:]
	}
	return h.script
}

func (h *hist) privStep(k int, op string) {
	w := h.w
	key := h.keys[k]
	before := w.audit(key)
	if op == "" {
		ops := []string{"put", "put", "insert", "flag-insert", "flag-insert"}
		if w.deleter() {
			ops = append(ops, "delete")
		}
		op = ops[w.rng.Intn(len(ops))]
		if !before.Exists {
			op = "put"
		}
	}
	var err error
	switch op {
	case "put":
		f := w.rng.Intn(4)
		how := []string{"meta", "opts"}[w.rng.Intn(2)]
		_, err = w.privPut(key, f, how, h.kinds[k])
		h.log("P put k%d %s %s", k, flagNames[f], how)
	case "insert":
		t := w.newTok(key, before.Flags, "priv")
		err = w.W.InsertValue(key, "Name", t)
		h.log("P insert k%d", k)
	case "flag-insert":
		// flags and a new payload generation in one write
		f := 1 + w.rng.Intn(3)
		t := w.newTok(key, before.Flags|f, "priv")
		err = w.Wf[f].InsertValue(key, "Name", t)
		h.log("P flag-insert k%d +%s", k, flagNames[f])
	case "delete":
		err = w.W.Delete(key)
		h.log("P delete k%d", k)
	}
	if err != nil {
		w.b.Count("hist_priv_errors", 1)
	}
	w.retag(w.audit(key))
	w.b.Count("hist_priv_ops", 1)
}

// handed judges records handed to an observer during a history.
func (h *hist) handed(o *hobs, path string, recs []obsRec, texts ...[]byte) {
	w := h.w
	det := func() map[string]any {
		return map[string]any{"child": w.sp, "observer": o.name, "last_steps": h.tail()}
	}
	for _, r := range recs {
		cur := w.audit(r.Key)
		toks := tokRe.FindAllString(string(bytesJoin(r.Bytes)), -1)
		if cur.Exists && !permitted(o.l, o.i, cur.Flags) {
			// An observer with a read cache may be served its own outdated copy
			// (documented cache behaviour; with the live objects of hashmap and
			// injected storages the copy may even have been updated in place while
			// it was unflagged). It is a leak only if the copy carries a payload
			// generation that was refused to this observer and that it did not
			// legitimately know before.
			known := true
			for _, t := range toks {
				if v := w.toks[t]; v != nil && !o.seen[t] && !permitted(o.l, o.i, v.Flags) {
					known = false
				}
			}
			if o.cache && o.touched[r.Key] && known {
				w.b.Count("stale_cache_reads", 1)
			} else {
				d := det()
				d["key"] = r.Key
				d["record_now"] = cur
				d["handed"] = string(bytesJoin(r.Bytes))
				ht := map[string]any{}
				for _, t := range toks {
					ht[t] = map[string]any{"version": w.toks[t], "known_to_observer": o.seen[t]}
				}
				d["handed_tokens"] = ht
				d["key_may_be_cached"] = o.touched[r.Key]
				w.b.Violation(vsig("returned", path, w.backend, "", clause(o.l, o.i, cur.Flags)),
					fmt.Sprintf("a %s record was handed to observer %s through %s in a history", flagNames[cur.Flags], o.name, path), d)
			}
		}
		w.scanFor(o.l, o.i, path, "", func(t string) bool { return o.seen[t] }, det, r.Bytes...)
		for _, t := range toks {
			o.seen[t] = true
		}
	}
	w.scanFor(o.l, o.i, path, "", func(t string) bool { return o.seen[t] }, det, texts...)
}

func (h *hist) obsStep(k int) {
	w := h.w
	o := h.obs[w.rng.Intn(len(h.obs))]
	key := h.keys[k]
	s0 := w.audit(key)
	refused := s0.Exists && !permitted(o.l, o.i, s0.Flags)
	var ops []string
	if o.api != nil {
		ops = []string{"api-get", "api-query", "api-update", "api-create", "api-insert"}
		if w.deleter() {
			ops = append(ops, "api-delete")
		}
	} else {
		ops = []string{"get", "get", "exists", "query", "insert", "put", "putnew", "mksecret", "mkcrown", "setabs"}
		if w.deleter() {
			ops = append(ops, "delete")
		}
	}
	op := ops[w.rng.Intn(len(ops))]
	h.log("%s %s k%d", o.name, op, k)
	w.b.Count("hist_obs_ops", 1)
	w.b.Seen("hist_ops_seen", op)
	if refused {
		w.b.Count("hist_ops_on_refused_records", 1)
	}

	var err error
	isWrite := true
	own := func() string {
		t := w.newTok(key, 0, "observer")
		o.seen[t] = true
		return t
	}
	switch op {
	case "get":
		isWrite = false
		r, gerr := o.iface.Get(key)
		err = gerr
		var recs []obsRec
		if r != nil {
			recs = append(recs, observe(r))
		}
		h.handed(o, op, recs, errText(err))
	case "exists":
		isWrite = false
		_, err = o.iface.Exists(key)
		h.handed(o, op, nil, errText(err))
	case "query":
		isWrite = false
		it, qerr := o.iface.Query(prefixQuery(w.db, "c/h/"))
		err = qerr
		if qerr == nil {
			recs, e2 := drainQuery(it, it.Next)
			err = e2
			h.handed(o, op, recs, errText(e2))
		}
	case "insert":
		err = o.iface.InsertValue(key, "Name", own())
	case "put":
		err = o.iface.Put(newRec(key, own(), h.kinds[k]))
	case "putnew":
		err = o.iface.PutNew(newRec(key, own(), h.kinds[k]))
	case "mksecret":
		err = o.iface.MakeSecret(key)
	case "mkcrown":
		err = o.iface.MakeCrownJewel(key)
	case "setabs":
		err = o.iface.SetAbsoluteExpiry(key, time.Now().Unix()+farFuture)
	case "delete":
		err = o.iface.Delete(key)
	case "api-get":
		isWrite = false
		h.opID++
		id := fmt.Sprintf("g%d", h.opID)
		reply, ok := o.api.request(id, "get|"+key)
		if !ok {
			w.b.Inconclusive("history %s: no API reply (watchdog)", w.sp.name())
			return
		}
		recs, texts := splitAPI([][]byte{reply}, id)
		h.handed(o, op, recs, texts...)
	case "api-query":
		isWrite = false
		h.opID++
		id := fmt.Sprintf("q%d", h.opID)
		msgs, ok := o.api.query(id, "query "+w.db+":c/h/")
		if !ok {
			w.b.Inconclusive("history %s: API query did not finish (watchdog)", w.sp.name())
			return
		}
		recs, texts := splitAPI(msgs, id)
		h.handed(o, op, recs, texts...)
	case "api-update", "api-create", "api-insert", "api-delete":
		h.opID++
		id := fmt.Sprintf("w%d", h.opID)
		var rest string
		switch op {
		case "api-update":
			rest = "update|" + key + `|J{"Name":"` + own() + `","Score":7}`
		case "api-create":
			rest = "create|" + key + `|J{"Name":"` + own() + `","Score":7}`
		case "api-insert":
			rest = "insert|" + key + `|{"Name":"` + own() + `"}`
		case "api-delete":
			rest = "delete|" + key
		}
		reply, ok := o.api.request(id, rest)
		if !ok {
			w.b.Inconclusive("history %s: no API reply (watchdog)", w.sp.name())
			return
		}
		recs, texts := splitAPI([][]byte{reply}, id)
		h.handed(o, op, recs, texts...)
		err = apiErr(reply, id)
	}
	if isWrite {
		if o.api == nil {
			h.handed(o, op, nil, errText(err))
		}
		after := w.audit(key)
		if refused {
			stale := o.cache && o.touched[key]
			det := map[string]any{"child": w.sp, "observer": o.name, "key": key, "target_before": s0, "target_after": after, "error": fmt.Sprint(err), "last_steps": h.tail()}
			ok := true
			cl := clause(o.l, o.i, s0.Flags)
			if stale {
				cl = ""
			}
			if err == nil {
				ok = false
				w.b.Violation(vsig("write-accepted", op, w.backend, staleClass(stale), cl),
					fmt.Sprintf("%s on a %s record through observer %s returned no error in a history", op, flagNames[s0.Flags], o.name), det)
			} else if after != s0 {
				ok = false
				w.b.Violation(vsig("state-changed", op, w.backend, staleClass(stale), cl),
					fmt.Sprintf("%s on a %s record through observer %s changed the record in a history", op, flagNames[s0.Flags], o.name), det)
			}
			if ok {
				w.b.Count("hist_refused_writes_ok", 1)
			}
		}
		w.retag(after)
	}
	if err == nil && !refused {
		// a successful permitted operation lets the interface fetch (and, with a
		// cache, keep) the record as it was: these generations are legitimately known
		for _, t := range tokRe.FindAllString(s0.Data, -1) {
			o.seen[t] = true
		}
		for _, t := range tokRe.FindAllString(w.audit(key).Data, -1) {
			o.seen[t] = true
		}
	}
	if err == nil && o.cache {
		o.touched[key] = true
	}
	if err == nil {
		w.b.Count("hist_obs_ops_succeeded", 1)
	}
}

func staleClass(stale bool) string {
	if stale {
		return "stale-cache"
	}
	return ""
}
