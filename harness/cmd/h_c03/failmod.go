package main

import (
	"fmt"
	"strings"
	"time"

	"github.com/safing/portbase/database"
)

// Part "failmod": a privileged interface tries to change the metadata of a flagged
// record (expiry, flags, delete) and the write FAILS at the Put step — a PrePut hook
// rejects it, or the record lives in a read-only provider of the injected runtime
// database. The failed attempt must not make the record reachable: afterwards every
// observer path is exercised again with the usual oracles (the expectation is the flag
// set the privileged side wrote, not what the read-back now says). With a cached
// privileged actor the failed attempt is followed by a successful payload update
// through the same interface, which would persist a damaged cached copy.

var failMods = []string{"setabs", "setrel", "mksecret", "mkcrown", "delete"}

type failScenario struct {
	F     int
	Mech  string // hook | readonly
	Mod   string
	Actor string // plain | cached
}

func failScenarios(sp spec) []failScenario {
	mechs := []string{"hook"}
	if sp.Backend == "runtime" {
		mechs = append(mechs, "readonly")
	}
	var out []failScenario
	for f := 1; f < 4; f++ {
		for _, m := range mechs {
			for _, mod := range failMods {
				for _, a := range []string{"plain", "cached"} {
					out = append(out, failScenario{F: f, Mech: m, Mod: mod, Actor: a})
				}
			}
		}
	}
	return out
}

// failProbes lists the observer probes run after one failed modifier.
func failProbes(sp spec, sc failScenario) []cell {
	var out []cell
	h := sc.Mech + "/" + sc.Mod + "/" + sc.Actor
	mk := func(obs string, cache bool, path string) {
		out = append(out, cell{Part: "failmod", Backend: sp.Backend, Shadow: sp.Shadow, F: sc.F, H: h, Obs: obs, Cache: cache, Path: path})
	}
	sub := "sub-insert"
	if sc.Mech == "readonly" {
		sub = "sub-push" // nobody can write through the database; the provider announces
	}
	nonPriv := []string{"--", "L-", "-I"}
	for _, obs := range nonPriv {
		for _, cache := range []bool{false, true} {
			mk(obs, cache, "get")
			mk(obs, cache, "query")
			mk(obs, cache, sub)
		}
	}
	mk("api", false, "api-get")
	mk("api", false, "api-query")
	// destructive probes last, and only by observers that must be refused
	if sc.Mech == "hook" && isDeleter(sp.Backend) {
		for _, obs := range nonPriv {
			if !permitted(obs[0] == 'L', obs[1] == 'I', sc.F) {
				mk(obs, false, "delete")
			}
		}
	}
	return out
}

func failmodCells(sp spec) int {
	n := 0
	for _, sc := range failScenarios(sp) {
		n += len(failProbes(sp, sc))
	}
	return n
}

func (w *world) runFailmod() {
	for _, sc := range failScenarios(w.sp) {
		w.runFailScenario(sc)
	}
}

func (w *world) runFailScenario(sc failScenario) {
	probes := failProbes(w.sp, sc)
	if w.sp.Only != "" {
		keep := false
		for _, p := range probes {
			if p.coord() == w.sp.Only {
				keep = true
			}
		}
		if !keep {
			return
		}
	}
	kind := []string{"wrapped", "struct"}[w.rng.Intn(2)]
	id := w.nextCell
	w.nextCell++
	root := "c/"
	if sc.Mech == "readonly" {
		root = "ro/"
	}
	prefix := fmt.Sprintf("%s%d/", root, id)
	key := w.db + ":" + prefix + "k"
	ctl := w.db + ":" + prefix + "ctl"
	name := fmt.Sprintf("failmod/%s/%v/%s/%s/%s/%s", w.backend, w.sp.Shadow, flagNames[sc.F], sc.Mech, sc.Mod, sc.Actor)
	skip := func(format string, a ...any) {
		w.b.Inconclusive("scenario %s: "+format, append([]any{name}, a...)...)
		// the probes of this scenario stay undecided
		w.b.Count("cells_failmod", int64(len(probes)))
	}

	tok, err := w.privPut(key, sc.F, "meta", kind)
	if err == nil {
		_, err = w.privPut(ctl, 0, "meta", kind)
	}
	s0 := w.audit(key)
	if err != nil || !s0.Exists || s0.Flags != sc.F || !strings.Contains(s0.Data, tok) {
		skip("privileged setup failed (err=%v, read-back %+v)", err, s0)
		return
	}
	actor := w.W
	if sc.Actor == "cached" {
		actor = database.NewInterface(&database.Options{Local: true, Internal: true, CacheSize: 256})
		if _, err := actor.Get(key); err != nil {
			skip("cached privileged actor cannot read: %v", err)
			return
		}
	}
	if sc.Mech == "hook" {
		w.veto.set(key, true)
	}
	var merr error
	switch sc.Mod {
	case "setabs":
		merr = actor.SetAbsoluteExpiry(key, time.Now().Unix()+farFuture)
	case "setrel":
		merr = actor.SetRelativateExpiry(key, farFuture)
	case "mksecret":
		merr = actor.MakeSecret(key)
	case "mkcrown":
		merr = actor.MakeCrownJewel(key)
	case "delete":
		merr = actor.Delete(key)
	}
	if sc.Mech == "hook" {
		w.veto.set(key, false)
	}
	if merr == nil {
		skip("the modifier was expected to fail but returned no error")
		return
	}
	w.b.Count("failed_privileged_modifiers", 1)
	w.b.Seen("failed_modifier_kinds", sc.Mech+"/"+sc.Mod)
	if sc.Actor == "cached" && sc.Mech == "hook" {
		// a later successful write through the same interface (served from its cache)
		t2 := w.newTok(key, sc.F, "priv")
		if err := actor.InsertValue(key, "Name", t2); err != nil {
			skip("follow-up write of the cached privileged actor failed: %v", err)
			return
		}
	}
	if now := w.audit(key); now.Exists && now.Flags != sc.F {
		// not a verdict by itself (no observer was involved yet), but worth showing
		w.b.Count("failmod_readback_flags_changed", 1)
	}

	deleteProbed := false
	for _, c := range probes {
		c.K = kind
		w.b.Eval(1)
		w.b.Count("cells_failmod", 1)
		w.b.DistinctS(c.sig())
		w.b.Seen("failmod_paths", c.Path)
		x := &exec{w: w, c: c, key: key, ctl: ctl, prefix: prefix}
		x.l, x.i = c.priv()
		x.perm = permitted(x.l, x.i, sc.F)
		x.s0 = w.audit(key)
		x.tok = tokRe.FindString(x.s0.Data)
		if !x.s0.Exists || x.tok == "" {
			if deleteProbed {
				// an earlier refused-observer delete was (wrongly) accepted and
				// has been reported; nothing is left to probe
				w.b.Count("failmod_probes_after_accepted_delete", 1)
			} else {
				w.b.Inconclusive("cell %s: record is gone before the probe (%+v)", c.sig(), x.s0)
			}
			continue
		}
		if c.Path == "delete" {
			deleteProbed = true
		}
		// the tokens in the record are what the privileged side wrote with flags F
		for _, t := range tokRe.FindAllString(x.s0.Data, -1) {
			if v := w.toks[t]; v != nil {
				v.Flags = sc.F
			}
		}
		if c.Obs == "api" {
			x.runAPI()
		} else {
			x.runIface(x.newObserver())
		}
		if x.decided {
			w.b.Count("cells_decided", 1)
		}
	}
}
