package main

import (
	"encoding/hex"
	"encoding/json"
	"errors"
	"fmt"
	"net/http/httptest"
	"path/filepath"
	"reflect"
	"regexp"
	"sort"
	"strings"
	"sync"

	"github.com/safing/portbase/database"
	"github.com/safing/portbase/database/query"
	"github.com/safing/portbase/database/record"
	_ "github.com/safing/portbase/database/storage/badger"
	_ "github.com/safing/portbase/database/storage/bbolt"
	_ "github.com/safing/portbase/database/storage/fstree"
	_ "github.com/safing/portbase/database/storage/hashmap"
	"github.com/safing/portbase/formats/dsd"
	"github.com/safing/portbase/runtime"

	"verifharness/internal/vlib"
)

const (
	flagSecret = 1
	flagCrown  = 2
)

var flagNames = []string{"none", "secret", "crownjewel", "secret+crownjewel"}

// permitted is the reference decision of the property statement.
func permitted(local, internal bool, flags int) bool {
	if flags&flagCrown != 0 && !local {
		return false
	}
	if flags&flagSecret != 0 && !internal {
		return false
	}
	return true
}

// clause names the part(s) of the statement that forbid the access (precondition
// class of a violation signature).
func clause(local, internal bool, flags int) string {
	var p []string
	if flags&flagSecret != 0 && !internal {
		p = append(p, "secret")
	}
	if flags&flagCrown != 0 && !local {
		p = append(p, "crownjewel")
	}
	if len(p) == 0 {
		return "permitted"
	}
	return strings.Join(p, "+")
}

// srec is an unwrapped ("struct") record as internal users of the database keep them.
type srec struct {
	record.Base
	sync.Mutex

	Name  string
	Score int
}

// version is one payload generation of a record; a token identifies it.
type version struct {
	Key   string `json:"key"`
	Flags int    `json:"flags"`
	By    string `json:"by"`
}

// memProvider is the value provider behind the injected runtime database.
type memProvider struct {
	mu    sync.Mutex
	recs  map[string]record.Record
	fault map[string]bool // lookups of these keys fail (Set keeps working)
}

func (p *memProvider) setFault(dbKey string, on bool) {
	p.mu.Lock()
	if p.fault == nil {
		p.fault = map[string]bool{}
	}
	p.fault[dbKey] = on
	p.mu.Unlock()
}

// exactProvider is a read/write value provider registered on exactly one key (like
// runtime.ProvideRecord, but writable so that the privileged side can fill it
// through the database).
type exactProvider struct {
	mu  sync.Mutex
	key string
	rec record.Record
}

func (p *exactProvider) Get(keyOrPrefix string) ([]record.Record, error) {
	p.mu.Lock()
	defer p.mu.Unlock()
	if keyOrPrefix != p.key || p.rec == nil {
		return nil, nil
	}
	return []record.Record{p.rec}, nil
}

func (p *exactProvider) Set(r record.Record) (record.Record, error) {
	p.mu.Lock()
	defer p.mu.Unlock()
	p.rec = r
	return r, nil
}

// exactKey registers a single-record provider on the database key of key.
func (w *world) exactKey(key string) error {
	_, dbKey := record.ParseKey(key)
	_, err := w.reg.Register(dbKey, &exactProvider{key: dbKey})
	return err
}

var errProviderDown = errors.New("value provider backend unavailable (harness fault)")

func (p *memProvider) Get(keyOrPrefix string) ([]record.Record, error) {
	p.mu.Lock()
	defer p.mu.Unlock()
	if p.fault[keyOrPrefix] {
		return nil, errProviderDown
	}
	var keys []string
	for k := range p.recs {
		if strings.HasPrefix(k, keyOrPrefix) {
			keys = append(keys, k)
		}
	}
	sort.Strings(keys)
	out := make([]record.Record, 0, len(keys))
	for _, k := range keys {
		out = append(out, p.recs[k])
	}
	return out, nil
}

func (p *memProvider) Set(r record.Record) (record.Record, error) {
	p.mu.Lock()
	defer p.mu.Unlock()
	p.recs[r.DatabaseKey()] = r
	return r, nil
}

// roProvider is a read-only value provider (like runtime.ProvideRecord): the
// provider itself places records, Set refuses.
type roProvider struct{ memProvider }

func (p *roProvider) Set(r record.Record) (record.Record, error) { return nil, runtime.ErrReadOnly }

func (p *memProvider) place(r record.Record) {
	p.mu.Lock()
	p.recs[r.DatabaseKey()] = r
	p.mu.Unlock()
}

// vetoHook is a PrePut hook that rejects writes to the keys it is told to protect
// (the way a validation hook of an internal module rejects a write).
type vetoHook struct {
	database.HookBase
	mu   sync.Mutex
	keys map[string]bool
}

var errVeto = errors.New("write rejected by the harness PrePut hook")

func (h *vetoHook) UsesPrePut() bool { return true }

func (h *vetoHook) PrePut(r record.Record) (record.Record, error) {
	h.mu.Lock()
	defer h.mu.Unlock()
	if h.keys[r.Key()] {
		return nil, errVeto
	}
	return r, nil
}

func (h *vetoHook) set(key string, on bool) {
	h.mu.Lock()
	h.keys[key] = on
	h.mu.Unlock()
}

func (p *memProvider) live(dbKey string) record.Record {
	p.mu.Lock()
	defer p.mu.Unlock()
	return p.recs[dbKey]
}

// world is one child's database system.
type world struct {
	sp      spec
	b       *vlib.Batch
	rng     *vlib.Rand
	db      string
	backend string

	W   *database.Interface    // privileged writer (Local+Internal)
	Wf  [4]*database.Interface // privileged writers with AlwaysMakeSecret/AlwaysMakeCrownjewel
	A   *database.Interface    // privileged auditor (read-back)
	reg *runtime.Registry
	prv *memProvider
	psh runtime.PushFunc
	ro    *roProvider // failmod part, runtime only
	roPsh runtime.PushFunc
	veto  *vetoHook // failmod part
	srv   *httptest.Server // ws part: the api package's main handler

	toks     map[string]*version
	nextCell int
	samples  int
}

var tokRe = regexp.MustCompile(`tk[0-9a-f]{20}kt`)

func newWorld(dir string, sp spec, b *vlib.Batch) (*world, error) {
	w := &world{sp: sp, b: b, backend: sp.Backend, toks: map[string]*version{}}
	w.rng = vlib.NewRand(sp.Seed, prop+"/"+sp.name(), uint64(sp.Shard))
	if sp.Part == "ws" {
		// the module system (database, config, api) initialises the database
		if err := w.startAPIWorld(dir); err != nil {
			return nil, err
		}
	} else if err := database.InitializeWithPath(filepath.Join(dir, "dbroot")); err != nil {
		return nil, err
	}
	w.db = "c03" + sp.Backend
	if sp.Shadow {
		w.db += "-sd"
	}
	if sp.Backend == "runtime" {
		if _, err := database.Register(&database.Database{Name: w.db, Description: "C03 injected runtime database", StorageType: database.StorageTypeInjected}); err != nil {
			return nil, err
		}
		w.reg = runtime.NewRegistry()
		if err := w.reg.InjectAsDatabase(w.db); err != nil {
			return nil, err
		}
		w.prv = &memProvider{recs: map[string]record.Record{}}
		push, err := w.reg.Register("c/", w.prv)
		if err != nil {
			return nil, err
		}
		w.psh = push
		if sp.Part == "failmod" {
			w.ro = &roProvider{memProvider{recs: map[string]record.Record{}}}
			if w.roPsh, err = w.reg.Register("ro/", w.ro); err != nil {
				return nil, err
			}
		}
	} else {
		if _, err := database.Register(&database.Database{Name: w.db, Description: "C03 " + sp.Backend, StorageType: sp.Backend, ShadowDelete: sp.Shadow}); err != nil {
			return nil, err
		}
	}
	w.W = database.NewInterface(&database.Options{Local: true, Internal: true})
	w.A = database.NewInterface(&database.Options{Local: true, Internal: true})
	for f := 0; f < 4; f++ {
		w.Wf[f] = database.NewInterface(&database.Options{Local: true, Internal: true,
			AlwaysMakeSecret: f&flagSecret != 0, AlwaysMakeCrownjewel: f&flagCrown != 0})
	}
	// make sure the database starts
	if _, err := w.A.Get(w.db + ":c/none"); err != nil && !errors.Is(err, database.ErrNotFound) {
		return nil, fmt.Errorf("database %s does not start: %w", w.db, err)
	}
	if sp.Part == "failmod" {
		w.veto = &vetoHook{keys: map[string]bool{}}
		if _, err := database.RegisterHook(query.New(w.db+":c/").MustBeValid(), w.veto); err != nil {
			return nil, err
		}
	}
	return w, nil
}

// liveRec returns the stored object of an injected-database record and the push
// function of its provider.
func (w *world) liveRec(key string) (record.Record, runtime.PushFunc) {
	_, dbKey := record.ParseKey(key)
	if w.ro != nil && strings.HasPrefix(dbKey, "ro/") {
		return w.ro.live(dbKey), w.roPsh
	}
	if w.prv != nil {
		return w.prv.live(dbKey), w.psh
	}
	return nil, nil
}

func (w *world) close() {
	_ = database.Shutdown()
}

func (w *world) batcher() bool { return w.backend == "hashmap" || w.backend == "bbolt" }
func (w *world) purger() bool  { return w.backend == "bbolt" }
func (w *world) deleter() bool { return w.backend != "runtime" }

func (w *world) newTok(key string, flags int, by string) string {
	t := "tk" + hex.EncodeToString(w.rng.Bytes(10)) + "kt"
	w.toks[t] = &version{Key: key, Flags: flags, By: by}
	return t
}

// newRec builds a record of the given kind carrying the token.
func newRec(key, tok, kind string) record.Record {
	if kind == "struct" {
		r := &srec{Name: tok, Score: 7}
		r.SetKey(key)
		return r
	}
	r, _ := record.NewWrapper(key, nil, dsd.JSON, []byte(`{"Name":"`+tok+`","Score":7}`))
	return r
}

// privPut writes a fresh payload generation with the given flags through the
// privileged side. how: meta (flags set on the record's meta), opts (writer interface
// with AlwaysMake*), call (plain put, then MakeSecret/MakeCrownJewel by key).
func (w *world) privPut(key string, flags int, how, kind string) (tok string, err error) {
	tok = w.newTok(key, flags, "priv")
	r := newRec(key, tok, kind)
	if _, dbKey := record.ParseKey(key); w.ro != nil && strings.HasPrefix(dbKey, "ro/") {
		// records of the read-only provider are placed by the provider itself,
		// which then announces them
		r.CreateMeta()
		if flags&flagSecret != 0 {
			r.Meta().MakeSecret()
		}
		if flags&flagCrown != 0 {
			r.Meta().MakeCrownJewel()
		}
		r.UpdateMeta()
		w.ro.place(r)
		r.Lock()
		w.roPsh(r)
		r.Unlock()
		return tok, nil
	}
	switch how {
	case "opts":
		err = w.Wf[flags].Put(r)
	case "putnew-opts":
		err = w.Wf[flags].PutNew(r)
	case "putnew-meta", "putnew-reload":
		// a pre-flagged record saved as new by a privileged interface; "reload":
		// a stored flagged record is loaded and saved as new again
		r.CreateMeta()
		if flags&flagSecret != 0 {
			r.Meta().MakeSecret()
		}
		if flags&flagCrown != 0 {
			r.Meta().MakeCrownJewel()
		}
		if how == "putnew-meta" {
			err = w.W.PutNew(r)
			return
		}
		if err = w.W.Put(r); err != nil {
			return
		}
		var lr record.Record
		if lr, err = w.W.Get(key); err != nil {
			return
		}
		err = w.W.PutNew(lr)
	case "call":
		// the record is unflagged for a moment; nobody observes in between
		if err = w.W.Put(r); err != nil {
			return
		}
		if flags&flagSecret != 0 {
			if err = w.W.MakeSecret(key); err != nil {
				return
			}
		}
		if flags&flagCrown != 0 {
			err = w.W.MakeCrownJewel(key)
		}
	default:
		r.CreateMeta()
		if flags&flagSecret != 0 {
			r.Meta().MakeSecret()
		}
		if flags&flagCrown != 0 {
			r.Meta().MakeCrownJewel()
		}
		err = w.W.Put(r)
	}
	return
}

// snap is what the privileged read-back sees of a record.
type snap struct {
	Exists   bool   `json:"exists"`
	Err      string `json:"err,omitempty"`
	Data     string `json:"data,omitempty"`
	Created  int64  `json:"created"`
	Modified int64  `json:"modified"`
	Expires  int64  `json:"expires"`
	Deleted  int64  `json:"deleted"`
	Flags    int    `json:"flags"`
}

// metaFlags reads the two confidentiality flags directly from the meta struct
// (unexported fields, read by reflection): the monitor must not depend on
// Meta.CheckPermission, which is part of the mechanism under test.
func metaFlags(m *record.Meta) int {
	f := 0
	if m == nil {
		return 0
	}
	v := reflect.ValueOf(m).Elem()
	if v.FieldByName("secret").Bool() {
		f |= flagSecret
	}
	if v.FieldByName("cronjewel").Bool() {
		f |= flagCrown
	}
	return f
}

func recData(r record.Record) string {
	if wr, ok := r.(*record.Wrapper); ok {
		return string(wr.Data)
	}
	if s, ok := r.(*srec); ok {
		return fmt.Sprintf(`{"Name":%q,"Score":%d}`, s.Name, s.Score)
	}
	b, _ := json.Marshal(r)
	return string(b)
}

func (w *world) audit(key string) snap {
	r, err := w.A.Get(key)
	if err != nil {
		return snap{Err: err.Error()}
	}
	r.Lock()
	defer r.Unlock()
	m := r.Meta()
	return snap{Exists: true, Data: recData(r), Created: m.Created, Modified: m.Modified, Expires: m.Expires, Deleted: m.Deleted, Flags: metaFlags(m)}
}

// obsRec is one record object handed to an observer.
type obsRec struct {
	Key   string
	Bytes [][]byte
}

// observe renders everything an observer can read from a record it was handed.
func observe(r record.Record) obsRec {
	r.Lock()
	defer r.Unlock()
	o := obsRec{Key: r.Key()}
	if r.Meta() != nil {
		if b, err := r.MarshalRecord(r); err == nil {
			o.Bytes = append(o.Bytes, b)
		}
	}
	o.Bytes = append(o.Bytes, []byte(recData(r)))
	return o
}

func prefixQuery(db, prefix string) *query.Query {
	return query.New(db + ":" + prefix).MustBeValid()
}

// drainQuery reads a query to its end. The storages' query executors give up when
// the consumer does not take a record within one second (wall clock), so the records
// are taken first and rendered afterwards.
func drainQuery(it interface {
	Err() error
}, next <-chan record.Record) ([]obsRec, error) {
	var raw []record.Record
	for r := range next {
		raw = append(raw, r)
	}
	err := it.Err()
	out := make([]obsRec, 0, len(raw))
	for _, r := range raw {
		out = append(out, observe(r))
	}
	if err == nil {
		// Iterator.Finish closes Next before it stores the error
		err = it.Err()
	}
	return out, err
}
