package main

import (
	"fmt"
	"net"
	"net/http"
	"net/http/httptest"
	"os"
	"path/filepath"
	"strings"
	"time"

	"github.com/gorilla/websocket"

	"github.com/safing/portbase/api"
	_ "github.com/safing/portbase/database/dbmodule"
	"github.com/safing/portbase/dataroot"
	"github.com/safing/portbase/log"
	"github.com/safing/portbase/modules"
)

// Part "ws": the external database API through its real transport. The module
// system is started on a scratch data root (database, config, api; no listening
// socket of its own), the api package's main handler is served by an httptest server
// and a gorilla/websocket client talks to /api/database/v1, i.e. to
// startDatabaseWebsocketAPI — a different construction site of the API object than
// api.CreateDatabaseAPI, which the "api" observer of the table drives. The
// authenticator grants the admin permission the endpoint requires; that does not
// make the database API local or internal.

func (w *world) startAPIWorld(dir string) error {
	root := filepath.Join(dir, "dataroot")
	if err := os.MkdirAll(root, 0o755); err != nil {
		return err
	}
	if err := dataroot.Initialize(root, 0o755); err != nil {
		return fmt.Errorf("dataroot: %w", err)
	}
	addr := "127.0.0.1:8817"
	if l, err := net.Listen("tcp", "127.0.0.1:0"); err == nil {
		addr = l.Addr().String()
		_ = l.Close()
	}
	api.SetDefaultAPIListenAddress(addr)
	api.EnableServer = false
	if err := api.SetAuthenticator(func(r *http.Request, s *http.Server) (*api.AuthToken, error) {
		return &api.AuthToken{Read: api.PermitAdmin, Write: api.PermitAdmin}, nil
	}); err != nil {
		return fmt.Errorf("SetAuthenticator: %w", err)
	}
	modules.SetStdErrReporting(false)
	log.SetLogLevel(log.CriticalLevel)
	if err := modules.Start(); err != nil {
		return fmt.Errorf("modules.Start: %w", err)
	}
	w.srv = httptest.NewServer(api.VerifMainHandler())
	return nil
}

func (w *world) newWSConn() (*apiConn, error) {
	a := newAPIConn(w)
	url := "ws" + strings.TrimPrefix(w.srv.URL, "http") + "/api/database/v1"
	d := websocket.Dialer{HandshakeTimeout: 30 * time.Second}
	conn, resp, err := d.Dial(url, nil)
	if err != nil {
		st := ""
		if resp != nil {
			st = resp.Status
		}
		return nil, fmt.Errorf("%w (%s)", err, st)
	}
	a.ws = conn
	go func() {
		for {
			_, data, err := conn.ReadMessage()
			if err != nil {
				return
			}
			a.recv(data)
		}
	}()
	w.b.Count("websocket_connections", 1)
	return a, nil
}

// wsCells: every flag set x every API message kind (x how/kind variants like the table).
func wsCells(sp spec) []cell {
	var out []cell
	kinds := []string{"wrapped", "struct"}
	for f := 0; f < 4; f++ {
		hows := howsFor(f)
		for hi, h := range hows {
			for pi, p := range apiPaths(sp.Backend) {
				// quick: one way of flagging per (flag set, message kind), rotating
				if !sp.thorough() && hi != (f+pi)%len(hows) {
					continue
				}
				out = append(out, cell{Part: "ws", Backend: sp.Backend, Shadow: sp.Shadow, F: f, H: h, K: kinds[(f+len(out))%2], Obs: "ws", Path: p})
			}
		}
	}
	return out
}

func (w *world) runWS() {
	for _, c := range wsCells(w.sp) {
		if w.sp.Only != "" && c.coord() != w.sp.Only {
			continue
		}
		w.runCell(c)
	}
	if w.sp.Only == "" {
		w.bulkCheck()
	}
	w.srv.Close()
}
