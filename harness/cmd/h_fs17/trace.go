package main

import (
	"bufio"
	"fmt"
	"os"
	"regexp"
	"strings"
)

// sysEvent is one system call of the traced child.
type sysEvent struct {
	Tid      int
	Name     string
	Args     string // text between the parentheses (as far as strace printed it)
	Ret      string // text after " = " ("?" when the process died inside the call)
	Injected bool   // strace marked it (INJECTED)
	Line     int    // line number of the call's entry in the trace file
	Ordinal  int    // 1-based count of calls with this name on this thread since exec (what strace's when= counts)
	InWindow bool   // between the BEGIN and END markers of the main thread
}

type traceFile struct {
	MainTid  int
	Events   []*sysEvent
	Begin    bool // BEGIN marker seen
	End      bool // END marker seen
	Killed   bool // "+++ killed by SIGKILL +++" for the main thread
	Exited   bool
	LastMain *sysEvent
}

var (
	reLine     = regexp.MustCompile(`^(\d+)\s+(.*)$`)
	reCall     = regexp.MustCompile(`^([a-z_0-9]+)\((.*)$`)
	reResumed  = regexp.MustCompile(`^<\.\.\. ([a-z_0-9]+) resumed>(.*)$`)
	rePathAnno = regexp.MustCompile(`<(/[^>]*)>`)
	reRet      = regexp.MustCompile(`\)\s+= `)
	reQuoted   = regexp.MustCompile(`"((?:[^"\\]|\\.)*)"`)
)

// splitRet splits "args) = ret" at the last ") = ".
func splitRet(s string) (args, ret string, done bool) {
	locs := reRet.FindAllStringIndex(s, -1)
	if len(locs) == 0 {
		return s, "", false
	}
	l := locs[len(locs)-1]
	return s[:l[0]], strings.TrimSpace(s[l[1]:]), true
}

// parseTrace reads an `strace -f -y -o` file.
func parseTrace(path string) (*traceFile, error) {
	fh, err := os.Open(path)
	if err != nil {
		return nil, err
	}
	defer fh.Close()
	tf := &traceFile{}
	sc := bufio.NewScanner(fh)
	sc.Buffer(make([]byte, 1<<20), 1<<26)
	pending := map[int]*sysEvent{}
	counts := map[int]map[string]int{}
	window := false
	lineNo := 0
	finish := func(ev *sysEvent) {
		if strings.Contains(ev.Ret, "(INJECTED)") {
			ev.Injected = true
		}
		if ev.Tid == tf.MainTid && ev.Name == "write" && strings.HasPrefix(ev.Args, "2<") {
			if strings.Contains(ev.Args, markBegin) {
				tf.Begin = true
				window = true
				ev.InWindow = false
			} else if strings.Contains(ev.Args, markEnd) {
				tf.End = true
				window = false
				ev.InWindow = false
			}
		}
	}
	for sc.Scan() {
		lineNo++
		m := reLine.FindStringSubmatch(sc.Text())
		if m == nil {
			continue
		}
		tid := atoi(m[1])
		rest := m[2]
		if tf.MainTid == 0 {
			tf.MainTid = tid
		}
		switch {
		case strings.HasPrefix(rest, "+++ killed by"):
			if tid == tf.MainTid {
				tf.Killed = true
			}
		case strings.HasPrefix(rest, "+++ exited"):
			if tid == tf.MainTid {
				tf.Exited = true
			}
		case strings.HasPrefix(rest, "---"): // signal delivery
		case strings.HasPrefix(rest, "<..."):
			r := reResumed.FindStringSubmatch(rest)
			if r == nil {
				continue
			}
			ev := pending[tid]
			if ev == nil || ev.Name != r[1] {
				continue
			}
			delete(pending, tid)
			a, ret, _ := splitRet(r[2])
			ev.Args += a
			ev.Ret = ret
			finish(ev)
		default:
			c := reCall.FindStringSubmatch(rest)
			if c == nil {
				continue
			}
			ev := &sysEvent{Tid: tid, Name: c[1], Line: lineNo}
			if counts[tid] == nil {
				counts[tid] = map[string]int{}
			}
			counts[tid][ev.Name]++
			ev.Ordinal = counts[tid][ev.Name]
			ev.InWindow = window
			body := c[2]
			if strings.HasSuffix(body, "<unfinished ...>") {
				ev.Args = strings.TrimSuffix(body, "<unfinished ...>")
				ev.Ret = "<unfinished>"
				pending[tid] = ev
			} else {
				a, ret, _ := splitRet(body)
				ev.Args, ev.Ret = a, ret
				finish(ev)
			}
			tf.Events = append(tf.Events, ev)
			if tid == tf.MainTid {
				tf.LastMain = ev
			}
		}
	}
	return tf, sc.Err()
}

func atoi(s string) int {
	n := 0
	for _, c := range s {
		n = n*10 + int(c-'0')
	}
	return n
}

// ---------------------------------------------------------------------------------
// classification

// Calls that change the file system (or make a change durable / final). openat & co
// are decided by their flags.
var mutatingNames = map[string]bool{
	"write": true, "pwrite64": true, "writev": true, "pwritev": true, "pwritev2": true,
	"copy_file_range": true, "sendfile": true, "splice": true,
	"fsync": true, "fdatasync": true, "sync_file_range": true, "sync": true, "syncfs": true,
	"fchmod": true, "fchmodat": true, "fchmodat2": true, "chmod": true, "fchown": true, "fchownat": true, "chown": true, "lchown": true,
	"rename": true, "renameat": true, "renameat2": true,
	"unlink": true, "unlinkat": true, "rmdir": true,
	"mkdir": true, "mkdirat": true, "mknod": true, "mknodat": true,
	"symlink": true, "symlinkat": true, "link": true, "linkat": true,
	"ftruncate": true, "truncate": true, "fallocate": true,
	"utimensat": true, "utime": true, "utimes": true, "futimesat": true,
	"setxattr": true, "lsetxattr": true, "fsetxattr": true, "removexattr": true, "lremovexattr": true, "fremovexattr": true,
	"close": true,
}

var openNames = map[string]bool{"open": true, "openat": true, "openat2": true, "creat": true}

// Calls of the %file / %desc classes that do not change the file system.
var readonlyNames = map[string]bool{
	"read": true, "pread64": true, "readv": true, "preadv": true, "preadv2": true,
	"newfstatat": true, "fstat": true, "stat": true, "lstat": true, "statx": true, "statfs": true, "fstatfs": true,
	"access": true, "faccessat": true, "faccessat2": true, "readlink": true, "readlinkat": true,
	"getdents64": true, "getdents": true, "lseek": true, "fcntl": true, "ioctl": true, "flock": true,
	"epoll_ctl": true, "epoll_pwait": true, "epoll_wait": true, "epoll_create1": true, "epoll_create": true, "epoll_pwait2": true,
	"mmap": true, "dup": true, "dup2": true, "dup3": true, "pipe": true, "pipe2": true, "eventfd2": true, "eventfd": true,
	"getcwd": true, "chdir": true, "fchdir": true, "execve": true, "execveat": true,
	"socket": true, "connect": true, "accept4": true, "accept": true, "bind": true, "listen": true,
	"getsockname": true, "getpeername": true, "setsockopt": true, "getsockopt": true, "shutdown": true,
	"sendto": true, "recvfrom": true, "sendmsg": true, "recvmsg": true, "sendmmsg": true, "recvmmsg": true,
	"poll": true, "ppoll": true, "select": true, "pselect6": true, "fadvise64": true, "readahead": true,
	"inotify_init1": true, "inotify_add_watch": true, "timerfd_create": true, "timerfd_settime": true,
	"getxattr": true, "lgetxattr": true, "fgetxattr": true, "listxattr": true, "uname": true,
	"pidfd_open": true, "pidfd_send_signal": true, "close_range": true, "memfd_create": true, "name_to_handle_at": true,
	"io_uring_setup": true, "signalfd4": true, "perf_event_open": true, "bpf": true,
}

func (ev *sysEvent) mutating() bool {
	if mutatingNames[ev.Name] {
		return true
	}
	if openNames[ev.Name] {
		if ev.Name == "creat" {
			return true
		}
		for _, f := range []string{"O_CREAT", "O_WRONLY", "O_RDWR", "O_TRUNC", "O_APPEND", "O_TMPFILE"} {
			if strings.Contains(ev.Args, f) {
				return true
			}
		}
	}
	return false
}

func (ev *sysEvent) classified() bool {
	return mutatingNames[ev.Name] || openNames[ev.Name] || readonlyNames[ev.Name]
}

// paths returns every absolute path the call mentions: fd annotations (-y) and quoted
// string arguments that look like absolute paths.
func (ev *sysEvent) paths() []string {
	var out []string
	s := ev.Args + " " + ev.Ret
	for _, m := range rePathAnno.FindAllStringSubmatch(s, -1) {
		out = append(out, m[1])
	}
	for _, m := range reQuoted.FindAllStringSubmatch(ev.Args, -1) {
		if strings.HasPrefix(m[1], "/") && len(m[1]) < 4096 {
			out = append(out, m[1])
		}
	}
	return out
}

// quoted returns the quoted string arguments of the call in order.
func (ev *sysEvent) quoted() []string {
	var out []string
	for _, m := range reQuoted.FindAllStringSubmatch(ev.Args, -1) {
		out = append(out, m[1])
	}
	return out
}

func (ev *sysEvent) touches(roots []string) bool {
	for _, p := range ev.paths() {
		p = strings.TrimSuffix(p, " (deleted)")
		for _, r := range roots {
			if under(p, r) {
				return true
			}
		}
	}
	return false
}

func (ev *sysEvent) ok() bool {
	return !strings.HasPrefix(ev.Ret, "-1") && ev.Ret != "?" && ev.Ret != "<unfinished>"
}

// short is a stable human-readable form with the sandbox prefix and the random
// temp-file suffixes removed.
var reRandSuffix = regexp.MustCompile(`(/\.[^/"<>]*?)\d{6,}`)

func (ev *sysEvent) short(w *world) string {
	s := ev.Name + "(" + ev.Args + ")"
	s = strings.ReplaceAll(s, w.dir+"/", "")
	if w.sp.CrossTmp != "" {
		s = strings.ReplaceAll(s, w.sp.CrossTmp, "XTMP")
	}
	s = reRandSuffix.ReplaceAllString(s, "${1}NNN")
	s = regexp.MustCompile(`AT_FDCWD<[^>]*>`).ReplaceAllString(s, "AT_FDCWD")
	if len(s) > 200 {
		s = s[:200] + "..."
	}
	return s
}

// ---------------------------------------------------------------------------------
// crash points

// crashPoint addresses one file-system-mutating call of the operation.
type crashPoint struct {
	Index   int    `json:"index"`   // position among the operation's mutating calls
	Name    string `json:"syscall"` // syscall name
	Ordinal int    `json:"when"`    // strace when= value (count of that name on the main thread)
	What    string `json:"what"`    // the call, normalised
}

type plan struct {
	Points        []crashPoint
	OffThread     []string // mutating sandbox calls on other threads inside the window (cannot be addressed)
	Unknown       []string // syscall names seen that are neither classified mutating nor read-only
	NamesSeen     map[string]int
	WindowEvents  []*sysEvent // main-thread events inside the window
	MutatingNames map[string]int
}

// enumerate lists the crash points of a complete (pass-1) trace.
func enumerate(tf *traceFile, w *world) *plan {
	roots := w.roots()
	pl := &plan{NamesSeen: map[string]int{}, MutatingNames: map[string]int{}}
	for _, ev := range tf.Events {
		if !ev.InWindow {
			continue
		}
		pl.NamesSeen[ev.Name]++
		if !ev.classified() && !inList(ev.Name, pl.Unknown) {
			pl.Unknown = append(pl.Unknown, ev.Name)
		}
		if ev.Tid != tf.MainTid {
			if ev.mutating() && ev.touches(roots) {
				pl.OffThread = append(pl.OffThread, ev.short(w))
			}
			continue
		}
		pl.WindowEvents = append(pl.WindowEvents, ev)
		if ev.mutating() && ev.touches(roots) {
			pl.MutatingNames[ev.Name]++
			pl.Points = append(pl.Points, crashPoint{Index: len(pl.Points), Name: ev.Name, Ordinal: ev.Ordinal, What: ev.short(w)})
		}
	}
	return pl
}

// hitIndex finds which crash point an injected run actually hit: the index (among the
// main thread's mutating sandbox calls inside the window) of the call that was
// tampered with. kill=true: the main thread's last call, which never returned;
// kill=false: the call strace marked (INJECTED).
func hitIndex(tf *traceFile, w *world, kill bool) (idx int, ev *sysEvent, why string) {
	roots := w.roots()
	if !tf.Begin {
		return -1, nil, "the run never reached the operation (no BEGIN marker)"
	}
	var target *sysEvent
	if kill {
		target = tf.LastMain
		if target == nil || (target.Ret != "?" && target.Ret != "<unfinished>") {
			return -1, target, "the main thread's last call completed: it was not killed inside a call"
		}
	} else {
		for _, e := range tf.Events {
			if e.Injected {
				target = e
				break
			}
		}
		if target == nil {
			return -1, nil, "no call was marked (INJECTED)"
		}
		if target.Tid != tf.MainTid {
			return -1, target, "the injected call ran on another thread"
		}
	}
	if !target.InWindow {
		return -1, target, "the tampered call lies outside the operation window"
	}
	i := 0
	for _, e := range tf.Events {
		if e.Tid != tf.MainTid || !e.InWindow {
			continue
		}
		if e == target {
			if e.mutating() && e.touches(roots) {
				return i, e, ""
			}
			return -1, e, "the tampered call is not a mutating call on the sandbox: " + e.short(w)
		}
		if e.mutating() && e.touches(roots) {
			i++
		}
	}
	return -1, target, "tampered call not found"
}

// ---------------------------------------------------------------------------------
// syscall-order oracle: the temp file is flushed before it is renamed into place

type fsyncVerdict struct {
	Renames int      // renames onto the destination seen
	Bad     []string // explanations
	Witness []string // the relevant calls
}

var dataNames = map[string]bool{"write": true, "pwrite64": true, "writev": true, "pwritev": true, "pwritev2": true,
	"copy_file_range": true, "sendfile": true, "splice": true, "ftruncate": true, "fallocate": true}

func checkFsyncBeforeRename(pl *plan, w *world, dests []string) fsyncVerdict {
	var v fsyncVerdict
	evs := pl.WindowEvents
	for i, ev := range evs {
		if !(ev.Name == "rename" || ev.Name == "renameat" || ev.Name == "renameat2") || !ev.ok() {
			continue
		}
		q := ev.quoted()
		if len(q) < 2 || !inList(q[len(q)-1], dests) {
			continue
		}
		v.Renames++
		tmp := q[0]
		anno := "<" + tmp + ">"
		lastData, lastSync, opened := -1, -1, false
		var wit []string
		for j := 0; j < i; j++ {
			e := evs[j]
			if !strings.Contains(e.Args+" "+e.Ret, anno) && !(openNames[e.Name] && strings.Contains(e.Args, `"`+tmp+`"`)) {
				continue
			}
			wit = append(wit, e.short(w)+" = "+e.Ret)
			switch {
			case openNames[e.Name]:
				opened = true
			case dataNames[e.Name] && e.ok():
				lastData = j
			case (e.Name == "fsync" || e.Name == "fdatasync") && e.ok():
				lastSync = j
			}
		}
		wit = append(wit, ev.short(w)+" = "+ev.Ret)
		switch {
		case !opened:
			v.Bad = append(v.Bad, fmt.Sprintf("rename of %s onto the destination, but no open of that path was seen", w.rel(tmp)))
			v.Witness = wit
		case lastSync < 0:
			v.Bad = append(v.Bad, "the temporary file was renamed onto the destination without any fsync/fdatasync of it")
			v.Witness = wit
		case lastData > lastSync:
			v.Bad = append(v.Bad, "data was written to the temporary file after its last fsync and before the rename")
			v.Witness = wit
		}
	}
	return v
}
