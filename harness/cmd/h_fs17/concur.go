package main

import (
	"archive/zip"
	"bytes"
	"context"
	"fmt"
	"net/http"
	"net/http/httptest"
	"os"
	"path/filepath"
	"strconv"
	"strings"
	"time"

	"github.com/safing/portbase/updater"
	"github.com/safing/portbase/utils"

	"verifharness/internal/vlib"
)

// Concurrent updater operations: a download run (DownloadUpdates with one pending
// resource) ends while the extraction of a large zip archive (thousands of small
// entries) is in progress on another goroutine of the same registry. Both stage in
// <storage>/tmp. Oracle: a published unpack directory holds every entry of the
// archive with its content; the downloaded file, if present, is complete.
//
// The schedule is forced, not hoped for: the child's own update server holds the
// response of the pending download until the staging directory of the extraction has
// received a part of the entries, so the download run ends in the middle of it.

type concurOut struct {
	Entries     int      `json:"entries"`
	UnpackErr   string   `json:"unpack_err"`
	DownloadErr string   `json:"download_err"`
	StagedAtEnd int      `json:"staged_entries_when_download_answered"`
	Overlapped  bool     `json:"download_run_ended_during_extraction"`
	DestState   string   `json:"dest_state"` // absent | complete | fragment
	Problems    []string `json:"problems,omitempty"`
	Downloaded  string   `json:"downloaded"` // absent | complete | fragment
}

func concurEntries(sp caseSpec) (order []string, tree map[string][]byte) {
	tree = map[string][]byte{}
	add := func(p string, c []byte) { order = append(order, p); tree[p] = c }
	// a small sub-directory first, then thousands of files directly in the archive's root: the staging
	// directory itself is being filled for the whole extraction
	n := sp.Entries
	add("meta/", nil)
	for i := 0; i < 3; i++ {
		add(fmt.Sprintf("meta/info%d.bin", i), makeContent(sp.Seed, uint64(900+i), 80))
	}
	for i := 0; i < n; i++ {
		add(fmt.Sprintf("f%04d.bin", i), makeContent(sp.Seed, uint64(1000+i), 60+i%40))
	}
	return
}

func concurChild(dir string, sp caseSpec) {
	store := filepath.Join(dir, "sb", "store")
	order, tree := concurEntries(sp)
	var zbuf bytes.Buffer
	zw := zip.NewWriter(&zbuf)
	for _, p := range order {
		h := &zip.FileHeader{Name: p, Method: zip.Store}
		if tree[p] == nil {
			h.SetMode(os.ModeDir | 0o755)
			_, _ = zw.CreateHeader(h)
			continue
		}
		h.SetMode(0o644)
		w, _ := zw.CreateHeader(h)
		_, _ = w.Write(tree[p])
	}
	_ = zw.Close()

	zipIdent := "all/ui/" + sp.Name + ".zip"
	dlIdent := "all/dl/" + sp.Name + ".bin"
	archive := filepath.Join(store, filepath.FromSlash(updater.GetVersionedPath(zipIdent, updVersion)))
	dest := strings.TrimSuffix(archive, ".zip")
	staging := filepath.Join(store, "tmp", filepath.Base(dest))
	dlDest := filepath.Join(store, filepath.FromSlash(updater.GetVersionedPath(dlIdent, updVersion)))
	dlContent := makeContent(sp.Seed, 2, sp.NewSize)
	out := concurOut{Entries: sp.Entries}

	countStaged := func() int {
		n := 0
		_ = filepath.Walk(staging, func(_ string, info os.FileInfo, err error) error {
			if err == nil && info.Mode().IsRegular() {
				n++
			}
			return nil
		})
		return n
	}
	unpackDone := make(chan struct{})
	inFlight := make(chan struct{}, 4)
	srv := httptest.NewServer(http.HandlerFunc(func(rw http.ResponseWriter, rq *http.Request) {
		inFlight <- struct{}{}
		if os.Getenv("C17_DEBUG") != "" {
			fmt.Fprintln(os.Stderr, "handler at", time.Now().Format("15:04:05.000000"), rq.URL.Path)
		}
		// answer once the extraction is under way (or is over / never starts: watchdog)
		dl := time.Now().Add(20 * time.Second)
		for time.Now().Before(dl) {
			if n := countStaged(); n >= sp.Entries/4 {
				out.StagedAtEnd = n
				break
			}
			select {
			case <-unpackDone:
				dl = time.Now()
			default:
				time.Sleep(200 * time.Microsecond)
			}
		}
		rw.Header().Set("Content-Length", strconv.Itoa(len(dlContent)))
		_, _ = rw.Write(dlContent)
	}))
	defer srv.Close()

	must(os.MkdirAll(filepath.Join(dir, "sb"), 0o755))
	reg := &updater.ResourceRegistry{Name: "c17", Online: true, UpdateURLs: []string{srv.URL}, AutoUnpack: []string{zipIdent}, MandatoryUpdates: []string{dlIdent}}
	must(reg.Initialize(utils.NewDirStructure(store, 0o755)))
	writeRaw(archive, zbuf.Bytes(), 0o644)
	idx := &updater.Index{Path: "stable.json", AutoDownload: true}
	must(reg.AddResource(zipIdent, updVersion, idx, true, true, false))
	must(reg.AddResource(dlIdent, updVersion, idx, false, true, false))
	reg.SelectVersions()

	dlDone := make(chan error, 1)
	go func() { dlDone <- reg.DownloadUpdates(context.Background(), false) }()
	// UnpackArchive holds the resource lock that a starting download run needs for its pending list:
	// the download run must be in flight before the extraction begins
	select {
	case <-inFlight:
	case <-time.After(20 * time.Second):
	}
	t0 := time.Now()
	err := reg.UnpackResources()
	if os.Getenv("C17_DEBUG") != "" {
		fmt.Fprintln(os.Stderr, "unpack from", t0.Format("15:04:05.000000"), "to", time.Now().Format("15:04:05.000000"))
	}
	stillRunning := false
	select {
	case e := <-dlDone:
		dlDone <- e
	default:
		stillRunning = true
	}
	close(unpackDone)
	if err != nil {
		out.UnpackErr = err.Error()
	}
	if e := <-dlDone; e != nil {
		out.DownloadErr = e.Error()
	}
	out.Overlapped = out.StagedAtEnd > 0 && !stillRunning

	// judge
	if _, err := os.Stat(dest); err != nil {
		out.DestState = "absent"
	} else {
		out.DestState = "complete"
		missing, bad := 0, 0
		for p, c := range tree {
			fp := filepath.Join(dest, filepath.FromSlash(strings.TrimSuffix(p, "/")))
			if c == nil {
				if st, err := os.Stat(fp); err != nil || !st.IsDir() {
					missing++
				}
				continue
			}
			b, err := os.ReadFile(fp)
			switch {
			case err != nil:
				missing++
				if len(out.Problems) < 3 {
					out.Problems = append(out.Problems, "missing "+p)
				}
			case !bytes.Equal(b, c):
				bad++
				if len(out.Problems) < 6 {
					out.Problems = append(out.Problems, p+": "+describe(b, nil, c))
				}
			}
		}
		if missing+bad > 0 {
			out.DestState = "fragment"
			out.Problems = append([]string{fmt.Sprintf("%d of %d entries missing, %d with wrong content", missing, len(tree), bad)}, out.Problems...)
		}
	}
	switch b, err := os.ReadFile(dlDest); {
	case err != nil:
		out.Downloaded = "absent"
	case bytes.Equal(b, dlContent):
		out.Downloaded = "complete"
	default:
		out.Downloaded = "fragment: " + describe(b, nil, dlContent)
	}
	vlib.ChildFinish(dir, out)
}
