// h_fs17 — engine for C17 (files are published atomically: old content or new
// content, never a fragment). Level: fault enumeration.
//
// Orchestrator: for every case of the PRNG-determined list (target primitive x
// destination state x content pair x temp-dir placement x options)
//
//	pass 1  runs the operation in a child under `strace -f -y` and records every
//	        file-system-mutating system call it issues on the sandbox (the crash
//	        points), checks the fsync-before-rename order on that trace and the end
//	        state;
//	pass 2  re-runs the child once per crash point with
//	        `-e inject=<syscall>:error=EIO:signal=SIGKILL:when=<n>` (the process dies
//	        immediately before that call executes) and once per crash point with a
//	        plain error (EIO / ENOSPC, no kill), confirms from the pass-2 trace which
//	        call was hit, and evaluates the state predicate on the sandbox.
//
// A last phase runs concurrent readers (goroutines and a second process) against a
// writer that alternates contents.
//
// Child: sets up the pre-state, then performs the one operation synchronously on the
// main goroutine (locked to the main thread in init) between two marker writes.
package main

import (
	"crypto/sha256"
	"encoding/hex"
	"encoding/json"
	"fmt"
	"os"
	"path/filepath"
	"sort"
	"strings"
	"sync"
	"syscall"
	"time"

	"verifharness/internal/vlib"
)

type inject struct {
	Kill   bool       `json:"kill"`
	Errno  string     `json:"errno"`
	Point  crashPoint `json:"point"`
	Second bool       `json:"second_order"` // error into Point, then kill at mutating call KillAt (ptrace stepper only)
	KillAt int        `json:"kill_at"`
}

// caseState is what the orchestrator knows about one case.
type caseState struct {
	sp       caseSpec
	plan     *plan
	judgable bool            // pass 1 was complete and consistent
	killed   map[int]bool    // crash points that were hit by a kill
	errored  map[string]bool // "<index>/<errno>" hit by an error injection
	outcomes map[int]string  // per crash point: destination state after the kill
	errOut   map[string]string
	vanished map[int]bool    // ptrace-driven cases: the re-run issued fewer mutating calls than pass 1, nothing left to kill at this index
	extra    int             // ptrace-driven cases: kills at indexes beyond pass 1's count (the re-run issued more calls)
	extraEnd bool            // a kill run beyond the last index completed: the sweep is exhaustive
	errLen   map[string]int  // ptrace-driven cases: number of mutating calls of the run with that error injected
	second   map[string]bool // second-order points (error e, kill k) that were hit
	errGone  map[string]bool // ptrace-driven cases: the re-run had no call at this index to inject the error into
}

type job struct {
	cs      *caseState
	inj     *inject // nil = pass 1
	attempt int
}

type engine struct {
	cfg      vlib.Cfg
	rep      *vlib.Report
	srv      *contentServer
	crossDir string // base of the cross-mount TMPDIRs ("" = unavailable)
	straceOK bool
}

const rule = "case = (target primitive, destination state absent/present/other mode, old/new content sizes incl. empty and 4 MiB, TMPDIR on the same or another mount, options/reader/archive/response variant), PRNG-chosen from VERIF_SEED; " +
	"per case pass 1 enumerates every file-system-mutating syscall on the sandbox (strace), pass 2 kills the child before each of them and injects EIO/ENOSPC into each of them; " +
	"an evaluation = one child execution judged by the state predicate; distinct non-trivial = (case signature, crash point, fault kind) whose pass-2 trace proves the fault hit that very call"

func main() {
	if len(os.Args) > 1 && os.Args[1] == stepperArg {
		stepperMain(os.Args[2:])
		return
	}
	if dir := os.Getenv("C17_READER_DIR"); dir != "" {
		readerProcMain(dir)
		return
	}
	if dir, ok := vlib.IsChild(); ok {
		childMain(dir)
		return
	}
	cfg := vlib.Load()
	rep := vlib.NewReport(cfg)
	rep.Rule(rule)
	e := &engine{cfg: cfg, rep: rep}
	e.srv = startContentServer()
	defer e.srv.srv.Close()
	e.setupCross()
	defer e.cleanupCross()

	if cfg.Replay != "" {
		e.replay()
	} else {
		e.run()
	}
	e.cleanupCross()
	if err := rep.Finish(); err != nil {
		fmt.Println("h_fs17: cannot write result:", err)
		os.Exit(2)
	}
}

// setupCross prepares a TMPDIR base on another mount (tmpfs /dev/shm), which makes
// renameio fall back to the destination's directory for its temporaries.
func (e *engine) setupCross() {
	base := fmt.Sprintf("/dev/shm/verif-c17-%d", os.Getpid())
	if err := os.MkdirAll(base, 0o755); err != nil {
		e.rep.Note("no second mount for TMPDIR (%v): cross-mount temp-dir cases run with TMPDIR on the same mount", err)
		return
	}
	var a, b syscall.Stat_t
	if syscall.Stat(base, &a) != nil || syscall.Stat(e.cfg.OutDir, &b) != nil || a.Dev == b.Dev {
		_ = os.RemoveAll(base)
		e.rep.Note("/dev/shm is not a different mount: cross-mount temp-dir cases run with TMPDIR on the same mount")
		return
	}
	e.crossDir = base
}

func (e *engine) cleanupCross() {
	if e.crossDir != "" {
		_ = os.RemoveAll(e.crossDir)
	}
}

// childSpec builds the process description of one run of a case.
func (e *engine) childSpec(j job) (vlib.ChildSpec, caseSpec) {
	sp := j.cs.sp
	name := fmt.Sprintf("c%03d-trace", sp.Case)
	wrap := []string{"strace", "-f", "-y", "-s", "40", "-e", "trace=%file,%desc", "-o", "strace.out"}
	if j.inj != nil {
		// Re-planned attempts probe neighbouring ordinals: calls of the Go runtime on the main
		// thread (wake-up writes to its eventfd) can shift the count between two runs. Which
		// call was really hit is always read back from the run's own trace.
		inj := *j.inj
		inj.Point.Ordinal += attemptDelta[j.attempt%len(attemptDelta)]
		if inj.Point.Ordinal < 1 {
			inj.Point.Ordinal = 1
		}
		j.inj = &inj
		sp.Phase = "err"
		tag := fmt.Sprintf("e%02d-%s", j.inj.Point.Index, j.inj.Errno)
		arg := fmt.Sprintf("inject=%s:error=%s:when=%d", j.inj.Point.Name, j.inj.Errno, j.inj.Point.Ordinal)
		if j.inj.Kill {
			sp.Phase = "kill"
			tag = fmt.Sprintf("k%02d", j.inj.Point.Index)
			arg = fmt.Sprintf("inject=%s:error=EIO:signal=SIGKILL:when=%d", j.inj.Point.Name, j.inj.Point.Ordinal)
		}
		if j.inj.Second {
			tag = fmt.Sprintf("s%02d-%02d-%s", j.inj.Point.Index, j.inj.KillAt, j.inj.Errno)
			sp.Phase = "errkill"
		}
		name = fmt.Sprintf("c%03d-%s-a%d", sp.Case, tag, j.attempt)
		wrap = append(wrap, "-e", arg)
	}
	var env []string
	if sp.TmpMount == "cross" && e.crossDir != "" {
		sp.CrossTmp = filepath.Join(e.crossDir, name)
		env = append(env, "TMPDIR="+sp.CrossTmp)
	} else {
		sp.TmpMount = "same"
	}
	if usesStepper(sp) {
		// the download target is driven by the ptrace stepper (see stepper.go)
		dir := filepath.Join(e.cfg.OutDir, "child", name)
		roots := filepath.Join(dir, "sb") + ":" + filepath.Join(dir, "tmp")
		if sp.CrossTmp != "" {
			roots += ":" + sp.CrossTmp
		}
		if sp.Layout == "linkdir" {
			roots += ":" + filepath.Join(dir, "real-all")
		}
		mode := "record"
		if j.inj != nil && j.inj.Second {
			mode = fmt.Sprintf("errkill=%d:%s:%d", j.inj.Point.Index, j.inj.Errno, j.inj.KillAt)
		} else if j.inj != nil && j.inj.Kill {
			mode = fmt.Sprintf("kill=%d", j.inj.Point.Index)
		} else if j.inj != nil {
			mode = fmt.Sprintf("err=%d:%s", j.inj.Point.Index, j.inj.Errno)
		}
		wrap = []string{e.cfg.BinPlain, stepperArg, "strace.out", roots, mode}
	}
	if sp.Target == tDownload {
		sp.URL = e.srv.url(name, sp.Variant, sp.Seed, sp.NewSize, sp.ContentID)
		if sp.Signed {
			sp.TrustSignet = e.srv.trust
		}
	}
	return vlib.ChildSpec{Name: name, Bin: e.cfg.BinPlain, Spec: sp, Timeout: 4 * time.Minute, Wrap: wrap, Env: env, Keep: os.Getenv("C17_KEEP") != ""}, sp
}

// worldOf is the parent's view of a finished child.
func (e *engine) worldOf(sp caseSpec, dir string) *world {
	w := buildWorld(sp, dir)
	if w.sigDest != "" {
		w.sigData, _ = e.srv.sigFor(w.new, w.ident, updVersion)
	}
	return w
}

func (e *engine) run() {
	cfg, rep := e.cfg, e.rep
	if e.srv.signErr != nil {
		rep.Note("signing unavailable (%v): signed download cases run unsigned", e.srv.signErr)
	}
	cases := genCases(cfg, e.crossDir != "")
	var states []*caseState
	for _, sp := range cases {
		if sp.Signed && e.srv.signErr != nil {
			sp.Signed = false
		}
		states = append(states, newCaseState(sp))
	}
	// ---- pass 1
	t0 := time.Now()
	var jobs []job
	for _, cs := range states {
		jobs = append(jobs, job{cs: cs})
	}
	e.runJobs(jobs)
	fmt.Printf("INFO C17 pass 1: %d cases in %.1fs\n", len(jobs), time.Since(t0).Seconds())

	// ---- pass 2 (+ re-planned attempts)
	for attempt := 0; attempt < maxAttempts; attempt++ {
		jobs = nil
		for _, cs := range states {
			if !cs.judgable {
				continue
			}
			r := vlib.NewRand(cfg.Seed, "c17-errno", uint64(cs.sp.Case))
			for _, pt := range cs.plan.Points {
				if !cs.killed[pt.Index] && !cs.vanished[pt.Index] {
					jobs = append(jobs, job{cs: cs, inj: &inject{Kill: true, Point: pt}, attempt: attempt})
				}
				errnos := []string{errnoChoices[r.Intn(len(errnoChoices))]}
				if cfg.Thorough() {
					errnos = errnoChoices
					if strings.HasPrefix(pt.Name, "rename") {
						errnos = append(append([]string{}, errnos...), "EXDEV")
					}
				}
				for _, en := range errnos {
					if k := fmt.Sprintf("%d/%s", pt.Index, en); !cs.errored[k] && !cs.errGone[k] {
						jobs = append(jobs, job{cs: cs, inj: &inject{Errno: en, Point: pt}, attempt: attempt})
					}
				}
			}
		}
		if len(jobs) == 0 {
			break
		}
		if attempt > 0 {
			rep.Count("replanned_runs", int64(len(jobs)))
		}
		t1 := time.Now()
		e.runJobs(jobs)
		fmt.Printf("INFO C17 pass 2 attempt %d: %d injected runs in %.1fs\n", attempt, len(jobs), time.Since(t1).Seconds())
	}

	// ---- second order (ptrace-driven cases of targets that retry): with the error injection into call e
	// active, kill the process before each mutating call k that follows - the crash points of the retry
	if secondOrder {
		jobs = nil
		for _, cs := range states {
			if !cs.judgable || !usesStepper(cs.sp) || !retries(cs.sp.Target) {
				continue
			}
			for _, key := range sortedKeys(cs.errLen) {
				var eIdx int
				var en string
				fmt.Sscanf(strings.Replace(key, "/", " ", 1), "%d %s", &eIdx, &en)
				if eIdx >= len(cs.plan.Points) {
					continue
				}
				for k := eIdx + 1; k < cs.errLen[key]; k++ {
					jobs = append(jobs, job{cs: cs, inj: &inject{Errno: en, Point: cs.plan.Points[eIdx], Second: true, KillAt: k}})
				}
			}
		}
		if len(jobs) > 0 {
			t1 := time.Now()
			e.runJobs(jobs)
			fmt.Printf("INFO C17 second order (error, then kill inside the retry): %d runs in %.1fs\n", len(jobs), time.Since(t1).Seconds())
			rep.Set("second_order_points_planned", len(jobs))
		}
	}

	// ---- ptrace-driven cases: sweep on beyond pass 1's count until a kill run completes un-killed
	// (the number of calls of a download varies from run to run; the sweep, not pass 1, bounds it)
	for round := 0; round < 48; round++ {
		jobs = nil
		for _, cs := range states {
			if cs.judgable && usesStepper(cs.sp) && !cs.extraEnd {
				n := len(cs.plan.Points) + cs.extra
				jobs = append(jobs, job{cs: cs, inj: &inject{Kill: true, Point: crashPoint{Index: n, Name: "beyond", What: "(a call beyond those of pass 1)"}}, attempt: 0})
			}
		}
		if len(jobs) == 0 {
			break
		}
		e.runJobs(jobs)
	}

	// ---- floors and coverage of the enumeration
	var enumerated, killed, errPlanned, errHit int
	targetsFull := map[string]bool{}
	for _, cs := range states {
		if !cs.judgable {
			continue
		}
		n := len(cs.plan.Points) - len(cs.vanished) + cs.extra
		enumerated += n
		k := cs.extra
		rep.Count("crash_points_beyond_pass1", int64(cs.extra))
		rep.Count("crash_points_absent_in_rerun", int64(len(cs.vanished)))
		if usesStepper(cs.sp) && !cs.extraEnd {
			rep.Inconclusive("%s: the kill sweep did not reach the end of the operation", cs.sp.label())
		}
		for _, pt := range cs.plan.Points {
			if cs.killed[pt.Index] {
				k++
			} else if cs.vanished[pt.Index] {
				continue
			} else {
				rep.Inconclusive("%s: crash point %d (%s) could not be hit by a kill in %d attempts", cs.sp.label(), pt.Index, pt.What, maxAttempts)
			}
		}
		killed += k
		if k == n && n > 0 {
			targetsFull[cs.sp.Target] = true
		}
		errHit += len(cs.errored)
		rep.Max("max_crash_points_per_operation", int64(n))
	}
	_ = errPlanned
	sampled := map[string]bool{}
	for _, t := range []string{tDownload, tZip, tSymlink, tFstree, tCopy} {
		for _, cs := range states {
			if cs.judgable && cs.sp.Target == t && !sampled[t] && len(cs.plan.Points) > 0 && (t != tDownload || cs.sp.Signed) {
				sampled[t] = true
				e.sampleCase(cs)
			}
		}
	}
	rep.Set("crash_points_enumerated", enumerated)
	rep.Set("crash_points_killed", killed)
	rep.Set("error_injections_confirmed", errHit)
	rep.Set("cases", len(states))
	for _, t := range allTargets {
		rep.Floor(targetsFull[t], "target %s: no case in which every enumerated crash point was killed", t)
	}
	rep.Floor(enumerated > 0 && killed*100 >= enumerated*95, "crash points killed %d of %d enumerated", killed, enumerated)

	// ---- concurrent updater operations (download run ends during a zip extraction)
	e.runConcur()

	// ---- concurrent readers
	t2 := time.Now()
	e.runReaders()
	fmt.Printf("INFO C17 reader scenarios in %.1fs\n", time.Since(t2).Seconds())

	rep.Assume("a crash is modelled as SIGKILL of the process immediately before a system call executes (strace syscall tampering); the kernel's file-system state at that instant is what a restarted process sees - loss of unsynced page-cache data on power failure is not modelled, durability is observed as the fsync call on the trace")
	rep.Assume("strace 6.1 counts inject when= per syscall name and per thread; the operation runs on the main thread (LockOSThread in init) and every pass-2 trace is parsed to confirm which call was tampered with")
	rep.Assume("temporary files named .<destination base>* in TMPDIR, in an explicitly given temp dir or in the destination's directory (renameio's documented fallback) are 'stray temporary files in the temporary location'")
}

// runJobs executes jobs in parallel children and judges each.
func (e *engine) runJobs(jobs []job) {
	par := e.cfg.Par
	if par < 1 {
		par = 1
	}
	keep := os.Getenv("C17_KEEP") != ""
	var mu sync.Mutex // judging is serialised
	var wg sync.WaitGroup
	sem := make(chan struct{}, par)
	for i := range jobs {
		wg.Add(1)
		sem <- struct{}{}
		go func(j job) {
			defer wg.Done()
			defer func() { <-sem }()
			cspec, sp := e.childSpec(j)
			r := vlib.RunChild(e.cfg, cspec)
			mu.Lock()
			fu := e.judge(j, sp, r)
			mu.Unlock()
			if fu != nil {
				// second phase of the crash oracle: a fresh process operates on the tree the killed one left
				fspec, fsp, fw := e.followSpec(sp, r, fu)
				r2 := vlib.RunChild(e.cfg, fspec)
				mu.Lock()
				e.judgeFollow(j, fsp, fw, fu, r, r2)
				mu.Unlock()
				if !keep {
					_ = os.RemoveAll(r2.Dir)
				}
			}
			if !keep {
				_ = os.RemoveAll(r.Dir)
			}
			if sp.CrossTmp != "" {
				_ = os.RemoveAll(sp.CrossTmp)
			}
		}(jobs[i])
	}
	wg.Wait()
}

func dataState(payload []byte) string {
	h := sha256.Sum256(payload)
	return "data:" + hex.EncodeToString(h[:8])
}

// followUp is what a judged kill run hands to the second phase.
type followUp struct {
	w  *world       // the killed run's world
	st *stateReport // what the destination was right after the kill
}

const followSize = contentHeader + 17 // the follow-up content is short: a reused stale temp file would show its tail

// followSpec describes the follow-up operation on a killed run's left-over tree: the same
// target once more, no fault, for the single-file targets with a new, shorter content.
func (e *engine) followSpec(sp caseSpec, r *vlib.ChildResult, fu *followUp) (vlib.ChildSpec, caseSpec, *world) {
	fsp := sp
	fsp.Phase, fsp.FollowDir = "follow", r.Dir
	switch sp.Target {
	case tWriteFile, tCreate, tCopy, tReplace, tFstree, tDownload:
		fsp.ContentID, fsp.NewSize = 3, followSize
	}
	name := r.Name + "-f"
	if sp.Target == tDownload {
		fsp.Variant = "complete"
		fsp.URL = e.srv.url(name, "complete", fsp.Seed, fsp.NewSize, fsp.ContentID)
	}
	fw := e.worldOf(fsp, r.Dir)
	// the follow-up's "old" state is what the kill left
	fw.old, fw.oldLink = nil, ""
	switch fu.st.Dest {
	case "old":
		fw.old, fw.oldLink = fu.w.old, fu.w.oldLink
	case "new":
		if fu.w.destKind == "symlink" {
			fw.oldLink = fu.w.newLink
		} else {
			fw.old = fu.w.new
		}
	}
	return vlib.ChildSpec{Name: name, Bin: e.cfg.BinPlain, Spec: fsp, Timeout: 4 * time.Minute, Env: []string{"TMPDIR=" + fw.tmp}}, fsp, fw
}

// judgeFollow: after the follow-up operation the destination is exactly the follow-up's
// content (or, if it failed, still what the kill left), and the leftovers predicate holds.
func (e *engine) judgeFollow(j job, fsp caseSpec, fw *world, fu *followUp, r, r2 *vlib.ChildResult) {
	rep := e.rep
	rep.Eval(1)
	rep.Count("followup_runs", 1)
	before, phase, pidx := "a process completed the operation and ended", "after-end", -1
	if j.inj != nil {
		before, phase, pidx = "a process was killed immediately before "+j.inj.Point.What, "after-crash", j.inj.Point.Index
	}
	if r2.TimedOut || !r2.Done || r2.Out == nil {
		rep.Inconclusive("%s: follow-up operation (%s) did not complete (exit=%d signal=%q): %s", fsp.label(), before, r2.Exit, r2.Signal, r2.StderrTail(400))
		return
	}
	var res opResult
	_ = json.Unmarshal(r2.Out, &res)
	st, err := fw.inspect()
	if err != nil {
		rep.Inconclusive("%s: cannot inspect the sandbox after the follow-up operation: %v", fsp.label(), err)
		return
	}
	fw.judgeReturn(st, res, false)
	if res.Reopened != "" {
		// fstree: right after the backend was re-opened on the left-over tree, Get must still serve what was there
		want := "notfound"
		switch fu.st.Dest {
		case "old":
			want = dataState(fu.w.payloadB)
		case "new":
			want = dataState(fu.w.payloadA)
		}
		rep.Count("reopen_get_checks", 1)
		if res.Reopened != want {
			st.Findings = append(st.Findings, finding{"dest-missing", "dest", fmt.Sprintf("the destination held the complete %s record when the earlier process ended, but after re-opening the backend (NewFSTree on the same directory) Get served %q instead of %q", fu.st.Dest, res.Reopened, want)})
		}
	}
	for _, f := range st.Findings {
		sig := fmt.Sprintf("C17:%s:%s:%s:%s", f.Kind, fsp.Target, phase, f.Role)
		rep.Violation(sig, fmt.Sprintf("%s: %s; a new process then re-opened the tree and ran the same operation again (content of %d bytes, no fault, returned %q): %s",
			fsp.Target, before, len(fw.new), res.Err, f.Text),
			map[string]any{"spec": j.cs.sp, "inject": j.inj, "follow_up_spec": fsp, "finding": f, "state_after_follow_up": st, "op_result": res,
				"killed_run_trace_tail": traceExcerpt(r.Dir, 40)})
	}
	if res.Err != "" {
		rep.Count("followup_op_failed", 1)
		rep.Note("%s: the follow-up operation (%s) failed: %s", fsp.label(), before, res.Err)
		return
	}
	rep.Count("followup_state_"+st.Dest, 1)
	rep.Distinct(fmt.Sprintf("%s|follow|%d", j.cs.sp.sig(), pidx))
}

func traceExcerpt(dir string, n int) []string {
	b, err := os.ReadFile(filepath.Join(dir, "strace.out"))
	if err != nil {
		return nil
	}
	lines := strings.Split(strings.TrimSpace(string(b)), "\n")
	var keep []string
	in := false
	for _, ln := range lines {
		if strings.Contains(ln, markBegin) {
			in = true
		}
		if in && !strings.Contains(ln, "fcntl(") && !strings.Contains(ln, "epoll_ctl(") {
			if len(ln) > 300 {
				ln = ln[:300] + "..."
			}
			keep = append(keep, ln)
		}
	}
	if len(keep) > n {
		keep = keep[len(keep)-n:]
	}
	return keep
}

func (e *engine) violation(sp caseSpec, inj *inject, hit *sysEvent, f finding, w *world, st *stateReport, res *opResult, dir string) {
	phase := "nofault"
	if inj != nil {
		phase = "error"
		if inj.Kill {
			phase = "crash"
		}
	}
	sig := fmt.Sprintf("C17:%s:%s:%s:%s", f.Kind, sp.Target, phase, f.Role)
	what := fmt.Sprintf("%s: %s", sp.Target, f.Text)
	call := ""
	if inj != nil {
		call = inj.Point.What
		if hit != nil {
			call = hit.short(w) // what the run's own trace shows as the tampered call
		}
	}
	if inj != nil && inj.Kill {
		what = fmt.Sprintf("%s, process killed immediately before %s: %s", sp.Target, call, f.Text)
	} else if inj != nil {
		what = fmt.Sprintf("%s, %s injected into %s: %s", sp.Target, inj.Errno, call, f.Text)
	}
	e.rep.Violation(sig, what, map[string]any{"spec": sp, "inject": inj, "tampered_call": call, "finding": f, "state": st, "op_result": res,
		"trace_tail": traceExcerpt(dir, 60)})
}

// judge evaluates one finished child.
func (e *engine) judge(j job, sp caseSpec, r *vlib.ChildResult) (fu *followUp) {
	rep := e.rep
	cs := j.cs
	if r.TimedOut {
		rep.Inconclusive("%s: child %s timed out", sp.label(), r.Name)
		return
	}
	if strings.HasPrefix(r.Signal, "start-failed") {
		rep.Inconclusive("cannot start strace: %s", r.Signal)
		return
	}
	w := e.worldOf(sp, r.Dir)
	tf, err := parseTrace(filepath.Join(r.Dir, "strace.out"))
	if err != nil || tf.MainTid == 0 {
		rep.Inconclusive("%s: no usable strace output for %s (%v) stderr: %s", sp.label(), r.Name, err, r.StderrTail(300))
		return
	}
	if j.inj != nil && !tf.Begin {
		// a re-planned attempt with a smaller ordinal tampered with the harness's own set-up: not a case
		rep.Eval(1)
		rep.Count("injections_before_operation", 1)
		return
	}
	if strings.Contains(r.StderrTail(2000), "C17-SETUP-FAILED") {
		rep.Inconclusive("%s: setup failed: %s", sp.label(), r.StderrTail(400))
		return
	}
	var res *opResult
	if r.Done && r.Out != nil {
		res = &opResult{}
		_ = json.Unmarshal(r.Out, res)
	}

	// ---------------- pass 1
	if j.inj == nil {
		rep.Eval(1)
		rep.Count("pass1_runs", 1)
		if !r.Done || res == nil || !tf.Begin || !tf.End {
			rep.Inconclusive("%s: pass 1 did not complete (exit=%d signal=%q): %s", sp.label(), r.Exit, r.Signal, r.StderrTail(600))
			return
		}
		pl := enumerate(tf, w)
		cs.plan = pl
		for n, c := range pl.NamesSeen {
			_ = c
			rep.Seen("syscalls_seen_during_operations", n)
		}
		for n, c := range pl.MutatingNames {
			rep.Count("mutating_"+n, int64(c))
			rep.Seen("mutating_syscalls", n)
		}
		rep.Count("ops_"+sp.Target, 1)
		rep.Seen("dest_states", sp.Old)
		rep.Seen("tmp_placement", sp.TmpMount)
		if usesStepper(sp) {
			rep.Count("cases_driven_by_ptrace_stepper", 1)
		} else {
			rep.Count("cases_driven_by_strace", 1)
		}
		if sp.NewSize == 0 || (sp.Old != "absent" && sp.OldSize == 0) {
			rep.Count("cases_with_empty_content", 1)
		}
		if sp.NewSize >= bigSize || sp.OldSize >= bigSize {
			rep.Count("cases_with_multi_megabyte_content", 1)
		}
		if len(pl.Unknown) > 0 {
			rep.Inconclusive("%s: system calls the classifier does not know: %v (cannot claim the enumeration is complete)", sp.label(), pl.Unknown)
			return
		}
		if len(pl.OffThread) > 0 {
			rep.Inconclusive("%s: %d mutating calls on threads other than the main thread cannot be addressed: %v", sp.label(), len(pl.OffThread), pl.OffThread[:1])
			return
		}
		st, err := w.inspect()
		if err != nil {
			rep.Inconclusive("%s: cannot inspect the sandbox: %v", sp.label(), err)
			return
		}
		w.judgeReturn(st, *res, false)
		if res.Err != "" && !w.expectErr && !w.errOK {
			rep.Inconclusive("%s: the operation failed without any injected fault: %s", sp.label(), res.Err)
			return
		}
		for _, f := range st.Findings {
			e.violation(sp, nil, nil, f, w, st, res, r.Dir)
		}
		rep.Count("end_state_"+st.Dest, 1)
		// syscall-order oracle (single files only)
		if w.destKind == "file" {
			dests := []string{w.dest}
			if w.sigDest != "" {
				dests = append(dests, w.sigDest)
			}
			fv := checkFsyncBeforeRename(pl, w, dests)
			rep.Count("renames_onto_destination", int64(fv.Renames))
			if res.Err == "" && fv.Renames == 0 {
				rep.Inconclusive("%s: the operation succeeded but no rename onto the destination is on the trace", sp.label())
			}
			for _, bad := range fv.Bad {
				rep.Violation("C17:no-fsync-before-rename:"+sp.Target, sp.Target+": "+bad,
					map[string]any{"spec": sp, "calls_on_the_temp_file": fv.Witness, "trace_tail": traceExcerpt(r.Dir, 60)})
			}
			if len(fv.Bad) == 0 && fv.Renames > 0 {
				rep.Count("fsync_before_rename_confirmed", int64(fv.Renames))
			}
		}
		cs.judgable = true
		rep.Distinct(sp.sig() + "|pass1")
		if len(st.Findings) == 0 && res.Err == "" && !w.expectErr && !w.errOK {
			fu = &followUp{w: w, st: st} // second phase after a clean end: a new process re-opens and operates on the tree
		}
		return
	}

	// ---------------- pass 2
	inj := j.inj
	rep.Eval(1)
	if inj.Second {
		e.judgeSecond(j, sp, r, w, tf)
		return
	}
	idx, hit, why := hitIndex(tf, w, inj.Kill)
	if inj.Kill {
		rep.Count("kill_runs", 1)
		died := r.Signal == "killed" && tf.Killed && !r.Done
		if !died {
			// the planned call never came (diverging run): judged as a plain run, re-planned
			rep.Count("kill_runs_not_killed", 1)
			if usesStepper(sp) && r.Done && tf.End {
				// index addressing: this run simply had fewer mutating calls
				if inj.Point.Index >= len(cs.plan.Points) {
					cs.extraEnd = true
				} else {
					cs.vanished[inj.Point.Index] = true
				}
			}
			return
		}
		st, err := w.inspect()
		if err != nil {
			rep.Inconclusive("%s: cannot inspect the sandbox after the kill: %v", sp.label(), err)
			return
		}
		for _, f := range st.Findings {
			e.violation(sp, inj, hit, f, w, st, nil, r.Dir)
		}
		if len(st.Findings) == 0 && !w.expectErr && !w.errOK {
			fu = &followUp{w: w, st: st} // second phase: operate on what this kill left behind
		}
		if idx < 0 {
			// killed, but not at a crash point of the plan: the state predicate was still evaluated
			rep.Count("kills_off_plan", 1)
			rep.Note("%s: kill planned before %s landed elsewhere: %s", sp.label(), inj.Point.What, why)
			return
		}
		if hit.Name != inj.Point.Name && !usesStepper(sp) {
			rep.Count("kills_off_plan", 1)
			rep.Note("%s: kill planned before %s hit %s instead", sp.label(), inj.Point.What, hit.short(w))
			return
		}
		if idx != inj.Point.Index {
			rep.Count("kills_at_other_point", 1)
		}
		if idx >= len(cs.plan.Points) {
			cs.extra++
			rep.Count("crash_state_"+st.Dest, 1)
			rep.Distinct(fmt.Sprintf("%s|kill|%d|%s", sp.sig(), idx, hit.Name))
			return
		}
		if !cs.killed[idx] {
			cs.killed[idx] = true
			cs.outcomes[idx] = st.Dest
			rep.Count("crash_state_"+st.Dest, 1)
			rep.Count("temp_leftovers_after_crash", int64(len(st.Temps)))
			rep.Distinct(fmt.Sprintf("%s|kill|%d|%s", sp.sig(), idx, hit.Name))
			rep.Seen("killed_before", hit.Name)
		}
		return
	}
	// error injection
	rep.Count("error_runs", 1)
	if idx < 0 || (hit.Name != inj.Point.Name && !usesStepper(sp)) {
		// the error went into another call (e.g. a wake-up write of the Go runtime): not a case of the plan
		rep.Count("errors_off_plan", 1)
		if usesStepper(sp) && hit == nil && r.Done && tf.End {
			cs.errGone[fmt.Sprintf("%d/%s", inj.Point.Index, inj.Errno)] = true // this run had fewer mutating calls
			return
		}
		if attemptNote < 10 {
			attemptNote++
			rep.Note("%s: %s planned for %s went elsewhere (%s)", sp.label(), inj.Errno, inj.Point.What, why)
		}
		return
	}
	if !r.Done || res == nil {
		rep.Inconclusive("%s: child died (exit=%d signal=%q) after %s was injected into %s: %s", sp.label(), r.Exit, r.Signal, inj.Errno, inj.Point.What, r.StderrTail(400))
		return
	}
	st, err := w.inspect()
	if err != nil {
		rep.Inconclusive("%s: cannot inspect the sandbox after the error run: %v", sp.label(), err)
		return
	}
	w.judgeReturn(st, *res, true)
	for _, f := range st.Findings {
		e.violation(sp, inj, hit, f, w, st, res, r.Dir)
	}
	key := fmt.Sprintf("%d/%s", idx, inj.Errno)
	if usesStepper(sp) {
		cs.errLen[key] = len(enumerate(tf, w).Points)
	}
	if !cs.errored[key] {
		cs.errored[key] = true
		out := "failed"
		if res.Err == "" {
			out = "succeeded"
		}
		cs.errOut[key] = out + "/" + st.Dest
		rep.Count("error_run_op_"+out, 1)
		rep.Count("error_state_"+st.Dest, 1)
		rep.Count("temp_leftovers_after_error", int64(len(st.Temps)))
		rep.Distinct(fmt.Sprintf("%s|err|%s|%s", sp.sig(), key, hit.Name))
		rep.Seen("errors_injected_into", hit.Name+":"+inj.Errno)
	}
	return nil
}

// judgeSecond evaluates a second-order run: an error went into call e and the process
// was killed before the later mutating call k (inside the operation's own retry).
func (e *engine) judgeSecond(j job, sp caseSpec, r *vlib.ChildResult, w *world, tf *traceFile) {
	rep, cs, inj := e.rep, j.cs, j.inj
	rep.Count("second_order_runs", 1)
	died := r.Signal == "killed" && tf.Killed && !r.Done
	if !died {
		rep.Count("second_order_not_killed", 1) // the run ended before call k (shorter sequence)
		return
	}
	eIdx, _, _ := hitIndex(tf, w, false)
	kIdx, hit, _ := hitIndex(tf, w, true)
	if eIdx != inj.Point.Index || kIdx != inj.KillAt {
		rep.Count("second_order_off_plan", 1)
		return
	}
	st, err := w.inspect()
	if err != nil {
		rep.Inconclusive("%s: cannot inspect the sandbox after the second-order kill: %v", sp.label(), err)
		return
	}
	for _, f := range st.Findings {
		sig := fmt.Sprintf("C17:%s:%s:error+crash:%s", f.Kind, sp.Target, f.Role)
		rep.Violation(sig, fmt.Sprintf("%s, %s injected into %s, then the process was killed inside the retry immediately before %s: %s",
			sp.Target, inj.Errno, inj.Point.What, hit.short(w), f.Text),
			map[string]any{"spec": sp, "inject": inj, "tampered_call": hit.short(w), "finding": f, "state": st, "trace_tail": traceExcerpt(r.Dir, 80)})
	}
	key := fmt.Sprintf("%d/%s/%d", eIdx, inj.Errno, kIdx)
	if !cs.second[key] {
		cs.second[key] = true
		rep.Count("second_order_points_killed", 1)
		rep.Count("second_order_state_"+st.Dest, 1)
		rep.Distinct(fmt.Sprintf("%s|errkill|%s|%s", sp.sig(), key, hit.Name))
	}
}

// sampleCase puts one complete case (crash points and what was found after each) into the evidence.
func (e *engine) sampleCase(cs *caseState) {
	type pt struct {
		Call      string `json:"call"`
		AfterKill string `json:"dest_after_kill"`
		AfterErr  string `json:"after_error,omitempty"`
	}
	var pts []pt
	for _, p := range cs.plan.Points {
		x := pt{Call: p.What, AfterKill: cs.outcomes[p.Index]}
		var es []string
		for k, v := range cs.errOut {
			if strings.HasPrefix(k, fmt.Sprintf("%d/", p.Index)) {
				es = append(es, strings.SplitN(k, "/", 2)[1]+":"+v)
			}
		}
		sort.Strings(es)
		x.AfterErr = strings.Join(es, ",")
		pts = append(pts, x)
	}
	e.rep.Sample(map[string]any{"case": cs.sp.sig(), "crash_points": pts})
}

// runReaders runs the concurrent-reader scenarios.
func (e *engine) runReaders() {
	rep := e.rep
	rcs := readerCases(e.cfg)
	if readerCasesOverride != nil {
		rcs = readerCasesOverride
	}
	var specs []vlib.ChildSpec
	for i := range rcs {
		sp := &rcs[i]
		name := fmt.Sprintf("readers-%s", sp.Target)
		if sp.Variant == "newdir" {
			name += "-newdir"
		}
		if sp.Target == tDownload {
			sp.URL = e.srv.url(name, "complete", sp.Seed, sp.NewSize, 0)
			// every resource of the scenario has its own seed; the server derives the content from the URL,
			// so the scenario uses one URL per resource (see readerWorlds)
		}
		specs = append(specs, vlib.ChildSpec{Name: name, Bin: e.cfg.BinPlain, Spec: *sp, Timeout: 10 * time.Minute})
	}
	vlib.RunChildren(e.cfg, specs, func(i int, r *vlib.ChildResult) {
		sp := rcs[i]
		rep.Eval(1)
		if r.TimedOut || !r.Done {
			rep.Inconclusive("reader scenario %s did not complete (exit=%d signal=%q timeout=%v): %s", sp.Target, r.Exit, r.Signal, r.TimedOut, r.StderrTail(500))
			return
		}
		var out readersOut
		if err := json.Unmarshal(r.Out, &out); err != nil {
			rep.Inconclusive("reader scenario %s: bad output: %v", sp.Target, err)
			return
		}
		all := out.Goroutines
		all.merge(out.Process)
		rep.Count("reader_reads", all.Reads)
		rep.Count("reader_reads_"+sp.Target, all.Reads)
		rep.Count("reader_switches_seen", all.Switches)
		rep.Count("reader_writes", int64(out.Writes))
		if out.Process != nil {
			rep.Count("reader_process_reads", out.Process.Reads)
		} else {
			rep.Note("reader scenario %s: no separate reader process (%s)", sp.Target, out.ProcErr)
		}
		if len(out.WriterErrs) > 0 {
			rep.Inconclusive("reader scenario %s: the writer failed without a fault: %v", sp.Target, out.WriterErrs)
		}
		if len(all.Bad) > 0 {
			rep.Violation("C17:partial-read:"+sp.Target+":readers", fmt.Sprintf("%s: a concurrent reader observed something that is neither the complete old nor the complete new state: %s", sp.Target, all.Bad[0]),
				map[string]any{"spec": sp, "observations": all.Bad, "reads": all.Reads, "writes": out.Writes})
		}
		if all.Switches > 0 {
			rep.Distinct("readers|" + sp.Target)
		} else {
			rep.Note("reader scenario %s: readers never saw the destination change (reads=%d)", sp.Target, all.Reads)
		}
		rep.Sample(map[string]any{"readers": sp.Target, "writes": out.Writes, "reads": all.Reads, "states_seen": all.States, "switches_seen": all.Switches})
	})
	rep.Floor(rep.Counter("reader_switches_seen") >= 20, "concurrent readers saw only %d state changes", rep.Counter("reader_switches_seen"))
}

// runConcur runs the scenarios in which two updater operations share the registry's tmp dir.
func (e *engine) runConcur() {
	rep := e.rep
	n := e.cfg.N(2, 6)
	var specs []vlib.ChildSpec
	var sps []caseSpec
	for i := 0; i < n; i++ {
		r := vlib.NewRand(e.cfg.Seed, "c17-concur", uint64(i))
		sp := caseSpec{Case: 9500 + i, Target: tZip, Seed: e.cfg.Seed*31 + uint64(i), Name: randName(r), Phase: "concur",
			Entries: r.Range(2000, 4000), NewSize: r.Range(500, 60000), Old: "absent", Variant: "concurrent-download"}
		sps = append(sps, sp)
		specs = append(specs, vlib.ChildSpec{Name: fmt.Sprintf("concur-%d", i), Bin: e.cfg.BinPlain, Spec: sp, Timeout: 5 * time.Minute})
	}
	vlib.RunChildren(e.cfg, specs, func(i int, r *vlib.ChildResult) {
		sp := sps[i]
		rep.Eval(1)
		var out concurOut
		if r.TimedOut || !r.Done || json.Unmarshal(r.Out, &out) != nil {
			rep.Inconclusive("concurrent unpack/download scenario %d did not complete (exit=%d signal=%q): %s", i, r.Exit, r.Signal, r.StderrTail(400))
			return
		}
		rep.Count("concurrent_unpack_download_runs", 1)
		rep.Count("concurrent_zip_entries", int64(out.Entries))
		if out.Overlapped {
			rep.Count("download_runs_ended_during_extraction", 1)
			rep.Distinct(fmt.Sprintf("concur|%d|%d", out.Entries, out.StagedAtEnd))
		} else {
			rep.Note("concurrent scenario %d: the download run did not end inside the extraction (staged %d of %d)", i, out.StagedAtEnd, out.Entries)
		}
		if out.UnpackErr == "" && out.DestState != "complete" || out.DestState == "fragment" {
			rep.Violation("C17:fragment:unpack_zip:concurrent-download:dest",
				fmt.Sprintf("unpack_zip: a download run of the same registry ended while %d of %d entries were staged; UnpackResources returned %q and the destination directory is %s: %v",
					out.StagedAtEnd, out.Entries, out.UnpackErr, out.DestState, out.Problems),
				map[string]any{"spec": sp, "observed": out})
		}
		if strings.HasPrefix(out.Downloaded, "fragment") {
			rep.Violation("C17:fragment:download:concurrent-unpack:dest", "download: the file downloaded while an archive was being unpacked is "+out.Downloaded,
				map[string]any{"spec": sp, "observed": out})
		}
		if i == 0 {
			rep.Sample(map[string]any{"concurrent": "UnpackResources || DownloadUpdates", "observed": out})
		}
	})
}

// replay re-executes the case of a witness file.
func (e *engine) replay() {
	var doc struct {
		Detail struct {
			Spec   caseSpec `json:"spec"`
			Inject *inject  `json:"inject"`
		} `json:"detail"`
	}
	b, err := os.ReadFile(e.cfg.Replay)
	if err == nil {
		err = json.Unmarshal(b, &doc)
	}
	if err != nil || doc.Detail.Spec.Target == "" {
		fmt.Println("h_fs17: replay file has no spec:", err)
		e.rep.Inconclusive("replay file unusable")
		return
	}
	sp := doc.Detail.Spec
	if sp.Phase == "concur" {
		e.runConcur() // the scenario list is derived from the seed; the witness's seed is in the replay file
		return
	}
	if sp.Phase == "readers" {
		old := readerCasesOverride
		readerCasesOverride = []caseSpec{sp}
		e.runReaders()
		readerCasesOverride = old
		return
	}
	cs := newCaseState(sp)
	e.runJobs([]job{{cs: cs}})
	if !cs.judgable || doc.Detail.Inject == nil {
		return
	}
	inj := *doc.Detail.Inject
	// address the same crash point in the fresh plan
	for _, pt := range cs.plan.Points {
		if pt.Index == inj.Point.Index && pt.Name == inj.Point.Name {
			inj.Point = pt
		}
	}
	e.runJobs([]job{{cs: cs, inj: &inj}})
	e.rep.Note("replay: crash points killed %v, errors injected %v", cs.killed, cs.errored)
}

var readerCasesOverride []caseSpec

func newCaseState(sp caseSpec) *caseState {
	return &caseState{sp: sp, killed: map[int]bool{}, errored: map[string]bool{}, outcomes: map[int]string{}, errOut: map[string]string{}, vanished: map[int]bool{}, errGone: map[string]bool{}, errLen: map[string]int{}, second: map[string]bool{}}
}

// retries: targets that try again by themselves after a failed attempt.
func retries(target string) bool { return target == tFstree }

const secondOrder = true

func usesStepper(sp caseSpec) bool {
	return sp.Target == tDownload || sp.Mech == "ptrace" || os.Getenv("C17_STEPPER_ALL") != ""
}

const maxAttempts = 7

var attemptNote int

var attemptDelta = []int{0, 0, 1, -1, 2, -2, 3}
