package main

import (
	"bytes"
	"encoding/json"
	"fmt"
	"os"
	"path/filepath"
	"strings"
)

// finding is one contradiction of the state predicate.
type finding struct {
	Kind string `json:"kind"` // fragment | dest-missing | old-state-altered | stray | input-changed | success-not-published | no-error
	Role string `json:"role"` // dest | sigfile | other
	Text string `json:"text"`
}

// stateReport is what the parent saw in the sandbox after a run.
type stateReport struct {
	Dest     string    `json:"dest"` // absent | old | new | fragment
	DestDesc string    `json:"dest_desc,omitempty"`
	DestMode uint32    `json:"dest_mode,omitempty"`
	Sig      string    `json:"sigfile,omitempty"`
	Temps    []string  `json:"temp_leftovers,omitempty"` // legitimate leftovers in temporary locations
	Findings []finding `json:"findings,omitempty"`
	Listing  []string  `json:"listing,omitempty"` // filled for witnesses
}

func (w *world) rel(p string) string {
	if r, err := filepath.Rel(w.dir, p); err == nil && !strings.HasPrefix(r, "..") {
		return r
	}
	return p
}

func under(p, root string) bool {
	return p == root || strings.HasPrefix(p, root+string(filepath.Separator))
}

func inList(p string, l []string) bool {
	for _, x := range l {
		if p == x {
			return true
		}
	}
	return false
}

// isTempName: the entry is named like the temporaries of this operation and lives in
// one of the directories the operation may use for temporaries (TMPDIR, an explicit
// temp dir, or the destination's directory - the documented fallback).
func (w *world) isTempName(p string) bool {
	return inList(filepath.Dir(p), w.tempDirs) && strings.HasPrefix(filepath.Base(p), w.tempPrefix) && p != w.dest
}

// isTemporary: p is a temporary entry in a temporary location (see inspect).
func (w *world) isTemporary(p string) bool {
	for _, ft := range w.freeTrees {
		if under(p, ft) {
			return true
		}
	}
	return w.isTempName(p) || (w.destKind == "symlink" && filepath.Base(p) == "tmp.symlink" && w.isTempName(filepath.Dir(p)))
}

// judgeTree compares the unpacked directory with the archive's content.
func (w *world) judgeTree() (string, string) {
	want := map[string][]byte{}
	for p, c := range w.tree {
		want[filepath.Join(w.dest, filepath.FromSlash(strings.TrimSuffix(p, "/")))] = c
	}
	got := snapshot([]string{w.dest})
	var probs []string
	for p, c := range want {
		e, ok := got[p]
		switch {
		case !ok:
			probs = append(probs, "missing "+w.rel(p))
		case c == nil && e.Kind != "d":
			probs = append(probs, w.rel(p)+" is not a directory")
		case c != nil:
			if e.Kind != "f" {
				probs = append(probs, w.rel(p)+" is not a file")
				continue
			}
			b, _ := os.ReadFile(p)
			if !bytes.Equal(b, c) {
				probs = append(probs, w.rel(p)+": "+describe(b, nil, c))
			}
		}
	}
	for p := range got {
		if _, ok := want[p]; !ok && p != w.dest {
			probs = append(probs, "unexpected "+w.rel(p))
		}
	}
	if len(probs) == 0 {
		return "new", ""
	}
	if len(probs) > 6 {
		probs = append(probs[:6], fmt.Sprintf("... %d more", len(probs)-6))
	}
	return "fragment", "unpacked directory is incomplete: " + strings.Join(probs, "; ")
}

// inspect evaluates the state predicate of C17 on the sandbox as it is now:
// the destination is absent/old-complete or new-complete, inputs are untouched and
// everything else that appeared is a temporary in a temporary location.
func (w *world) inspect() (*stateReport, error) {
	var pre map[string]entry
	b, err := os.ReadFile(filepath.Join(w.dir, "setup.json"))
	if err != nil {
		return nil, fmt.Errorf("no pre-state snapshot: %w", err)
	}
	if err := json.Unmarshal(b, &pre); err != nil {
		return nil, err
	}
	post := snapshot([]string{w.sb, w.tmp})
	rep := &stateReport{}
	add := func(kind, role, format string, a ...any) {
		rep.Findings = append(rep.Findings, finding{kind, role, fmt.Sprintf(format, a...)})
	}
	hadOld := w.old != nil || w.oldLink != ""

	// --- the destination
	de, exists := post[w.dest]
	switch {
	case !exists:
		rep.Dest = "absent"
		if hadOld {
			rep.Dest = "fragment"
			rep.DestDesc = "destination does not exist although it existed before the operation"
			add("dest-missing", "dest", "%s", rep.DestDesc)
		}
	case w.destKind == "dir":
		if got, _ := os.ReadFile(w.dest); de.Kind == "f" && w.old != nil && bytes.Equal(got, w.old) {
			rep.Dest = "old" // the regular file that was there before
		} else if de.Kind != "d" {
			rep.Dest, rep.DestDesc = "fragment", "destination is not a directory"
		} else {
			rep.Dest, rep.DestDesc = w.judgeTree()
		}
		if rep.Dest == "fragment" {
			add("fragment", "dest", "%s", rep.DestDesc)
		}
	case w.destKind == "symlink":
		switch {
		case de.Kind == "l" && de.Link == w.newLink:
			rep.Dest = "new"
		case de.Kind == "l" && w.oldLink != "" && de.Link == w.oldLink:
			rep.Dest = "old"
		case de.Kind == "f" && w.old != nil:
			got, _ := os.ReadFile(w.dest)
			if bytes.Equal(got, w.old) {
				rep.Dest = "old"
			} else {
				rep.Dest, rep.DestDesc = "fragment", "regular file at the link path: "+describe(got, w.old, nil)
			}
		default:
			rep.Dest, rep.DestDesc = "fragment", fmt.Sprintf("link path holds kind=%s target=%q (old=%q new=%q)", de.Kind, de.Link, w.oldLink, w.newLink)
		}
		if rep.Dest == "fragment" {
			add("fragment", "dest", "%s", rep.DestDesc)
		}
		if rep.Dest == "new" {
			// reading through the link must give the complete target
			got, err := os.ReadFile(w.dest)
			if err != nil || !bytes.Equal(got, w.new) {
				add("fragment", "dest", "reading through the new link: err=%v %s", err, describe(got, nil, w.new))
			}
		}
	default:
		rep.DestMode = de.Mode
		if de.Kind != "f" {
			rep.Dest, rep.DestDesc = "fragment", "destination is not a regular file (kind "+de.Kind+")"
			add("fragment", "dest", "%s", rep.DestDesc)
			break
		}
		got, err := os.ReadFile(w.dest)
		if err != nil {
			return nil, err
		}
		switch {
		case bytes.Equal(got, w.new):
			rep.Dest = "new"
		case w.old != nil && bytes.Equal(got, w.old):
			rep.Dest = "old"
			if p, ok := pre[w.dest]; ok && p.Mode != de.Mode {
				add("old-state-altered", "dest", "destination still has the old content but its mode changed %o -> %o", p.Mode, de.Mode)
			}
		default:
			rep.Dest, rep.DestDesc = "fragment", describe(got, w.old, w.new)
			add("fragment", "dest", "destination is %s (size %d; old %d bytes, new %d bytes)", rep.DestDesc, len(got), len(w.old), len(w.new))
		}
	}

	// --- the signature file of a verified download
	if w.sigDest != "" {
		if e, ok := post[w.sigDest]; !ok {
			rep.Sig = "absent"
		} else {
			got, _ := os.ReadFile(w.sigDest)
			switch {
			case e.Kind == "f" && bytes.Equal(got, w.sigData):
				rep.Sig = "new"
			default:
				rep.Sig = "fragment"
				add("fragment", "sigfile", "signature file %s holds %d of %d bytes (kind %s)", w.rel(w.sigDest), len(got), len(w.sigData), e.Kind)
			}
		}
	}

	// --- everything else
	for _, p := range sortedKeys(post) {
		if p == w.dest || (w.destKind == "dir" && under(p, w.dest)) || p == w.sigDest {
			continue
		}
		e := post[p]
		pe, was := pre[p]
		if was && w.isTemporary(p) {
			rep.Temps = append(rep.Temps, w.rel(p)) // a left-over temporary of an earlier, interrupted run
			continue
		}
		if was {
			if e.Kind != pe.Kind || e.Sum != pe.Sum || e.Link != pe.Link || (e.Kind != "d" && e.Mode != pe.Mode) {
				add("input-changed", "other", "%s changed during the operation: %+v -> %+v", w.rel(p), pe, e)
			}
			continue
		}
		// new entry
		free := false
		for _, ft := range w.freeTrees {
			if under(p, ft) {
				free = true
			}
		}
		switch {
		case free:
			rep.Temps = append(rep.Temps, w.rel(p))
		case w.isTempName(p):
			rep.Temps = append(rep.Temps, w.rel(p))
		case w.destKind == "symlink" && filepath.Base(p) == "tmp.symlink" && w.isTempName(filepath.Dir(p)):
			rep.Temps = append(rep.Temps, w.rel(p))
		case e.Kind == "d" && under(w.dest, p):
			// a parent directory of the destination that the operation created
		default:
			add("stray", "other", "%s (kind %s, %d bytes) was left outside the temporary locations %v / pattern %q", w.rel(p), e.Kind, e.Size, w.relList(w.tempDirs), w.tempPrefix+"*")
		}
	}
	for _, p := range sortedKeys(pre) {
		if _, ok := post[p]; !ok && p != w.dest && p != w.sigDest && !w.isTemporary(p) && !(w.destKind == "dir" && under(p, w.dest)) {
			add("input-changed", "other", "%s disappeared during the operation", w.rel(p))
		}
	}
	if len(rep.Findings) > 0 {
		for _, p := range sortedKeys(post) {
			e := post[p]
			rep.Listing = append(rep.Listing, fmt.Sprintf("%s %s %o %d %s%s", e.Kind, w.rel(p), e.Mode, e.Size, e.Sum, e.Link))
		}
	}
	return rep, nil
}

func (w *world) relList(l []string) []string {
	var out []string
	for _, p := range l {
		out = append(out, w.rel(p))
	}
	return out
}

// opResult is what a child that ran to completion reports.
type opResult struct {
	Returned bool   `json:"returned"`
	Err      string `json:"err"`                // "" = nil
	Reopened string `json:"reopened,omitempty"` // fstree follow-up: what Get served right after the backend was re-opened
}

// judgeReturn adds the findings that relate the operation's return value to the state.
func (w *world) judgeReturn(rep *stateReport, res opResult, injected bool) {
	if !res.Returned {
		return
	}
	add := func(kind, role, format string, a ...any) {
		rep.Findings = append(rep.Findings, finding{kind, role, fmt.Sprintf(format, a...)})
	}
	if res.Err == "" && rep.Dest != "new" {
		add("success-not-published", "dest", "the operation returned nil but the destination is %s %s", rep.Dest, rep.DestDesc)
	}
	if res.Err == "" && w.expectErr {
		add("no-error", "dest", "the operation returned nil although its source is broken (%s/%s)", w.sp.Reader, w.sp.Variant)
	}
	if res.Err != "" && w.expectErr && rep.Dest == "new" {
		add("fragment", "dest", "the operation failed (%s) on a broken source, yet the destination was published", res.Err)
	}
}
