package main

import (
	"crypto/sha256"
	"encoding/hex"
	"fmt"
	"net"
	"net/http"
	"net/http/httptest"
	"strconv"
	"strings"
	"sync"

	"github.com/safing/jess"
	"github.com/safing/jess/filesig"
	"github.com/safing/jess/lhash"
	"github.com/safing/portbase/updater"
)

// contentServer is the update server the download target fetches from. It lives in
// the orchestrator (not in the traced child): strace counts when= per thread, and a
// server inside the child would put socket writes of its own threads into the same
// counters. URL layout: /<nonce>/<behaviour>/<seed>/<size>/<versioned path>.
type contentServer struct {
	srv      *httptest.Server
	mu       sync.Mutex
	attempts map[string]int
	signer   *jess.Signet
	trust    string // base58 recipient signet handed to the children
	store    jess.TrustStore
	signErr  error
	Requests int
	sigCache map[string][]byte
}

func startContentServer() *contentServer {
	cs := &contentServer{attempts: map[string]int{}, sigCache: map[string][]byte{}}
	cs.initSigning()
	cs.srv = httptest.NewServer(http.HandlerFunc(cs.handle))
	return cs
}

func (cs *contentServer) initSigning() {
	s, err := jess.GenerateSignet("Ed25519", 0)
	if err != nil {
		cs.signErr = err
		return
	}
	s.ID = "c17-signer"
	if err := s.StoreKey(); err != nil {
		cs.signErr = err
		return
	}
	rcpt, err := s.AsRecipient()
	if err != nil {
		cs.signErr = err
		return
	}
	if err := rcpt.StoreKey(); err != nil {
		cs.signErr = err
		return
	}
	b58, err := rcpt.ToBase58()
	if err != nil {
		cs.signErr = err
		return
	}
	ts := jess.NewMemTrustStore()
	_ = ts.StoreSignet(s)
	_ = ts.StoreSignet(rcpt)
	cs.signer, cs.trust, cs.store = s, b58, ts
}

// sigFor returns the signature file for a resource content.
func (cs *contentServer) sigFor(content []byte, identifier, version string) ([]byte, error) {
	if cs.signErr != nil {
		return nil, cs.signErr
	}
	// one signature per (content, resource): the signing time is part of the letter, and
	// the orchestrator must know the exact bytes the child is going to store
	h := sha256.Sum256(content)
	key := hex.EncodeToString(h[:]) + "|" + identifier + "|" + version
	cs.mu.Lock()
	if b, ok := cs.sigCache[key]; ok {
		cs.mu.Unlock()
		return b, nil
	}
	cs.mu.Unlock()
	b, err := cs.makeSig(content, identifier, version)
	if err != nil {
		return nil, err
	}
	cs.mu.Lock()
	if old, ok := cs.sigCache[key]; ok {
		b = old
	} else {
		cs.sigCache[key] = b
	}
	cs.mu.Unlock()
	return b, nil
}

func (cs *contentServer) makeSig(content []byte, identifier, version string) ([]byte, error) {
	env := jess.NewUnconfiguredEnvelope()
	env.SuiteID = jess.SuiteSignV1
	env.Senders = []*jess.Signet{cs.signer}
	letter, _, err := filesig.SignFileData(lhash.BLAKE2b_256.Digest(content), map[string]string{"id": identifier, "version": version}, env, cs.store)
	if err != nil {
		return nil, err
	}
	return filesig.MakeSigFileSection(letter)
}

func (cs *contentServer) url(nonce, behaviour string, seed uint64, size int, id uint64) string {
	if id == 0 {
		id = 2
	}
	return fmt.Sprintf("%s/%s/%s/%d/%d.%d", cs.srv.URL, nonce, behaviour, seed, size, id)
}

func (cs *contentServer) handle(rw http.ResponseWriter, rq *http.Request) {
	parts := strings.SplitN(strings.TrimPrefix(rq.URL.Path, "/"), "/", 5)
	if len(parts) < 5 {
		http.Error(rw, "bad path", 400)
		return
	}
	nonce, behaviour := parts[0], parts[1]
	seed, _ := strconv.ParseUint(parts[2], 10, 64)
	size, id := 0, uint64(2)
	_, _ = fmt.Sscanf(parts[3], "%d.%d", &size, &id)
	rest := parts[4]
	content := makeContent(seed, id, size)
	cs.mu.Lock()
	cs.Requests++
	cs.mu.Unlock()
	if strings.HasSuffix(rest, ".sig") {
		ident, version, ok := updater.GetIdentifierAndVersion(strings.TrimSuffix(rest, ".sig"))
		if !ok {
			http.Error(rw, "bad versioned path", 404)
			return
		}
		sig, err := cs.sigFor(content, ident, version)
		if err != nil {
			http.Error(rw, err.Error(), 500)
			return
		}
		rw.Header().Set("Content-Length", strconv.Itoa(len(sig)))
		_, _ = rw.Write(sig)
		return
	}
	cs.mu.Lock()
	cs.attempts[nonce]++
	attempt := cs.attempts[nonce]
	cs.mu.Unlock()
	if attempt > 1 {
		behaviour = "complete"
	}
	half := len(content) / 2
	switch behaviour {
	case "truncated1": // declares the full length, delivers half, closes
		rw.Header().Set("Content-Length", strconv.Itoa(len(content)))
		_, _ = rw.Write(content[:half])
		if f, ok := rw.(http.Flusher); ok {
			f.Flush()
		}
		if hj, ok := rw.(http.Hijacker); ok {
			if c, _, err := hj.Hijack(); err == nil {
				_ = c.Close()
			}
		}
	case "reset1": // delivers half, then resets the connection
		rw.Header().Set("Content-Length", strconv.Itoa(len(content)))
		_, _ = rw.Write(content[:half])
		if f, ok := rw.(http.Flusher); ok {
			f.Flush()
		}
		if hj, ok := rw.(http.Hijacker); ok {
			if c, _, err := hj.Hijack(); err == nil {
				if tc, ok := c.(*net.TCPConn); ok {
					_ = tc.SetLinger(0)
				}
				_ = c.Close()
			}
		}
	case "chunked1": // no Content-Length: the client cannot confirm completeness
		rw.Header().Set("Transfer-Encoding", "chunked")
		_, _ = rw.Write(content[:half])
		if f, ok := rw.(http.Flusher); ok {
			f.Flush()
		}
		_, _ = rw.Write(content[half:])
	case "closefull1", "closehalf1":
		// HTTP/1.0-style body delimited only by the end of the connection (no Content-Length, not
		// chunked): complete, or cut off after half. The client cannot tell the two apart from the
		// framing; a download path that accepts such a body as complete publishes a fragment.
		body := content
		if behaviour == "closehalf1" {
			body = content[:half]
		}
		if hj, ok := rw.(http.Hijacker); ok {
			if c, _, err := hj.Hijack(); err == nil {
				_, _ = c.Write([]byte("HTTP/1.0 200 OK\r\nContent-Type: application/octet-stream\r\nConnection: close\r\n\r\n"))
				_, _ = c.Write(body)
				_ = c.Close()
			}
		}
	case "p206half1", "p204empty1", "p203full1", "p201full1":
		// a plain GET answered with another 2xx status: 206 carries only a part of the resource (with
		// the part's own, matching Content-Length), 204 nothing at all, 203/201 the complete body.
		// Only a complete resource may ever be published.
		body, code := content, http.StatusNonAuthoritativeInfo
		switch behaviour {
		case "p206half1":
			body, code = content[:half], http.StatusPartialContent
			rw.Header().Set("Content-Range", fmt.Sprintf("bytes 0-%d/%d", half-1, len(content)))
		case "p204empty1":
			body, code = nil, http.StatusNoContent
		case "p201full1":
			code = http.StatusCreated
		}
		if code != http.StatusNoContent {
			rw.Header().Set("Content-Length", strconv.Itoa(len(body)))
		}
		rw.WriteHeader(code)
		_, _ = rw.Write(body)
	case "status1":
		http.Error(rw, "try again", http.StatusServiceUnavailable)
	default:
		rw.Header().Set("Content-Length", strconv.Itoa(len(content)))
		_, _ = rw.Write(content)
	}
}
