package main

import (
	"bytes"
	"encoding/json"
	"errors"
	"fmt"
	"io/fs"
	"os"
	"os/exec"
	"path/filepath"
	"strings"
	"sync"
	"sync/atomic"
	"syscall"
	"time"

	"github.com/safing/portbase/database/query"
	"github.com/safing/portbase/database/record"
	"github.com/safing/portbase/database/storage/fstree"
	"github.com/safing/portbase/updater"

	"verifharness/internal/vlib"
)

// Concurrent-reader scenario: while the writer publishes through the primitive under
// test, reader goroutines (and one reader process) open-read-validate the destination
// in a loop. Every successful read must be exactly one complete content; for
// destinations that existed before, the path must never be missing.

type readerStats struct {
	Reads    int64          `json:"reads"`
	States   map[string]int `json:"states"`   // absent / old / new
	Switches int64          `json:"switches"` // state changes a reader saw between consecutive reads
	Bad      []string       `json:"bad,omitempty"`
}

func (a *readerStats) merge(b *readerStats) {
	if b == nil {
		return
	}
	a.Reads += b.Reads
	a.Switches += b.Switches
	if a.States == nil {
		a.States = map[string]int{}
	}
	for k, v := range b.States {
		a.States[k] += v
	}
	for _, s := range b.Bad {
		if len(a.Bad) < 8 {
			a.Bad = append(a.Bad, s)
		}
	}
}

type readersOut struct {
	Target     string       `json:"target"`
	Writes     int          `json:"writes"`
	WriterErrs []string     `json:"writer_errs,omitempty"`
	Goroutines readerStats  `json:"goroutines"`
	Process    *readerStats `json:"process,omitempty"`
	ProcErr    string       `json:"proc_err,omitempty"`
	MustExist  bool         `json:"must_exist"`
}

func onceTarget(t string) bool { return t == tGzip || t == tZip || t == tDownload }

// once: the scenario publishes sp.Rounds distinct destinations once each (readers see
// absent -> new) instead of alternating two contents on one destination.
func once(sp caseSpec) bool {
	return onceTarget(sp.Target) || (sp.Target == tFstree && sp.Variant == "newdir")
}

// readerWorlds returns the destination(s) the readers poll: one for the alternating
// targets, sp.Rounds resources for the publish-once targets.
func readerWorlds(sp caseSpec, dir string) []*world {
	if !once(sp) {
		return []*world{buildWorld(sp, dir)}
	}
	var ws []*world
	for k := 0; k < sp.Rounds; k++ {
		s := sp
		s.Name = fmt.Sprintf("%s%02d", sp.Name, k)
		if sp.Target != tDownload { // the download server derives the content from the (single) update URL
			s.Seed = sp.Seed + uint64(k)*7919
		}
		ws = append(ws, buildWorld(s, dir))
	}
	return ws
}

// checkOnce reads the destination once and classifies what it saw.
func (w *world) checkOnce(mustExist bool) (state string, bad string) {
	switch w.destKind {
	case "dir":
		if _, err := os.Stat(w.dest); err != nil {
			if errors.Is(err, fs.ErrNotExist) {
				return "absent", ""
			}
			return "", "stat: " + err.Error()
		}
		st, desc := w.judgeTree()
		if st != "new" {
			return "", desc
		}
		return "new", ""
	case "symlink":
		l, err := os.Readlink(w.dest)
		if err != nil {
			if errors.Is(err, fs.ErrNotExist) {
				if mustExist {
					return "", "the link path did not exist at this instant"
				}
				return "absent", ""
			}
			return "", "readlink: " + err.Error()
		}
		artifact := false
		b, err := os.ReadFile(w.dest)
		if err != nil {
			if errors.Is(err, syscall.EISDIR) {
				// Kernel artifact of this sandbox, reproduced without portbase: open(2) of a symlink that is
				// being replaced by rename(2) occasionally resolves to the link's parent directory.
				// readlink(2) is never affected; the link itself is judged below.
				artifact = true
			} else {
				return "", "read through link (" + l + "): " + err.Error()
			}
		}
		// the link may be switched between the two calls; each observation alone must be complete
		if !artifact && !bytes.Equal(b, w.payloadA) && !bytes.Equal(b, w.payloadB) {
			return "", "read through link: " + describe(b, w.payloadB, w.payloadA)
		}
		sfx := ""
		if artifact {
			sfx = "+kernel-eisdir-artifact"
		}
		switch l {
		case w.newLink:
			return "new" + sfx, ""
		case "target-old.txt":
			return "old" + sfx, ""
		}
		return "", fmt.Sprintf("link target %q is neither old nor new", l)
	}
	b, err := os.ReadFile(w.dest)
	if err != nil {
		if errors.Is(err, fs.ErrNotExist) {
			if mustExist {
				return "", "the destination did not exist at this instant"
			}
			return "absent", ""
		}
		return "", "read: " + err.Error()
	}
	switch {
	case bytes.Equal(b, w.new):
		state = "new"
	case w.old != nil && bytes.Equal(b, w.old):
		state = "old"
	default:
		return "", "read " + describe(b, w.old, w.new)
	}
	if w.sp.Target == tFstree && w.fst != nil {
		// the backend's own read path
		r, err := w.fst.Get(fstreeKey(w.sp))
		if err != nil {
			return "", "fstree.Get: " + err.Error()
		}
		wr, ok := r.(*record.Wrapper)
		if !ok || (!bytes.Equal(wr.Data, w.payloadA) && !bytes.Equal(wr.Data, w.payloadB)) {
			return "", "fstree.Get returned a record whose data is neither old nor new"
		}
		// the backend's query path: every record it delivers for this key must be a complete value
		if bad := w.queryOnce(); bad != "" {
			return "", bad
		}
	}
	return state, ""
}

// queryOnce runs one prefix query over the record's directory.
func (w *world) queryOnce() string {
	key := fstreeKey(w.sp)
	prefix := ""
	if i := strings.LastIndex(key, "/"); i >= 0 {
		prefix = key[:i+1]
	}
	q, err := query.New("c17:" + prefix).Check()
	if err != nil {
		return ""
	}
	it, err := w.fst.Query(q, true, true)
	if err != nil {
		return ""
	}
	bad := ""
	for r := range it.Next {
		if r.DatabaseKey() != key {
			continue // neighbours and temporaries in the directory are not this destination
		}
		wr, ok := r.(*record.Wrapper)
		if !ok || (!bytes.Equal(wr.Data, w.payloadA) && !bytes.Equal(wr.Data, w.payloadB)) {
			n := -1
			if ok {
				n = len(wr.Data)
			}
			bad = fmt.Sprintf("fstree.Query delivered a record for the key whose data (%d bytes) is neither the old (%d) nor the new (%d) value", n, len(w.payloadB), len(w.payloadA))
		}
	}
	// it.Err(): a query may fail on a temporary file it walks over; that is not this destination's state
	return bad
}

func readLoop(ws []*world, mustExist bool, stop func() bool) *readerStats {
	st := &readerStats{States: map[string]int{}}
	last := make([]string, len(ws))
	for i := 0; !stop(); i++ {
		k := i % len(ws)
		s, bad := ws[k].checkOnce(mustExist)
		st.Reads++
		if bad != "" {
			if len(st.Bad) < 4 {
				st.Bad = append(st.Bad, ws[k].rel(ws[k].dest)+": "+bad)
			}
			continue
		}
		st.States[s]++
		if last[k] != "" && last[k] != s {
			st.Switches++
		}
		last[k] = s
	}
	return st
}

func readersChild(w *world) {
	sp := w.sp
	ws := readerWorlds(sp, w.dir)
	must(os.MkdirAll(ws[0].sb, 0o755))
	// setup
	ws[0].setup()
	for _, x := range ws[1:] {
		x.reg = ws[0].reg
		x.fst = ws[0].fst
		if sp.Target == tFstree {
			continue
		}
		switch sp.Target {
		case tGzip:
			writeRaw(x.archive, gzipBytes(x.new), 0o644)
		case tZip:
			writeRaw(x.archive, zipBytes(x.sp), 0o644)
			x.reg.AutoUnpack = append(x.reg.AutoUnpack, x.ident)
		}
		must(x.reg.AddResource(x.ident, updVersion, &updater.Index{Path: "stable.json", AutoDownload: true}, sp.Target != tDownload, true, false))
	}
	if onceTarget(sp.Target) {
		ws[0].reg.SelectVersions()
	}
	mustExist := !once(sp)
	out := readersOut{Target: sp.Target, MustExist: mustExist}

	var stopFlag atomic.Bool
	stopFile := filepath.Join(w.dir, "stop")
	// reader process
	cmd := exec.Command(os.Args[0])
	cmd.Env = append(os.Environ(), "C17_READER_DIR="+w.dir)
	cmd.Stderr = os.Stderr
	procOut := filepath.Join(w.dir, "reader-proc.json")
	procErr := cmd.Start()
	// reader goroutines
	var wg sync.WaitGroup
	var mu sync.Mutex
	for g := 0; g < 4; g++ {
		wg.Add(1)
		go func() {
			defer wg.Done()
			st := readLoop(ws, mustExist, stopFlag.Load)
			mu.Lock()
			out.Goroutines.merge(st)
			mu.Unlock()
		}()
	}
	// wait until the reader process is reading (so that it overlaps the writes)
	if procErr == nil {
		dl := time.Now().Add(20 * time.Second)
		for time.Now().Before(dl) {
			if _, err := os.Stat(filepath.Join(w.dir, "reader-proc.started")); err == nil {
				break
			}
			time.Sleep(2 * time.Millisecond)
		}
	}
	// writer (main goroutine)
	if once(sp) {
		if sp.Target == tZip {
			out.Writes = len(ws)
			if err := ws[0].runOp(); err != nil {
				out.WriterErrs = append(out.WriterErrs, err.Error())
			}
		} else {
			for _, x := range ws {
				out.Writes++
				if err := x.runOp(); err != nil && len(out.WriterErrs) < 4 {
					out.WriterErrs = append(out.WriterErrs, err.Error())
				}
			}
		}
	} else {
		for i := 0; i < sp.Rounds; i++ {
			out.Writes++
			if err := w0(ws).runOpWith(i%2 == 0); err != nil && len(out.WriterErrs) < 4 {
				out.WriterErrs = append(out.WriterErrs, err.Error())
			}
		}
	}
	// let the readers see the final state too
	time.Sleep(5 * time.Millisecond)
	stopFlag.Store(true)
	_ = os.WriteFile(stopFile, []byte("x"), 0o644)
	wg.Wait()
	if procErr != nil {
		out.ProcErr = procErr.Error()
	} else {
		done := make(chan error, 1)
		go func() { done <- cmd.Wait() }()
		select {
		case err := <-done:
			if err != nil {
				out.ProcErr = err.Error()
			}
		case <-time.After(60 * time.Second):
			_ = cmd.Process.Kill()
			out.ProcErr = "reader process did not stop"
		}
		if b, err := os.ReadFile(procOut); err == nil {
			var ps readerStats
			if json.Unmarshal(b, &ps) == nil {
				out.Process = &ps
			}
		} else if out.ProcErr == "" {
			out.ProcErr = "no output of the reader process"
		}
	}
	vlib.ChildFinish(w.dir, out)
}

func w0(ws []*world) *world { return ws[0] }

// readerProcMain is the separate reader process.
func readerProcMain(dir string) {
	var sp caseSpec
	if err := vlib.ChildSpecInto(dir, &sp); err != nil {
		os.Exit(3)
	}
	ws := readerWorlds(sp, dir)
	if sp.Target == tFstree {
		if fst, err := fstree.NewFSTree("c17", filepath.Join(ws[0].sb, "db")); err == nil {
			for _, x := range ws {
				x.fst = fst
			}
		}
	}
	stopFile := filepath.Join(dir, "stop")
	_ = os.WriteFile(filepath.Join(dir, "reader-proc.started"), []byte("x"), 0o644)
	n := 0
	st := readLoop(ws, !once(sp), func() bool {
		n++
		if n%8 != 0 {
			return false
		}
		_, err := os.Stat(stopFile)
		return err == nil
	})
	b, _ := json.Marshal(st)
	_ = os.WriteFile(filepath.Join(dir, "reader-proc.json"), b, 0o644)
}

func joinBad(l []string) string { return strings.Join(l, " | ") }
