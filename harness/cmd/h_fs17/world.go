package main

import (
	"archive/zip"
	"bytes"
	"compress/flate"
	"compress/gzip"
	"crypto/sha256"
	"encoding/hex"
	"encoding/json"
	"errors"
	"fmt"
	"hash/crc32"
	"io"
	"os"
	"path/filepath"
	"sort"
	"strings"
	"syscall"

	"github.com/safing/jess"
	"github.com/safing/portbase/database/record"
	"github.com/safing/portbase/database/storage"
	"github.com/safing/portbase/database/storage/fstree"
	"github.com/safing/portbase/formats/dsd"
	"github.com/safing/portbase/updater"
	"github.com/safing/portbase/utils"
	"github.com/safing/portbase/utils/renameio"
)

// Targets (the atomic-replace primitives named by the property).
const (
	tWriteFile = "writefile"     // renameio.WriteFile
	tSymlink   = "symlink"       // renameio.Symlink
	tCreate    = "createatomic"  // utils.CreateAtomic
	tCopy      = "copyatomic"    // utils.CopyFileAtomic
	tReplace   = "replaceatomic" // utils.ReplaceFileAtomic
	tFstree    = "fstree_put"    // fstree backend Put
	tGzip      = "unpack_gzip"   // updater File.Unpack(UnpackGZIP)
	tZip       = "unpack_zip"    // updater Resource.UnpackArchive via UnpackResources
	tDownload  = "download"      // updater ResourceRegistry.GetFile -> fetchFile
)

var allTargets = []string{tWriteFile, tSymlink, tCreate, tCopy, tReplace, tFstree, tGzip, tZip, tDownload}

// caseSpec fully describes one operation on one pre-state (and, for the injected runs,
// where to inject). It is what a replay file stores.
type caseSpec struct {
	Case         int    `json:"case"`
	Target       string `json:"target"`
	Seed         uint64 `json:"seed"`
	Name         string `json:"name"`          // base name of the destination
	Old          string `json:"old"`           // absent | present | othermode | (symlink:) link | file
	OldSize      int    `json:"old_size"`      // bytes of the old content (0 = empty file)
	NewSize      int    `json:"new_size"`      // bytes of the new content
	OldMode      uint32 `json:"old_mode"`      // mode of the old destination
	Mode         uint32 `json:"mode"`          // perm argument / opts.Mode
	SrcMode      uint32 `json:"src_mode"`      // mode of the source file (copy/replace)
	Opts         string `json:"opts"`          // nil | zero | mode | tempdir | mode+tempdir
	Reader       string `json:"reader"`        // bytes | chunked | failing (createatomic)
	TmpMount     string `json:"tmp_mount"`     // same | cross (TMPDIR on another mount => temp files fall back to the destination's directory)
	CrossTmp     string `json:"cross_tmp"`     // TMPDIR used for tmp_mount=cross
	Depth        int    `json:"depth"`         // fstree: key depth
	ParentExists bool   `json:"parent_exists"` // fstree: directory of the record exists already
	Variant      string `json:"variant"`       // gzip: suffix|nosuffix|corrupt, zip: ok|corrupt, download: complete|truncated1|short1|reset1|chunked1
	Entries      int    `json:"entries"`       // zip: number of file entries
	URL          string `json:"url"`           // download: base URL of the content server
	Signed       bool   `json:"signed"`        // download: signature verification enabled
	TrustSignet  string `json:"trust_signet"`  // download: base58 recipient signet
	Mech         string `json:"mech"`          // "" = strace (download: ptrace stepper) | ptrace = stepper for this case
	Layout       string `json:"layout"`        // updater targets: "" | linkdir = the storage sub-directory "all" is a symlink to a directory elsewhere
	ContentID    uint64 `json:"content_id"`    // id of the new content (0 = 2); a follow-up operation writes id 3
	FollowDir    string `json:"follow_dir"`    // phase follow: directory of the killed child whose left-over tree is operated on
	Phase        string `json:"phase"`         // trace | kill | err | readers | follow
	Rounds       int    `json:"rounds"`        // readers: alternations
}

func (sp caseSpec) sig() string {
	return fmt.Sprintf("%s%s|old=%s/%d/%o|new=%d/%o|opts=%s|rd=%s|tmp=%s|d=%d/%v|var=%s%s/%d|sig=%v", sp.Target, sp.Mech, sp.Old, sp.OldSize, sp.OldMode,
		sp.NewSize, sp.Mode, sp.Opts, sp.Reader, sp.TmpMount, sp.Depth, sp.ParentExists, sp.Variant, sp.Layout, sp.Entries, sp.Signed)
}

// world is everything derived from a spec and the directory it runs in: paths,
// expected old/new states, and where temporary files may legitimately live.
type world struct {
	sp   caseSpec
	dir  string // child directory
	sb   string // sandbox root: <dir>/sb
	tmp  string // TMPDIR of the child
	dest string // destination path

	destKind string // file | symlink | dir
	old      []byte // nil = absent
	new      []byte
	oldLink  string            // symlink target of the old state ("" = none)
	newLink  string            // symlink: new link target
	tree     map[string][]byte // zip: rel path -> content (nil = directory)
	sigDest  string            // download signed: path of the .sig file
	sigData  []byte

	tempDirs   []string // directories in which ".<base>*" temp entries may be left
	tempPrefix string
	freeTrees  []string // subtrees that are temporary locations as a whole
	expectErr  bool     // the operation must fail (failing reader, corrupt archive)
	realAll    string   // layout linkdir: the real directory behind <store>/all
	sibling    string   // fstree: a published neighbour record that the operation never touches
	errOK      bool     // the operation may refuse (error + old state) without that being a fault of the run

	// op-time handles (child only)
	fst      storage.Interface
	reg      *updater.ResourceRegistry
	ident    string
	srcPath  string
	optsDir  string
	altSrc   string // readers: second source
	archive  string
	payloadA []byte // raw payload (before record marshalling) new
	payloadB []byte // old
}

const updVersion = "1.2.3"

func recordBytes(key string, payload []byte) []byte {
	w, err := record.NewWrapper("c17:"+key, &record.Meta{Created: 1700000000, Modified: 1700000001}, dsd.RAW, payload)
	if err != nil {
		panic(err)
	}
	b, err := w.MarshalRecord(w)
	if err != nil {
		panic(err)
	}
	return b
}

func fstreeKey(sp caseSpec) string {
	if sp.Variant == "newdir" {
		// reader scenario: every record gets a directory of its own that does not exist yet
		return "dir-" + sp.Name + "/" + sp.Name
	}
	parts := []string{}
	for i := 1; i < sp.Depth; i++ {
		parts = append(parts, fmt.Sprintf("lvl%d", i))
	}
	parts = append(parts, sp.Name)
	return strings.Join(parts, "/")
}

func gzipBytes(b []byte) []byte {
	var buf bytes.Buffer
	zw, _ := gzip.NewWriterLevel(&buf, gzip.BestSpeed)
	_, _ = zw.Write(b)
	_ = zw.Close()
	return buf.Bytes()
}

// zipTree is the deterministic content of a case's archive.
func zipTree(sp caseSpec) (order []string, tree map[string][]byte) {
	tree = map[string][]byte{}
	add := func(p string, c []byte) { order = append(order, p); tree[p] = c }
	add("assets/", nil)
	add("assets/deep/", nil)
	n := sp.Entries
	if n < 1 {
		n = 1
	}
	for i := 0; i < n; i++ {
		size := 200 + 97*i
		if i == n-1 {
			size = sp.NewSize
		}
		if i == 1 && i != n-1 {
			size = 0 // an empty member (never the last one: that is the one the broken-archive variants damage)
		}
		var p string
		switch i % 3 {
		case 0:
			p = fmt.Sprintf("file%d.bin", i)
		case 1:
			p = fmt.Sprintf("assets/file%d.bin", i)
		default:
			p = fmt.Sprintf("assets/deep/file%d.bin", i)
		}
		add(p, makeContent(sp.Seed, uint64(100+i), size))
	}
	return
}

func zipBytes(sp caseSpec) []byte {
	order, tree := zipTree(sp)
	var buf bytes.Buffer
	zw := zip.NewWriter(&buf)
	for i, p := range order {
		h := &zip.FileHeader{Name: p, Method: zip.Store}
		if i%2 == 1 {
			h.Method = zip.Deflate
		}
		if tree[p] == nil {
			h.SetMode(os.ModeDir | 0o755)
			_, _ = zw.CreateHeader(h)
			continue
		}
		h.SetMode(0o644)
		if sp.Variant == "corrupt" && i == len(order)-1 {
			// the last (largest) file carries a wrong CRC: its extraction fails at the very end
			h.Method = zip.Store
			h.CRC32 = crc32.ChecksumIEEE(tree[p]) ^ 0x5a5a5a5a
			h.CompressedSize64 = uint64(len(tree[p]))
			h.UncompressedSize64 = uint64(len(tree[p]))
			w, _ := zw.CreateRaw(h)
			_, _ = w.Write(tree[p])
			continue
		}
		if sp.Variant == "truncmember" && i == len(order)-1 {
			// structurally valid archive (headers, central directory, CRC of the full content) whose
			// last member's deflate stream is cut short: extraction hits an unexpected EOF
			var cb bytes.Buffer
			fw, _ := flate.NewWriter(&cb, flate.BestSpeed)
			_, _ = fw.Write(tree[p])
			_ = fw.Close()
			cut := cb.Bytes()[:cb.Len()/2]
			h.Method = zip.Deflate
			h.CRC32 = crc32.ChecksumIEEE(tree[p])
			h.CompressedSize64 = uint64(len(cut))
			h.UncompressedSize64 = uint64(len(tree[p]))
			w, _ := zw.CreateRaw(h)
			_, _ = w.Write(cut)
			continue
		}
		w, _ := zw.CreateHeader(h)
		_, _ = w.Write(tree[p])
	}
	_ = zw.Close()
	b := buf.Bytes()
	return b
}

// gzipMulti is a multi-member gzip file (RFC 1952: the concatenation of complete gzip
// members); its content is the concatenation of the members' contents.
func gzipMulti(b []byte) []byte {
	n := len(b)
	return append(append(gzipBytes(b[:n/3]), gzipBytes(b[n/3:n*2/3])...), gzipBytes(b[n*2/3:])...)
}

// roots are the directories whose entries belong to the case: the sandbox, TMPDIR and,
// for the symlinked storage layout, the real directory behind the link.
func (w *world) roots() []string {
	r := []string{w.sb, w.tmp}
	if w.realAll != "" {
		r = append(r, w.realAll)
	}
	return r
}

// buildWorld derives paths and expectations; it touches nothing on disk.
func buildWorld(sp caseSpec, dir string) *world {
	w := &world{sp: sp, dir: dir, sb: filepath.Join(dir, "sb"), tmp: filepath.Join(dir, "tmp"), destKind: "file"}
	if sp.TmpMount == "cross" && sp.CrossTmp != "" {
		w.tmp = sp.CrossTmp
	}
	d := filepath.Join(w.sb, "d")
	newID := uint64(2)
	if sp.ContentID != 0 {
		newID = sp.ContentID
	}
	newC := makeContent(sp.Seed, newID, sp.NewSize)
	var oldC []byte
	if sp.Old != "absent" {
		oldC = makeContent(sp.Seed, 1, sp.OldSize)
	}
	w.payloadA, w.payloadB = newC, makeContent(sp.Seed, 1, sp.OldSize)
	w.optsDir = filepath.Join(w.sb, "t")
	switch sp.Target {
	case tWriteFile:
		w.dest = filepath.Join(d, sp.Name)
		w.old, w.new = oldC, newC
		w.tempDirs = []string{w.tmp, d}
	case tCreate, tCopy, tReplace:
		w.dest = filepath.Join(d, sp.Name)
		w.old, w.new = oldC, newC
		if strings.Contains(sp.Opts, "xtempdir") && sp.CrossTmp != "" {
			// explicit temp dir on another mount: the final rename must fail (EXDEV) and leave the old state
			w.optsDir = filepath.Join(sp.CrossTmp, "t")
			w.expectErr = true
		}
		if strings.Contains(sp.Opts, "tempdir") {
			w.tempDirs = []string{w.optsDir}
		} else {
			w.tempDirs = []string{w.tmp, d}
		}
		w.srcPath = filepath.Join(w.sb, "src", "source.bin")
		w.altSrc = filepath.Join(w.sb, "src", "source-old.bin")
		if sp.Target == tCreate && sp.Reader == "failing" {
			w.expectErr = true
		}
	case tSymlink:
		w.destKind = "symlink"
		w.dest = filepath.Join(d, sp.Name)
		w.newLink = "target-new.txt"
		switch sp.Old {
		case "link":
			w.oldLink = "target-old.txt"
		case "file":
			w.old = oldC
		}
		w.new = newC // content of target-new.txt (read through the link)
		if sp.Phase == "follow" {
			// the follow-up operation switches the link back to the other target
			w.newLink, w.new = "target-old.txt", makeContent(sp.Seed, 1, sp.OldSize)
		}
		w.tempDirs = []string{d}
	case tFstree:
		key := fstreeKey(sp)
		w.dest = filepath.Join(w.sb, "db", filepath.FromSlash(key))
		w.new = recordBytes(key, newC)
		if sp.Old != "absent" {
			w.old = recordBytes(key, oldC)
		}
		w.tempDirs = []string{w.tmp, filepath.Dir(w.dest)}
	case tGzip:
		w.ident = "all/data/" + sp.Name + ".dat.gz"
		store := filepath.Join(w.sb, "store")
		w.archive = filepath.Join(store, filepath.FromSlash(updater.GetVersionedPath(w.ident, updVersion)))
		if sp.Variant == "nosuffix" {
			w.dest = w.archive + "-unpacked"
		} else {
			w.dest = strings.TrimSuffix(w.archive, ".gz")
		}
		w.new = newC
		w.tempDirs = []string{filepath.Join(store, "tmp")}
		w.expectErr = sp.Variant == "corrupt"
	case tZip:
		w.destKind = "dir"
		w.ident = "all/ui/" + sp.Name + ".zip"
		store := filepath.Join(w.sb, "store")
		w.archive = filepath.Join(store, filepath.FromSlash(updater.GetVersionedPath(w.ident, updVersion)))
		w.dest = strings.TrimSuffix(w.archive, ".zip")
		_, w.tree = zipTree(sp)
		w.freeTrees = []string{filepath.Join(store, "tmp", filepath.Base(w.dest))}
		w.expectErr = sp.Variant == "corrupt" || sp.Variant == "truncmember"
		if sp.Old == "file" {
			// a regular file sits where the directory should go: the previous state that must survive
			// unless the complete directory replaces it (the unchanged code refuses with an error)
			w.old = oldC
			w.errOK = true
		}
	case tDownload:
		w.ident = "all/dl/" + sp.Name + ".bin"
		store := filepath.Join(w.sb, "store")
		w.dest = filepath.Join(store, filepath.FromSlash(updater.GetVersionedPath(w.ident, updVersion)))
		w.old, w.new = oldC, newC
		w.tempDirs = []string{filepath.Join(store, "tmp")}
		if sp.Signed {
			w.sigDest = w.dest + ".sig"
		}
	default:
		panic("unknown target " + sp.Target)
	}
	if sp.Layout == "linkdir" && (sp.Target == tGzip || sp.Target == tZip || sp.Target == tDownload) {
		w.realAll = filepath.Join(dir, "real-all") // outside the sandbox walk: seen only through the link
	}
	if sp.Target == tFstree && sp.Variant != "newdir" && (sp.ParentExists || sp.Old != "absent") {
		w.sibling = filepath.Join(filepath.Dir(w.dest), ".keep7")
	}
	w.tempPrefix = "." + filepath.Base(w.dest)
	return w
}

// ---------------------------------------------------------------------------------
// child side: setup and operation

func must(err error) {
	if err != nil {
		fmt.Fprintln(os.Stderr, "C17-SETUP-FAILED:", err)
		os.Exit(4)
	}
}

func writeRaw(path string, b []byte, mode uint32) {
	must(os.MkdirAll(filepath.Dir(path), 0o755))
	must(os.WriteFile(path, b, 0o600))
	must(os.Chmod(path, os.FileMode(mode)))
}

func (w *world) oldMode() uint32 {
	if w.sp.OldMode != 0 {
		return w.sp.OldMode
	}
	return 0o644
}

// setup creates the pre-state. It is deterministic in the spec so that the call
// counts strace uses to address a crash point are the same in every run.
func (w *world) setup() {
	sp := w.sp
	follow := sp.Phase == "follow" // re-open the left-over tree of a killed run: create no pre-state
	if follow {
		// the pre-state of a follow-up is the tree as the earlier process left it, before anything is
		// re-opened (only the harness's own new source file is put in place first)
		if sp.Target == tCopy || sp.Target == tReplace {
			sm := sp.SrcMode
			if sm == 0 {
				sm = 0o640
			}
			writeRaw(w.srcPath, w.new, sm)
		}
		w.writeSnapshot()
	}
	must(os.MkdirAll(w.sb, 0o755))
	must(os.MkdirAll(w.tmp, 0o755))
	switch sp.Target {
	case tWriteFile, tCreate, tCopy, tReplace:
		must(os.MkdirAll(filepath.Dir(w.dest), 0o755))
		must(os.MkdirAll(w.optsDir, 0o755))
		if w.old != nil && !follow {
			writeRaw(w.dest, w.old, w.oldMode())
		}
		if sp.Target == tCopy || sp.Target == tReplace {
			sm := sp.SrcMode
			if sm == 0 {
				sm = 0o640
			}
			writeRaw(w.srcPath, w.new, sm)
			if sp.Phase == "readers" {
				writeRaw(w.altSrc, w.payloadB, sm)
			}
		}
	case tSymlink:
		d := filepath.Dir(w.dest)
		must(os.MkdirAll(d, 0o755))
		if follow {
			break
		}
		writeRaw(filepath.Join(d, "target-old.txt"), w.payloadB, 0o644)
		writeRaw(filepath.Join(d, "target-new.txt"), w.payloadA, 0o644)
		switch sp.Old {
		case "link":
			must(os.Symlink(w.oldLink, w.dest))
		case "file":
			writeRaw(w.dest, w.old, w.oldMode())
		}
	case tFstree:
		base := filepath.Join(w.sb, "db")
		fst, err := fstree.NewFSTree("c17", base)
		must(err)
		w.fst = fst
		if follow {
			break
		}
		if sp.ParentExists || w.old != nil {
			must(os.MkdirAll(filepath.Dir(w.dest), 0o755))
		}
		if w.old != nil {
			writeRaw(w.dest, w.old, w.oldMode())
		}
		if w.sibling != "" {
			writeRaw(w.sibling, recordBytes("sibling", w.payloadB), 0o644)
		}
	case tGzip, tZip, tDownload:
		store := filepath.Join(w.sb, "store")
		if w.realAll != "" && !follow {
			must(os.MkdirAll(w.realAll, 0o755))
			must(os.MkdirAll(store, 0o755))
			must(os.Symlink(w.realAll, filepath.Join(store, "all")))
		}
		w.reg = &updater.ResourceRegistry{Name: "c17", Online: sp.Target == tDownload}
		if sp.Target == tDownload {
			w.reg.UpdateURLs = []string{sp.URL}
			if sp.Signed {
				signet, err := jess.SignetFromBase58(sp.TrustSignet)
				must(err)
				ts := jess.NewMemTrustStore()
				must(ts.StoreSignet(signet))
				w.reg.Verification = map[string]*updater.VerificationOptions{
					"": {TrustStore: ts, DownloadPolicy: updater.SignaturePolicyRequire, DiskLoadPolicy: updater.SignaturePolicyRequire},
				}
			}
		}
		if sp.Target == tZip {
			w.reg.AutoUnpack = []string{w.ident}
		}
		must(w.reg.Initialize(utils.NewDirStructure(store, 0o755)))
		if !follow { // else: archives and destination are whatever the killed run left
			w.setupStore()
		}
		must(w.reg.AddResource(w.ident, updVersion, &updater.Index{Path: "stable.json", AutoDownload: true}, sp.Target != tDownload, true, false))
		w.reg.SelectVersions()
	}
	// Record the pre-state: the parent compares the post-crash tree against it.
	if !follow {
		w.writeSnapshot()
	}
}

func (w *world) writeSnapshot() {
	snap := snapshot([]string{w.sb, w.tmp})
	b, _ := json.Marshal(snap)
	must(os.WriteFile(filepath.Join(w.dir, "setup.json"), b, 0o644))
}

func (w *world) atomicOpts() *utils.AtomicFileOptions {
	sp := w.sp
	if sp.Opts == "nil" || sp.Opts == "" {
		return nil
	}
	o := &utils.AtomicFileOptions{}
	if strings.Contains(sp.Opts, "mode") {
		o.Mode = os.FileMode(sp.Mode)
	}
	if strings.Contains(sp.Opts, "tempdir") {
		o.TempDir = w.optsDir
	}
	return o
}

// setupStore puts the archive / the old destination of an updater case into the storage dir.
func (w *world) setupStore() {
	sp := w.sp
	switch sp.Target {
	case tGzip:
		b := gzipBytes(w.new)
		if sp.Variant == "corrupt" {
			b = b[:len(b)*2/3]
		}
		if sp.Variant == "multi" {
			b = gzipMulti(w.new)
		}
		writeRaw(w.archive, b, 0o644)
	case tZip:
		writeRaw(w.archive, zipBytes(sp), 0o644)
		if sp.Old == "file" && w.old != nil {
			writeRaw(w.dest, w.old, w.oldMode())
		}
	case tDownload:
		if w.old != nil {
			writeRaw(w.dest, w.old, w.oldMode())
		}
	}
}

// chunkedReader hands out the content in small pieces (several write calls).
type chunkedReader struct {
	b      []byte
	chunk  int
	failAt int // <0: never
	off    int
}

var errInjectedReader = errors.New("c17: source reader failed")

func (r *chunkedReader) Read(p []byte) (int, error) {
	if r.failAt >= 0 && r.off >= r.failAt {
		return 0, errInjectedReader
	}
	if r.off >= len(r.b) {
		return 0, io.EOF
	}
	n := r.chunk
	if n > len(p) {
		n = len(p)
	}
	if r.off+n > len(r.b) {
		n = len(r.b) - r.off
	}
	if r.failAt >= 0 && r.off+n > r.failAt {
		n = r.failAt - r.off
	}
	copy(p, r.b[r.off:r.off+n])
	r.off += n
	return n, nil
}

func (w *world) reader(content []byte) io.Reader {
	switch w.sp.Reader {
	case "chunked":
		c := len(content)/3 + 1
		return &chunkedReader{b: content, chunk: c, failAt: -1}
	case "failing":
		c := len(content)/3 + 1
		return &chunkedReader{b: content, chunk: c, failAt: len(content) * 2 / 3}
	}
	return bytes.NewReader(content)
}

// runOp performs the operation under test once, synchronously on the calling
// goroutine (the main goroutine, locked to the main thread).
func (w *world) runOp() error { return w.runOpWith(true) }

// runOpWith writes the new (true) or the old (false) state; the old direction is used
// by the reader scenario, which alternates.
func (w *world) runOpWith(newState bool) error {
	sp := w.sp
	content, payload, src, link := w.new, w.payloadA, w.srcPath, w.newLink
	if !newState {
		content, payload, src, link = w.old, w.payloadB, w.altSrc, "target-old.txt"
	}
	switch sp.Target {
	case tWriteFile:
		return renameio.WriteFile(w.dest, content, os.FileMode(sp.Mode))
	case tSymlink:
		return renameio.Symlink(link, w.dest)
	case tCreate:
		return utils.CreateAtomic(w.dest, w.reader(content), w.atomicOpts())
	case tCopy:
		return utils.CopyFileAtomic(w.dest, src, w.atomicOpts())
	case tReplace:
		return utils.ReplaceFileAtomic(w.dest, src, w.atomicOpts())
	case tFstree:
		r, err := record.NewWrapper("c17:"+fstreeKey(sp), &record.Meta{Created: 1700000000, Modified: 1700000001}, dsd.RAW, payload)
		if err != nil {
			return err
		}
		_, err = w.fst.Put(r)
		return err
	case tGzip:
		f, err := w.reg.GetFile(w.ident)
		if err != nil {
			return fmt.Errorf("GetFile: %w", err)
		}
		suffix := ".gz"
		if sp.Variant == "nosuffix" {
			suffix = ""
		}
		p, err := f.Unpack(suffix, updater.UnpackGZIP)
		if err == nil && p != w.dest {
			return fmt.Errorf("c17 harness: Unpack returned path %s, expected %s", p, w.dest)
		}
		return err
	case tZip:
		return w.reg.UnpackResources()
	case tDownload:
		f, err := w.reg.GetFile(w.ident)
		if err == nil && f.Path() != w.dest {
			return fmt.Errorf("c17 harness: GetFile returned path %s, expected %s", f.Path(), w.dest)
		}
		return err
	}
	return errors.New("unknown target")
}

func marker(s string) { _, _ = syscall.Write(2, []byte(s+"\n")) }

const (
	markBegin = "C17-OP-BEGIN"
	markEnd   = "C17-OP-END"
)

// ---------------------------------------------------------------------------------
// tree snapshots (both sides)

type entry struct {
	Kind string `json:"k"`           // f | d | l | o
	Mode uint32 `json:"m"`           // permission bits
	Size int64  `json:"s,omitempty"` // files
	Sum  string `json:"h,omitempty"` // sha256 of files
	Link string `json:"l,omitempty"` // symlink target
}

func fileSum(p string) (string, []byte, error) {
	b, err := os.ReadFile(p)
	if err != nil {
		return "", nil, err
	}
	s := sha256.Sum256(b)
	return hex.EncodeToString(s[:8]), b, nil
}

func snapshot(roots []string) map[string]entry {
	out := map[string]entry{}
	seen := map[string]bool{}
	for _, root := range roots {
		if seen[root] {
			continue
		}
		seen[root] = true
		_ = filepath.Walk(root, func(p string, info os.FileInfo, err error) error {
			if err != nil {
				return nil
			}
			e := entry{Mode: uint32(info.Mode().Perm())}
			switch {
			case info.Mode()&os.ModeSymlink != 0:
				e.Kind = "l"
				e.Link, _ = os.Readlink(p)
				// a link to a directory: what is behind it is listed under the link's path
				if st, err := os.Stat(p); err == nil && st.IsDir() {
					if tgt, err := filepath.EvalSymlinks(p); err == nil && !seen[tgt] {
						seen[tgt] = true
						for k, v := range snapshot([]string{tgt}) {
							if k != tgt {
								out[p+strings.TrimPrefix(k, tgt)] = v
							}
						}
					}
				}
			case info.IsDir():
				e.Kind = "d"
			case info.Mode().IsRegular():
				e.Kind = "f"
				e.Size = info.Size()
				e.Sum, _, _ = fileSum(p)
			default:
				e.Kind = "o"
			}
			out[p] = e
			return nil
		})
	}
	return out
}

func sortedKeys[T any](m map[string]T) []string {
	ks := make([]string, 0, len(m))
	for k := range m {
		ks = append(ks, k)
	}
	sort.Strings(ks)
	return ks
}
