package main

import (
	"bufio"
	"fmt"
	"os"
	"runtime"
	"strconv"
	"strings"
	"syscall"
	"unsafe"
)

// ptrace system-call stepper (DESIGN §3.6 fallback, x86-64).
//
// strace addresses an injection as (syscall name, n-th call of that name on a thread).
// For the download target that address is not stable: the Go runtime issues wake-up
// writes to its eventfd from the main thread and the number of body writes depends on
// how the response arrives. The stepper counts what the property quantifies over
// directly: the k-th file-system-mutating call on the sandbox inside the operation
// window, over all threads, and tampers with exactly that call:
//
//	kill=<k>        SIGKILL the process at the syscall-enter stop of call k (it never executes)
//	err=<k>:<errno> skip call k and make it return -errno
//	errkill=<e>:<errno>:<k>  both: fail call e, then kill at call k > e (second order:
//	                a crash inside the retry that follows a failed first attempt)
//
// It writes a log in strace's text format (only the calls of its table), so the same
// parser and oracles are used for both mechanisms.
//
// usage (as ChildSpec.Wrap): <engine> C17STEP <out> <roots, colon separated> <mode> <child binary>

const stepperArg = "C17STEP"

type sysDesc struct {
	name string
	args string // per argument: f=fd p=path a=dirfd o=open flags b=buffer n=number
}

var sysTable = map[uint64]sysDesc{
	1: {"write", "fbn"}, 18: {"pwrite64", "fbnn"}, 20: {"writev", "fnn"}, 296: {"pwritev", "fnnn"}, 328: {"pwritev2", "fnnnn"},
	2: {"open", "pon"}, 257: {"openat", "apon"}, 437: {"openat2", "apnn"}, 85: {"creat", "pn"}, 3: {"close", "f"},
	40: {"sendfile", "ffnn"}, 275: {"splice", "fnfnnn"}, 326: {"copy_file_range", "fnfnnn"},
	74: {"fsync", "f"}, 75: {"fdatasync", "f"}, 277: {"sync_file_range", "fnnn"}, 162: {"sync", ""}, 306: {"syncfs", "f"},
	76: {"truncate", "pn"}, 77: {"ftruncate", "fn"}, 285: {"fallocate", "fnnn"},
	82: {"rename", "pp"}, 264: {"renameat", "apap"}, 316: {"renameat2", "apapn"},
	83: {"mkdir", "pn"}, 258: {"mkdirat", "apn"}, 84: {"rmdir", "p"}, 87: {"unlink", "p"}, 263: {"unlinkat", "apn"},
	86: {"link", "pp"}, 265: {"linkat", "apapn"}, 88: {"symlink", "pp"}, 266: {"symlinkat", "pap"},
	90: {"chmod", "pn"}, 91: {"fchmod", "fn"}, 268: {"fchmodat", "apn"}, 452: {"fchmodat2", "apnn"},
	92: {"chown", "pnn"}, 93: {"fchown", "fnn"}, 94: {"lchown", "pnn"}, 260: {"fchownat", "apnnn"},
	133: {"mknod", "pnn"}, 259: {"mknodat", "apnn"}, 280: {"utimensat", "apnn"}, 132: {"utime", "pn"}, 235: {"utimes", "pn"},
	188: {"setxattr", "ppnnn"}, 189: {"lsetxattr", "ppnnn"}, 190: {"fsetxattr", "fpnnn"},
	197: {"removexattr", "pp"}, 198: {"lremovexattr", "pp"}, 199: {"fremovexattr", "fp"},
}

var errnoByName = map[string]syscall.Errno{"EIO": syscall.EIO, "ENOSPC": syscall.ENOSPC, "EXDEV": syscall.EXDEV, "EACCES": syscall.EACCES}

const (
	ptraceGetSyscallInfo = 0x420e
	atFdcwd              = -100
)

type ptraceSyscallInfo struct {
	Op       uint8
	_        [3]uint8
	Arch     uint32
	InstrPtr uint64
	StackPtr uint64
	// entry: nr, args[6]; exit: rval (int64), is_error (uint8)
	Data [7]uint64
}

type stepper struct {
	out     *bufio.Writer
	roots   []string
	mode    string // "", kill, err
	target  int
	killAt  int // errkill: index of the call to kill at (-1 = none)
	errno   syscall.Errno
	mainPid int
	window  bool
	count   int // mutating sandbox calls seen in the window so far
	pending map[int]*stepCall
	done    bool // the tampering happened
}

type stepCall struct {
	nr     uint64
	name   string
	inject bool
}

func (s *stepper) readMem(tid int, addr uint64, n int) []byte {
	f, err := os.Open(fmt.Sprintf("/proc/%d/mem", tid))
	if err != nil {
		return nil
	}
	defer f.Close()
	buf := make([]byte, n)
	m, _ := f.ReadAt(buf, int64(addr))
	return buf[:m]
}

func (s *stepper) readCString(tid int, addr uint64) string {
	if addr == 0 {
		return ""
	}
	b := s.readMem(tid, addr, 4096)
	for i, c := range b {
		if c == 0 {
			return string(b[:i])
		}
	}
	return string(b)
}

func (s *stepper) fdPath(fd int64) string {
	p, err := os.Readlink(fmt.Sprintf("/proc/%d/fd/%d", s.mainPid, fd))
	if err != nil {
		return ""
	}
	return p
}

func (s *stepper) fdArg(v uint64) string {
	fd := int64(int32(v))
	if p := s.fdPath(fd); p != "" {
		return fmt.Sprintf("%d<%s>", fd, p)
	}
	return strconv.FormatInt(fd, 10)
}

func openFlags(v uint64) string {
	acc := []string{"O_RDONLY", "O_WRONLY", "O_RDWR", "O_ACCMODE"}[v&3]
	names := []struct {
		bit  uint64
		name string
	}{{0x40, "O_CREAT"}, {0x80, "O_EXCL"}, {0x200, "O_TRUNC"}, {0x400, "O_APPEND"}, {0x800, "O_NONBLOCK"},
		{0x10000, "O_DIRECTORY"}, {0x80000, "O_CLOEXEC"}, {0x400000, "O_TMPFILE_BIT"}}
	out := acc
	for _, n := range names {
		if v&n.bit != 0 {
			out += "|" + n.name
		}
	}
	if v&0x410000 == 0x410000 {
		out += "|O_TMPFILE"
	}
	return out
}

func (s *stepper) format(tid int, d sysDesc, a [6]uint64) string {
	var parts []string
	for i, k := range d.args {
		switch k {
		case 'f':
			parts = append(parts, s.fdArg(a[i]))
		case 'a':
			if int64(int32(a[i])) == atFdcwd {
				parts = append(parts, "AT_FDCWD")
			} else {
				parts = append(parts, s.fdArg(a[i]))
			}
		case 'p':
			parts = append(parts, strconv.Quote(s.readCString(tid, a[i])))
		case 'o':
			parts = append(parts, openFlags(a[i]))
		case 'b':
			n := 40
			if i+1 < 6 && a[i+1] < 40 {
				n = int(a[i+1])
			}
			parts = append(parts, strconv.Quote(string(s.readMem(tid, a[i], n))))
		default:
			parts = append(parts, strconv.FormatInt(int64(a[i]), 10))
		}
	}
	return strings.Join(parts, ", ")
}

func touchesRoots(line string, roots []string) bool {
	ev := &sysEvent{Args: line}
	return ev.touches(roots)
}

func getSyscallInfo(tid int) (*ptraceSyscallInfo, error) {
	var info ptraceSyscallInfo
	_, _, e := syscall.Syscall6(syscall.SYS_PTRACE, ptraceGetSyscallInfo, uintptr(tid), unsafe.Sizeof(info), uintptr(unsafe.Pointer(&info)), 0, 0)
	if e != 0 {
		return nil, e
	}
	return &info, nil
}

// stepperMain never returns.
func stepperMain(args []string) {
	if len(args) < 4 {
		fmt.Fprintln(os.Stderr, "stepper: usage: C17STEP <out> <roots> <mode> <binary>")
		os.Exit(97)
	}
	runtime.LockOSThread()
	fo, err := os.Create(args[0])
	if err != nil {
		fmt.Fprintln(os.Stderr, "stepper:", err)
		os.Exit(97)
	}
	s := &stepper{out: bufio.NewWriter(fo), roots: strings.Split(args[1], ":"), pending: map[int]*stepCall{}, target: -1, killAt: -1}
	switch m := args[2]; {
	case strings.HasPrefix(m, "kill="):
		s.mode = "kill"
		s.target, _ = strconv.Atoi(m[5:])
	case strings.HasPrefix(m, "errkill="):
		s.mode = "err"
		p := strings.SplitN(m[8:], ":", 3)
		s.target, _ = strconv.Atoi(p[0])
		s.errno = syscall.EIO
		if len(p) > 1 {
			if e, ok := errnoByName[p[1]]; ok {
				s.errno = e
			}
		}
		if len(p) > 2 {
			s.killAt, _ = strconv.Atoi(p[2])
		}
	case strings.HasPrefix(m, "err="):
		s.mode = "err"
		p := strings.SplitN(m[4:], ":", 2)
		s.target, _ = strconv.Atoi(p[0])
		s.errno = syscall.EIO
		if len(p) > 1 {
			if e, ok := errnoByName[p[1]]; ok {
				s.errno = e
			}
		}
	}
	bin := args[3]
	pid, err := syscall.ForkExec(bin, []string{bin}, &syscall.ProcAttr{
		Env:   os.Environ(),
		Files: []uintptr{0, 1, 2},
		Sys:   &syscall.SysProcAttr{Ptrace: true},
	})
	if err != nil {
		fmt.Fprintln(os.Stderr, "stepper: exec:", err)
		os.Exit(97)
	}
	s.mainPid = pid
	var ws syscall.WaitStatus
	if _, err := syscall.Wait4(pid, &ws, syscall.WALL, nil); err != nil || !ws.Stopped() {
		fmt.Fprintln(os.Stderr, "stepper: no exec stop:", err)
		os.Exit(97)
	}
	const opts = syscall.PTRACE_O_TRACESYSGOOD | syscall.PTRACE_O_TRACECLONE | syscall.PTRACE_O_TRACEFORK | syscall.PTRACE_O_TRACEVFORK | 0x100000 /* EXITKILL */
	if err := syscall.PtraceSetOptions(pid, opts); err != nil {
		fmt.Fprintln(os.Stderr, "stepper: setoptions:", err)
		os.Exit(97)
	}
	fmt.Fprintf(s.out, "%d execve(%q) = 0\n", pid, bin)
	_ = syscall.PtraceSyscall(pid, 0)

	exitCode, killedBy := 0, syscall.Signal(0)
	for {
		tid, err := syscall.Wait4(-1, &ws, syscall.WALL, nil)
		if err != nil {
			if err == syscall.EINTR {
				continue
			}
			break // ECHILD: everything is gone
		}
		switch {
		case ws.Exited():
			if tid == pid {
				exitCode = ws.ExitStatus()
				fmt.Fprintf(s.out, "%d +++ exited with %d +++\n", tid, exitCode)
			}
			continue
		case ws.Signaled():
			if tid == pid {
				killedBy = ws.Signal()
				fmt.Fprintf(s.out, "%d +++ killed by %s +++\n", tid, sigName(killedBy))
			}
			continue
		case !ws.Stopped():
			continue
		}
		sig := ws.StopSignal()
		switch {
		case sig == syscall.SIGTRAP|0x80:
			s.syscallStop(tid)
			_ = syscall.PtraceSyscall(tid, 0)
		case sig == syscall.SIGTRAP && ws.TrapCause() > 0:
			_ = syscall.PtraceSyscall(tid, 0) // clone/fork event
		case sig == syscall.SIGSTOP:
			_ = syscall.PtraceSyscall(tid, 0) // first stop of a new thread
		case sig == syscall.SIGTRAP:
			_ = syscall.PtraceSyscall(tid, 0)
		default:
			_ = syscall.PtraceSyscall(tid, int(sig)) // hand the signal on (SIGURG preemption, ...)
		}
	}
	_ = s.out.Flush()
	_ = fo.Close()
	if killedBy != 0 {
		// behave like strace: die the way the tracee died
		_ = syscall.Kill(os.Getpid(), killedBy)
		select {}
	}
	os.Exit(exitCode)
}

func sigName(s syscall.Signal) string {
	if s == syscall.SIGKILL {
		return "SIGKILL"
	}
	return fmt.Sprintf("SIG%d", int(s))
}

func (s *stepper) syscallStop(tid int) {
	info, err := getSyscallInfo(tid)
	if err != nil {
		return
	}
	switch info.Op {
	case 1: // entry
		nr := info.Data[0]
		d, ok := sysTable[nr]
		if !ok {
			return
		}
		var a [6]uint64
		copy(a[:], info.Data[1:7])
		line := s.format(tid, d, a)
		call := &stepCall{nr: nr, name: d.name}
		s.pending[tid] = call
		isMarker := false
		if d.name == "write" && int32(a[0]) == 2 && tid == s.mainPid {
			if strings.Contains(line, markBegin) {
				isMarker = true
				defer func() { s.window = true }()
			} else if strings.Contains(line, markEnd) {
				isMarker = true
				s.window = false
			}
		}
		ev := &sysEvent{Name: d.name, Args: line}
		if s.window && !isMarker && (!s.done || s.killAt >= 0) && ev.mutating() && ev.touches(s.roots) {
			idx := s.count
			s.count++
			if (idx == s.target && s.mode == "kill") || (idx == s.killAt && s.done) {
				s.killAt = -1
				s.done = true
				fmt.Fprintf(s.out, "%d %s(%s <unfinished ...>\n", tid, d.name, line)
				_ = s.out.Flush()
				_ = syscall.Kill(s.mainPid, syscall.SIGKILL)
				delete(s.pending, tid)
				return
			}
			if idx == s.target && s.mode == "err" && !s.done {
				s.done = true
				call.inject = true
				var regs syscall.PtraceRegs
				if syscall.PtraceGetRegs(tid, &regs) == nil {
					regs.Orig_rax = ^uint64(0) // no such syscall: the call is skipped
					_ = syscall.PtraceSetRegs(tid, &regs)
				}
			}
		}
		fmt.Fprintf(s.out, "%d %s(%s <unfinished ...>\n", tid, d.name, line)
	case 2: // exit
		call := s.pending[tid]
		if call == nil {
			return
		}
		delete(s.pending, tid)
		rval := int64(info.Data[0])
		if call.inject {
			var regs syscall.PtraceRegs
			if syscall.PtraceGetRegs(tid, &regs) == nil {
				regs.Rax = uint64(-int64(s.errno))
				_ = syscall.PtraceSetRegs(tid, &regs)
			}
			fmt.Fprintf(s.out, "%d <... %s resumed>) = -1 errno=%d (INJECTED)\n", tid, call.name, int(s.errno))
			return
		}
		ret := strconv.FormatInt(rval, 10)
		if rval < 0 {
			ret = fmt.Sprintf("-1 errno=%d", -rval)
		} else if openNames[call.name] {
			if p := s.fdPath(rval); p != "" {
				ret = fmt.Sprintf("%d<%s>", rval, p)
			}
		}
		fmt.Fprintf(s.out, "%d <... %s resumed>) = %s\n", tid, call.name, ret)
	}
}
