package main

import (
	"crypto/sha256"
	"encoding/hex"
	"errors"
	"fmt"
	"os"
	"runtime"

	"github.com/safing/portbase/database/record"
	"github.com/safing/portbase/database/storage"

	"verifharness/internal/vlib"
)

// strace's inject=...:when=N counts per syscall name and per thread. The operation
// under test therefore runs synchronously on the main goroutine, which is wired to the
// main thread before anything else happens.
func init() { runtime.LockOSThread() }

// childMain runs one scenario in a fresh process.
func childMain(dir string) {
	var sp caseSpec
	if err := vlib.ChildSpecInto(dir, &sp); err != nil {
		fmt.Println("bad spec:", err)
		os.Exit(3)
	}
	if sp.Phase == "concur" {
		concurChild(dir, sp)
		return
	}
	wdir := dir
	if sp.Phase == "follow" && sp.FollowDir != "" {
		wdir = sp.FollowDir // operate on the tree a killed run left behind
	}
	w := buildWorld(sp, wdir)
	if sp.Phase == "readers" {
		readersChild(w)
		return
	}
	w.setup()
	reopened := ""
	if sp.Phase == "follow" && sp.Target == tFstree && w.fst != nil {
		// the backend was just re-opened on the tree an earlier process left: what does it serve now?
		reopened = getState(w)
	}
	marker(markBegin)
	err := w.runOp()
	marker(markEnd)
	res := opResult{Returned: true, Reopened: reopened}
	if err != nil {
		res.Err = err.Error()
	}
	vlib.ChildFinish(dir, res)
}

// getState reads the case's record through the backend and names what it got.
func getState(w *world) string {
	r, err := w.fst.Get(fstreeKey(w.sp))
	if err != nil {
		if errors.Is(err, storage.ErrNotFound) {
			return "notfound"
		}
		return "error: " + err.Error()
	}
	wr, ok := r.(*record.Wrapper)
	if !ok {
		return "error: not a wrapper"
	}
	h := sha256.Sum256(wr.Data)
	return "data:" + hex.EncodeToString(h[:8])
}
