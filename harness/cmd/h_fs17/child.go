package main

import (
	"fmt"
	"os"
	"runtime"

	"verifharness/internal/vlib"
)

// strace's inject=...:when=N counts per syscall name and per thread. The operation
// under test therefore runs synchronously on the main goroutine, which is wired to the
// main thread before anything else happens.
func init() { runtime.LockOSThread() }

// childMain runs one scenario in a fresh process.
func childMain(dir string) {
	var sp caseSpec
	if err := vlib.ChildSpecInto(dir, &sp); err != nil {
		fmt.Println("bad spec:", err)
		os.Exit(3)
	}
	wdir := dir
	if sp.Phase == "follow" && sp.FollowDir != "" {
		wdir = sp.FollowDir // operate on the tree a killed run left behind
	}
	w := buildWorld(sp, wdir)
	if sp.Phase == "readers" {
		readersChild(w)
		return
	}
	w.setup()
	marker(markBegin)
	err := w.runOp()
	marker(markEnd)
	res := opResult{Returned: true}
	if err != nil {
		res.Err = err.Error()
	}
	vlib.ChildFinish(dir, res)
}
