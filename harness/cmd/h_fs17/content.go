package main

import (
	"bytes"
	"crypto/sha256"
	"encoding/binary"
	"fmt"

	"verifharness/internal/vlib"
)

// Self-validating file contents (DESIGN C17): a 52-byte header
//
//	"C17V" | id (8, LE) | body length (8, LE) | sha256(body) (32)
//
// followed by a PRNG body. A reader that gets any prefix, any mixture of two contents
// or a zero-filled hole can tell: validate() fails. The empty content (size 0) is the
// only content without a header; it is "the complete content" of an empty file.
const (
	contentMagic  = "C17V"
	contentHeader = 4 + 8 + 8 + 32
)

// makeContent returns the content with the given id and total size (rounded up to the
// header size unless it is 0).
func makeContent(seed uint64, id uint64, size int) []byte {
	if size <= 0 {
		return []byte{}
	}
	if size < contentHeader {
		size = contentHeader
	}
	body := vlib.NewRand(seed, "c17-content", id).Bytes(size - contentHeader)
	sum := sha256.Sum256(body)
	out := make([]byte, 0, size)
	out = append(out, contentMagic...)
	out = binary.LittleEndian.AppendUint64(out, id)
	out = binary.LittleEndian.AppendUint64(out, uint64(len(body)))
	out = append(out, sum[:]...)
	out = append(out, body...)
	return out
}

// validate says whether b is one complete content and which.
func validate(b []byte) (id uint64, ok bool, why string) {
	if len(b) == 0 {
		return 0, true, "empty"
	}
	if len(b) < contentHeader {
		return 0, false, fmt.Sprintf("only %d bytes (shorter than the header)", len(b))
	}
	if string(b[:4]) != contentMagic {
		return 0, false, fmt.Sprintf("bad magic %q", b[:4])
	}
	id = binary.LittleEndian.Uint64(b[4:12])
	n := binary.LittleEndian.Uint64(b[12:20])
	if uint64(len(b)-contentHeader) != n {
		return id, false, fmt.Sprintf("content %d: header says %d body bytes, file has %d", id, n, len(b)-contentHeader)
	}
	sum := sha256.Sum256(b[contentHeader:])
	if !bytes.Equal(sum[:], b[20:52]) {
		return id, false, fmt.Sprintf("content %d: body checksum mismatch", id)
	}
	return id, true, ""
}

// describe explains what a byte string is relative to the two candidates.
func describe(got, old, new []byte) string {
	switch {
	case bytes.Equal(got, new):
		return "new"
	case old != nil && bytes.Equal(got, old):
		return "old"
	}
	if len(got) == 0 {
		return "zero-length file (neither old nor new)"
	}
	if len(got) < len(new) && bytes.Equal(got, new[:len(got)]) {
		return fmt.Sprintf("prefix of the new content (%d of %d bytes)", len(got), len(new))
	}
	if old != nil && len(got) < len(old) && bytes.Equal(got, old[:len(got)]) {
		return fmt.Sprintf("prefix of the old content (%d of %d bytes)", len(got), len(old))
	}
	if _, ok, why := validate(got); !ok {
		return "fragment: " + why
	}
	return fmt.Sprintf("a complete content that is neither old nor new (%d bytes)", len(got))
}
