package main

import (
	"fmt"

	"verifharness/internal/vlib"
)

const (
	bigSize    = 4 << 20 // "multi-megabyte"
	mediumSize = 150000  // several copy buffers
)

var errnoChoices = []string{"EIO", "ENOSPC"}

func randName(r *vlib.Rand) string {
	const letters = "abcdefghijklmnopqrstuvwxyz"
	n := r.Range(3, 9)
	b := make([]byte, n)
	for i := range b {
		b[i] = letters[r.Intn(len(letters))]
	}
	return string(b)
}

func pickSize(r *vlib.Rand, allowBig bool) int {
	switch x := r.Intn(10); {
	case x == 0:
		return 0
	case x == 1 && allowBig:
		return bigSize
	case x < 5:
		return r.Range(contentHeader, 400)
	default:
		return r.Range(400, 70000)
	}
}

var modes = []uint32{0o600, 0o640, 0o644, 0o664, 0o755, 0o400}

// genCases derives the fixed, PRNG-determined case list of a run. Every target gets
// a core set that spans destination state x temp-dir placement, plus seeded variation
// of names, sizes, modes, options.
func genCases(cfg vlib.Cfg, crossOK bool) []caseSpec {
	var out []caseSpec
	add := func(sp caseSpec) {
		sp.Case = len(out)
		sp.Phase = "trace"
		if sp.TmpMount == "" {
			sp.TmpMount = "same"
		}
		if sp.TmpMount == "cross" && !crossOK {
			sp.TmpMount = "same"
		}
		out = append(out, sp)
	}
	perTarget := cfg.N(4, 24)
	bigEvery := cfg.N(4, 8) // one multi-megabyte case among this many
	for ti, t := range allTargets {
		for i := 0; i < perTarget; i++ {
			r := vlib.NewRand(cfg.Seed, "c17-case-"+t, uint64(i))
			sp := caseSpec{Target: t, Seed: cfg.Seed*1000003 + uint64(ti*1000+i), Name: randName(r)}
			allowBig := i%bigEvery == bigEvery-1
			sp.NewSize = pickSize(r, false)
			if allowBig {
				sp.NewSize = bigSize
				// targets that copy through a 32 KiB buffer issue one write (= one crash point) per
				// buffer: the quick tier uses a medium size there, the thorough tier 4 MiB in a few cases
				manyWrites := t == tGzip || t == tZip || t == tDownload || t == tCreate
				if manyWrites && (!cfg.Thorough() || i >= 2*bigEvery) {
					sp.NewSize = mediumSize
				}
			}
			sp.OldSize = pickSize(r, allowBig && r.Bool())
			if sp.NewSize == 0 && sp.OldSize == 0 {
				sp.OldSize = 333
			}
			// destination state cycles through the three classes, then PRNG
			states := []string{"absent", "present", "othermode"}
			sp.Old = states[i%3]
			if i >= 3 && r.Chance(1, 3) {
				sp.Old = vlib.Pick(r, states...)
			}
			sp.Mode = vlib.Pick(r, modes...)
			sp.OldMode = 0o644
			if sp.Old == "othermode" {
				sp.OldMode = vlib.Pick[uint32](r, 0o600, 0o666, 0o755, 0o444)
				if sp.OldMode == sp.Mode {
					sp.OldMode = 0o604
				}
			}
			sp.SrcMode = vlib.Pick(r, modes...)
			if i%2 == 1 {
				sp.TmpMount = "cross"
			}
			switch t {
			case tWriteFile:
			case tSymlink:
				sp.Old = []string{"link", "absent", "file"}[i%3]
				sp.TmpMount = "same" // Symlink never uses TMPDIR
				if sp.NewSize == 0 || sp.NewSize == bigSize {
					sp.NewSize = 500
				}
				if sp.OldSize == 0 {
					sp.OldSize = 300
				}
			case tCreate:
				sp.Opts = []string{"nil", "mode", "tempdir", "mode+tempdir", "zero"}[i%5]
				sp.Reader = []string{"bytes", "chunked", "failing"}[i%3]
				if i >= 5 {
					sp.Reader = vlib.Pick(r, "bytes", "chunked", "failing")
				}
				if sp.Reader == "failing" && sp.NewSize < 200 {
					sp.NewSize = 3000
				}
			case tCopy, tReplace:
				sp.Opts = []string{"nil", "mode", "tempdir", "mode+tempdir", "zero"}[(i+1)%5]
				if i%8 == 2 && crossOK {
					sp.Opts, sp.TmpMount = "xtempdir", "cross"
				}
			case tFstree:
				// i%4: 0 = new record under a directory that does not exist yet (Put's first attempt
				// fails by itself and the MkdirAll + retry path publishes), 1 = replace, 2 = replace
				// with other mode (deep key), 3 = new record directly in the base directory
				sp.Old = []string{"absent", "present", "othermode", "absent"}[i%4]
				sp.Depth = []int{2, 2, 3, 1}[i%4]
				if i >= 4 && i%4 == 0 {
					sp.Depth = 2 + r.Intn(2)
				}
				sp.ParentExists = sp.Old != "absent"
				if sp.Old == "othermode" && sp.OldMode == 0o644 {
					sp.OldMode = 0o600
				}
				if sp.Old == "present" {
					sp.OldMode = 0o644
				}
				if i%4 == 3 {
					// a key whose last element looks like one of renameio's temporaries (leading dot, trailing digits)
					sp.Name = fmt.Sprintf(".%s%d", sp.Name[:2], 2+r.Intn(97))
				}
				if i%4 == 1 {
					// the replace case is driven by the ptrace stepper, which also enumerates the crash
					// points of the retry that follows an injected first-attempt error (second order)
					sp.Mech = "ptrace"
				}
			case tGzip:
				sp.Old = "absent" // Unpack is a no-op when the unpacked file exists
				sp.Variant = []string{"suffix", "nosuffix", "corrupt", "multi"}[i%4]
				sp.TmpMount = "same" // temp dir is the registry's tmp dir
				if sp.NewSize == 0 && sp.Variant == "corrupt" {
					sp.NewSize = 900
				}
				if sp.NewSize < 300 && sp.Variant == "multi" {
					sp.NewSize = 1500
				}
			case tZip:
				// i%4: 0 = plain, 1 = a regular file blocks the destination, 2 = a member's compressed
				// data is cut short, 3 = a member with a wrong CRC
				sp.Old = "absent"
				sp.Variant = []string{"ok", "ok", "truncmember", "corrupt"}[i%4]
				if i%8 == 0 {
					sp.Layout = "linkdir" // the storage sub-directory is a symlink to a directory
				}
				if i%4 == 1 {
					sp.Old = "file"
					if sp.OldSize == 0 {
						sp.OldSize = 321
					}
				}
				sp.Entries = r.Range(2, cfg.N(4, 7))
				sp.TmpMount = "same"
				if sp.NewSize < 100 {
					sp.NewSize = 2000
				}
			case tDownload:
				sp.Variant = []string{"p206half1", "closehalf1", "chunked1", "truncated1", "reset1", "status1", "closefull1", "complete", "p204empty1", "p203full1", "p201full1"}[i%11]
				sp.TmpMount = "same"
				sp.Signed = i%3 == 2
				if i%11 == 1 {
					// re-download over an existing file, first attempt fails, storage sub-directory is a symlink
					sp.Layout = "linkdir"
					if sp.Old == "absent" {
						sp.Old = "present"
					}
				}
				if sp.NewSize == 0 {
					sp.NewSize = 1200 // Content-Length 0 is covered by the helpers; keep the retry variants meaningful
				}
			}
			add(sp)
			// mechanism cross-check (thorough): the same case once more under the ptrace stepper
			if cfg.Thorough() && t != tDownload && i%5 == 0 && sp.Mech == "" {
				sp.Mech = "ptrace"
				add(sp)
			}
		}
	}
	return out
}

// readerCases: one concurrent-reader scenario per target.
func readerCases(cfg vlib.Cfg) []caseSpec {
	var out []caseSpec
	for ti, t := range allTargets {
		r := vlib.NewRand(cfg.Seed, "c17-readers-"+t, 0)
		sp := caseSpec{Case: 9000 + ti, Target: t, Seed: cfg.Seed*7 + uint64(ti), Name: randName(r), Phase: "readers",
			Old: "present", OldMode: 0o644, Mode: 0o644, SrcMode: 0o644, TmpMount: "same", Opts: "nil", Reader: "bytes",
			OldSize: r.Range(100, 3000), NewSize: r.Range(20000, 90000), Depth: 2, ParentExists: true, Variant: "complete"}
		sp.Rounds = cfg.N(300, 8000)
		switch t {
		case tSymlink:
			sp.Old = "link"
			sp.NewSize = 4000
		case tCreate:
			sp.Reader = "chunked"
		case tGzip:
			sp.Old, sp.Variant, sp.Rounds = "absent", "suffix", cfg.N(40, 600)
		case tZip:
			sp.Old, sp.Variant, sp.Rounds, sp.Entries, sp.NewSize = "absent", "ok", cfg.N(20, 200), 4, 5000
		case tDownload:
			sp.Old, sp.Rounds = "absent", cfg.N(40, 600)
		}
		out = append(out, sp)
		if t == tFstree {
			// second fstree scenario: new records under directories that do not exist yet (Put's
			// MkdirAll + retry path); large payload so that an in-place write is visible for long
			nd := sp
			nd.Case, nd.Variant, nd.Old, nd.ParentExists = 9100, "newdir", "absent", false
			nd.NewSize, nd.Rounds = 1<<20, cfg.N(30, 300)
			out = append(out, nd)
		}
	}
	return out
}

func (sp caseSpec) label() string {
	return fmt.Sprintf("case %d %s", sp.Case, sp.sig())
}
