package main

// wire.go — the same requests over the real listener of the api module (loopback TCP,
// raw bytes), plus malformed request bytes, after each of which the server must still
// answer a well-formed request.

import (
	"bufio"
	"fmt"
	"io"
	"net"
	"strconv"
	"strings"
	"time"

	"verifharness/internal/vlib"
)

const wireTimeout = 20 * time.Second

func (w *world) waitListener() error {
	deadline := time.Now().Add(30 * time.Second)
	for {
		c, err := net.DialTimeout("tcp", w.addr, 2*time.Second)
		if err == nil {
			c.Close()
			return nil
		}
		if time.Now().After(deadline) {
			return errInconclusive("the api module's listener on " + w.addr + " did not come up within 30s: " + err.Error())
		}
		time.Sleep(100 * time.Millisecond)
	}
}

func rawRequest(sp *reqSpec) string {
	var sb strings.Builder
	fmt.Fprintf(&sb, "%s %s HTTP/1.1\r\nHost: %s\r\n", sp.Method, sp.Path, sp.Host)
	if sp.Authz != "" {
		fmt.Fprintf(&sb, "Authorization: %s\r\n", sp.Authz)
	}
	if sp.Cookie != "" {
		fmt.Fprintf(&sb, "Cookie: %s\r\n", sp.Cookie)
	}
	if sp.Origin != "" {
		fmt.Fprintf(&sb, "Origin: %s\r\n", sp.Origin)
	}
	if sp.ACRM != "" {
		fmt.Fprintf(&sb, "Access-Control-Request-Method: %s\r\n", sp.ACRM)
	}
	if sp.Auth != "" {
		fmt.Fprintf(&sb, "%s: %s\r\n", hdrAuth, sp.Auth)
	}
	sb.WriteString("Connection: close\r\n\r\n")
	return sb.String()
}

// exchange writes raw bytes to a fresh connection and reads the whole answer.
func (w *world) exchange(raw string) (status int, head string, err error) {
	defer w.progress.Add(1)
	c, err := net.DialTimeout("tcp", w.addr, wireTimeout)
	if err != nil {
		return 0, "", fmt.Errorf("dial: %w", err)
	}
	defer c.Close()
	_ = c.SetDeadline(time.Now().Add(wireTimeout))
	if _, err = io.WriteString(c, raw); err != nil {
		return 0, "", fmt.Errorf("write: %w", err)
	}
	if tc, ok := c.(*net.TCPConn); ok {
		_ = tc.CloseWrite()
	}
	br := bufio.NewReader(c)
	line, rerr := br.ReadString('\n')
	rest, _ := io.ReadAll(io.LimitReader(br, 4096))
	head = line + string(rest)
	if len(head) > 600 {
		head = head[:600]
	}
	if line == "" {
		if rerr != nil && rerr != io.EOF {
			return 0, head, fmt.Errorf("read: %w", rerr)
		}
		return 0, head, nil // connection closed without an answer
	}
	parts := strings.SplitN(strings.TrimSpace(line), " ", 3)
	if len(parts) >= 2 && strings.HasPrefix(parts[0], "HTTP/") {
		status, _ = strconv.Atoi(parts[1])
	}
	return status, head, nil
}

// doWire sends a well-formed request over the socket (sequential slot for the probes).
func (w *world) doWire(sp *reqSpec) *obs {
	o := &obs{}
	w.mu.Lock()
	w.cur = o
	w.mu.Unlock()
	st, head, err := w.exchange(rawRequest(sp))
	w.mu.Lock()
	w.cur = nil
	w.mu.Unlock()
	o.Status = st
	o.WireRaw = head
	if err != nil {
		o.Err = err.Error()
	}
	// on the wire "nothing written" shows as a 200 with an empty body
	o.Wrote = st != 0 && !(st == 200 && strings.Contains(head, "Content-Length: 0") && !strings.Contains(head, "probe-ok"))
	for _, ln := range strings.Split(head, "\r\n") {
		if strings.HasPrefix(ln, "Set-Cookie: ") {
			if m := sessRe.FindStringSubmatch(strings.TrimPrefix(ln, "Set-Cookie: ")); m != nil && !strings.Contains(ln, "Max-Age=0") {
				o.SetSession = m[1]
			}
		}
	}
	w.drainPanics(o)
	return o
}

type rawCase struct {
	Name string
	Raw  string
}

func malformedCases(tk *tableKeys, sess string) []rawCase {
	adm := "/verif/p/3/3" // requires Admin for both classes: nothing below may ever run it
	k := tk.Perm["user/user"]
	long := strings.Repeat("A", 1<<20+100)
	return []rawCase{
		{"no-host-http10", "GET " + adm + " HTTP/1.0\r\n\r\n"},
		{"no-host-http11", "GET " + adm + " HTTP/1.1\r\n\r\n"},
		{"http09", "GET " + adm + "\r\n"},
		{"bare-lf", "GET " + adm + " HTTP/1.1\nHost: " + testHost + "\nAuthorization: Bearer ab\n\n"},
		{"absolute-uri", "GET http://evil.example" + adm + " HTTP/1.1\r\nHost: " + testHost + "\r\n\r\n"},
		{"bad-method-token", "G=T " + adm + " HTTP/1.1\r\nHost: " + testHost + "\r\n\r\n"},
		{"lowercase-method", "get " + adm + " HTTP/1.1\r\nHost: " + testHost + "\r\n\r\n"},
		{"connect", "CONNECT " + testHost + " HTTP/1.1\r\nHost: " + testHost + "\r\n\r\n"},
		{"options-star", "OPTIONS * HTTP/1.1\r\nHost: " + testHost + "\r\n\r\n"},
		{"nul-in-header", "GET " + adm + " HTTP/1.1\r\nHost: " + testHost + "\r\nAuthorization: Bearer a\x00b\r\n\r\n"},
		{"obs-fold", "GET " + adm + " HTTP/1.1\r\nHost: " + testHost + "\r\nAuthorization: Bearer\r\n " + k + "\r\n\r\n"},
		{"dup-authorization", "GET " + adm + " HTTP/1.1\r\nHost: " + testHost + "\r\nAuthorization: Bearer x\r\nAuthorization: Bearer " + k + "\r\n\r\n"},
		{"dup-authorization-short-first", "GET " + adm + " HTTP/1.1\r\nHost: " + testHost + "\r\nAuthorization: Basic\r\nAuthorization: Bearer " + tk.Perm["admin/admin"] + "\r\n\r\n"},
		{"authorization-no-space", "GET " + adm + " HTTP/1.1\r\nHost: " + testHost + "\r\nAuthorization:Bearer abc\r\n\r\n"},
		{"authorization-empty", "GET " + adm + " HTTP/1.1\r\nHost: " + testHost + "\r\nAuthorization:\r\n\r\n"},
		{"authorization-blank-key", "GET " + adm + " HTTP/1.1\r\nHost: " + testHost + "\r\nAuthorization: Bearer    \r\n\r\n"},
		{"authorization-basic-junk", "GET " + adm + " HTTP/1.1\r\nHost: " + testHost + "\r\nAuthorization: Basic ####\r\n\r\n"},
		{"authorization-highbytes", "GET " + adm + " HTTP/1.1\r\nHost: " + testHost + "\r\nAuthorization: Bearer \xff\xfe\r\n\r\n"},
		{"dup-cookie", "GET " + adm + " HTTP/1.1\r\nHost: " + testHost + "\r\nCookie: " + cookieName + "=nope\r\nCookie: " + cookieName + "=nope2\r\n\r\n"},
		{"cookie-junk", "GET " + adm + " HTTP/1.1\r\nHost: " + testHost + "\r\nCookie: ;;;=;" + cookieName + "\r\n\r\n"},
		{"header-1mib", "GET " + adm + " HTTP/1.1\r\nHost: " + testHost + "\r\nAuthorization: Bearer " + long + "\r\n\r\n"},
		{"path-1mib", "GET /" + long + " HTTP/1.1\r\nHost: " + testHost + "\r\n\r\n"},
		{"unclean-path", "GET /verif/x/../p/3/3 HTTP/1.1\r\nHost: " + testHost + "\r\n\r\n"},
		{"double-slash-path", "GET //verif/p/3/3 HTTP/1.1\r\nHost: " + testHost + "\r\n\r\n"},
		{"encoded-path", "GET /verif/p/3/%33 HTTP/1.1\r\nHost: " + testHost + "\r\n\r\n"},
		{"post-bad-content-length", "POST " + adm + " HTTP/1.1\r\nHost: " + testHost + "\r\nContent-Length: -5\r\n\r\n"},
		{"post-chunked-garbage", "POST " + adm + " HTTP/1.1\r\nHost: " + testHost + "\r\nTransfer-Encoding: chunked\r\n\r\nzz\r\n"},
		{"origin-foreign-with-key", "GET " + adm + " HTTP/1.1\r\nHost: " + testHost + "\r\nOrigin: http://evil.example\r\nAuthorization: Bearer " + tk.Perm["admin/admin"] + "\r\nConnection: close\r\n\r\n"},
		{"origin-garbage", "GET " + adm + " HTTP/1.1\r\nHost: " + testHost + "\r\nOrigin: \xff://\xfe\r\n\r\n"},
		{"two-hosts", "GET " + adm + " HTTP/1.1\r\nHost: " + testHost + "\r\nHost: evil.example\r\n\r\n"},
		{"truncated", "GET " + adm + " HTTP/1.1\r\nHost: " + testHost + "\r\nAuthoriza"},
		{"empty", ""},
		{"binary-junk", "\x16\x03\x01\x02\x00\x01\x00\x01\xfc\x03\x03"},
		{"pipelined-short-key-then-admin-target", "GET /verif/p/m1/m1 HTTP/1.1\r\nHost: " + testHost + "\r\nAuthorization: Bearer ab\r\n\r\nGET " + adm + " HTTP/1.1\r\nHost: " + testHost + "\r\nConnection: close\r\n\r\n"},
	}
}

func runWire(w *world, j *judge, cs childSpec) error {
	if err := w.waitListener(); err != nil {
		return err
	}
	r := vlib.NewRand(cs.Seed, "C12/wire", 0)
	tk := makeTableKeys(cs.Seed, time.Now(), false)
	if err := w.setKeys(tk.List); err != nil {
		return err
	}
	ps, err := w.prepareAll(j, onePerClass(tk), tk)
	if err != nil {
		return err
	}
	targets := append(diagTargets(), target{"/api/v1/verif/e/2/3", mTarget{"endpoint", mUser, mAdmin}}, target{"/api/v1/verif/f/record", mTarget{"endpoint", mUser, mAdmin}})
	// well-formed sample over the socket: every credential class x a PRNG sample of targets/methods
	per := 6 * cs.N
	for _, p := range ps {
		for k := 0; k < per; k++ {
			t := vlib.Pick(r, targets...)
			mv := vlib.Pick(r, append(append([]methodVar{}, methodVars[:13]...), methodVars[15:]...)...)
			origin := ""
			if r.Chance(1, 6) {
				origin = vlib.Pick(r, "http://evil.example", "http://"+testHost, "chrome-extension://abcdefghijklmnop", "null")
			}
			sp := specFor(p, t, mv, origin)
			sp.Via = "wire"
			j.replay = func(s *reqSpec) any {
				return tableReplay{Mode: "wire", CredTag: p.cv.Tag, Path: s.Path, Method: s.Method, ACRM: s.ACRM, Origin: s.Origin, Via: "wire"}
			}
			o, e := j.run(sp)
			j.b.Count("wire_requests", 1)
			j.b.DistinctS(fmt.Sprintf("wire|%s|%s|%s/%s|%s", p.cv.Tag, t.Path, mv.Method, mv.ACRM, origin))
			if o.Err != "" && o.Status == 0 {
				if strings.Contains(o.Err, "timeout") {
					return errInconclusive("loopback request timed out after " + wireTimeout.String() + ": " + sp.Method + " " + sp.Path)
				}
			}
			if k == 0 && p.cv.Tag == "key/admin/admin/bearer" {
				j.b.Sample(map[string]any{"spec": sp, "expect": e, "obs": o})
			}
		}
	}
	// malformed bytes: the Admin-only probe must never run, and afterwards the server answers
	live := &reqSpec{Via: "wire", Method: "GET", Host: testHost, Path: "/verif/p/m1/m1", Target: mTarget{"plain", mDynamic, mDynamic}, CredTag: "liveness"}
	for round := 0; round < cs.N; round++ {
		for _, mc := range malformedCases(tk, "") {
			o := &obs{}
			w.mu.Lock()
			w.cur = o
			w.mu.Unlock()
			st, head, err := w.exchange(mc.Raw)
			w.mu.Lock()
			w.cur = nil
			w.mu.Unlock()
			w.drainPanics(o)
			o.Status, o.WireRaw = st, trimTo(head, 200)
			j.b.Count("wire_malformed", 1)
			j.b.Seen("wire_malformed_cases", mc.Name)
			j.b.Seen("wire_malformed_answers", fmt.Sprintf("%s:%d", mc.Name, st))
			j.b.DistinctS("wire-malformed|" + mc.Name)
			det := map[string]any{"case": mc.Name, "raw": trimTo(mc.Raw, 400), "obs": o, "replay": tableReplay{Mode: "wire-malformed", CredTag: mc.Name}}
			if err != nil && strings.Contains(err.Error(), "timeout") {
				j.b.Inconclusive("malformed case %s: no answer within %s (%v)", mc.Name, wireTimeout, err)
			}
			if len(o.Panics) > 0 {
				j.b.Count("panics_observed", 1)
				j.b.Violation("C12:panic-in-request:"+o.Panics[0].Site, fmt.Sprintf("request bytes (%s) made the request handling panic in %s", mc.Name, o.Panics[0].Site), det)
			}
			if o.Invoked > 0 && o.Kind == "plain" && mc.Name != "pipelined-short-key-then-admin-target" && (o.Tok == nil || o.Tok.R < mAdmin) {
				j.b.Violation("C12:handler-ran-unpermitted:wire-malformed:"+mc.Name, "the Admin-only handler ran for malformed request bytes that carry no admin credential", det)
			}
			// liveness: a well-formed request is answered as the table says
			lo, le := j.run(live)
			j.b.Count("wire_requests", 1)
			if lo.Status == 0 {
				if strings.Contains(lo.Err, "timeout") {
					return errInconclusive("liveness request after malformed case " + mc.Name + " timed out")
				}
				j.b.Violation("C12:server-down-after:"+mc.Name, "the API server did not answer a well-formed request after malformed request bytes: "+lo.Err,
					map[string]any{"case": mc.Name, "raw": trimTo(mc.Raw, 400), "liveness_obs": lo, "expect": le})
			}
		}
	}
	return nil
}
