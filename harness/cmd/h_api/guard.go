package main

// guard.go — watchdog around calls into portbase that may never return, and the
// structural confirmation of a hang (§3.8 of DESIGN.md): a wall-clock limit alone is
// never a verdict; a violation needs the goroutine dump to show portbase goroutines
// parked on each other's locks, unchanged between two dumps.

import (
	"fmt"
	"os"
	"regexp"
	"runtime"
	"strings"
	"sync/atomic"
	"time"
)

const guardLimit = 45 * time.Second

var wedgeOnce atomic.Bool

type wedgedErr struct{ s string }

func (e wedgedErr) Error() string { return e.s }

func allStacks() string {
	buf := make([]byte, 1<<20)
	for {
		n := runtime.Stack(buf, true)
		if n < len(buf) {
			return string(buf[:n])
		}
		buf = make([]byte, 2*len(buf))
	}
}

var gHead = regexp.MustCompile(`^goroutine (\d+) \[([^\]]*)\]:`)

// blockedIn returns the ids of goroutines parked in a mutex lock below the given function.
func blockedIn(dump, fn string) map[string]string {
	out := map[string]string{}
	for _, blk := range strings.Split(dump, "\n\n") {
		m := gHead.FindStringSubmatch(blk)
		if m == nil {
			continue
		}
		if !strings.Contains(m[2], "sync.Mutex.Lock") && !strings.Contains(m[2], "semacquire") && !strings.Contains(m[2], "sync.RWMutex") {
			continue
		}
		if strings.Contains(blk, fn+"(") {
			out[m[1]] = blk
		}
	}
	return out
}

// guarded runs fn (a call into portbase) with a watchdog. If fn does not return, the
// goroutine dump decides: two goroutines parked inside config.SaveConfig on option
// locks, the same ones in two dumps 5 s apart, is a lock-order deadlock of the real code
// (violation, the world is wedged); anything else is inconclusive.
func (w *world) guarded(name string, fn func() error) error {
	done := make(chan error, 1)
	go func() { done <- fn() }()
	select {
	case err := <-done:
		return err
	case <-time.After(guardLimit):
	}
	d1 := allStacks()
	b1 := blockedIn(d1, "config.SaveConfig")
	select {
	case err := <-done:
		return err // it was only slow
	case <-time.After(5 * time.Second):
	}
	d2 := allStacks()
	b2 := blockedIn(d2, "config.SaveConfig")
	var same []string
	for id := range b1 {
		if _, ok := b2[id]; ok {
			same = append(same, id)
		}
	}
	if len(same) < 2 {
		return errInconclusive(fmt.Sprintf("%s did not return within %s and the goroutine dump shows no lock cycle", name, guardLimit+5*time.Second))
	}
	// only one goroutine reports the wedge; a second detector parks (the process exits below)
	if !wedgeOnce.CompareAndSwap(false, true) {
		select {}
	}
	// the API server is wedged with it: a plain request must now hang as well
	reqHung := false
	reqStack := ""
	rdone := make(chan *obs, 1)
	go func() {
		rdone <- w.doConcurrent(&reqSpec{Via: "handler", Method: "GET", Host: testHost, Path: "/verif/p/m1/m1", Target: mTarget{Route: "plain", DeclR: -1, DeclW: -1}})
	}()
	select {
	case <-rdone:
	case <-time.After(10 * time.Second):
		reqHung = true
		for id, blk := range blockedIn(allStacks(), "api.(*mainHandler).handle") {
			reqStack = "goroutine " + id + ": " + trimTo(blk, 1800)
		}
	}
	var stacks []string
	for _, id := range same {
		stacks = append(stacks, trimTo(b2[id], 1800))
	}
	w.b.Count("server_wedged", 1)
	w.b.Violation("C12:server-hang:config.SaveConfig-lock-order",
		fmt.Sprintf("%s never returned: %d goroutines are parked inside config.SaveConfig on each other's option locks (unchanged in two dumps); the clean-up of an expired API key (api.updateAPIKeys -> SetConfigOption) ran concurrently with another configuration change; API request afterwards hangs: %v",
			name, len(same), reqHung),
		map[string]any{"call": name, "blocked_goroutines": stacks, "request_after_hang_unanswered": reqHung, "request_stack": reqStack,
			"configured_keys": cfgStrings(w.configured), "replay": tableReplay{Mode: "hang", CredTag: "n/a"}})
	// The world is wedged for good: other harness goroutines may be parked inside portbase
	// calls (requests hang in the config getter). Write what was observed and leave.
	w.b.Note("child stopped after %s: config.SaveConfig lock-order deadlock", name)
	time.Sleep(300 * time.Millisecond) // let harness goroutines that are not parked in portbase finish their bookkeeping
	w.b.Finish(w.dir)
	os.Exit(0)
	return wedgedErr{name + ": config.SaveConfig lock-order deadlock"}
}

// sessionLockSites: functions of the api package that take the session registry lock or a
// session's own mutex. A goroutine parked in a mutex lock below one of them, the same one
// in two dumps 5 s apart while no call into portbase has returned for 20 s, is a leaked or
// cyclic lock in the session bookkeeping: requests carrying that cookie (and, once the
// cleaner joins, every login) are never answered.
var sessionLockSites = []string{"api.(*session).Expired", "api.(*session).Refresh", "api.checkSessionCookie", "api.createSession", "api.deleteSession",
	"api.cleanSessions", "api.VerifCleanSessions", "api.VerifExpireSessions", "api.VerifSessionCount"}

const stallLimit = 20 * time.Second

// hangMonitor watches the whole child: when nothing has returned from portbase for
// stallLimit it looks for the structural witness of a hang in the session bookkeeping.
// Without that witness it stays silent (the process watchdog then yields "inconclusive").
func (w *world) hangMonitor() {
	last, since := w.progress.Load(), time.Now()
	for {
		time.Sleep(2 * time.Second)
		cur := w.progress.Load()
		if cur != last {
			last, since = cur, time.Now()
			continue
		}
		if time.Since(since) < stallLimit {
			continue
		}
		park := func() map[string]string {
			d := allStacks()
			out := map[string]string{}
			for _, fn := range sessionLockSites {
				for id, blk := range blockedIn(d, fn) {
					if _, ok := out[id]; !ok {
						out[id] = fn + "\x00" + blk
					}
				}
			}
			return out
		}
		b1 := park()
		if len(b1) == 0 {
			since = time.Now() // nothing of ours: look again after another stallLimit
			continue
		}
		time.Sleep(5 * time.Second)
		if w.progress.Load() != cur {
			last, since = w.progress.Load(), time.Now()
			continue
		}
		b2 := park()
		var site, stack string
		n := 0
		for id, v := range b2 {
			if _, ok := b1[id]; ok {
				n++
				parts := strings.SplitN(v, "\x00", 2)
				// prefer the innermost site (the session's own mutex) for the signature
				if site == "" || strings.Contains(parts[0], "(*session)") {
					site, stack = parts[0], parts[1]
				}
			}
		}
		if n == 0 {
			since = time.Now()
			continue
		}
		if !wedgeOnce.CompareAndSwap(false, true) {
			return
		}
		w.b.Count("server_wedged", 1)
		w.b.Violation("C12:server-hang:"+site,
			fmt.Sprintf("no call into the API has returned for %s: %d goroutine(s) are parked on a lock of the session bookkeeping below %s, unchanged in two dumps; the session mutex / registry lock is never released again, so requests carrying that cookie (and the cleaner and new logins behind it) are never answered",
				(stallLimit+5*time.Second), n, site),
			map[string]any{"parked": trimTo(stack, 2500), "parked_goroutines": n, "replay": tableReplay{Mode: "expired-repeat", CredTag: "n/a"}})
		w.b.Note("child stopped: hang in the session bookkeeping (%s)", site)
		time.Sleep(300 * time.Millisecond)
		w.b.Finish(w.dir)
		os.Exit(0)
	}
}

// busyFrames: functions on the way from a configuration change to the end of the key
// import it triggers. portbase has no queue there: every step is a goroutine that exists
// (runnable or running) from the moment the previous step created it, and SetConfigOption
// creates the first one before it returns. So, once SetConfigOption has returned: if no
// goroutine shows one of these frames, no import is running or pending — nothing further
// will happen by itself. This is a structural fact about the process, not a time-out.
var busyFrames = []string{"modules.(*Module).processEventTrigger", "modules.(*Module).runEventHook", "modules.(*Module).TriggerEvent", "api.updateAPIKeys",
	"LowPriorityMicroTask", "modules.(*Module).runMicroTask", "config.setConfigOption", "config.SetConfigOption", "config.signalChanges", "config.SaveConfig"}

// quiescent reports whether no configuration change is being processed or waiting to be.
func quiescent() bool {
	d := allStacks()
	for _, f := range busyFrames {
		if strings.Contains(d, f) {
			return false
		}
	}
	return true
}
