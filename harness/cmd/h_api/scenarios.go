package main

// scenarios.go — the table children: main table shards, Origin sub-table, development
// mode sub-table, bridge sub-table, and single-cell replay.

import (
	"encoding/json"
	"fmt"
	"strings"
	"time"
)

// prepared is a credential value made real in this world.
type prepared struct {
	cv     credVal
	cookie string
	ok     bool
	skip   string
}

func allTargets() []target {
	var out []target
	out = append(out, plainTargets()...)
	out = append(out, endpointTargets()...)
	for _, t := range otherTargets() {
		if t.T.Route == "dynamic" && t.T.DeclR != t.T.DeclW && !(t.T.DeclR == mUser && t.T.DeclW == mSelf) && !(t.T.DeclR == mAdmin && t.T.DeclW == mAnyone) &&
			!(t.T.DeclR == mNotSupported && t.T.DeclW == mUser) && !(t.T.DeclR == mSelf && t.T.DeclW == mDynamic) {
			continue
		}
		out = append(out, t)
	}
	// cooperating handlers that modify the token they were handed sit in every workload
	out = append(out, mutatorTargets()...)
	return out
}

type tableReplay struct {
	Mode    string `json:"mode"`
	CredTag string `json:"cred_tag"`
	Path    string `json:"path"`
	Method  string `json:"method"`
	ACRM    string `json:"acrm"`
	Origin  string `json:"origin"`
	Dev     bool   `json:"dev"`
	Via     string `json:"via"`
	Auth    string `json:"auth,omitempty"`
	Authz   string `json:"authz,omitempty"`
	Cookie  string `json:"cookie_header,omitempty"`
	Host    string `json:"host,omitempty"`
}

func (w *world) prepareCred(cv credVal, tk *tableKeys) prepared {
	p := prepared{cv: cv, ok: true}
	switch cv.SessKind {
	case "valid", "expired", "reset":
		c, err := w.login(cv.SessR, cv.SessW)
		if err != nil {
			p.ok, p.skip = false, err.Error()
			return p
		}
		p.cookie = c
	case "unknown":
		p.cookie = "dGhpcy1zZXNzaW9uLWRvZXMtbm90LWV4aXN0LXZlcmlm"
	}
	return p
}

func (w *world) resetSession(j *judge, cookie string) { w.resetSessionWith(j, cookie, "") }

// resetAuthzVariants: Authorization headers a client may send along with the reset request.
func resetAuthzVariants(tk *tableKeys) []string {
	out := []string{"", "Basic " + b64("someone:secret"), "Basic " + b64(":"), "Bearer abcdefgh", "Basic !!!", "Basic", "basic " + b64("a:b"), "Digest x"}
	if tk != nil {
		out = append(out, "Basic "+b64(tk.Perm["admin/admin"]+":"), "Bearer "+tk.Perm["user/user"], "Basic "+b64(tk.Unknown+":"))
	}
	return out
}

// resetSessionWith resets the session of the cookie through /api/v1/auth/reset; the
// request may carry an Authorization header as well. Afterwards the session is gone.
func (w *world) resetSessionWith(j *judge, cookie, authz string) {
	sp := &reqSpec{Via: "handler", Method: "GET", Host: testHost, Path: "/api/v1/auth/reset", Cookie: cookieName + "=" + cookie, Authz: authz,
		Target: mTarget{Route: "endpoint", DeclR: mAnyone, DeclW: mNotSupported}}
	o := w.do(sp)
	if authz != "" {
		w.b.Count("session_resets_with_authorization", 1)
	}
	w.b.Count("session_resets", 1)
	if o.Status != 401 {
		w.b.Note("auth/reset answered %d (documented 401)", o.Status)
	}
	delete(w.model.Sess, cookie)
}

func specFor(p prepared, t target, mv methodVar, origin string) *reqSpec {
	sp := &reqSpec{Via: "handler", Method: mv.Method, ACRM: mv.ACRM, Host: testHost, Path: t.Path, Target: t.T,
		Authz: p.cv.Authz, Auth: p.cv.Auth, CredTag: p.cv.Tag, Origin: origin}
	if mv.Origin == "same" && origin == "" {
		sp.Origin = "http://" + testHost
	}
	if p.cookie != "" {
		sp.Cookie = "other=1; " + cookieName + "=" + p.cookie
	}
	return sp
}

func (j *judge) tableCell(mode string, p prepared, t target, mv methodVar, origin string) {
	sp := specFor(p, t, mv, origin)
	if j.host != "" {
		sp.Host = j.host
		if mv.Origin == "same" && origin == "" {
			sp.Origin = "http://" + j.host
		}
	}
	j.replay = func(sp *reqSpec) any {
		return tableReplay{Mode: mode, CredTag: p.cv.Tag, Path: sp.Path, Method: sp.Method, ACRM: sp.ACRM, Origin: sp.Origin, Dev: j.w.model.Dev, Via: sp.Via, Host: j.host}
	}
	o, e := j.run(sp)
	j.b.Count("table_cells_done", 1)
	j.b.DistinctS(fmt.Sprintf("%s|%s|%s|%s/%s|%s|%v|%s", mode, p.cv.Tag, t.Path, mv.Method, mv.ACRM, sp.Origin, j.w.model.Dev, j.host))
	if sampleWanted(j, e, o) {
		j.b.Sample(map[string]any{"spec": sp, "expect": e, "obs": o})
	}
}

// sampleWanted keeps a few cells of different kinds for the evidence.
func sampleWanted(j *judge, e expectation, o *obs) bool {
	key := e.Stage + "/" + e.Invoke.String()
	if j.sampled == nil {
		j.sampled = map[string]bool{}
	}
	if j.sampled[key] || len(j.sampled) >= 3 || (e.Stage != "grant" && e.Stage != "origin" && len(j.sampled) > 0) {
		return false
	}
	j.sampled[key] = true
	return true
}

func (w *world) waitSoon(tk *tableKeys) error {
	if tk.SoonAt.IsZero() {
		return fmt.Errorf("no soon-expiring key configured")
	}
	d := time.Until(tk.SoonAt.Add(expiryMargin + 300*time.Millisecond))
	if d > 0 {
		time.Sleep(d)
	}
	return nil
}

func runTable(w *world, j *judge, cs childSpec) error {
	withSoon := cs.Shard == cs.NShards-1
	tk := makeTableKeys(cs.Seed, time.Now(), withSoon)
	if err := w.setKeys(tk.List); err != nil {
		return err
	}
	if withSoon && time.Until(tk.SoonAt) < time.Second {
		return errInconclusive("configuring the keys took so long that the soon-expiring key is too close to its expiry")
	}
	cvs := credValues(tk)
	targets := allTargets()
	var mine []credVal
	for i, cv := range cvs {
		if i%cs.NShards == cs.Shard {
			mine = append(mine, cv)
		}
	}
	var soon []credVal
	if withSoon {
		soon = soonCredValues(tk)
	}
	w.b.Count("table_cells_planned", int64((len(mine)+len(soon))*len(targets)*len(methodVars)))
	w.b.Count("table_cred_values", int64(len(mine)+len(soon)))
	// phase 1: everything that does not need an expired session
	var late []prepared
	for _, cv := range mine {
		p := w.prepareCred(cv, tk)
		if !p.ok {
			return fmt.Errorf("credential %s: %s", cv.Tag, p.skip)
		}
		if cv.SessKind == "expired" {
			late = append(late, p)
			continue
		}
		if cv.SessKind == "reset" {
			w.resetSessionWith(j, p.cookie, cv.ResetAuthz)
		}
		for _, t := range targets {
			for _, mv := range methodVars {
				j.tableCell("table", p, t, mv, "")
			}
		}
	}
	// phase 2: sessions expired
	if len(late) > 0 {
		w.expireSessions()
		for _, p := range late {
			for _, t := range targets {
				for _, mv := range methodVars {
					j.tableCell("table", p, t, mv, "")
				}
			}
		}
	}
	// phase 3: the key that expires after it was configured
	if withSoon {
		if err := w.waitSoon(tk); err != nil {
			return err
		}
		for _, cv := range soon {
			p := prepared{cv: cv, ok: true}
			for _, t := range targets {
				for _, mv := range methodVars {
					j.tableCell("table", p, t, mv, "")
				}
			}
		}
	}
	return nil
}

// onePerClass picks one credential value of every kind (for the sub-tables).
func onePerClass(tk *tableKeys) []credVal {
	want := map[string]bool{"none": true, "auth-ok/3/3": true, "auth-ok/2/1": true, "auth-ok/100/4": true, "auth-nil": true, "auth-err": true, "auth-deny": true,
		"cookie-valid/3/3": true, "cookie-valid/1/2": true, "cookie-expired/4/4": true, "cookie-reset": true, "cookie-reset/authz1": true, "cookie-reset/authz4": true, "cookie-unknown": true,
		"key/admin/admin/bearer": true, "key/user/anyone/basic-user": true, "key/anyone/admin/basic-pass": true, "key/user/user/basic-split": true,
		"key/noperm/bearer": true, "key/short-valid/bearer": true, "key/future/bearer": true, "key/expired-at-config/bearer": true,
		"key/unknown/bearer": true, "key/unknown/basic-user": true, "key/unknown-len3/bearer": true, "key/unknown-len0/basic": true, "key/unknown-len2/basic-pass": true,
		"authz-malformed/0": true, "authz-malformed/1": true, "authz-malformed/5": true}
	var out []credVal
	for _, cv := range credValues(tk) {
		if want[cv.Tag] {
			out = append(out, cv)
		}
	}
	return out
}

func (w *world) prepareAll(j *judge, cvs []credVal, tk *tableKeys) ([]prepared, error) {
	ps := make([]prepared, len(cvs))
	// sessions that have to be expired first (expiry hits every session of the world)
	for i, cv := range cvs {
		if cv.SessKind == "expired" {
			ps[i] = w.prepareCred(cv, tk)
			if !ps[i].ok {
				return nil, fmt.Errorf("credential %s: %s", cv.Tag, ps[i].skip)
			}
		}
	}
	w.expireSessions()
	for i, cv := range cvs {
		if cv.SessKind == "expired" {
			continue
		}
		ps[i] = w.prepareCred(cv, tk)
		if !ps[i].ok {
			return nil, fmt.Errorf("credential %s: %s", cv.Tag, ps[i].skip)
		}
		if cv.SessKind == "reset" {
			w.resetSessionWith(j, ps[i].cookie, cv.ResetAuthz)
		}
	}
	return ps, nil
}

func runOrigin(w *world, j *judge, cs childSpec) error {
	tk := makeTableKeys(cs.Seed, time.Now(), false)
	if err := w.setKeys(tk.List); err != nil {
		return err
	}
	ps, err := w.prepareAll(j, onePerClass(tk), tk)
	if err != nil {
		return err
	}
	targets := append(diagTargets(), target{"/api/v1/verif/e/2/3", mTarget{"endpoint", mUser, mAdmin}}, target{"/verif/none", mTarget{"noroute", 0, 0}})
	var origins []string
	for i, or := range append(originVariants(), devNearMissOrigins()...) {
		if cs.NShards <= 1 || i%cs.NShards == cs.Shard {
			origins = append(origins, or)
		}
	}
	// Host header variants: with and without port, IP literal, local name; the Origins are
	// derived from each Host (same host:port, same name with another / no / default port, foreign)
	var fewer []prepared
	for i, p := range ps {
		if i%4 == 0 || p.cv.Tag == "key/admin/admin/bearer" {
			fewer = append(fewer, p)
		}
	}
	hostVars := []string{"api.verif.test", "127.0.0.1:8817", "localhost:817", "[::1]:817", "verif-host"}
	if cs.NShards > 1 {
		// the Host-variant block is spread over the shards as well
		var mineH []string
		for i, h := range hostVars {
			if i%cs.NShards == cs.Shard {
				mineH = append(mineH, h)
			}
		}
		hostVars = mineH
	}
	hostOrigins := func(h string) []string {
		name, _ := splitHostPort(h)
		return []string{"http://" + h, "https://" + h, "http://" + name, "http://" + name + ":9999", "https://" + name + ":443", "http://" + name + ":80",
			"http://" + name + ":08817", "http://x" + name, "http://evil.example"}
	}
	w.b.Count("table_cells_planned", int64(2*len(ps)*len(targets)*len(methodVars)*len(origins)))
	for _, h := range hostVars {
		w.b.Count("table_cells_planned", int64(2*len(fewer)*len(targets)*len(methodVars)*len(hostOrigins(h))))
	}
	for _, dev := range []bool{false, true} {
		if err := w.setDev(dev); err != nil {
			return err
		}
		for _, h := range hostVars {
			j.host = h
			for _, or := range hostOrigins(h) {
				for _, p := range fewer {
					for _, t := range targets {
						for _, mv := range methodVars {
							j.tableCell("origin-host", p, t, mv, or)
						}
					}
				}
			}
		}
		j.host = ""
		for _, or := range origins {
			for _, p := range ps {
				for _, t := range targets {
					for _, mv := range methodVars {
						j.tableCell("origin", p, t, mv, or)
					}
				}
			}
		}
	}
	return w.setDev(false)
}

// runACRM: every method x every Access-Control-Request-Method value on requests that are
// not OPTIONS. The method class is fixed by the request's own method; the header only
// counts for OPTIONS.
func runACRM(w *world, j *judge, cs childSpec) error {
	tk := makeTableKeys(cs.Seed, time.Now(), false)
	if err := w.setKeys(tk.List); err != nil {
		return err
	}
	all := onePerClass(tk)
	var mine []credVal
	for i, cv := range all {
		if i%cs.NShards == cs.Shard {
			mine = append(mine, cv)
		}
	}
	ps, err := w.prepareAll(j, mine, tk)
	if err != nil {
		return err
	}
	targets := append(plainTargets(), endpointTargets()...)
	vars := acrmVars()
	w.b.Count("table_cells_planned", int64(len(ps)*len(targets)*len(vars)))
	for _, p := range ps {
		for _, t := range targets {
			for _, mv := range vars {
				j.tableCell("acrm", p, t, mv, "")
				j.b.Count("acrm_cells", 1)
			}
		}
	}
	return nil
}

func runDev(w *world, j *judge, cs childSpec) error {
	tk := makeTableKeys(cs.Seed, time.Now(), false)
	if err := w.setKeys(tk.List); err != nil {
		return err
	}
	ps, err := w.prepareAll(j, onePerClass(tk), tk)
	if err != nil {
		return err
	}
	targets := allTargets()
	w.b.Count("table_cells_planned", int64(len(ps)*len(targets)*len(methodVars)+len(ps)*len(diagTargets())*len(methodVars)))
	if err := w.setDev(true); err != nil {
		return err
	}
	for _, p := range ps {
		for _, t := range targets {
			for _, mv := range methodVars {
				j.tableCell("dev", p, t, mv, "")
			}
		}
	}
	// development mode, Origins near the documented local names: only localhost and
	// 127.0.0.1 themselves are the exception, everything else stays cross-origin
	near := devNearMissOrigins()
	w.b.Count("table_cells_planned", int64(len(ps)*len(diagTargets())*len(methodVars)*len(near)))
	for _, or := range near {
		for _, p := range ps {
			for _, t := range diagTargets() {
				for _, mv := range methodVars {
					j.tableCell("dev-origin", p, t, mv, or)
				}
			}
		}
	}
	// full access must be gone once development mode is switched off again
	if err := w.setDev(false); err != nil {
		return err
	}
	for _, p := range ps {
		for _, t := range diagTargets() {
			for _, mv := range methodVars {
				j.tableCell("dev-off-again", p, t, mv, "")
			}
		}
	}
	return nil
}

var bridgeMethods = []string{"GET", "HEAD", "POST", "PUT", "DELETE", "OPTIONS", "PATCH"}

func runBridge(w *world, j *judge, cs childSpec) error {
	tk := makeTableKeys(cs.Seed, time.Now(), false)
	if err := w.setKeys(tk.List); err != nil {
		return err
	}
	targets := append(endpointTargets(), target{"/api/v1/verif/none", mTarget{"noendpoint", 0, 0}})
	w.b.Count("table_cells_planned", int64(2*len(targets)*len(bridgeMethods)))
	for _, dev := range []bool{false, true} {
		if err := w.setDev(dev); err != nil {
			return err
		}
		for _, t := range targets {
			for _, m := range bridgeMethods {
				sp := &reqSpec{Via: "bridge", Method: m, Host: "example.com", Path: t.Path, Target: t.T, CredTag: "bridge"}
				j.replay = func(sp *reqSpec) any {
					return tableReplay{Mode: "bridge", CredTag: "bridge", Path: sp.Path, Method: sp.Method, Dev: j.w.model.Dev, Via: "bridge"}
				}
				o, e := j.run(sp)
				j.b.Count("table_cells_done", 1)
				j.b.Count("bridge_requests", 1)
				j.b.DistinctS(fmt.Sprintf("bridge|%s|%s|%v", t.Path, m, dev))
				if t.T.DeclR == mAdmin && m == "GET" && !dev {
					j.b.Sample(map[string]any{"spec": sp, "expect": e, "obs": o})
				}
			}
		}
		// the bridge must stay inside the endpoint API: keys that try to leave /api/v1/ (doc-level)
		for _, key := range []string{"../../verif/p/1/1", "../verif/p/1/1", "verif/e/1/1/../../../../../verif/p/1/1"} {
			cur := &obs{}
			w.mu.Lock()
			w.cur = cur
			w.mu.Unlock()
			_, err := w.dbi.Get("api:" + key)
			w.mu.Lock()
			w.cur = nil
			w.mu.Unlock()
			j.b.Count("bridge_scope_probes", 1)
			if cur.Invoked > 0 && cur.Kind == "plain" {
				j.b.Count("doc_deviation_bridge_scope", 1)
				j.b.Note("doc-level: bridge key %q reached a handler outside /api/v1/ (err=%v)", key, err)
			}
		}
	}
	return w.setDev(false)
}

func runReplay(w *world, j *judge, cs childSpec) error {
	var head struct {
		Mode string `json:"mode"`
	}
	if err := json.Unmarshal(cs.Replay, &head); err != nil {
		return err
	}
	switch head.Mode {
	case "revoke":
		cs.N = 5
		return runRevoke(w, j, cs)
	case "burst":
		cs.N = 20
		return runBurst(w, j, cs)
	case "overlap", "overlap-dev-on":
		cs.N = 20
		return runOverlap(w, j, cs)
	case "keyperm":
		return runKeyPerm(w, j, cs)
	case "badentry-before", "badentry-after":
		cs.N = 2
		return runBadEntry(w, j, cs)
	case "expired-repeat", "expired-repeat-after-clean":
		cs.N = 20
		return runExpiredTwice(w, j, cs)
	case "poison", "poison-after":
		return runPoison(w, j, cs)
	case "sessclean":
		cs.N = 2000
		return runSessClean(w, j, cs)
	case "expiry":
		var er expiryReplay
		if err := json.Unmarshal(cs.Replay, &er); err != nil {
			return err
		}
		cs.Shard = er.Shard
		return runExpiry(w, j, cs)
	case "hang", "churn":
		// schedule dependent: repeat the history class that produced it
		cs.N = 80
		return runChurn(w, j, cs)
	case "wire-malformed":
		cs.N = 1
		return runWire(w, j, cs)
	case "history":
		var hr historyReplay
		if err := json.Unmarshal(cs.Replay, &hr); err != nil {
			return err
		}
		runHistory(w, j, hr.Seed, hr.Shard, hr.No)
		j.b.DistinctS("replay-a")
		j.b.DistinctS("replay-b")
		return nil
	}
	if strings.HasPrefix(head.Mode, "revokeby") {
		cs.N = 2
		return runRevokeBy(w, j, cs)
	}
	var tr tableReplay
	if err := json.Unmarshal(cs.Replay, &tr); err != nil {
		return err
	}
	tk := makeTableKeys(cs.Seed, time.Now(), strings.Contains(tr.CredTag, "expired-after-config"))
	if err := w.setKeys(tk.List); err != nil {
		return err
	}
	var p prepared
	found := false
	for _, cv := range append(credValues(tk), soonCredValues(tk)...) {
		if cv.Tag == tr.CredTag {
			p = w.prepareCred(cv, tk)
			found = true
			if cv.SessKind == "expired" {
				w.expireSessions()
			}
			if cv.SessKind == "reset" {
				w.resetSessionWith(j, p.cookie, cv.ResetAuthz)
			}
			if cv.WaitSoon {
				_ = w.waitSoon(tk)
			}
		}
	}
	if !found {
		// free-form request (fuzz / wire): headers are in the replay record
		p = prepared{cv: credVal{Tag: tr.CredTag, Authz: tr.Authz, Auth: tr.Auth}, ok: true}
	}
	if tr.Dev {
		if err := w.setDev(true); err != nil {
			return err
		}
	}
	var tgt *target
	for _, t := range append(allTargets(), otherTargets()...) {
		if t.Path == tr.Path {
			tt := t
			tgt = &tt
		}
	}
	if tgt == nil {
		return fmt.Errorf("replay: unknown target %s", tr.Path)
	}
	sp := specFor(p, *tgt, methodVar{Method: tr.Method, ACRM: tr.ACRM}, tr.Origin)
	if tr.Cookie != "" {
		sp.Cookie = tr.Cookie
	}
	if tr.Host != "" {
		sp.Host = tr.Host
	}
	if tr.Via != "" {
		sp.Via = tr.Via
	}
	if sp.Via == "wire" {
		if err := w.waitListener(); err != nil {
			return err
		}
	}
	o, e := j.run(sp)
	j.b.Note("replay: %s %s cred=%s -> expect %s (stage %s), observed invoked=%d status=%d wrote=%v panics=%d", sp.Method, sp.Path, tr.CredTag, e.Invoke, e.Stage, o.Invoked, o.Status, o.Wrote, len(o.Panics))
	j.b.DistinctS("replay-a")
	j.b.DistinctS("replay-b")
	j.b.Sample(map[string]any{"spec": sp, "expect": e, "obs": o})
	return nil
}
