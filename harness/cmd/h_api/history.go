package main

// history.go — model-based histories (sequential) and concurrent scenarios: API-key
// configuration changes (each awaited through api.keys.updated), session creation,
// expiry and reset, development mode switches, interleaved with requests carrying any
// combination of credentials.

import (
	"fmt"
	"strings"
	"sync"
	"time"

	"github.com/safing/portbase/api"
	"github.com/safing/portbase/config"

	"verifharness/internal/vlib"
)

type historyReplay struct {
	Mode  string `json:"mode"`
	Seed  uint64 `json:"seed"`
	Shard int    `json:"shard"`
	No    int    `json:"no"`
	Step  int    `json:"step"`
}

type histState struct {
	pool     []string // key strings
	retired  []string // keys that were configured earlier and are not any more
	sessions []string // cookie values ever issued (any state)
}

var permWords = []string{"", kwAnyone, kwUser, kwAdmin}

func runHistories(w *world, j *judge, cs childSpec) error {
	for n := 0; n < cs.N; n++ {
		if err := runHistory(w, j, cs.Seed, cs.Shard, n); err != nil {
			if isWedged(err) {
				return err
			}
			if isInconclusive(err) {
				j.b.Inconclusive("history %d/%d: %s", cs.Shard, n, err)
				return nil // the world may be in an unknown state: stop this child
			}
			return err
		}
	}
	return nil
}

func runHistory(w *world, j *judge, seed uint64, shard, no int) error {
	r := vlib.NewRand(seed, fmt.Sprintf("C12/history/%d", shard), uint64(no))
	hs := &histState{}
	for i := 0; i < 8; i++ {
		hs.pool = append(hs.pool, "H"+randKey(r, r.Range(1, 20)))
	}
	targets := allTargets()
	origins := originVariants()
	steps := r.Range(60, 220)
	step := 0
	j.replay = func(sp *reqSpec) any {
		return historyReplay{Mode: "history", Seed: seed, Shard: shard, No: no, Step: step}
	}
	sig := []string{}
	// every history starts from a defined world
	if err := w.setDev(false); err != nil {
		return err
	}
	if err := histSetKeys(w, r, hs); err != nil {
		return err
	}
	for step = 0; step < steps; step++ {
		op := r.Intn(100)
		switch {
		case op < 7:
			if err := histSetKeys(w, r, hs); err != nil {
				return err
			}
			sig = append(sig, "K")
		case op < 9:
			// revoke every key: by resetting the option (value nil) or by setting an empty list
			for _, k := range w.configured {
				hs.retired = append(hs.retired, k.Key)
			}
			var err error
			if r.Bool() {
				err = w.resetKeys()
				sig = append(sig, "Z")
			} else {
				err = w.setKeys(nil)
				sig = append(sig, "E")
			}
			if err != nil {
				return err
			}
			for k := 0; k < r.Range(2, 8); k++ {
				histRequest(w, j, r, hs, targets, origins)
			}
		case op < 17:
			a, b := vlib.Pick(r, permVals...), vlib.Pick(r, permVals...)
			if r.Chance(2, 3) {
				a, b = r.Range(1, 4), r.Range(1, 4)
			}
			c, err := w.login(a, b)
			if err == nil {
				hs.sessions = append(hs.sessions, c)
			}
			sig = append(sig, "L")
		case op < 20:
			w.expireSessions()
			sig = append(sig, "X")
		case op < 25:
			if len(hs.sessions) > 0 {
				var tk *tableKeys
				w.resetSessionWith(j, vlib.Pick(r, hs.sessions...), vlib.Pick(r, resetAuthzVariants(tk)...))
				sig = append(sig, "R")
			}
		case op < 28:
			// a short development-mode episode
			if err := w.setDev(true); err != nil {
				return err
			}
			for k := 0; k < r.Range(2, 10); k++ {
				histRequest(w, j, r, hs, targets, origins)
			}
			// ... left by setting false or by resetting the option
			var err error
			if r.Bool() {
				err = w.resetDev()
			} else {
				err = w.setDev(false)
			}
			if err != nil {
				return err
			}
			for k := 0; k < r.Range(1, 5); k++ {
				histRequest(w, j, r, hs, targets, origins)
			}
			sig = append(sig, "D")
		default:
			histRequest(w, j, r, hs, targets, origins)
			sig = append(sig, "q")
		}
	}
	j.b.Count("histories", 1)
	j.b.Count("history_steps", int64(steps))
	j.b.DistinctS(fmt.Sprintf("history|%d|%d|%d|%s", seed, shard, no, strings.Join(sig, "")))
	if no == 0 && shard == 0 {
		j.b.Sample(map[string]any{"history_ops": strings.Join(sig, ""), "legend": "K=set keys (awaited) Z=reset keys to default E=set empty key list L=login X=expire sessions R=reset session D=dev-mode episode q=request"})
	}
	return nil
}

func histSetKeys(w *world, r *vlib.Rand, hs *histState) error {
	var list []cfgKey
	now := time.Now()
	was := map[string]bool{}
	for _, k := range w.configured {
		was[k.Key] = true
	}
	for _, k := range hs.pool {
		if !r.Chance(1, 2) {
			continue
		}
		ck := cfgKey{Key: k, R: vlib.Pick(r, permWords...), W: vlib.Pick(r, permWords...), Tag: "hist"}
		switch r.Intn(8) {
		case 0:
			ck.HasExp, ck.Expires = true, now.Add(time.Duration(r.Range(1, 1000))*time.Hour).Truncate(time.Second)
		case 1:
			ck.HasExp, ck.Expires = true, now.Add(-time.Duration(r.Range(1, 1000))*time.Hour).Truncate(time.Second)
		}
		list = append(list, ck)
	}
	if r.Chance(1, 3) {
		// the setting also contains an entry that is not a valid key entry
		bad := invalidEntry(r, vlib.Pick(r, invalidEntryKinds...))
		pos := r.Intn(len(list) + 1)
		list = append(list[:pos], append([]cfgKey{bad}, list[pos:]...)...)
		hs.retired = append(hs.retired, bad.Key)
		w.b.Count("history_settings_with_invalid_entry", 1)
	}
	if err := w.setKeys(list); err != nil {
		return err
	}
	now2 := map[string]bool{}
	for _, k := range w.configured {
		now2[k.Key] = true
	}
	for k := range was {
		if !now2[k] {
			hs.retired = append(hs.retired, k)
		}
	}
	return nil
}

func histAuthz(w *world, r *vlib.Rand, hs *histState) string {
	form := func(key string) string {
		switch r.Intn(4) {
		case 0:
			return "Basic " + b64(key+":")
		case 1:
			return "Basic " + b64(":"+key)
		case 2:
			i := r.Intn(len(key) + 1)
			return "Basic " + b64(key[:i]+":"+key[i:])
		}
		return "Bearer " + key
	}
	switch r.Intn(10) {
	case 0, 1, 2:
		return ""
	case 3, 4, 5:
		if len(w.configured) > 0 {
			return form(vlib.Pick(r, w.configured...).Key)
		}
		return ""
	case 6:
		if len(hs.retired) > 0 {
			return form(vlib.Pick(r, hs.retired...))
		}
		return form(vlib.Pick(r, hs.pool...))
	case 7:
		return form("U" + randKey(r, r.Range(3, 30)))
	case 8:
		return form(randKey(r, r.Range(1, 3)))
	}
	if len(w.configured) > 0 {
		k := vlib.Pick(r, w.configured...).Key
		return vlib.Pick(r, "Token "+k, "bearer "+k, "Bearer  "+k, "Basic "+k, "Bearer", k)
	}
	return "Negotiate abc"
}

func histCookie(w *world, r *vlib.Rand, hs *histState) string {
	if len(hs.sessions) == 0 || r.Chance(1, 2) {
		if r.Chance(1, 6) {
			return cookieName + "=" + randKey(r, 43)
		}
		return ""
	}
	c := vlib.Pick(r, hs.sessions...)
	switch r.Intn(8) {
	case 0:
		return "a=b; " + cookieName + "=" + c + "; z=1"
	case 1:
		return cookieName + "=\"" + c + "\""
	case 2:
		return cookieName + "=" + c + "; " + cookieName + "=" + vlib.Pick(r, hs.sessions...)
	case 3:
		return strings.ToLower(cookieName) + "=" + c
	}
	return cookieName + "=" + c
}

func histRequest(w *world, j *judge, r *vlib.Rand, hs *histState, targets []target, origins []string) {
	t := vlib.Pick(r, targets...)
	if r.Chance(1, 2) {
		// prefer handlers that actually require something
		for k := 0; k < 4 && !(t.T.DeclR >= mUser || t.T.DeclW >= mUser || t.T.DeclR == mDynamic); k++ {
			t = vlib.Pick(r, targets...)
		}
	}
	mv := vlib.Pick(r, methodVars...)
	sp := &reqSpec{Via: "handler", Method: mv.Method, ACRM: mv.ACRM, Host: testHost, Path: t.Path, Target: t.T, CredTag: "history"}
	if mv.Origin == "same" {
		sp.Origin = "http://" + testHost
	}
	if r.Chance(1, 7) {
		sp.Origin = vlib.Pick(r, origins...)
	}
	sp.Authz = histAuthz(w, r, hs)
	sp.Cookie = histCookie(w, r, hs)
	switch r.Intn(8) {
	case 0:
		sp.Auth = "err"
	case 1:
		sp.Auth = "deny"
	case 2, 3:
		sp.Auth = "ok/" + pname(vlib.Pick(r, permVals...)) + "/" + pname(vlib.Pick(r, permVals...))
	}
	if t.T.Route == "endpoint" && sp.Authz == "" && sp.Cookie == "" && sp.Origin == "" && r.Chance(1, 3) {
		for _, m := range bridgeMethods {
			if m == mv.Method {
				sp.Via = "bridge"
				sp.ACRM, sp.Auth = "", ""
				j.b.Count("bridge_requests", 1)
			}
		}
	}
	o, _ := j.run(sp)
	if o.SetSession != "" {
		// the authenticator granted a token: portbase issued a session for it
		if mode, tok := parseAuthMode(sp.Auth); mode == "ok" {
			w.model.Sess[o.SetSession] = &mSess{Tok: tok, Live: true}
			hs.sessions = append(hs.sessions, o.SetSession)
			w.b.Count("sessions_created", 1)
		}
	}
	j.b.Count("history_requests", 1)
}

// ---------------------------------------------------------------------------------
// concurrent scenario

func runConcurrent(w *world, j *judge, cs childSpec) error {
	r := vlib.NewRand(cs.Seed, "C12/concurrent", uint64(cs.Shard))
	tk := makeTableKeys(cs.Seed, time.Now(), false)
	flapA := cfgKey{Key: "FA" + randKey(r, 14), R: kwAdmin, W: kwAdmin, Tag: "flap-a"}
	flapB := cfgKey{Key: "FB" + randKey(r, 14), R: kwUser, W: kwAdmin, Tag: "flap-b"}
	listA := append(append([]cfgKey{}, tk.List...), flapA)
	listB := append(append([]cfgKey{}, tk.List...), flapB)
	if err := w.setKeys(listA); err != nil {
		return err
	}
	// after the first update the expired key is gone from the configuration
	stable := append([]cfgKey{}, w.configured[:len(w.configured)-1]...)
	listA = append(append([]cfgKey{}, stable...), flapA)
	listB = append(append([]cfgKey{}, stable...), flapB)
	var mmu sync.RWMutex // guards w.model in this scenario
	w.model.setKeys(append(append([]cfgKey{}, stable...), flapA, flapB))
	w.model.Keys[flapA.Key].Flapping = true
	w.model.Keys[flapB.Key].Flapping = true

	// stable sessions
	var stableSess []string
	for _, p := range [][2]int{{1, 1}, {2, 2}, {3, 3}, {4, 4}, {2, 3}, {3, 1}} {
		c, err := w.login(p[0], p[1])
		if err != nil {
			return err
		}
		stableSess = append(stableSess, c)
	}
	var chaosMu sync.Mutex
	var chaosSess []string

	targets := allTargets()
	clients := 8
	perClient := cs.N / clients
	stop := make(chan struct{})
	wedged := make(chan struct{})
	var bg sync.WaitGroup
	var bgErr error
	var bgMu sync.Mutex

	// key flapper: alternates the configuration, every change awaited
	bg.Add(1)
	go func() {
		defer bg.Done()
		cur := listA
		for i := 0; ; i++ {
			select {
			case <-stop:
				return
			default:
			}
			if cur[len(cur)-1].Key == flapA.Key {
				cur = listB
			} else {
				cur = listA
			}
			mk := w.mark()
			cfgNow := cfgStrings(cur)
			if err := w.guarded("SetConfigOption(core/apiKeys)", func() error { return config.SetConfigOption(api.CfgAPIKeys, cfgNow) }); err != nil {
				bgMu.Lock()
				bgErr = err
				bgMu.Unlock()
				close(wedged)
				return
			}
			// (the wait also ends when nothing is running or pending any more; the clients treat
			// the flapping keys as "either" anyway)
			if ok, _ := w.awaitImport(mk, cfgStrings(cur)); !ok {
				bgMu.Lock()
				bgErr = errInconclusive("key flapper: api.keys.updated not seen within 60s")
				bgMu.Unlock()
				return
			}
			w.b.Count("key_updates_awaited", 1)
			w.b.Count("concurrent_key_flips", 1)
		}
	}()
	// session chaos: create sessions, reset some of them
	bg.Add(1)
	go func() {
		defer bg.Done()
		cr := vlib.NewRand(cs.Seed, "C12/concurrent/chaos", uint64(cs.Shard))
		for i := 0; ; i++ {
			select {
			case <-stop:
				return
			default:
			}
			a, b := cr.Range(1, 4), cr.Range(1, 4)
			sp := &reqSpec{Via: "handler", Method: "GET", Host: testHost, Path: "/verif/p/m1/m1", Auth: "ok/" + pname(a) + "/" + pname(b), Target: mTarget{Route: "plain", DeclR: -1, DeclW: -1}}
			o := w.doConcurrent(sp)
			if o.SetSession != "" {
				mmu.Lock()
				w.model.Sess[o.SetSession] = &mSess{Tok: mtoken{mperm(a), mperm(b)}, Live: true}
				mmu.Unlock()
				chaosMu.Lock()
				chaosSess = append(chaosSess, o.SetSession)
				chaosMu.Unlock()
				w.b.Count("sessions_created", 1)
			}
			if i%3 == 2 {
				chaosMu.Lock()
				var victim string
				if len(chaosSess) > 4 {
					k := cr.Intn(len(chaosSess))
					victim = chaosSess[k]
				}
				chaosMu.Unlock()
				if victim != "" {
					mmu.Lock()
					if s := w.model.Sess[victim]; s != nil {
						s.Unsure = true
					}
					mmu.Unlock()
					rs := &reqSpec{Via: "handler", Method: "GET", Host: testHost, Path: "/api/v1/auth/reset", Cookie: cookieName + "=" + victim,
						Authz:  vlib.Pick(cr, resetAuthzVariants(tk)...),
						Target: mTarget{Route: "endpoint", DeclR: mAnyone, DeclW: mNotSupported}}
					w.doConcurrent(rs)
					mmu.Lock()
					delete(w.model.Sess, victim)
					mmu.Unlock()
					w.b.Count("session_resets", 1)
				}
			}
		}
	}()

	var cw sync.WaitGroup
	for c := 0; c < clients; c++ {
		cw.Add(1)
		go func(c int) {
			defer cw.Done()
			rr := vlib.NewRand(cs.Seed, fmt.Sprintf("C12/concurrent/client/%d", cs.Shard), uint64(c))
			jj := &judge{w: w, b: j.b, logLevel: j.logLevel, flapping: true}
			jj.replay = func(sp *reqSpec) any {
				return tableReplay{Mode: "concurrent", CredTag: "concurrent", Path: sp.Path, Method: sp.Method, ACRM: sp.ACRM, Origin: sp.Origin, Via: "handler", Auth: sp.Auth, Authz: sp.Authz, Cookie: sp.Cookie}
			}
			for i := 0; i < perClient; i++ {
				t := vlib.Pick(rr, targets...)
				mv := vlib.Pick(rr, methodVars[:8]...)
				sp := &reqSpec{Via: "handler", Method: mv.Method, ACRM: mv.ACRM, Host: testHost, Path: t.Path, Target: t.T, CredTag: "concurrent"}
				switch rr.Intn(9) {
				case 0:
				case 1, 2:
					sp.Authz = "Bearer " + vlib.Pick(rr, stable...).Key
				case 3:
					sp.Authz = "Bearer " + vlib.Pick(rr, flapA, flapB).Key
				case 4:
					sp.Authz = vlib.Pick(rr, "Bearer "+tk.Unknown, "Basic "+b64(tk.Unknown+":"), "Bearer "+tk.Past, "Token x")
				case 5, 6:
					sp.Cookie = cookieName + "=" + vlib.Pick(rr, stableSess...)
				case 7:
					chaosMu.Lock()
					if len(chaosSess) > 0 {
						sp.Cookie = cookieName + "=" + chaosSess[rr.Intn(len(chaosSess))]
					}
					chaosMu.Unlock()
				case 8:
					sp.Auth = vlib.Pick(rr, "err", "deny", "ok/3/3", "ok/1/2", "ok/4/4", "ok/100/0")
				}
				mmu.RLock()
				e1 := w.model.expect(sp, time.Now())
				mmu.RUnlock()
				o := w.doConcurrent(sp)
				mmu.RLock()
				e2 := w.model.expect(sp, time.Now())
				mmu.RUnlock()
				w.b.Count("concurrent_requests", 1)
				if e1.Invoke != e2.Invoke || e1.Cred != e2.Cred || len(e1.Tokens) != len(e2.Tokens) {
					w.b.Count("abstained_world_changed", 1)
					continue
				}
				mmu.RLock()
				jj.check(sp, e1, o)
				mmu.RUnlock()
			}
		}(c)
	}
	cdone := make(chan struct{})
	go func() { cw.Wait(); close(cdone) }()
	select {
	case <-cdone:
	case <-wedged:
		// the configuration system stopped: clients may hang with it, do not wait for them
		bgMu.Lock()
		defer bgMu.Unlock()
		return bgErr
	}
	close(stop)
	bg.Wait()
	w.b.Max("max_concurrent_requests", w.maxInflight.Load())
	w.b.DistinctS(fmt.Sprintf("concurrent|%d|%d|%s", cs.Seed, cs.Shard, cs.Build))
	w.b.DistinctS(fmt.Sprintf("concurrent-keyflips|%d|%d", cs.Shard, w.keyEvCount()))
	if bgErr != nil {
		return bgErr
	}
	return nil
}

// runChurn configures key lists that contain already expired keys over and over: every
// such change makes portbase rewrite the option itself (clean-up microtask) while the
// harness' own change may still be in flight — the history class in which configuration
// changes overlap. After every awaited change a few requests check the table.
func runChurn(w *world, j *judge, cs childSpec) error {
	r := vlib.NewRand(cs.Seed, "C12/churn", uint64(cs.Shard))
	targets := diagTargets()
	// a second admin keeps changing an unrelated setting while the keys are reconfigured
	stop := make(chan struct{})
	noiseDone := make(chan error, 1)
	go func() {
		for n := int64(1); ; n++ {
			select {
			case <-stop:
				noiseDone <- nil
				return
			default:
			}
			if err := w.guarded("SetConfigOption("+noiseOptionKey+")", func() error { return config.SetConfigOption(noiseOptionKey, n) }); err != nil {
				noiseDone <- err
				return
			}
			w.b.Count("churn_unrelated_changes", 1)
			time.Sleep(time.Duration(1+n%7) * time.Millisecond)
		}
	}()
	defer func() {
		close(stop)
		select {
		case <-noiseDone:
		case <-time.After(guardLimit + 30*time.Second):
		}
	}()
	var prev []cfgKey // valid keys of the previous setting (they are removed by the next one)
	for i := 0; i < cs.N; i++ {
		select {
		case err := <-noiseDone:
			noiseDone <- err
			if err != nil {
				return err
			}
		default:
		}
		now := time.Now()
		var list []cfgKey
		nValid := r.Range(1, 5)
		for k := 0; k < nValid; k++ {
			list = append(list, cfgKey{Key: "C" + randKey(r, r.Range(3, 18)), R: vlib.Pick(r, permWords...), W: vlib.Pick(r, permWords...), Tag: "churn"})
		}
		for k := 0; k < r.Range(1, 3); k++ {
			list = append(list, cfgKey{Key: "X" + randKey(r, 12), R: kwAdmin, W: kwAdmin, HasExp: true,
				Expires: now.Add(-time.Duration(r.Range(1, 100000)) * time.Second).Truncate(time.Second), Tag: "churn-expired"})
		}
		if r.Chance(1, 3) {
			list = append(list, invalidEntry(r, vlib.Pick(r, invalidEntryKinds...)))
			w.b.Count("churn_settings_with_invalid_entry", 1)
		}
		vlib.Shuffle(r, list)
		if err := w.setKeys(list); err != nil {
			return err
		}
		// keys of the previous setting that are gone now must grant nothing
		prevGone := prev
		prev = nil
		for _, ck := range list {
			if !ck.invalid() && !(ck.HasExp && ck.Expires.Before(now)) {
				prev = append(prev, ck)
			}
		}
		list = append(list, prevGone...)
		j.b.Count("churn_changes", 1)
		for _, ck := range list {
			t := vlib.Pick(r, targets...)
			mv := methodVars[r.Intn(5)]
			sp := &reqSpec{Via: "handler", Method: mv.Method, Host: testHost, Path: t.Path, Target: t.T, Authz: "Bearer " + ck.Key, CredTag: "churn/" + ck.Tag}
			j.replay = func(s *reqSpec) any {
				return tableReplay{Mode: "churn", CredTag: "churn", Path: s.Path, Method: s.Method, Via: "handler", Authz: s.Authz}
			}
			j.run(sp)
		}
	}
	j.b.DistinctS(fmt.Sprintf("churn|%d|%d", cs.Seed, cs.Shard))
	return nil
}

// runRevoke: the admin configures [A(admin), X(already expired)] and, at the moment the
// api module has processed that change, replaces the list by [B(user)] — A is revoked.
// portbase removes expired keys from the option by itself, asynchronously; after all of
// that has settled the configuration the admin made last must be the one in force:
// A grants nothing, B grants user access.
func runRevoke(w *world, j *judge, cs childSpec) error {
	r := vlib.NewRand(cs.Seed, "C12/revoke", uint64(cs.Shard))
	adminT := target{"/verif/p/3/3", mTarget{"plain", mAdmin, mAdmin}}
	userT := target{"/verif/p/2/2", mTarget{"plain", mUser, mUser}}
	for i := 0; i < cs.N; i++ {
		a := cfgKey{Key: "A" + randKey(r, 14), R: kwAdmin, W: kwAdmin, Tag: "revoked"}
		b := cfgKey{Key: "B" + randKey(r, 14), R: kwUser, W: kwUser, Tag: "current"}
		x := cfgKey{Key: "X" + randKey(r, 14), R: kwAdmin, W: kwAdmin, HasExp: true, Expires: time.Now().Add(-time.Duration(r.Range(2, 5000)) * time.Second).Truncate(time.Second), Tag: "expired"}
		l1, l2 := []cfgKey{a, x}, []cfgKey{b}
		if r.Bool() {
			l1 = []cfgKey{x, a}
		}
		fired := make(chan error, 1)
		armed := true
		w.keyEvMu.Lock()
		w.onKeyEv = func(idx int, snap string, dirty bool) {
			if armed && dirty && strings.Contains(snap, a.Key) {
				armed = false
				fired <- config.SetConfigOption(api.CfgAPIKeys, cfgStrings(l2))
			}
		}
		w.keyEvMu.Unlock()
		since := w.keyEvCount()
		err := w.guarded("SetConfigOption(core/apiKeys)", func() error { return config.SetConfigOption(api.CfgAPIKeys, cfgStrings(l1)) })
		if err != nil {
			return err
		}
		select {
		case err := <-fired:
			if err != nil {
				return fmt.Errorf("revoke: second SetConfigOption: %w", err)
			}
		case <-time.After(60 * time.Second):
			return errInconclusive("revoke: the update that sees the first key list did not happen within 60s")
		}
		w.keyEvMu.Lock()
		w.onKeyEv = nil
		w.keyEvMu.Unlock()
		// settle: the second change's own update must have happened; then every clean-up that
		// was scheduled gets the chance to be applied — one update per update that saw an
		// expired key — or, if a clean-up (rightly) does nothing, a bounded grace period. The
		// period only affects how likely a stale write-back is seen, never the verdict.
		deadline := time.Now().Add(60 * time.Second)
		grace := time.Time{}
		for {
			w.keyEvMu.Lock()
			dirty, clean := 0, 0
			for k := since; k < len(w.keyEvs); k++ {
				if w.keyDirty[k] {
					dirty++
				} else {
					clean++
				}
			}
			w.keyEvMu.Unlock()
			if clean >= dirty+1 {
				break
			}
			if quiescent() {
				// no import and no clean-up is running or pending: this is the final state
				w.b.Count("revoke_settled_by_quiescence", 1)
				break
			}
			if clean >= 1 && grace.IsZero() {
				grace = time.Now().Add(4 * time.Second)
			}
			if !grace.IsZero() && time.Now().After(grace) {
				break
			}
			if time.Now().After(deadline) {
				return errInconclusive("revoke: configuration did not settle within 60s; " + w.keyEvDiag(since, cfgStrings(l1), cfgStrings(l2)))
			}
			time.Sleep(20 * time.Millisecond)
		}
		w.configured = l2
		w.model.setKeys(l2)
		w.b.Count("key_updates_awaited", 1)
		w.b.Count("revoke_rounds", 1)
		actual := w.keysGetSafe()
		for _, c := range []struct {
			k   cfgKey
			t   target
			sig string
		}{{a, adminT, "C12:revoked-key-still-grants"}, {b, userT, "C12:configured-key-ignored"}} {
			sp := &reqSpec{Via: "handler", Method: vlib.Pick(r, "GET", "POST"), Host: testHost, Path: c.t.Path, Target: c.t.T, Authz: "Bearer " + c.k.Key, CredTag: "revoke/" + c.k.Tag}
			e := w.model.expect(sp, time.Now())
			o := w.do(sp)
			j.b.Eval(1)
			j.b.Count("revoke_requests", 1)
			bad := (o.Invoked > 0 && e.Invoke == triMustNot) || (o.Invoked == 0 && e.Invoke == triMust)
			if bad {
				cause, expl := ":option-intact", "the option holds the last configuration, the api module's key table does not follow it"
				if strings.Join(actual, "\n") != strings.Join(cfgStrings(l2), "\n") {
					cause, expl = ":option-overwritten", "a clean-up of expired keys wrote back the list it had computed from the older configuration"
				}
				j.b.Violation(c.sig+cause, fmt.Sprintf("after the admin replaced the key list %v by %v (both SetConfigOption calls succeeded, portbase's own clean-ups settled) key %q (%s) %s; the option now holds %v: %s",
					cfgStrings(l1), cfgStrings(l2), c.k.Key, c.k.Tag, map[bool]string{true: "still runs the Admin-only handler", false: "is refused"}[o.Invoked > 0], actual, expl),
					cell{Spec: sp, World: j.brief(), Expect: e, Obs: o, Replay: tableReplay{Mode: "revoke", CredTag: "revoke"}, Recent: []string{w.keyEvDiag(since, cfgStrings(l1), cfgStrings(l2))}})
			}
		}
		// bring the world back to what the model believes before the next round
		if err := w.setKeys(nil); err != nil {
			return err
		}
	}
	j.b.DistinctS(fmt.Sprintf("revoke|%d|%d", cs.Seed, cs.Shard))
	return nil
}

type expiryReplay struct {
	Mode  string `json:"mode"`
	Shard int    `json:"shard"`
}

// runExpiry: several keys with different expiry times in one setting. The keys are loaded
// once; one of them passes its own expiry while loaded (no configuration change in
// between) and is then presented: it must grant nothing, while every other key — with a
// later expiry or none, listed before or after it — keeps granting exactly its own
// permissions. The shard selects the order in which the keys are listed.
func runExpiry(w *world, j *judge, cs childSpec) error {
	r := vlib.NewRand(cs.Seed, "C12/expiry", uint64(cs.Shard))
	now := time.Now()
	soonAt := now.Add(4 * time.Second).Truncate(time.Second)
	soon := cfgKey{Key: "ES" + randKey(r, 14), R: kwAdmin, W: kwAdmin, HasExp: true, Expires: soonAt, Tag: "soon"}
	far := cfgKey{Key: "EF" + randKey(r, 14), R: kwUser, W: kwAdmin, HasExp: true, Expires: now.Add(time.Duration(r.Range(1, 72)) * time.Hour).Truncate(time.Second), Tag: "far"}
	far2 := cfgKey{Key: "EG" + randKey(r, 14), R: kwAdmin, W: kwUser, HasExp: true, Expires: now.Add(time.Duration(r.Range(100, 9000)) * time.Hour).Truncate(time.Second), Tag: "far2"}
	never := cfgKey{Key: "EN" + randKey(r, 14), R: kwAdmin, W: kwAdmin, Tag: "never"}
	orders := [][]cfgKey{
		{soon, far},
		{far, soon},
		{soon, never, far, far2},
		{far2, soon, far},
		{never, far, far2, soon},
		{soon, far2, never},
	}
	list := orders[cs.Shard%len(orders)]
	var names []string
	for _, k := range list {
		names = append(names, k.Tag)
	}
	if err := w.setKeys(list); err != nil {
		return err
	}
	if time.Until(soonAt) < expiryMargin+200*time.Millisecond {
		return errInconclusive("expiry: configuring the keys took so long that the soon-expiring key is too close to its expiry")
	}
	targets := append(diagTargets(), target{"/verif/p/2/3", mTarget{"plain", mUser, mAdmin}}, target{"/api/v1/verif/e/3/2", mTarget{"endpoint", mAdmin, mUser}})
	phase := "before"
	round := func() {
		for _, k := range list {
			for _, form := range []string{"Bearer " + k.Key, "Basic " + b64(k.Key+":")} {
				for _, t := range targets {
					for _, mv := range methodVars[:5] {
						sp := &reqSpec{Via: "handler", Method: mv.Method, Host: testHost, Path: t.Path, Target: t.T, Authz: form, CredTag: "expiry/" + k.Tag}
						j.replay = func(*reqSpec) any { return expiryReplay{Mode: "expiry", Shard: cs.Shard} }
						j.run(sp)
						j.b.Count("expiry_requests_"+phase, 1)
						j.b.DistinctS(fmt.Sprintf("expiry|%s|%s|%s|%s|%s|%s", strings.Join(names, ","), phase, k.Tag, form[:5], t.Path, mv.Method))
					}
				}
			}
		}
	}
	// while every key is valid (the judge abstains by itself inside the expiry margin)
	if time.Until(soonAt) > expiryMargin+600*time.Millisecond {
		round()
	}
	// let the first key pass its expiry while it stays loaded
	if d := time.Until(soonAt.Add(expiryMargin + 300*time.Millisecond)); d > 0 {
		time.Sleep(d)
	}
	phase = "after"
	round()
	j.b.Count("expiry_orders_run", 1)
	j.b.Seen("expiry_orders", strings.Join(names, ","))
	return nil
}
