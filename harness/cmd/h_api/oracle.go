package main

// oracle.go — compares what was observed of one request with the model's expectation.

import (
	"fmt"
	"strings"
	"time"

	"verifharness/internal/vlib"
)

// cell is one decided request: what was sent, what the model demands, what happened.
type cell struct {
	Spec   *reqSpec    `json:"spec"`
	World  worldBrief  `json:"world"`
	Expect expectation `json:"expect"`
	Obs    *obs        `json:"obs"`
	Replay any         `json:"replay,omitempty"`
	Recent []string    `json:"recent,omitempty"`
}

type worldBrief struct {
	Dev      bool     `json:"dev"`
	Keys     []string `json:"configured_keys,omitempty"`
	Sessions int      `json:"sessions"`
	LogLevel string   `json:"log_level,omitempty"`
}

func declKind(t mTarget, class string) string {
	d := t.DeclR
	if class == "write" {
		d = t.DeclW
	}
	switch {
	case t.Route == "noroute" || t.Route == "noendpoint" || t.Route == "undeclared":
		return t.Route
	case d == mNotFound:
		return "NotFound"
	case d == mDynamic:
		return "Dynamic"
	case d == mNotSupported:
		return "NotSupported"
	case d == mAnyone:
		return "Anyone"
	case d == mUser:
		return "User"
	case d == mAdmin:
		return "Admin"
	case d == mSelf:
		return "Self"
	}
	return "out-of-range"
}

// sigCred reduces a credential class to its stable part.
func sigCred(c string) string {
	if c == "" {
		return "none"
	}
	if strings.Contains(c, "+") {
		return "multi" // several credentials presented at once (histories, fuzz): detail has them
	}
	return strings.TrimSuffix(c, "-nearmiss")
}

type judge struct {
	w        *world
	b        *vlib.Batch
	logLevel string
	recent   []string
	replay   func(sp *reqSpec) any
	sampled  map[string]bool
	flapping bool   // the key configuration changes concurrently (no stable "configured" list)
	host     string // Host header override of the Origin/Host sub-table ("" = testHost)
}

func (j *judge) brief() worldBrief {
	return worldBrief{Dev: j.w.model.Dev, Keys: cfgStrings(j.w.configured), Sessions: len(j.w.model.Sess), LogLevel: j.logLevel}
}

func (j *judge) remember(sp *reqSpec, o *obs) {
	s := fmt.Sprintf("%s %s %s authz=%q cookie=%d auth=%s origin=%q -> invoked=%d status=%d", sp.Via, sp.Method, sp.Path, trimTo(sp.Authz, 40), len(sp.Cookie), sp.Auth, sp.Origin, o.Invoked, o.Status)
	if len(j.recent) >= 8 {
		j.recent = j.recent[1:]
	}
	j.recent = append(j.recent, s)
}

// run sends the request, evaluates the model at the time of sending and judges.
func (j *judge) run(sp *reqSpec) (*obs, expectation) {
	now := time.Now()
	e := j.w.model.expect(sp, now)
	o := j.w.do(sp)
	// the key-expiry reading must be the same before and after the request, else abstain
	if e2 := j.w.model.expect(sp, time.Now()); e2.Invoke != e.Invoke || e2.Cred != e.Cred {
		j.b.Count("abstained_time_boundary", 1)
		return o, e
	}
	j.check(sp, e, o)
	return o, e
}

func (j *judge) violation(sig, what string, sp *reqSpec, e expectation, o *obs) {
	if !j.flapping && strings.Contains(e.Cred, "bearer") || !j.flapping && strings.Contains(e.Cred, "basic") {
		// safety net: if the option no longer holds what the harness configured (and awaited),
		// the mismatch is not the permission check's: portbase rewrote the option itself
		if cur, want := strings.Join(j.w.keysGetSafe(), "\n"), strings.Join(cfgStrings(j.w.configured), "\n"); cur != want {
			sig = "C12:key-config-overwritten:not-by-caller"
			what = fmt.Sprintf("the core/apiKeys option holds %q, the last awaited configuration was %q; consequence: %s", cur, want, what)
		}
	}
	c := cell{Spec: sp, World: j.brief(), Expect: e, Obs: o, Recent: append([]string{}, j.recent...)}
	if j.replay != nil {
		c.Replay = j.replay(sp)
	}
	j.b.Violation(sig, what, c)
}

// check applies the oracles to one decided request. It returns true if all were silent.
func (j *judge) check(sp *reqSpec, e expectation, o *obs) bool {
	b := j.b
	b.Eval(1)
	j.remember(sp, o)
	if sp.Target.Route == "endpoint" && sp.Method == "OPTIONS" && o.Invoked == 0 && o.Status == 204 {
		// An Endpoint answers OPTIONS itself with 204 (before the endpoint function): the
		// 204 is produced by the invoked handler — no refusal path answers 204 — so it
		// counts as "the handler ran"; which token it saw cannot be observed.
		o.Invoked, o.Kind, o.TokUnseen = 1, "endpoint-options-204", true
	}
	dk := declKind(sp.Target, e.Class)
	b.Count("stage:"+e.Stage, 1)
	b.Seen("cred_classes", e.Cred)
	if strings.Contains(e.Cred, "+") {
		b.Count("cred_combinations", 1) // several credentials presented at once (histories, fuzz)
	} else {
		b.Count("cred:"+e.Cred, 1)
	}
	b.Seen("decl_kinds", dk)
	b.Seen("method_variants", methodVariant(sp))
	b.Seen("origin_classes", e.OriginCls)
	b.Seen("routes", sp.Target.Route)
	b.Seen("via", sp.Via)
	b.Count("expect_"+e.Invoke.String(), 1)
	if o.Invoked > 0 {
		b.Count("handler_invoked", 1)
		b.Seen("probe_kinds_invoked", o.Kind)
	} else {
		b.Count("handler_not_invoked", 1)
		b.Seen("statuses_not_invoked", fmt.Sprint(o.Status))
	}
	if o.AuthCalled > 0 {
		b.Count("authenticator_called", 1)
	}
	if o.Mutated {
		b.Count("handler_mutated_its_token", 1)
	}
	if o.TokShared {
		// documentation level ("make a copy ... to mitigate the handler poisoning the token"):
		// sharing alone does not break the statement, its exploitation is caught by the
		// ordinary oracles on the following requests
		b.Count("doc_deviation_token_object_shared", 1)
		b.Note("doc-level: handler of %s %s was handed a token object that an earlier request's handler already held", sp.Method, sp.Path)
	}
	ok := true
	cred := sigCred(e.Cred)
	if sp.Target.Route == "undeclared" && o.Escaped == "" && len(o.Panics) == 0 {
		// a handler that declares nothing: the documentation (not the statement) says it
		// needs PermitSelf; compared, counted, never an alarm
		if (o.Invoked > 0 && e.Invoke == triMustNot) || (o.Invoked == 0 && e.Invoke == triMust) {
			b.Count("doc_deviation_undeclared_handler", 1)
			b.Note("doc-level: undeclared handler invoked=%d with credential %s (documented default: Self)", o.Invoked, cred)
		}
		return true
	}

	// O0: the request processing itself must not blow up
	if o.Escaped != "" {
		j.violation("C12:panic-escaped-main-handler:"+sp.Via, "a panic escaped the API main handler: "+o.Escaped, sp, e, o)
		return false
	}
	if len(o.Panics) > 0 && o.Invoked == 0 {
		// a panic outside the probe (the probes never panic): the request handling crashed
		p := o.Panics[0]
		b.Seen("panic_cred_classes", cred)
		b.Count("panics_observed", 1)
		what := fmt.Sprintf("request handling panicked in %s (%s) outside the handler-level recover; answered status=%d wrote=%v, handler not run (model: handler %s run)",
			p.Site, trimTo(p.Value, 120), o.Status, o.Wrote, e.Invoke)
		j.violation("C12:panic-in-request:"+p.Site, what, sp, e, o)
		return false
	}

	// O1: handler ran although the table forbids it
	if o.Invoked > 0 && e.Invoke == triMustNot {
		ok = false
		j.violation("C12:handler-ran-unpermitted:"+e.Stage+":"+dk+":"+cred,
			fmt.Sprintf("handler (%s) ran for %s %s although the model forbids it (stage %s, declared %s, credential %s, token seen %v)", o.Kind, sp.Method, sp.Path, e.Stage, dk, cred, o.Tok), sp, e, o)
	}
	// O2: handler did not run although the credential grants enough
	if o.Invoked == 0 && e.Invoke == triMust {
		ok = false
		j.violation("C12:handler-skipped-permitted:"+e.Stage+":"+dk+":"+cred,
			fmt.Sprintf("handler did not run for %s %s although the presented credential (%s) grants what %s requires; status %d", sp.Method, sp.Path, cred, dk, o.Status), sp, e, o)
	}
	if o.Invoked > 1 {
		ok = false
		j.violation("C12:handler-ran-twice:"+dk, "the handler body ran more than once for one request", sp, e, o)
	}
	// O3: a refusal must be answered with 401/403/404/405/500
	if o.Invoked == 0 && e.Refusal && e.Invoke != triMust {
		switch {
		case !o.Wrote:
			ok = false
			j.violation("C12:refusal-unanswered:"+e.Stage+":"+cred,
				fmt.Sprintf("refused request (%s %s, credential %s) was not answered at all (implicit empty 200)", sp.Method, sp.Path, cred), sp, e, o)
		case !refusalSet[o.Status]:
			ok = false
			j.violation(fmt.Sprintf("C12:refusal-status:%s:%s:%d", e.Stage, cred, o.Status),
				fmt.Sprintf("refused request (%s %s, credential %s) answered with status %d, not one of 401/403/404/405/500", sp.Method, sp.Path, cred, o.Status), sp, e, o)
		}
	}
	// O4: the token the handler sees is what the credential grants
	if o.Invoked > 0 && e.Invoke != triMustNot {
		switch {
		case o.TokUnseen:
		case o.TokNil || o.Tok == nil:
			ok = false
			j.violation("C12:token-missing:"+cred, "handler ran without an AuthToken on the request", sp, e, o)
		default:
			found := false
			for _, t := range e.Tokens {
				if t == *o.Tok {
					found = true
				}
			}
			if !found {
				ok = false
				j.violation("C12:token-mismatch:"+e.Stage+":"+cred,
					fmt.Sprintf("handler saw token %v, the presented credential (%s) grants %v", *o.Tok, cred, e.Tokens), sp, e, o)
			}
		}
	}
	// O5: refused cross-origin requests reach neither authenticator nor handler
	if o.AuthCalled > 0 && e.AuthRun == triMustNot {
		ok = false
		j.violation("C12:authenticator-ran:"+e.Stage, fmt.Sprintf("the authenticator ran for a request that must be refused before (stage %s, Origin %q, Host %q)", e.Stage, sp.Origin, sp.Host), sp, e, o)
	}

	// documentation-level comparison (never an alarm): exact status and authenticator use
	if ok && e.DocSure {
		if o.Invoked == 0 && e.DocStatus != 0 && o.Status != e.DocStatus {
			b.Count("doc_deviation_status", 1)
			b.Note("doc-level: %s %s (%s, %s) answered %d, documented %d", sp.Method, sp.Path, e.Stage, cred, o.Status, e.DocStatus)
		}
		if o.AuthCalled > 0 && e.DocAuth == triMustNot {
			b.Count("doc_deviation_auth_called", 1)
			b.Note("doc-level: authenticator consulted for %s %s (%s, %s)", sp.Method, sp.Path, e.Stage, cred)
		}
		if sp.Target.Route == "undeclared" && o.Invoked > 0 {
			b.Count("undeclared_handler_invoked", 1)
		}
	}
	return ok
}

func methodVariant(sp *reqSpec) string {
	if sp.Method != "OPTIONS" && sp.ACRM == "" {
		return sp.Method
	}
	v := sp.Method
	if sp.ACRM != "" {
		v += "+acrm=" + sp.ACRM
	}
	if strings.TrimSpace(sp.Origin) != "" {
		v += "+origin"
	}
	return v
}
