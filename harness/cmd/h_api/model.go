package main

// model.go — an independent implementation of the documented decision table of the
// API's permission check. It is written from the doc comments of api/authentication.go
// (Permission constants, AuthToken, AuthenticatorFunc, ErrAPIAccessDeniedMessage), the
// description of the core/apiKeys option, api/endpoints.go (Endpoint.Read/Write) and the
// property statement — it shares no code with portbase and does not use net/http or
// net/url parsing.
//
// The model answers with what the *statement* demands (must / must not / either) and,
// separately, with the documented exact status (a deviation from that is only a note).

import (
	"encoding/base64"
	"strings"
	"time"
)

type mperm int

const (
	mNotFound     mperm = -2
	mDynamic      mperm = -1
	mNotSupported mperm = 0
	mAnyone       mperm = 1
	mUser         mperm = 2
	mAdmin        mperm = 3
	mSelf         mperm = 4
)

func (p mperm) valid() bool { return p >= mAnyone && p <= mSelf }

type mtoken struct {
	R mperm `json:"r"`
	W mperm `json:"w"`
}

var anonTok = mtoken{mAnyone, mAnyone}

type mKey struct {
	Tok      mtoken
	Expires  time.Time
	HasExp   bool
	Flapping bool // configured in some but not all phases of a concurrent scenario
}

type mSess struct {
	Tok    mtoken
	Live   bool
	Unsure bool // being created/expired/reset concurrently
}

type mWorld struct {
	Dev  bool
	Keys map[string]*mKey
	Sess map[string]*mSess
	// substrings that, when they occur in a header that the model could not read as a
	// credential, make the model abstain (the header is a near miss of a real credential)
	secretForms map[string]struct{}
}

func newMWorld() *mWorld {
	return &mWorld{Keys: map[string]*mKey{}, Sess: map[string]*mSess{}, secretForms: map[string]struct{}{}}
}

// permFromWord reads a permission word of a key entry: the documented words are
// anyone, user and admin (or nothing). ok=false: not a documented word — the entry is
// invalid and grants nothing. exact=false: a documented word in another letter case (the
// documentation does not say whether case matters: the model abstains for that key).
func permFromWord(s string) (p mperm, ok, exact bool) {
	switch s {
	case "", "anyone":
		return mAnyone, true, true
	case "user":
		return mUser, true, true
	case "admin":
		return mAdmin, true, true
	}
	switch strings.ToLower(s) {
	case "anyone":
		return mAnyone, true, false
	case "user":
		return mUser, true, false
	case "admin":
		return mAdmin, true, false
	}
	return 0, false, false
}

func (m *mWorld) setKeys(keys []cfgKey) {
	m.Keys = map[string]*mKey{}
	m.secretForms = map[string]struct{}{}
	for _, k := range keys {
		r, ok1, ex1 := permFromWord(k.R)
		w, ok2, ex2 := permFromWord(k.W)
		if !ok1 || !ok2 || k.Invalid {
			continue // an entry with an undocumented permission word is not a configured key
		}
		m.Keys[k.Key] = &mKey{Tok: mtoken{r, w}, Expires: k.Expires, HasExp: k.HasExp, Flapping: !(ex1 && ex2)}
		m.addSecretForms(k.Key)
	}
}

func (m *mWorld) addSecretForms(key string) {
	if len(key) < 4 {
		return // too short to be a meaningful near-miss marker
	}
	m.secretForms[key] = struct{}{}
	for i := 0; i <= len(key); i++ {
		raw := key[:i] + ":" + key[i:]
		m.secretForms[strings.TrimRight(base64.StdEncoding.EncodeToString([]byte(raw)), "=")] = struct{}{}
	}
}

func (m *mWorld) containsSecret(h string) bool {
	for s := range m.secretForms {
		if strings.Contains(h, s) {
			return true
		}
	}
	return false
}

// mTarget is what the addressed handler declares.
type mTarget struct {
	Route string `json:"route"` // plain | wrapped | dynamic | undeclared | endpoint | noendpoint | noroute
	DeclR mperm  `json:"decl_r"`
	DeclW mperm  `json:"decl_w"`
}

type tri int

const (
	triMay tri = iota
	triMust
	triMustNot
)

func (t tri) String() string { return [...]string{"may", "must", "must-not"}[t] }

// refusalSet is the set of statuses the statement allows for a refusal.
var refusalSet = map[int]bool{401: true, 403: true, 404: true, 405: true, 500: true}

type expectation struct {
	Stage     string   `json:"stage"` // which row of the table decided
	Invoke    tri      `json:"-"`
	InvokeS   string   `json:"invoke"`
	Refusal   bool     `json:"refusal"`    // a non-invocation must be answered from refusalSet
	DocStatus int      `json:"doc_status"` // documented exact status of a non-invocation (0: none)
	Tokens    []mtoken `json:"tokens"`     // tokens the handler may see
	AnyToken  bool     `json:"any_token,omitempty"`
	AuthRun   tri      `json:"-"`          // statement level
	DocAuth   tri      `json:"-"`          // documented
	Cred      string   `json:"cred"`       // credential class (for signatures/coverage)
	Class     string   `json:"class"`      // method class: read | write | none
	OriginCls string   `json:"origin_cls"` // none | same | exception | foreign | unclear
	DocSure   bool     `json:"doc_sure"`   // the documented reading is unambiguous (doc-level comparison is meaningful)
}

// ---------------------------------------------------------------------------------
// header readers

type credCand struct {
	tok   mtoken
	grant bool   // a token is granted (else: nothing, i.e. anonymous)
	cls   string // class name
}

func splitHostPort(h string) (host, port string) {
	if strings.HasPrefix(h, "[") {
		if i := strings.Index(h, "]"); i > 0 {
			host = h[:i+1]
			rest := h[i+1:]
			if strings.HasPrefix(rest, ":") {
				port = rest[1:]
			}
			return
		}
	}
	if i := strings.LastIndex(h, ":"); i >= 0 {
		return h[:i], h[i+1:]
	}
	return h, ""
}

func isSchemeChar(c byte, first bool) bool {
	if c >= 'a' && c <= 'z' || c >= 'A' && c <= 'Z' {
		return true
	}
	return !first && (c >= '0' && c <= '9' || c == '+' || c == '-' || c == '.')
}

func isHostChar(c byte) bool {
	return c >= 'a' && c <= 'z' || c >= 'A' && c <= 'Z' || c >= '0' && c <= '9' || c == '-' || c == '.' || c == '_'
}

// parseOrigin reads a serialized origin "scheme://host[:port]" strictly.
func parseOrigin(o string) (scheme, host, port string, ok bool) {
	i := strings.Index(o, "://")
	if i <= 0 {
		return
	}
	scheme = o[:i]
	for j := 0; j < len(scheme); j++ {
		if !isSchemeChar(scheme[j], j == 0) {
			return "", "", "", false
		}
	}
	rest := o[i+3:]
	if rest == "" {
		return "", "", "", false
	}
	host, port = splitHostPort(rest)
	if host == "" {
		return "", "", "", false
	}
	for j := 0; j < len(host); j++ {
		if !isHostChar(host[j]) {
			return "", "", "", false
		}
	}
	for j := 0; j < len(port); j++ {
		if port[j] < '0' || port[j] > '9' {
			return "", "", "", false
		}
	}
	if strings.HasSuffix(rest, ":") {
		return "", "", "", false
	}
	return scheme, host, port, true
}

var devLocalOrigins = []string{"127.0.0.1", "localhost"}

// originClass decides how the statement reads the Origin header against the Host.
func originClass(origin, reqHost string, dev bool) string {
	if origin == "" {
		return "none"
	}
	hHost, _ := splitHostPort(reqHost)
	lo := strings.ToLower(origin)
	scheme, host, port, ok := parseOrigin(origin)
	if ok {
		full := host
		if port != "" {
			full += ":" + port
		}
		_, reqPort := splitHostPort(reqHost)
		switch {
		case scheme == "chrome-extension":
			return "exception"
		case strings.Contains(strings.ToLower(scheme), "extension"):
			return "unclear" // "browser-extension scheme": only chrome-extension (lower case) is documented by name
		case full == reqHost && reqHost != "":
			return "same"
		case dev && (host == "127.0.0.1" || host == "localhost"):
			return "exception"
		case host == hHost && hHost != "" && !strings.HasPrefix(host, "["):
			// Same host name, but host:port differs from the Host header.
			if reqPort == "" && port != "" {
				// documented: "Origin (without port) matches Host" — a Host header without a
				// port is matched by the Origin's host name alone
				return "same"
			}
			// The Host header carries a port and the Origin names another one or none:
			// the Origin does not match the Host (documented: "If the Host header has a
			// port, and the Origin does not, requests will also end up here").
			return "foreign"
		case strings.EqualFold(strings.TrimSuffix(host, "."), hHost) || strings.EqualFold(host, reqHost):
			// same name up to letter case, a trailing dot or IPv6 brackets: the
			// documentation does not say how names are normalised
			return "unclear"
		default:
			return "foreign"
		}
	}
	// not a serialized origin: it matches nothing unless a lenient reader could still find
	// the host, the extension scheme or (in dev mode) a local name in it
	if reqHost == "" || hHost == "" {
		return "unclear"
	}
	if strings.Contains(lo, strings.ToLower(hHost)) || strings.Contains(lo, "chrome-extension") {
		return "unclear"
	}
	if dev {
		for _, l := range devLocalOrigins {
			if strings.Contains(lo, l) {
				return "unclear"
			}
		}
	}
	return "foreign"
}

func methodClass(method, acrm string) string {
	m := method
	if method == "OPTIONS" {
		if acrm == "" {
			return "none"
		}
		m = acrm
	}
	switch m {
	case "GET", "HEAD":
		return "read"
	case "POST", "PUT", "DELETE":
		return "write"
	}
	return "none"
}

// readAuthz reads the Authorization header: "Bearer <key>" or "Basic base64(user:pass)"
// with key = user+pass.
func (m *mWorld) readAuthz(h string, now time.Time) (cands []credCand, present bool) {
	if h == "" {
		return nil, false
	}
	var key string
	var form string
	switch {
	case strings.HasPrefix(h, "Bearer "):
		key, form = h[len("Bearer "):], "bearer"
	case strings.HasPrefix(h, "Basic "):
		form = "basic"
		raw, err := base64.StdEncoding.DecodeString(h[len("Basic "):])
		if err != nil {
			return m.nearMiss(h, "basic-malformed"), true
		}
		i := strings.IndexByte(string(raw), ':')
		if i < 0 {
			return m.nearMiss(h, "basic-malformed"), true
		}
		key = string(raw[:i]) + string(raw[i+1:])
	default:
		return m.nearMiss(h, "scheme-malformed"), true
	}
	k, ok := m.Keys[key]
	if !ok {
		cls := form + "-unknown"
		if len(key) < 4 {
			cls = form + "-short"
		}
		// a key that is a near miss of a configured one (e.g. surrounding blanks) grants nothing
		return []credCand{{cls: cls}}, true
	}
	if k.HasExp {
		d := k.Expires.Sub(now)
		switch {
		case d < -expiryMargin:
			return []credCand{{cls: form + "-expired"}}, true
		case d < expiryMargin:
			return []credCand{{cls: form + "-expiring"}, {tok: k.Tok, grant: true, cls: form + "-expiring"}}, true
		}
	}
	if k.Flapping {
		return []credCand{{cls: form + "-flapping"}, {tok: k.Tok, grant: true, cls: form + "-flapping"}}, true
	}
	return []credCand{{tok: k.Tok, grant: true, cls: form + "-valid"}}, true
}

// nearMiss: the header is not a readable credential. It grants nothing — unless it
// contains a real credential in a form a more lenient reader might accept (then the
// model abstains: either reading is compatible with the statement).
func (m *mWorld) nearMiss(h, cls string) []credCand {
	out := []credCand{{cls: cls}}
	if m.containsSecret(h) {
		for _, k := range m.Keys {
			out = append(out, credCand{tok: k.Tok, grant: true, cls: cls + "-nearmiss"})
		}
		out[0].cls = cls + "-nearmiss"
	}
	return out
}

// readCookie finds the session cookie in a Cookie header ("a=b; c=d").
func (m *mWorld) readCookie(h string) (cands []credCand, present bool) {
	if h == "" {
		return nil, false
	}
	found := false
	clean := true
	for _, part := range strings.Split(h, ";") {
		part = strings.TrimSpace(part)
		i := strings.IndexByte(part, '=')
		if i < 0 {
			continue
		}
		name, val := part[:i], part[i+1:]
		if name != cookieName {
			continue
		}
		if len(val) >= 2 && val[0] == '"' && val[len(val)-1] == '"' {
			val = val[1 : len(val)-1]
		}
		found = true
		s, ok := m.Sess[val]
		switch {
		case !ok:
			cands = append(cands, credCand{cls: "cookie-unknown"})
		case s.Unsure:
			cands = append(cands, credCand{cls: "cookie-unsure"}, credCand{tok: s.Tok, grant: true, cls: "cookie-unsure"})
		case !s.Live:
			cands = append(cands, credCand{cls: "cookie-expired"})
		default:
			cands = append(cands, credCand{tok: s.Tok, grant: true, cls: "cookie-valid"})
		}
	}
	// a live session value somewhere else in the header: abstain
	rest := len(h)
	for _, part := range strings.Split(h, ";") {
		if strings.HasPrefix(strings.TrimSpace(part), cookieName+"=") {
			rest -= len(part)
		}
	}
	for v, s := range m.Sess {
		if rest < 20 {
			break // nothing left that could hold a session value
		}
		if (s.Live || s.Unsure) && strings.Contains(h, v) {
			exact := false
			for _, c := range cands {
				if c.grant && c.tok == s.Tok {
					exact = true
				}
			}
			if !exact {
				clean = false
				cands = append(cands, credCand{tok: s.Tok, grant: true, cls: "cookie-nearmiss"})
			}
		}
	}
	if !found && clean {
		return []credCand{{cls: "cookie-other"}}, true
	}
	if !found {
		cands = append(cands, credCand{cls: "cookie-nearmiss"})
	}
	return cands, true
}

func parseAuthMode(s string) (mode string, tok mtoken) {
	switch {
	case s == "err":
		return "err", mtoken{}
	case s == "deny":
		return "deny", mtoken{}
	case strings.HasPrefix(s, "ok/"):
		parts := strings.Split(s, "/")
		if len(parts) == 3 {
			a, ok1 := pparse(parts[1])
			b, ok2 := pparse(parts[2])
			if ok1 && ok2 {
				return "ok", mtoken{mperm(a), mperm(b)}
			}
		}
	}
	return "nil", mtoken{}
}

// ---------------------------------------------------------------------------------
// the decision table

type outcome struct {
	invoke bool
	status int
	tok    mtoken
}

func decide(need mperm, class string, tok mtoken, anonymous bool) outcome {
	eff := tok.R
	if class == "write" {
		eff = tok.W
	}
	switch {
	case !eff.valid():
		return outcome{status: 500}
	case eff < need:
		if anonymous || tok == anonTok {
			return outcome{status: 401}
		}
		return outcome{status: 403}
	}
	return outcome{invoke: true, tok: tok}
}

// expect evaluates the table for one request in the given world.
func (m *mWorld) expect(sp *reqSpec, now time.Time) expectation {
	e := expectation{AuthRun: triMay, DocAuth: triMay, DocSure: true}
	fin := func() expectation { e.InvokeS = e.Invoke.String(); return e }
	bridge := sp.Via == "bridge"

	// 1. cross-origin check (never for the bridge: it sends no Origin)
	origin := trimWire(sp.Origin)
	if bridge {
		origin = ""
	}
	e.OriginCls = originClass(origin, sp.Host, m.Dev)
	e.Class = methodClass(sp.Method, sp.ACRM)
	if e.OriginCls == "foreign" {
		e.Stage, e.Invoke, e.Refusal, e.DocStatus, e.AuthRun, e.DocAuth, e.Cred = "origin", triMustNot, true, 403, triMustNot, triMustNot, "n/a"
		return fin()
	}
	originUnclear := e.OriginCls == "unclear"

	// credentials (computed early: needed for every later row)
	cands, cred, authMode := m.credentials(sp, now, bridge)
	e.Cred = cred

	// 2. route
	if sp.Target.Route == "noroute" {
		e.Stage, e.Invoke, e.Refusal, e.DocStatus, e.DocAuth = "route", triMustNot, true, 404, triMustNot
		return m.relaxForOrigin(e, originUnclear)
	}
	// 3. method class
	if e.Class == "none" {
		e.Stage, e.Invoke, e.Refusal, e.DocStatus, e.DocAuth = "method", triMustNot, true, 405, triMustNot
		return m.relaxForOrigin(e, originUnclear)
	}
	preflight := origin != "" && sp.Method == "OPTIONS" && sp.ACRM != ""

	// 4. what the handler declares for the class
	decl := sp.Target.DeclR
	if e.Class == "write" {
		decl = sp.Target.DeclW
	}
	switch sp.Target.Route {
	case "noendpoint":
		decl = mNotFound
	case "undeclared":
		decl = mSelf // documented default for handlers that declare nothing
	}
	need := decl
	switch {
	case decl == mNotFound:
		e.Stage, e.Invoke, e.Refusal, e.DocStatus, e.DocAuth = "declared-notfound", triMustNot, true, 404, triMustNot
		if preflight {
			e.Refusal, e.DocStatus = false, 200
		}
		return m.relaxForOrigin(e, originUnclear)
	case decl == mNotSupported:
		e.Stage, e.Invoke, e.Refusal, e.DocStatus, e.DocAuth = "declared-notsupported", triMustNot, true, 405, triMustNot
		if preflight {
			e.Refusal, e.DocStatus = false, 200
		}
		return m.relaxForOrigin(e, originUnclear)
	case decl == mAnyone:
		// anyone may execute the operation without any authentication
		e.Stage, e.Invoke, e.DocAuth = "declared-anyone", triMust, triMustNot
		e.Tokens = []mtoken{anonTok}
		for _, c := range cands {
			if c.grant {
				e.Tokens = append(e.Tokens, c.tok)
			}
		}
		if preflight {
			e.Stage, e.Invoke, e.DocStatus = "preflight", triMay, 200
		}
		return m.relaxForOrigin(e, originUnclear)
	case decl == mDynamic:
		need = mAnyone
	case !decl.valid():
		e.Stage, e.Invoke, e.Refusal, e.DocStatus, e.DocAuth = "declared-invalid", triMustNot, true, 500, triMustNot
		if preflight {
			e.Refusal, e.DocStatus = false, 200
		}
		return m.relaxForOrigin(e, originUnclear)
	}

	// 5. effective permission against the need, for every admissible reading
	var outs []outcome
	for _, c := range cands {
		if c.grant {
			outs = append(outs, decide(need, e.Class, c.tok, false))
		} else {
			switch authMode {
			case "err":
				// the authenticator failed: nothing is granted. Documented answer: 500.
				if need > mAnyone {
					outs = append(outs, outcome{status: 500})
				} else {
					outs = append(outs, outcome{status: 500}, outcome{invoke: true, tok: anonTok})
				}
			case "deny":
				if need > mAnyone {
					outs = append(outs, outcome{status: 403})
				} else {
					outs = append(outs, outcome{invoke: true, tok: anonTok})
				}
			default:
				outs = append(outs, decide(need, e.Class, anonTok, true))
			}
		}
	}
	e.Stage = "grant"
	allInvoke, noneInvoke := true, true
	for _, o := range outs {
		if o.invoke {
			noneInvoke = false
			e.Tokens = append(e.Tokens, o.tok)
		} else {
			allInvoke = false
			e.Refusal = true
		}
	}
	switch {
	case allInvoke:
		e.Invoke = triMust
	case noneInvoke:
		e.Invoke = triMustNot
	default:
		e.Invoke = triMay
	}
	if len(outs) > 0 && !outs[0].invoke {
		e.DocStatus = outs[0].status // first candidate = documented order of precedence
	}
	if len(cands) > 0 && cands[0].grant && cands[0].cls != "auth-ok" {
		e.DocAuth = triMustNot // a higher-ranking credential already decided
	}
	e.DocSure = len(cands) == 1
	if preflight {
		// documented: a preflight is answered 200 without authentication and without the
		// handler. The statement only forbids running the handler without permission.
		e.Stage, e.Refusal, e.DocStatus, e.DocAuth = "preflight", false, 200, triMustNot
		if e.Invoke == triMust {
			e.Invoke = triMay
		}
	}
	return m.relaxForOrigin(e, originUnclear)
}

// relaxForOrigin: when the statement does not say whether the Origin matches, a
// refusal (403, nothing runs) is as acceptable as what the rest of the table says.
func (m *mWorld) relaxForOrigin(e expectation, unclear bool) expectation {
	if unclear {
		if e.Invoke == triMust {
			e.Invoke = triMay
			e.Refusal = true // the only admissible non-invocation is the origin refusal
		}
		e.DocStatus = 0
		e.DocSure = false
		e.AuthRun = triMay
		e.Stage += "+origin-unclear"
	}
	e.InvokeS = e.Invoke.String()
	return e
}

// credentials lists the admissible readings of what the request presents, in the
// documented order of precedence: dev mode, bridge, API key, session cookie,
// authenticator. The first entry is the documented reading.
func (m *mWorld) credentials(sp *reqSpec, now time.Time, bridge bool) (cands []credCand, cred string, authMode string) {
	authMode = "nil"
	if m.Dev {
		return []credCand{{tok: mtoken{mSelf, mSelf}, grant: true, cls: "dev"}}, "dev", authMode
	}
	if bridge {
		return []credCand{{tok: mtoken{mAdmin, mAdmin}, grant: true, cls: "bridge"}}, "bridge", authMode
	}
	var classes []string
	kc, kp := m.readAuthz(trimWire(sp.Authz), now)
	cc, cp := m.readCookie(trimWire(sp.Cookie))
	mode, atok := parseAuthMode(sp.Auth)
	authMode = mode
	var grants, nothings []credCand
	add := func(cs []credCand) {
		for _, c := range cs {
			if c.grant {
				grants = append(grants, c)
			} else {
				nothings = append(nothings, c)
			}
		}
	}
	if kp {
		add(kc)
		classes = append(classes, kc[0].cls)
	}
	if cp {
		add(cc)
		classes = append(classes, cc[0].cls)
	}
	switch mode {
	case "ok":
		grants = append(grants, credCand{tok: atok, grant: true, cls: "auth-ok"})
		classes = append(classes, "auth-ok")
	default:
		classes = append(classes, "auth-"+mode)
	}
	// A reading "nothing is granted" is admissible when no credential is certain:
	// every certain grant (single candidate of its source) excludes it.
	certain := (kp && len(kc) == 1 && kc[0].grant) || (cp && len(cc) == 1 && cc[0].grant) || mode == "ok"
	cands = append(cands, grants...)
	if !certain {
		if len(nothings) == 0 {
			nothings = []credCand{{cls: "none"}}
		}
		// documented order: if the first-ranking credential grants nothing, later ones count;
		// keep "nothing" last unless there are no grants at all
		cands = append(cands, nothings[0])
	}
	if !kp && !cp && mode == "nil" {
		return []credCand{{cls: "none"}}, "none", authMode
	}
	cred = strings.Join(classes, "+")
	// the pure single-source classes keep their plain name
	if len(classes) == 2 && classes[1] == "auth-nil" {
		cred = classes[0]
	}
	return cands, cred, authMode
}
