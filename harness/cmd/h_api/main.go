// h_api — engine for property C12: an API handler runs only for requests holding the
// permission it requires.
//
// Orchestrator: derives the list of child scenarios from the tier and VERIF_SEED
// (table shards, origin/dev/bridge sub-tables, model-based histories, concurrent
// scenarios in the plain and the -race build, header fuzz, real loopback listener),
// runs every scenario in a fresh process (one portbase module system per process) and
// merges what the children observed.
//
// Child: starts the real module system (database, config, api) on a scratch data root
// with harness probes as handlers and a harness authenticator, drives requests through
// api.VerifMainHandler(), the api: database bridge and the real listener, and compares
// every response with the independent decision-table model (model.go).
package main

import (
	"encoding/json"
	"fmt"
	"os"
	"strings"
	"time"

	"verifharness/internal/vlib"
)

type childSpec struct {
	Mode     string          `json:"mode"` // table | origin | dev | bridge | history | concurrent | fuzz | wire | replay
	Tier     string          `json:"tier"`
	Seed     uint64          `json:"seed"`
	Shard    int             `json:"shard"`
	NShards  int             `json:"nshards"`
	LogLevel string          `json:"log_level"`
	Build    string          `json:"build"`
	N        int             `json:"n,omitempty"`
	Replay   json.RawMessage `json:"replay,omitempty"`
}

var raceScope = []string{"api.checkAPIKey", "api.updateAPIKeys", "api.checkSessionCookie", "api.createSession", "api.cleanSessions",
	"api.deleteSession", "api.(*session)", "api.checkAuth", "api.authenticateRequest", "api.authReset", "api.VerifExpireSessions"}

const rule = "a case is one request (method variant, handler with declared read/write permission, credential value and state, Origin, dev mode, path: main handler | api: bridge | loopback socket) sent to the real API main handler; " +
	"the finite table (9x9 declared read/write x 18 method variants x every credential source/state incl. all 9x9 granted pairs for authenticator and session, 9 key permission pairs x 4 header forms) is enumerated completely; histories, concurrent scenarios and fuzzed headers are PRNG-determined. " +
	"distinct = distinct (world setup, credential value, target, method variant, origin) tuples / distinct fuzzed header strings; non-trivial = the independent model decided must / must-not / may and the observation (handler ran?, token seen, status, authenticator ran?) was compared with it"

func main() {
	if dir, ok := vlib.IsChild(); ok {
		childMain(dir)
		return
	}
	cfg := vlib.Load()
	rep := vlib.NewReport(cfg)
	rep.Rule(rule)

	var specs []vlib.ChildSpec
	var cspecs []childSpec
	add := func(cs childSpec, bin string, to time.Duration) {
		cs.Tier, cs.Seed = cfg.Tier, cfg.Seed
		if cs.LogLevel == "" {
			cs.LogLevel = "warning"
		}
		if cs.Build == "" {
			cs.Build = "plain"
		}
		name := fmt.Sprintf("%s-%s-%02d", cs.Mode, cs.Build, cs.Shard)
		specs = append(specs, vlib.ChildSpec{Name: name, Bin: bin, Spec: cs, Timeout: to, Race: cs.Build == "race"})
		cspecs = append(cspecs, cs)
	}

	if cfg.Replay != "" {
		var doc struct {
			Detail struct {
				Replay json.RawMessage `json:"replay"`
			} `json:"detail"`
		}
		b, err := os.ReadFile(cfg.Replay)
		if err == nil {
			err = json.Unmarshal(b, &doc)
		}
		if err != nil || len(doc.Detail.Replay) == 0 {
			fmt.Println("h_api: replay file has no detail.replay:", err)
			os.Exit(2)
		}
		add(childSpec{Mode: "replay", Replay: doc.Detail.Replay}, cfg.BinPlain, 5*time.Minute)
	} else {
		levels := []string{"warning", "trace", "error", "info", "warning", "debug", "critical", "warning"}
		nTable := 16
		for s := 0; s < nTable; s++ {
			add(childSpec{Mode: "table", Shard: s, NShards: nTable, LogLevel: levels[s%len(levels)]}, cfg.BinPlain, 15*time.Minute)
		}
		for s := 0; s < 4; s++ {
			add(childSpec{Mode: "origin", Shard: s, NShards: 4, LogLevel: levels[(s+3)%len(levels)]}, cfg.BinPlain, 10*time.Minute)
		}
		add(childSpec{Mode: "dev"}, cfg.BinPlain, 10*time.Minute)
		add(childSpec{Mode: "poison", LogLevel: "debug"}, cfg.BinPlain, 10*time.Minute)
		add(childSpec{Mode: "keyperm", LogLevel: "error"}, cfg.BinPlain, 10*time.Minute)
		for s := 0; s < cfg.N(2, 6); s++ {
			add(childSpec{Mode: "revokeby", Shard: s, N: cfg.N(3, 15), LogLevel: levels[(s+2)%len(levels)]}, cfg.BinPlain, 10*time.Minute)
			add(childSpec{Mode: "burst", Shard: s, N: cfg.N(30, 150), LogLevel: levels[(s+4)%len(levels)]}, cfg.BinPlain, 10*time.Minute)
			add(childSpec{Mode: "overlap", Shard: s, N: cfg.N(25, 120), LogLevel: levels[(s+5)%len(levels)]}, cfg.BinPlain, 10*time.Minute)
		}
		for s := 0; s < cfg.N(2, 6); s++ {
			add(childSpec{Mode: "badentry", Shard: s, N: cfg.N(3, 12), LogLevel: levels[(s+1)%len(levels)]}, cfg.BinPlain, 10*time.Minute)
		}
		for s := 0; s < cfg.N(2, 6); s++ {
			add(childSpec{Mode: "expiredtwice", Shard: s, N: cfg.N(30, 200), LogLevel: levels[(s+7)%len(levels)]}, cfg.BinPlain, 10*time.Minute)
		}
		for s := 0; s < cfg.N(3, 10); s++ {
			add(childSpec{Mode: "sessclean", Shard: s, N: cfg.N(2000, 6000), LogLevel: levels[(s+6)%len(levels)]}, cfg.BinPlain, 10*time.Minute)
		}
		if cfg.BinRace != "" {
			add(childSpec{Mode: "sessclean", Shard: 100, N: cfg.N(600, 2000), Build: "race"}, cfg.BinRace, 15*time.Minute)
		}
		for s := 0; s < 3; s++ {
			add(childSpec{Mode: "acrm", Shard: s, NShards: 3, LogLevel: levels[(s+5)%len(levels)]}, cfg.BinPlain, 10*time.Minute)
		}
		add(childSpec{Mode: "bridge", LogLevel: "debug"}, cfg.BinPlain, 10*time.Minute)
		for s := 0; s < cfg.N(8, 48); s++ {
			add(childSpec{Mode: "history", Shard: s, N: cfg.N(10, 40), LogLevel: levels[(s+1)%len(levels)]}, cfg.BinPlain, 15*time.Minute)
		}
		for s := 0; s < cfg.N(4, 16); s++ {
			add(childSpec{Mode: "churn", Shard: s, N: cfg.N(40, 300), LogLevel: levels[(s+2)%len(levels)]}, cfg.BinPlain, 15*time.Minute)
		}
		for s := 0; s < cfg.N(6, 12); s++ {
			add(childSpec{Mode: "expiry", Shard: s, LogLevel: levels[(s+4)%len(levels)]}, cfg.BinPlain, 10*time.Minute)
		}
		for s := 0; s < cfg.N(2, 8); s++ {
			add(childSpec{Mode: "revoke", Shard: s, N: cfg.N(5, 30), LogLevel: levels[(s+3)%len(levels)]}, cfg.BinPlain, 15*time.Minute)
		}
		for s := 0; s < cfg.N(4, 16); s++ {
			add(childSpec{Mode: "concurrent", Shard: s, N: cfg.N(3000, 20000)}, cfg.BinPlain, 15*time.Minute)
		}
		if cfg.BinRace != "" {
			for s := 0; s < cfg.N(4, 24); s++ {
				add(childSpec{Mode: "concurrent", Shard: 100 + s, N: cfg.N(1500, 8000), Build: "race"}, cfg.BinRace, 20*time.Minute)
			}
			for s := 0; s < cfg.N(1, 8); s++ {
				add(childSpec{Mode: "history", Shard: 100 + s, N: cfg.N(3, 15), Build: "race"}, cfg.BinRace, 20*time.Minute)
			}
			add(childSpec{Mode: "churn", Shard: 100, N: cfg.N(20, 150), Build: "race"}, cfg.BinRace, 20*time.Minute)
		}
		nf := cfg.N(2, 16)
		for s := 0; s < nf; s++ {
			add(childSpec{Mode: "fuzz", Shard: s, NShards: nf, N: cfg.N(10000, 1000000) / nf, LogLevel: levels[s%len(levels)]}, cfg.BinPlain, 20*time.Minute)
		}
		add(childSpec{Mode: "wire", N: cfg.N(1, 10), LogLevel: "info"}, cfg.BinPlain, 15*time.Minute)
	}

	seenRaceNote := map[string]bool{}
	vlib.RunChildren(cfg, specs, func(i int, c *vlib.ChildResult) {
		cs := cspecs[i]
		rep.Seen("scenario_modes", cs.Mode)
		rep.Seen("builds_run", cs.Build)
		rep.Seen("log_levels", cs.LogLevel)
		rep.Count("children", 1)
		rep.Max("child_wall_max_s", int64(c.Wall.Seconds()))
		if c.Wall > 6*time.Minute {
			rep.Note("slow child %s: %s", c.Name, c.Wall.Round(time.Second))
		}
		rep.MergeChild(c)
		for _, rr := range c.Races {
			switch {
			case rr.HarnessOnly():
				rep.Inconclusive("race report in harness-only frames (%s): %s", c.Name, rr.Signature())
			case rr.InScope(raceScope...):
				rep.Violation("C12:race:"+rr.Signature(), "data race on the API key / session state", map[string]any{"report": rr.Text, "child": cs})
			default:
				rep.Count("race_diagnostics_out_of_scope", 1)
				if !seenRaceNote[rr.Signature()] {
					seenRaceNote[rr.Signature()] = true
					rep.Note("out-of-scope race report (first in %s): %s", c.Name, rr.Signature())
				}
			}
		}
		if c.TimedOut {
			rep.Inconclusive("child %s timed out (watchdog %s); stderr tail: %s", c.Name, specs[i].Timeout, c.StderrTail(1500))
			return
		}
		if !c.Done {
			tail := c.StderrTail(3000)
			if strings.Contains(tail, "VERIF-SETUP-FAILED") {
				rep.Inconclusive("child %s could not set up its world: %s", c.Name, lastLine(tail, "VERIF-SETUP-FAILED"))
				return
			}
			rep.Violation("C12:server-process-died:"+fatalSite(tail), fmt.Sprintf("child %s (mode %s) died (exit=%d signal=%q) while serving requests", c.Name, cs.Mode, c.Exit, c.Signal),
				map[string]any{"child": cs, "stderr_tail": tail})
		}
	})

	if cfg.Replay == "" {
		finish(cfg, rep)
	}
	if err := rep.Finish(); err != nil {
		fmt.Println("h_api: cannot write result:", err)
		os.Exit(2)
	}
}

func finish(cfg vlib.Cfg, rep *vlib.Report) {
	rep.Set("exhaustive", true)
	rep.Set("exhaustive_subspaces", []string{
		"declared read x write in {NotFound,Dynamic,NotSupported,Anyone,User,Admin,Self,+100,-100}^2 (plain handlers) and {Dynamic..Self}^2 (Endpoints of all five function types) x 18 method variants x every credential value (none; authenticator ok for all 9x9 granted pairs, nil, error, denied; session valid and expired for all 9x9 pairs, reset, unknown; API keys for all 3x3 permission pairs, default, short-but-valid, future expiry, expired at configuration, expired after configuration, unknown, unknown shorter than 4 bytes (lengths 0..4), as Bearer and three Basic forms; 10 malformed Authorization forms)",
		"Origin sub-table: 26 Origin values x dev on/off x 18 method variants x 9 declared x one credential per class; plus 5 Host header forms (no port, IP:port, local name, IPv6 literal, bare name) x 9 Origins derived from the Host (same, other/no/default port, foreign)",
		"expiry sub-table: 6 orders of keys with different expiry (one passing its expiry while loaded) x before/after x Bearer/Basic x 11 handlers x 5 methods",
		"development mode sub-table: every target x method variant x one credential per class",
		"token-isolation sub-table: 16 handlers that write into the AuthToken of their own request (plain, wrapped, Endpoints of all function types; declared Anyone/Dynamic/User/Admin) x one credential per class x GET/POST, each followed by 11 credential classes x 7 handlers x GET/POST",
		"key-permission-word sub-table: one key per (read word x write word) over 30 words (documented, self/dynamic/notfound in several cases, numbers, garbage, padded) x 5 handlers x GET/POST",
		"preflight-header sub-table: 7 non-OPTIONS methods x 8 Access-Control-Request-Method values (+ 2 with same Origin) x every plain handler (9x9) and Endpoint x one credential per class",
		"bridge sub-table: every Endpoint x 7 methods x dev on/off",
	})
	want := rep.Counter("table_cells_planned")
	got := rep.Counter("table_cells_done")
	rep.Floor(want > 0 && got == want, "table not complete: %d of %d cells decided", got, want)
	rep.Floor(rep.Counter("handler_invoked") >= 1000 && rep.Counter("handler_not_invoked") >= 1000, "invoked=%d not_invoked=%d", rep.Counter("handler_invoked"), rep.Counter("handler_not_invoked"))
	rep.Floor(rep.Counter("key_updates_awaited") >= 10, "key_updates_awaited=%d", rep.Counter("key_updates_awaited"))
	rep.Floor(rep.Counter("sessions_created") >= 100, "sessions_created=%d", rep.Counter("sessions_created"))
	rep.Floor(rep.Counter("fuzz_headers") >= int64(cfg.N(5000, 500000)), "fuzz_headers=%d", rep.Counter("fuzz_headers"))
	rep.Floor(rep.Counter("expiry_requests_after") >= 500, "expiry_requests_after=%d", rep.Counter("expiry_requests_after"))
	rep.Floor(rep.Counter("poison_mutations") >= 200 && rep.Counter("poison_followup_requests") >= 10000, "poison_mutations=%d followups=%d", rep.Counter("poison_mutations"), rep.Counter("poison_followup_requests"))
	rep.Floor(rep.Counter("sessclean_reset_checks") >= 500 && rep.Counter("cleaner_passes") >= 100, "sessclean_reset_checks=%d cleaner_passes=%d", rep.Counter("sessclean_reset_checks"), rep.Counter("cleaner_passes"))
	rep.Floor(rep.Counter("revokeby_cells") >= 1000 && rep.Counter("key_resets_to_default") >= 10 && rep.Counter("dev_resets_to_default") >= 5, "revokeby_cells=%d key_resets=%d dev_resets=%d",
		rep.Counter("revokeby_cells"), rep.Counter("key_resets_to_default"), rep.Counter("dev_resets_to_default"))
	rep.Floor(rep.Counter("overlap_rounds") >= 30, "overlap_rounds=%d", rep.Counter("overlap_rounds"))
	rep.Floor(rep.Counter("burst_parked_in_getter") >= 10, "burst_parked_in_getter=%d", rep.Counter("burst_parked_in_getter"))
	rep.Floor(rep.Counter("burst_rounds") >= 30, "burst_rounds=%d", rep.Counter("burst_rounds"))
	rep.Floor(rep.Counter("session_resets_with_authorization") >= 100, "session_resets_with_authorization=%d", rep.Counter("session_resets_with_authorization"))
	rep.Floor(rep.Counter("badentry_cells") >= 1000, "badentry_cells=%d", rep.Counter("badentry_cells"))
	rep.Floor(rep.Counter("keyperm_cells") >= 5000, "keyperm_cells=%d", rep.Counter("keyperm_cells"))
	rep.Floor(rep.Counter("expired_cookie_presentations") >= 500, "expired_cookie_presentations=%d", rep.Counter("expired_cookie_presentations"))
	rep.Floor(rep.Counter("acrm_cells") >= 100000, "acrm_cells=%d", rep.Counter("acrm_cells"))
	rep.Floor(rep.Counter("bridge_requests") >= 100, "bridge_requests=%d", rep.Counter("bridge_requests"))
	rep.Floor(rep.Counter("wire_requests") >= 50, "wire_requests=%d", rep.Counter("wire_requests"))
	rep.Floor(rep.Counter("concurrent_requests") >= 1000, "concurrent_requests=%d", rep.Counter("concurrent_requests"))
	for _, cls := range []string{"none", "auth-ok", "auth-err", "auth-deny", "cookie-valid", "cookie-expired", "cookie-unknown", "bearer-valid", "basic-valid",
		"bearer-expired", "bearer-unknown", "bearer-short", "basic-short", "scheme-malformed", "bridge", "dev"} {
		rep.Floor(rep.Counter("cred:"+cls) > 0, "credential class %s never exercised", cls)
	}
	rep.Assume("the model reads the documentation as: GET/HEAD = read class, POST/PUT/DELETE = write class, OPTIONS takes the class of Access-Control-Request-Method; order of precedence dev mode > bridge > API key > session > authenticator; where several credentials are presented any documented reading is accepted")
	rep.Assume("requests reach the handler through net/http semantics: header values are trimmed of leading/trailing blanks and contain no control characters")
	rep.Assume("Origin vs Host is decided on host:port: same name with another or no port than the Host header's is cross-origin (refused); a Host header without a port is matched by the Origin's host name alone (documented in the router). Left open, either answer accepted: host names differing only in letter case, trailing dot or IPv6 brackets; non-serialized Origin values (path, query, fragment, userinfo) that contain the host name; browser-extension schemes other than chrome-extension")
	rep.Assume("session expiry is forced through api.VerifExpireSessions (the 5 minute TTL is not waited out); key expiry is real time with a 0.9 s abstention margin")
}

func lastLine(tail, marker string) string {
	for _, ln := range strings.Split(tail, "\n") {
		if strings.Contains(ln, marker) {
			return ln
		}
	}
	return ""
}

func fatalSite(tail string) string {
	for _, ln := range strings.Split(tail, "\n") {
		if strings.HasPrefix(ln, "fatal error:") || strings.HasPrefix(ln, "panic:") {
			s := strings.TrimSpace(ln)
			if len(s) > 80 {
				s = s[:80]
			}
			return s
		}
	}
	return "unknown"
}

func childMain(dir string) {
	var cs childSpec
	if err := vlib.ChildSpecInto(dir, &cs); err != nil {
		fmt.Fprintln(os.Stderr, "VERIF-SETUP-FAILED bad spec:", err)
		os.Exit(3)
	}
	b := vlib.NewBatch()
	w, err := startWorld(dir, b, cs.LogLevel)
	if err != nil {
		fmt.Fprintln(os.Stderr, "VERIF-SETUP-FAILED", err)
		os.Exit(3)
	}
	j := &judge{w: w, b: b, logLevel: cs.LogLevel}
	var rerr error
	switch cs.Mode {
	case "table":
		rerr = runTable(w, j, cs)
	case "origin":
		rerr = runOrigin(w, j, cs)
	case "acrm":
		rerr = runACRM(w, j, cs)
	case "dev":
		rerr = runDev(w, j, cs)
	case "bridge":
		rerr = runBridge(w, j, cs)
	case "history":
		rerr = runHistories(w, j, cs)
	case "concurrent":
		rerr = runConcurrent(w, j, cs)
	case "churn":
		rerr = runChurn(w, j, cs)
	case "revoke":
		rerr = runRevoke(w, j, cs)
	case "expiry":
		rerr = runExpiry(w, j, cs)
	case "keyperm":
		rerr = runKeyPerm(w, j, cs)
	case "badentry":
		rerr = runBadEntry(w, j, cs)
	case "revokeby":
		rerr = runRevokeBy(w, j, cs)
	case "burst":
		rerr = runBurst(w, j, cs)
	case "overlap":
		rerr = runOverlap(w, j, cs)
	case "expiredtwice":
		rerr = runExpiredTwice(w, j, cs)
	case "poison":
		rerr = runPoison(w, j, cs)
	case "sessclean":
		rerr = runSessClean(w, j, cs)
	case "fuzz":
		rerr = runFuzz(w, j, cs)
	case "wire":
		rerr = runWire(w, j, cs)
	case "replay":
		rerr = runReplay(w, j, cs)
	default:
		rerr = fmt.Errorf("unknown mode %q", cs.Mode)
	}
	if rerr != nil {
		if isWedged(rerr) && b.NViolations() > 0 {
			// the violation is recorded; the world cannot be used any further
			b.Note("%s shard %d stopped: %s", cs.Mode, cs.Shard, rerr)
			b.Finish(dir)
			os.Exit(0)
		} else if isInconclusive(rerr) {
			b.Inconclusive("%s shard %d: %s", cs.Mode, cs.Shard, rerr)
		} else {
			fmt.Fprintln(os.Stderr, "VERIF-SETUP-FAILED", cs.Mode, rerr)
			os.Exit(3)
		}
	}
	// panics reported by the module system that no request picked up
	o := &obs{}
	w.drainPanics(o)
	for _, p := range o.Panics {
		b.Count("panics_observed", 1)
		b.Violation("C12:panic-in-request:"+p.Site, fmt.Sprintf("a worker of the api module panicked in %s (%s) while requests were served", p.Site, trimTo(p.Value, 120)),
			map[string]any{"panic": p, "child": cs})
	}
	b.Finish(dir)
	os.Exit(0)
}
