package main

// world.go — the child-side world: one real portbase module system (database, config,
// api) on a scratch data root, with harness probes as handlers/endpoints, a harness
// authenticator whose behaviour is selected per request, and the client functions that
// drive requests through the real main handler, the api: database bridge and (wire.go)
// the real loopback listener. Everything here records at the harness/portbase boundary.

import (
	"bytes"
	"context"
	"errors"
	"fmt"
	"io"
	"net"
	"net/http"
	"net/url"
	"os"
	"path/filepath"
	"regexp"
	"runtime"
	"strconv"
	"strings"
	"sync"
	"sync/atomic"
	"time"

	"github.com/safing/portbase/api"
	"github.com/safing/portbase/config"
	"github.com/safing/portbase/database"
	_ "github.com/safing/portbase/database/dbmodule"
	"github.com/safing/portbase/database/record"
	"github.com/safing/portbase/dataroot"
	"github.com/safing/portbase/log"
	"github.com/safing/portbase/modules"
	"github.com/safing/portbase/utils/vhook"

	"verifharness/internal/vlib"
)

const (
	hdrRid  = "X-Verif-Rid"
	hdrAuth = "X-Verif-Auth"
	hdrMut  = "X-Verif-Mutate" // what a mutating probe writes into the AuthToken it was handed ("r/w", default Self/Self)

	cookieName = "Portmaster-API-Token" // documented name of the session cookie (Set-Cookie of the server)
	testHost   = "api.verif.test:817"

	noiseOptionKey = "verif/noise"
)

// obs is what the harness observed of one request.
type obs struct {
	Invoked    int         `json:"invoked"`               // how often a probe body ran
	Kind       string      `json:"kind,omitempty"`        // which probe
	Tok        *mtoken     `json:"tok,omitempty"`         // AuthToken the probe saw via GetAPIRequest
	TokNil     bool        `json:"tok_nil,omitempty"`     // probe ran without an AuthToken
	TokUnseen  bool        `json:"tok_unseen,omitempty"`  // the handler ran but had no way to report its token
	TokShared  bool        `json:"tok_shared,omitempty"`  // the very same token object was handed to a handler of another request before
	Mutated    bool        `json:"mutated,omitempty"`     // the probe wrote into the token it was handed
	SeenMethod string      `json:"seen_method,omitempty"` // r.Method inside the probe
	AuthCalled int         `json:"auth_called"`           // how often the authenticator ran
	Status     int         `json:"status"`                // status code written (0 = none)
	Wrote      bool        `json:"wrote"`                 // WriteHeader/Write was called at all
	BodyLen    int         `json:"body_len"`
	Body       string      `json:"body,omitempty"` // first bytes
	SetSession string      `json:"set_session,omitempty"`
	WWWAuth    string      `json:"www_auth,omitempty"`
	Escaped    string      `json:"escaped_panic,omitempty"` // a panic escaped ServeHTTP
	Panics     []panicInfo `json:"panics,omitempty"`        // panics reported by the module system while the request ran
	Err        string      `json:"err,omitempty"`           // bridge / wire error
	WireRaw    string      `json:"wire_raw,omitempty"`
}

type panicInfo struct {
	Site  string `json:"site"`
	Value string `json:"value"`
	Task  string `json:"task"`
	Stack string `json:"stack,omitempty"`
}

type world struct {
	dir     string
	handler http.Handler
	b       *vlib.Batch
	elog    *vlib.Log

	mu    sync.Mutex
	cur   *obs
	byRid map[string]*obs

	keyEvMu   sync.Mutex
	keyEvs    []string                               // snapshot of the configured key list at each api.keys.updated
	keyDirty  []bool                                 // ... and whether that list held an already expired key (portbase then schedules a clean-up)
	onKeyEv   func(idx int, snap string, dirty bool) // optional: runs inside the hook (an admin's change arriving at that moment)
	onRefetch func(option string)                    // optional: runs inside config.get.refetch (a getter is refreshing its cached value)

	// import bookkeeping: api.keys.update.returned fires on every return path of an import
	updOpen  map[uint64]bool // goroutines whose import reached api.keys.updated and has not returned yet
	abortEvs []string        // setting read at the return of an import that never reached api.keys.updated
	returned int64           // imports that returned
	presig   int64           // config changes signalled (each triggers one import)
	baseRet  int64
	basePre  int64
	keySig   chan struct{}
	keysGet  config.StringArrayOption

	panics chan *modules.ModuleError
	dbi    *database.Interface
	addr   string // listen address of the real server

	configured []cfgKey // what the harness last configured (after cleanup of expired keys)
	model      *mWorld

	tokSeen map[*api.AuthToken]*obs // every token object a probe was handed (kept alive: pointer equality = same object)

	progress    atomic.Int64 // bumped whenever a call into portbase returned (hang monitor)
	inflight    atomic.Int64
	maxInflight atomic.Int64
	ridCtr      atomic.Uint64
}

// cfgKey is one API key as the harness configured it.
type cfgKey struct {
	Key     string    `json:"key"`
	R, W    string    `json:"-"`
	Expires time.Time `json:"expires,omitempty"`
	HasExp  bool      `json:"has_exp,omitempty"`
	Tag     string    `json:"tag"`
	Raw     string    `json:"raw,omitempty"`     // written to the setting verbatim (invalid entries)
	Invalid bool      `json:"invalid,omitempty"` // not a documented entry: grants nothing
}

// invalid reports whether the entry is not a documented key entry (it grants nothing, and
// portbase drops it from the setting when it rewrites the setting without expired keys).
func (k cfgKey) invalid() bool {
	_, ok1, _ := permFromWord(k.R)
	_, ok2, _ := permFromWord(k.W)
	return k.Invalid || !ok1 || !ok2
}

func (k cfgKey) configString() string {
	if k.Raw != "" {
		return k.Raw
	}
	q := url.Values{}
	if k.R != "" {
		q.Set("read", k.R)
	}
	if k.W != "" {
		q.Set("write", k.W)
	}
	if k.HasExp {
		q.Set("expires", k.Expires.Format(time.RFC3339))
	}
	if len(q) == 0 {
		return k.Key
	}
	return k.Key + "?" + q.Encode()
}

func freePort() string {
	l, err := net.Listen("tcp", "127.0.0.1:0")
	if err != nil {
		return "127.0.0.1:8817"
	}
	defer l.Close()
	return l.Addr().String()
}

// startWorld starts the module system in this process. logLevel: "trace" ... "critical".
func startWorld(dir string, b *vlib.Batch, logLevel string) (*world, error) {
	w := &world{dir: dir, b: b, elog: vlib.NewLog(), byRid: map[string]*obs{}, tokSeen: map[*api.AuthToken]*obs{}, updOpen: map[uint64]bool{}, keySig: make(chan struct{}, 1),
		panics: make(chan *modules.ModuleError, 256), model: newMWorld()}
	root := filepath.Join(dir, "dataroot")
	if err := os.MkdirAll(root, 0o755); err != nil {
		return nil, err
	}
	if err := dataroot.Initialize(root, 0o755); err != nil {
		return nil, fmt.Errorf("dataroot: %w", err)
	}
	w.keysGet = config.GetAsStringArray(api.CfgAPIKeys, []string{})
	w.addr = freePort()
	api.SetDefaultAPIListenAddress(w.addr)
	if err := api.SetAuthenticator(w.authenticator); err != nil {
		return nil, fmt.Errorf("SetAuthenticator: %w", err)
	}
	w.registerProbes()
	vhook.Set("api.keys.updated", func(point, subject string) {
		snap := ""
		dirty := false
		if w.keysGet != nil {
			list := w.keysGet()
			snap = strings.Join(list, "\n")
			dirty = listHasExpired(list, time.Now())
		}
		gid := goid()
		w.keyEvMu.Lock()
		w.updOpen[gid] = true
		w.keyEvs = append(w.keyEvs, snap)
		w.keyDirty = append(w.keyDirty, dirty)
		idx := len(w.keyEvs) - 1
		cb := w.onKeyEv
		w.keyEvMu.Unlock()
		if cb != nil {
			cb(idx, snap, dirty)
		}
		select {
		case w.keySig <- struct{}{}:
		default:
		}
	})
	// every return path of an import, after the key lock was released. An import that
	// returns without having passed api.keys.updated gave up on the setting it read.
	vhook.Set("api.keys.update.returned", func(point, subject string) {
		gid := goid()
		cur := strings.Join(w.keysGetSafe(), "\n")
		w.keyEvMu.Lock()
		w.returned++
		if w.updOpen[gid] {
			delete(w.updOpen, gid)
		} else {
			w.abortEvs = append(w.abortEvs, cur)
		}
		w.keyEvMu.Unlock()
		select {
		case w.keySig <- struct{}{}:
		default:
		}
	})
	vhook.Set("config.get.refetch", func(point, subject string) {
		w.keyEvMu.Lock()
		cb := w.onRefetch
		w.keyEvMu.Unlock()
		if cb != nil {
			cb(subject)
		}
	})
	vhook.Set("config.set.presignal", func(point, subject string) {
		w.keyEvMu.Lock()
		w.presig++
		w.keyEvMu.Unlock()
	})
	modules.SetErrorReportingChannel(w.panics)
	modules.SetStdErrReporting(false)
	lvl := log.ParseLevel(logLevel)
	if lvl == 0 {
		lvl = log.WarningLevel
	}
	log.SetLogLevel(lvl)
	if err := modules.Start(); err != nil {
		return nil, fmt.Errorf("modules.Start: %w", err)
	}
	// an unrelated setting that an admin may change at any time (used by the churn scenario)
	if err := config.Register(&config.Option{Name: "Verif Noise", Key: noiseOptionKey, Description: "unrelated setting changed concurrently by the harness",
		OptType: config.OptTypeInt, DefaultValue: 0, ExpertiseLevel: config.ExpertiseLevelDeveloper, ReleaseLevel: config.ReleaseLevelStable}); err != nil {
		return nil, fmt.Errorf("register noise option: %w", err)
	}
	w.handler = api.VerifMainHandler()
	// baseline of the import bookkeeping: what was signalled/imported during start-up
	time.Sleep(50 * time.Millisecond)
	w.keyEvMu.Lock()
	w.baseRet, w.basePre = w.returned, w.presig
	w.keyEvMu.Unlock()
	go w.hangMonitor()
	w.dbi = database.NewInterface(&database.Options{Local: true, Internal: true})
	return w, nil
}

// ---------------------------------------------------------------------------------
// probes (callee side)

var permVals = []int{-2, -1, 0, 1, 2, 3, 4, 100, -100}
var endpointPermVals = []int{-1, 0, 1, 2, 3, 4}

func pname(p int) string {
	if p < 0 {
		return "m" + strconv.Itoa(-p)
	}
	return strconv.Itoa(p)
}

func pparse(s string) (int, bool) {
	neg := strings.HasPrefix(s, "m")
	v, err := strconv.Atoi(strings.TrimPrefix(s, "m"))
	if err != nil {
		return 0, false
	}
	if neg {
		v = -v
	}
	return v, true
}

type probe struct {
	w    *world
	kind string
	r, p api.Permission
}

func (p *probe) ReadPermission(*http.Request) api.Permission  { return p.r }
func (p *probe) WritePermission(*http.Request) api.Permission { return p.p }
func (p *probe) ServeHTTP(rw http.ResponseWriter, r *http.Request) {
	p.w.recordInvoke(r, p.kind)
	rw.WriteHeader(http.StatusOK)
	_, _ = io.WriteString(rw, "probe-ok")
}

// dynProbe declares the permission encoded in the request path (/verif/d/<r>/<w>), the
// way endpointHandler resolves its permission per request.
type dynProbe struct{ w *world }

func (p *dynProbe) perms(r *http.Request) (int, int) {
	parts := strings.Split(strings.Trim(r.URL.Path, "/"), "/")
	if len(parts) != 4 {
		return 0, 0
	}
	a, _ := pparse(parts[2])
	b, _ := pparse(parts[3])
	return a, b
}
func (p *dynProbe) ReadPermission(r *http.Request) api.Permission {
	a, _ := p.perms(r)
	return api.Permission(a)
}
func (p *dynProbe) WritePermission(r *http.Request) api.Permission {
	_, b := p.perms(r)
	return api.Permission(b)
}
func (p *dynProbe) ServeHTTP(rw http.ResponseWriter, r *http.Request) {
	p.w.recordInvoke(r, "dynamic")
	rw.WriteHeader(http.StatusOK)
	_, _ = io.WriteString(rw, "probe-ok")
}

var endpointFuncKinds = []string{"action", "data", "struct", "record", "handlerfunc"}

type probeRecord struct {
	record.Base
	sync.Mutex
	Msg string
}

func (w *world) registerProbes() {
	for _, r := range permVals {
		for _, p := range permVals {
			api.RegisterHandler("/verif/p/"+pname(r)+"/"+pname(p), &probe{w: w, kind: "plain", r: api.Permission(r), p: api.Permission(p)})
		}
		rr := api.Permission(r)
		api.RegisterHandler("/verif/w/"+pname(r), api.WrapInAuthHandler(func(rw http.ResponseWriter, req *http.Request) {
			w.recordInvoke(req, "wrapped")
			rw.WriteHeader(http.StatusOK)
			_, _ = io.WriteString(rw, "probe-ok")
		}, rr, rr))
	}
	for _, rw := range mutPlainPerms {
		api.RegisterHandler("/verif/m/"+pname(rw[0])+"/"+pname(rw[1]), &probe{w: w, kind: "mut-plain", r: api.Permission(rw[0]), p: api.Permission(rw[1])})
	}
	api.RegisterHandler("/verif/mw", api.WrapInAuthHandler(func(rw http.ResponseWriter, req *http.Request) {
		w.recordInvoke(req, "mut-wrapped")
		rw.WriteHeader(http.StatusOK)
		_, _ = io.WriteString(rw, "probe-ok")
	}, api.PermitAnyone, api.PermitAnyone))
	for _, kind := range endpointFuncKinds {
		for _, rw := range [][2]int{{1, 1}, {-1, 2}} {
			e := api.Endpoint{Path: "verif/mut/" + kind + "/" + pname(rw[0]) + "/" + pname(rw[1]), Read: api.Permission(rw[0]), Write: api.Permission(rw[1]), Name: "verif mutating probe " + kind}
			w.setEndpointFuncKind(&e, kind, "mut-endpoint-"+kind)
			if err := api.RegisterEndpoint(e); err != nil {
				panic(fmt.Sprintf("RegisterEndpoint %s: %v", e.Path, err))
			}
		}
	}
	api.RegisterHandler("/verif/d/{r}/{w}", &dynProbe{w: w})
	api.RegisterHandleFunc("/verif/u", func(rw http.ResponseWriter, req *http.Request) {
		w.recordInvoke(req, "undeclared")
		rw.WriteHeader(http.StatusOK)
		_, _ = io.WriteString(rw, "probe-ok")
	})
	i := 0
	for _, r := range endpointPermVals {
		for _, p := range endpointPermVals {
			e := api.Endpoint{Path: "verif/e/" + pname(r) + "/" + pname(p), Read: api.Permission(r), Write: api.Permission(p), Name: "verif probe"}
			kind := endpointFuncKinds[i%len(endpointFuncKinds)]
			i++
			w.setEndpointFunc(&e, kind)
			if err := api.RegisterEndpoint(e); err != nil {
				panic(fmt.Sprintf("RegisterEndpoint %s: %v", e.Path, err))
			}
		}
	}
	// every function type once more with User/Admin
	for _, kind := range endpointFuncKinds {
		e := api.Endpoint{Path: "verif/f/" + kind, Read: api.PermitUser, Write: api.PermitAdmin, Name: "verif probe " + kind, WriteMethod: http.MethodPut}
		w.setEndpointFunc(&e, kind)
		if err := api.RegisterEndpoint(e); err != nil {
			panic(fmt.Sprintf("RegisterEndpoint %s: %v", e.Path, err))
		}
	}
}

func endpointKindFor(r, p int) string {
	ri, pi := -1, -1
	for i, v := range endpointPermVals {
		if v == r {
			ri = i
		}
		if v == p {
			pi = i
		}
	}
	return endpointFuncKinds[(ri*len(endpointPermVals)+pi)%len(endpointFuncKinds)]
}

// mutPlainPerms: declared read/write of the plain mutating probes.
var mutPlainPerms = [][2]int{{1, 1}, {-1, -1}, {2, 2}, {1, 3}, {3, 1}}

func (w *world) setEndpointFunc(e *api.Endpoint, kind string) {
	w.setEndpointFuncKind(e, kind, "endpoint-"+kind)
}

func (w *world) setEndpointFuncKind(e *api.Endpoint, kind, k string) {
	switch kind {
	case "action":
		e.ActionFunc = func(ar *api.Request) (string, error) { w.recordInvokeAR(ar, k); return "probe-ok", nil }
	case "data":
		e.DataFunc = func(ar *api.Request) ([]byte, error) { w.recordInvokeAR(ar, k); return []byte("probe-ok"), nil }
	case "struct":
		e.StructFunc = func(ar *api.Request) (interface{}, error) {
			w.recordInvokeAR(ar, k)
			return map[string]string{"probe": "ok"}, nil
		}
	case "record":
		e.RecordFunc = func(ar *api.Request) (record.Record, error) {
			w.recordInvokeAR(ar, k)
			r := &probeRecord{Msg: "probe-ok"}
			r.SetKey("verif:probe")
			r.UpdateMeta()
			return r, nil
		}
	default:
		e.HandlerFunc = func(rw http.ResponseWriter, r *http.Request) {
			w.recordInvoke(r, k)
			rw.WriteHeader(http.StatusOK)
			_, _ = io.WriteString(rw, "probe-ok")
		}
	}
}

func (w *world) obsFor(r *http.Request) *obs {
	w.mu.Lock()
	defer w.mu.Unlock()
	if r != nil {
		if rid := r.Header.Get(hdrRid); rid != "" {
			if o := w.byRid[rid]; o != nil {
				return o
			}
		}
	}
	return w.cur
}

func (w *world) recordInvoke(r *http.Request, kind string) {
	var tok *api.AuthToken
	if ar := api.GetAPIRequest(r); ar != nil {
		tok = ar.AuthToken
	}
	w.recordInvokeTok(r, kind, tok)
}

func (w *world) recordInvokeTok(r *http.Request, kind string, tok *api.AuthToken) {
	o := w.obsFor(r)
	if o == nil {
		return
	}
	w.mu.Lock()
	defer w.mu.Unlock()
	o.Invoked++
	o.Kind = kind
	if r != nil {
		o.SeenMethod = r.Method
	}
	if tok == nil {
		o.TokNil = true
	} else {
		o.Tok = &mtoken{R: mperm(tok.Read), W: mperm(tok.Write)}
		// token identity: documented intent is that a handler gets its own copy
		if prev, seen := w.tokSeen[tok]; seen && prev != o {
			o.TokShared = true
		} else {
			w.tokSeen[tok] = o
		}
		if strings.HasPrefix(kind, "mut-") {
			// the cooperating handler: it writes into the token of its OWN request
			a, b := 4, 4
			if r != nil {
				if parts := strings.Split(r.Header.Get(hdrMut), "/"); len(parts) == 2 {
					if x, ok := pparse(parts[0]); ok {
						a = x
					}
					if y, ok := pparse(parts[1]); ok {
						b = y
					}
				}
			}
			tok.Read, tok.Write = api.Permission(a), api.Permission(b)
			o.Mutated = true
		}
	}
}

// recordInvokeAR is the probe body of the Endpoint function types: they receive the
// api.Request (with its AuthToken) directly.
func (w *world) recordInvokeAR(ar *api.Request, kind string) {
	if ar == nil {
		w.recordInvokeTok(nil, kind, nil)
		return
	}
	w.recordInvokeTok(ar.Request, kind, ar.AuthToken)
}

// authenticator is the AuthenticatorFunc registered with portbase; the request header
// X-Verif-Auth selects what it does: "ok/<r>/<w>", "nil" (default), "err", "deny".
func (w *world) authenticator(r *http.Request, _ *http.Server) (*api.AuthToken, error) {
	if o := w.obsFor(r); o != nil {
		w.mu.Lock()
		o.AuthCalled++
		w.mu.Unlock()
	}
	mode := r.Header.Get(hdrAuth)
	switch {
	case mode == "err":
		return nil, errors.New("verif: authenticator failed internally")
	case mode == "deny":
		return nil, fmt.Errorf("%wverif: access denied", api.ErrAPIAccessDeniedMessage)
	case strings.HasPrefix(mode, "ok/"):
		parts := strings.Split(mode, "/")
		if len(parts) == 3 {
			a, ok1 := pparse(parts[1])
			b, ok2 := pparse(parts[2])
			if ok1 && ok2 {
				return &api.AuthToken{Read: api.Permission(a), Write: api.Permission(b)}, nil
			}
		}
	}
	return nil, nil
}

// ---------------------------------------------------------------------------------
// client side

// reqSpec is one request as the harness sends it.
type reqSpec struct {
	Via    string  `json:"via"` // "handler" (httptest-style through the main handler), "bridge", "wire"
	Method string  `json:"method"`
	ACRM   string  `json:"acrm,omitempty"` // Access-Control-Request-Method
	Origin string  `json:"origin,omitempty"`
	Host   string  `json:"host"`
	Path   string  `json:"path"`
	Authz  string  `json:"authz,omitempty"`
	Cookie string  `json:"cookie,omitempty"`
	Auth   string  `json:"auth,omitempty"`   // X-Verif-Auth
	Mutate string  `json:"mutate,omitempty"` // X-Verif-Mutate
	Target mTarget `json:"target"`
	// bookkeeping for signatures / coverage (chosen by the generator, not used by the model)
	CredTag string `json:"cred_tag,omitempty"`
}

type recorder struct {
	hdr   http.Header
	code  int
	wrote bool
	n     int
	body  bytes.Buffer
}

func (r *recorder) Header() http.Header { return r.hdr }
func (r *recorder) WriteHeader(c int) {
	if !r.wrote {
		r.code = c
		r.wrote = true
	}
}
func (r *recorder) Write(b []byte) (int, error) {
	if !r.wrote {
		r.code = 200
		r.wrote = true
	}
	r.n += len(b)
	if r.body.Len() < 160 {
		r.body.Write(b[:min(len(b), 160-r.body.Len())])
	}
	return len(b), nil
}

// trimWire trims a header value the way the HTTP/1 reader does (leading/trailing SP/HTAB),
// so that every value sent through the in-process path can also arrive over a socket.
func trimWire(v string) string { return strings.Trim(v, " \t") }

func (w *world) buildRequest(sp *reqSpec, rid string) *http.Request {
	u := &url.URL{Path: sp.Path}
	req := &http.Request{Method: sp.Method, URL: u, Proto: "HTTP/1.1", ProtoMajor: 1, ProtoMinor: 1,
		Header: http.Header{}, Body: http.NoBody, Host: sp.Host, RemoteAddr: "192.0.2.7:41234", RequestURI: sp.Path}
	if v := trimWire(sp.Authz); v != "" {
		req.Header["Authorization"] = []string{v}
	}
	if v := trimWire(sp.Cookie); v != "" {
		req.Header["Cookie"] = []string{v}
	}
	if v := trimWire(sp.Origin); v != "" {
		req.Header["Origin"] = []string{v}
	}
	if sp.ACRM != "" {
		req.Header["Access-Control-Request-Method"] = []string{sp.ACRM}
	}
	if sp.Auth != "" {
		req.Header[hdrAuth] = []string{sp.Auth}
	}
	if sp.Mutate != "" {
		req.Header[hdrMut] = []string{sp.Mutate}
	}
	if rid != "" {
		req.Header[hdrRid] = []string{rid}
	}
	return req.WithContext(context.Background())
}

var sessRe = regexp.MustCompile(`(?:^|[;,] *)` + regexp.QuoteMeta(cookieName) + `=([^;, ]+)`)

// do sends one request sequentially (the global slot receives probe/authenticator events).
func (w *world) do(sp *reqSpec) *obs {
	switch sp.Via {
	case "bridge":
		return w.doBridge(sp)
	case "wire":
		return w.doWire(sp)
	}
	o := &obs{}
	w.mu.Lock()
	w.cur = o
	w.mu.Unlock()
	w.serve(sp, "", o)
	w.mu.Lock()
	w.cur = nil
	w.mu.Unlock()
	w.drainPanics(o)
	return o
}

// doConcurrent sends one request that may overlap with others (events keyed by request id).
func (w *world) doConcurrent(sp *reqSpec) *obs {
	rid := "r" + strconv.FormatUint(w.ridCtr.Add(1), 10)
	o := &obs{}
	w.mu.Lock()
	w.byRid[rid] = o
	w.mu.Unlock()
	n := w.inflight.Add(1)
	for {
		m := w.maxInflight.Load()
		if n <= m || w.maxInflight.CompareAndSwap(m, n) {
			break
		}
	}
	w.serve(sp, rid, o)
	w.inflight.Add(-1)
	w.mu.Lock()
	delete(w.byRid, rid)
	w.mu.Unlock()
	return o
}

func (w *world) serve(sp *reqSpec, rid string, o *obs) {
	defer w.progress.Add(1)
	req := w.buildRequest(sp, rid)
	rec := &recorder{hdr: http.Header{}}
	func() {
		defer func() {
			if p := recover(); p != nil {
				o.Escaped = fmt.Sprint(p)
			}
		}()
		w.handler.ServeHTTP(rec, req)
	}()
	w.mu.Lock()
	o.Status, o.Wrote, o.BodyLen, o.Body = rec.code, rec.wrote, rec.n, rec.body.String()
	o.WWWAuth = rec.hdr.Get("WWW-Authenticate")
	for _, sc := range rec.hdr["Set-Cookie"] {
		if m := sessRe.FindStringSubmatch(sc); m != nil && !strings.Contains(sc, "Max-Age=0") {
			o.SetSession = m[1]
		}
	}
	w.mu.Unlock()
}

func (w *world) drainPanics(o *obs) {
	for {
		select {
		case me := <-w.panics:
			if me != nil && me.Severity == "panic" {
				o.Panics = append(o.Panics, panicInfo{Site: panicSite(me.StackTrace), Value: fmt.Sprint(me.PanicValue), Task: me.TaskName, Stack: trimTo(me.StackTrace, 2500)})
			}
		default:
			return
		}
	}
}

// panicSite returns the innermost portbase function below the panic call.
func panicSite(st string) string {
	seenPanic := false
	for _, ln := range strings.Split(st, "\n") {
		if strings.HasPrefix(ln, "panic(") {
			seenPanic = true
			continue
		}
		if !seenPanic || strings.HasPrefix(ln, "\t") || ln == "" {
			continue
		}
		if strings.HasPrefix(ln, "runtime.") || strings.HasPrefix(ln, "runtime/") {
			continue
		}
		fn := ln
		if i := strings.LastIndex(fn, "("); i > 0 {
			fn = fn[:i]
		}
		return strings.TrimPrefix(fn, "github.com/safing/portbase/")
	}
	return "unknown"
}

func trimTo(s string, n int) string {
	if len(s) > n {
		return s[:n]
	}
	return s
}

var bridgeCodeRe = regexp.MustCompile(`unexpected error code (\d+)`)

// doBridge sends the request through the api: database (the internal bridge). Only the
// method and the path can be chosen: the bridge builds the HTTP request itself.
func (w *world) doBridge(sp *reqSpec) *obs {
	o := &obs{}
	w.mu.Lock()
	w.cur = o
	w.mu.Unlock()
	key := strings.TrimPrefix(sp.Path, "/api/v1/")
	var err error
	func() {
		defer func() {
			if p := recover(); p != nil {
				o.Escaped = fmt.Sprint(p)
			}
		}()
		if sp.Method == http.MethodGet {
			_, err = w.dbi.Get("api:" + key)
		} else {
			r := &api.EndpointBridgeRequest{Method: sp.Method}
			r.SetKey("api:" + key)
			r.UpdateMeta()
			err = w.dbi.Put(r)
		}
	}()
	w.mu.Lock()
	w.cur = nil
	w.mu.Unlock()
	switch {
	case err == nil:
		o.Status, o.Wrote = 200, true
	default:
		o.Err = err.Error()
		if m := bridgeCodeRe.FindStringSubmatch(o.Err); m != nil {
			o.Status, _ = strconv.Atoi(m[1])
			o.Wrote = true
		} else if strings.Contains(o.Err, "bridged api call failed") {
			o.Status, o.Wrote = 500, true
		}
	}
	w.drainPanics(o)
	return o
}

// ---------------------------------------------------------------------------------
// configuration changes, awaited through the api.keys.updated hook

func (w *world) keyEvCount() int {
	w.keyEvMu.Lock()
	defer w.keyEvMu.Unlock()
	return len(w.keyEvs)
}

// listHasExpired reads the expires= parameter of configured key strings (the harness
// wrote them itself) and reports whether one lies in the past.
func listHasExpired(list []string, now time.Time) bool {
	for _, k := range list {
		i := strings.IndexByte(k, '?')
		if i < 0 {
			continue
		}
		q, err := url.ParseQuery(k[i+1:])
		if err != nil {
			continue
		}
		if e := q.Get("expires"); e != "" {
			if t, err := time.Parse(time.RFC3339, e); err == nil && now.After(t) {
				return true
			}
		}
	}
	return false
}

// keyMark is a position in the import bookkeeping, taken before a configuration change.
type keyMark struct{ upd, abort int }

func (w *world) mark() keyMark {
	w.keyEvMu.Lock()
	defer w.keyEvMu.Unlock()
	return keyMark{len(w.keyEvs), len(w.abortEvs)}
}

// awaitKeys waits until the import of the given setting is over: an api.keys.updated
// event at index >= since that carries exactly the wanted list.
// Returns false when the watchdog fires (which only ever means "inconclusive").
func (w *world) awaitKeys(since int, want []string) bool {
	ok, _ := w.awaitImport(keyMark{since, -1}, want)
	return ok
}

// awaitImport is awaitKeys plus the other way an import can be over: it returned without
// reaching api.keys.updated (api.keys.update.returned without api.keys.updated on the
// same goroutine). That counts if the import read this setting — the option holds one of
// the accepted lists at its return, and every import triggered by a configuration change
// signalled up to now has returned. accept[0] is the list a completed import must carry.
func (w *world) awaitImport(m keyMark, accept ...[]string) (ok bool, abortedWith string) {
	var acc []string
	for _, a := range accept {
		acc = append(acc, strings.Join(a, "\n"))
	}
	w.keyEvMu.Lock()
	needRet := w.presig - w.basePre // imports that must have returned: one per change signalled so far
	w.keyEvMu.Unlock()
	deadline := time.Now().Add(60 * time.Second)
	iter, settledSeen := 0, false
	for {
		w.keyEvMu.Lock()
		for i := m.upd; i < len(w.keyEvs); i++ {
			if w.keyEvs[i] == acc[0] {
				w.keyEvMu.Unlock()
				return true, ""
			}
		}
		if m.abort >= 0 && w.returned-w.baseRet >= needRet {
			for i := m.abort; i < len(w.abortEvs); i++ {
				for _, a := range acc {
					if w.abortEvs[i] == a {
						w.keyEvMu.Unlock()
						return true, a
					}
				}
			}
		}
		w.keyEvMu.Unlock()
		if m.abort >= 0 && iter > 0 && !settledSeen && quiescent() {
			// Nothing is running or pending any more. Whatever the hooks recorded so far is
			// all there will be: look once more, then the wait is over without an import.
			settledSeen = true
			continue
		}
		if settledSeen {
			return true, settledNoImport
		}
		iter++
		select {
		case <-w.keySig:
		case <-time.After(50 * time.Millisecond):
		}
		if time.Now().After(deadline) {
			return false, ""
		}
	}
}

// settledNoImport: awaitImport ended because no import of the newest setting happened
// and none is running or pending.
const settledNoImport = "\x00settled-without-import"

// goid returns the id of the calling goroutine (pairs the two hooks of one import).
func goid() uint64 {
	var buf [48]byte
	n := runtime.Stack(buf[:], false)
	f := strings.Fields(string(buf[:n]))
	if len(f) >= 2 {
		v, _ := strconv.ParseUint(f[1], 10, 64)
		return v
	}
	return 0
}

// awaitFailed decides what a missed await means: if the option holds neither what the
// harness set nor its cleaned form, somebody else wrote it — and the only other writer is
// portbase's own clean-up of expired keys, writing back a list computed from an older
// configuration (a genuine defect, witnessed by the option value and the event list).
func (w *world) awaitFailed(since int, set, final []cfgKey, what string) error {
	cur := strings.Join(w.keysGetSafe(), "\n")
	if cur != strings.Join(cfgStrings(set), "\n") && cur != strings.Join(cfgStrings(final), "\n") {
		w.b.Violation("C12:key-config-overwritten:not-by-caller",
			fmt.Sprintf("%s: the configured key list was replaced behind the caller's back: option holds %q", what, cur),
			map[string]any{"diag": w.keyEvDiag(since, cfgStrings(set), cfgStrings(final)), "replay": tableReplay{Mode: "revoke", CredTag: "revoke"}})
		return wedgedErr{"core/apiKeys was overwritten by a stale clean-up; the world no longer matches the model"}
	}
	return errInconclusive(what + " not seen within 60s; " + w.keyEvDiag(since, cfgStrings(set), cfgStrings(final)))
}

// keyEvDiag describes the update events seen since an index (for inconclusive reports).
func (w *world) keyEvDiag(since int, set, want []string) string {
	w.keyEvMu.Lock()
	defer w.keyEvMu.Unlock()
	var evs []string
	for i := max(0, since-6); i < len(w.keyEvs); i++ {
		evs = append(evs, fmt.Sprintf("#%d[%s]", i, strings.ReplaceAll(w.keyEvs[i], "\n", " | ")))
	}
	return fmt.Sprintf("set=%q want=%q events since=%v now-configured=%q", set, want, evs, w.keysGetSafe())
}

func (w *world) keysGetSafe() []string {
	return config.GetAsStringArray(api.CfgAPIKeys, []string{})()
}

const expiryMargin = 900 * time.Millisecond

// settle computes what the configured list looks like once portbase has removed the
// keys that are expired now, and whether a key is too close to its expiry to know.
func settle(keys []cfgKey, now time.Time) (final []cfgKey, hadExpired, unsure bool) {
	for _, k := range keys {
		if k.HasExp {
			d := k.Expires.Sub(now)
			if d > -expiryMargin && d < expiryMargin {
				unsure = true
			}
			if d <= 0 {
				hadExpired = true
				continue
			}
		}
		final = append(final, k)
	}
	if hadExpired {
		// the clean-up writes back only the entries that were imported as valid keys
		var kept []cfgKey
		for _, k := range final {
			if !k.invalid() {
				kept = append(kept, k)
			}
		}
		final = kept
	}
	return
}

func cfgStrings(keys []cfgKey) []string {
	out := make([]string, 0, len(keys))
	for _, k := range keys {
		out = append(out, k.configString())
	}
	return out
}

// setKeys configures the API keys and waits until the change (and the clean-up of
// already expired keys that portbase performs itself) took effect.
func (w *world) setKeys(keys []cfgKey) error { return w.setKeysHow(keys, false) }

// resetKeys revokes every key by resetting the option to its default (value nil): the
// path the config database's Delete and a user interface's "reset" take.
func (w *world) resetKeys() error { return w.setKeysHow(nil, true) }

func (w *world) setKeysHow(keys []cfgKey, reset bool) error {
	mk := w.mark()
	since := mk.upd
	w.elog.Rec("call", "client", "setKeys", map[string]any{"n": len(keys), "reset": reset})
	var value any = cfgStrings(keys)
	what := "SetConfigOption(core/apiKeys)"
	if reset {
		value, what = nil, "SetConfigOption(core/apiKeys, nil)"
		w.b.Count("key_resets_to_default", 1)
	}
	if err := w.guarded(what, func() error { return config.SetConfigOption(api.CfgAPIKeys, value) }); err != nil {
		if isStop(err) {
			return err
		}
		return fmt.Errorf("%s: %w", what, err)
	}
	final, _, unsure := settle(keys, time.Now())
	if unsure {
		return errInconclusive("an API key was within the expiry margin when it was configured")
	}
	ok, aborted := w.awaitImport(mk, cfgStrings(final), cfgStrings(keys))
	if !ok {
		return w.awaitFailed(since, keys, final, "api.keys.updated with the configured key list")
	}
	switch {
	case aborted == settledNoImport:
		// No import of this setting happened and none is running or pending. The setting in
		// force is what config's own getter returns now; the api package has to enforce it.
		w.b.Count("settled_without_import", 1)
		cur := strings.Join(w.keysGetSafe(), "\n")
		switch cur {
		case strings.Join(cfgStrings(final), "\n"):
		case strings.Join(cfgStrings(keys), "\n"):
			final = keys
		default:
			return w.awaitFailed(since, keys, final, "the configured key list")
		}
	case aborted != "":
		// the import gave up on this setting; it is over nevertheless: from now on the newest
		// setting decides (what it lists validly grants, everything else grants nothing)
		w.b.Count("imports_returned_without_update", 1)
		if aborted == strings.Join(cfgStrings(keys), "\n") {
			final = keys // no clean-up happened: the option still holds every entry
		}
	}
	w.configured = final
	w.model.setKeys(final)
	w.b.Count("key_updates_awaited", 1)
	w.elog.Rec("ret", "client", "setKeys", nil)
	return nil
}

// setDev switches development mode and waits for the config change event to have been
// processed by the api module (same event, same hook point).
func (w *world) setDev(on bool) error { return w.setDevHow(on, false) }

// resetDev leaves development mode by resetting the option to its default (value nil).
func (w *world) resetDev() error { return w.setDevHow(false, true) }

func (w *world) setDevHow(on, reset bool) error {
	mk := w.mark()
	since := mk.upd
	w.elog.Rec("call", "client", "setDev", map[string]any{"on": on, "reset": reset})
	var value any = on
	what := "SetConfigOption(core/devMode)"
	if reset {
		value, what = nil, "SetConfigOption(core/devMode, nil)"
		w.b.Count("dev_resets_to_default", 1)
	}
	if err := w.guarded(what, func() error { return config.SetConfigOption(config.CfgDevModeKey, value) }); err != nil {
		if isStop(err) {
			return err
		}
		return fmt.Errorf("%s: %w", what, err)
	}
	final, _, unsure := settle(w.configured, time.Now())
	if unsure {
		return errInconclusive("an API key was within the expiry margin during a config change")
	}
	ok, aborted := w.awaitImport(mk, cfgStrings(final), cfgStrings(w.configured))
	if !ok {
		return w.awaitFailed(since, w.configured, final, "api.keys.updated after the devMode change")
	}
	switch {
	case aborted == settledNoImport:
		w.b.Count("settled_without_import", 1)
		if strings.Join(w.keysGetSafe(), "\n") == strings.Join(cfgStrings(w.configured), "\n") {
			final = w.configured
		}
	case aborted != "":
		w.b.Count("imports_returned_without_update", 1)
		if aborted == strings.Join(cfgStrings(w.configured), "\n") {
			final = w.configured
		}
	}
	w.configured = final
	w.model.setKeys(final)
	// the value in force is what config's own getter returns
	w.model.Dev = config.GetAsBool(config.CfgDevModeKey, false)()
	if w.model.Dev != on {
		w.b.Note("core/devMode reads %v through the config getter after it was set to %v (reset=%v)", w.model.Dev, on, reset)
	}
	w.b.Count("dev_switches_awaited", 1)
	return nil
}

type inconclusiveErr struct{ s string }

func (e inconclusiveErr) Error() string { return e.s }
func errInconclusive(s string) error    { return inconclusiveErr{s} }
func isInconclusive(err error) bool     { var e inconclusiveErr; return errors.As(err, &e) }
func isWedged(err error) bool           { var e wedgedErr; return errors.As(err, &e) }
func isStop(err error) bool             { return isInconclusive(err) || isWedged(err) }

// login obtains a session for the token (r,w) from the real code: a request carrying no
// other credential to a handler that needs authentication makes portbase call the
// authenticator and issue a session cookie.
func (w *world) login(r, p int) (string, error) {
	sp := &reqSpec{Via: "handler", Method: "GET", Host: testHost, Path: "/verif/p/m1/m1", Auth: "ok/" + pname(r) + "/" + pname(p),
		Target: mTarget{Route: "plain", DeclR: -1, DeclW: -1}}
	o := w.do(sp)
	if o.SetSession == "" {
		return "", fmt.Errorf("no session cookie issued for token %d/%d (status %d, auth called %d)", r, p, o.Status, o.AuthCalled)
	}
	w.model.Sess[o.SetSession] = &mSess{Tok: mtoken{mperm(r), mperm(p)}, Live: true}
	w.b.Count("sessions_created", 1)
	return o.SetSession, nil
}

func (w *world) expireSessions() {
	api.VerifExpireSessions()
	w.progress.Add(1)
	for _, s := range w.model.Sess {
		s.Live = false
	}
	w.b.Count("session_expiries", 1)
}
