package main

// fuzz.go — generated Authorization / Cookie / Origin header strings. The oracle is the
// same model: a string that is not a credential grants nothing beyond anonymous access,
// a foreign Origin is refused before anything runs, and nothing crashes.

import (
	"fmt"
	"strings"
	"time"

	"verifharness/internal/vlib"
)

// headerSafe makes a string legal as an HTTP/1 header value (no CTLs except HTAB, no DEL).
func headerSafe(s string) string {
	b := []byte(s)
	for i, c := range b {
		if (c < 0x20 && c != '\t') || c == 0x7f {
			b[i] = '.'
		}
	}
	return string(b)
}

func randPrintable(r *vlib.Rand, n int) string {
	b := make([]byte, n)
	for i := range b {
		switch r.Intn(12) {
		case 0:
			b[i] = byte(0x80 + r.Intn(0x80))
		case 1:
			b[i] = " \t=:;,\"/@%+"[r.Intn(11)]
		default:
			b[i] = byte(0x21 + r.Intn(0x5e))
		}
	}
	return string(b)
}

func mutate(r *vlib.Rand, s string) string {
	if s == "" {
		return randPrintable(r, r.Range(0, 6))
	}
	switch r.Intn(9) {
	case 0:
		return s[:r.Intn(len(s))]
	case 1:
		return s[r.Intn(len(s)):]
	case 2:
		return s + randPrintable(r, r.Range(1, 4))
	case 3:
		return randPrintable(r, r.Range(1, 4)) + s
	case 4:
		return strings.ToUpper(s)
	case 5:
		return strings.ToLower(s)
	case 6:
		i := r.Intn(len(s))
		return s[:i] + randPrintable(r, 1) + s[i+1:]
	case 7:
		return s + s
	}
	i := r.Intn(len(s))
	return s[:i] + s[i+1:]
}

func fuzzAuthz(r *vlib.Rand, keys []string) string {
	scheme := vlib.Pick(r, "Bearer", "Basic", "bearer", "BEARER", "basic", "BASIC", "Digest", "Token", "Negotiate", "", "Bearer,", "Beare", "Bearerr", randPrintable(r, r.Range(1, 8)))
	sep := vlib.Pick(r, " ", " ", " ", "  ", "\t", "", ":", "=", " \t ")
	key := vlib.Pick(r, keys...)
	var payload string
	switch r.Intn(14) {
	case 0:
		payload = key
	case 1:
		payload = mutate(r, key)
	case 2:
		payload = b64(key + ":")
	case 3:
		payload = mutate(r, b64(key+":"))
	case 4:
		payload = b64(mutate(r, key) + ":" + randPrintable(r, r.Intn(3)))
	case 5:
		payload = randPrintable(r, r.Range(0, 3))
	case 6:
		payload = b64(randPrintable(r, r.Range(0, 3)))
	case 7:
		payload = b64(randPrintable(r, r.Range(0, 2)) + ":" + randPrintable(r, r.Range(0, 1)))
	case 8:
		payload = randPrintable(r, r.Range(4, 80))
	case 9:
		payload = strings.Repeat(randPrintable(r, 16), r.Range(100, 4000))
	case 10:
		payload = b64(key) // no colon
	case 11:
		payload = strings.TrimRight(b64(key+":"), "=")
	case 12:
		payload = key + " " + key
	default:
		payload = ""
	}
	return headerSafe(scheme + sep + payload)
}

func fuzzCookie(r *vlib.Rand, sessions []string) string {
	sess := vlib.Pick(r, sessions...)
	name := vlib.Pick(r, cookieName, cookieName, cookieName, strings.ToLower(cookieName), cookieName+"2", "X-"+cookieName, " "+cookieName, cookieName+" ", "", randPrintable(r, r.Range(1, 10)))
	var val string
	switch r.Intn(9) {
	case 0:
		val = sess
	case 1, 2:
		val = mutate(r, sess)
	case 3:
		val = "\"" + sess + "\""
	case 4:
		val = "\"" + sess
	case 5:
		val = randPrintable(r, r.Range(0, 60))
	case 6:
		val = strings.Repeat("A", r.Range(1000, 100000))
	case 7:
		val = ""
	default:
		val = randKey(r, 43)
	}
	eq := vlib.Pick(r, "=", "=", "=", "", " = ", "==", ":")
	c := name + eq + val
	switch r.Intn(6) {
	case 0:
		c = "a=b; " + c
	case 1:
		c = c + "; " + cookieName + "=" + randKey(r, 43)
	case 2:
		c = c + ";;; ;" + randPrintable(r, r.Range(0, 10))
	case 3:
		c = randPrintable(r, r.Range(0, 10)) + ", " + c
	}
	return headerSafe(c)
}

func fuzzOrigin(r *vlib.Rand) string {
	host := "api.verif.test"
	scheme := vlib.Pick(r, "http", "https", "HTTP", "chrome-extension", "moz-extension", "Chrome-Extension", "chrome-extensions", "file", "ws", "", "javascript", "data", randKey(r, r.Range(1, 6)))
	sep := vlib.Pick(r, "://", "://", "://", ":", ":/", "//", "", ":///")
	h := vlib.Pick(r, testHost, host, host+":9", host+".", strings.ToUpper(host)+":817", "evil.example", "evil.example:817", "localhost", "localhost:817", "127.0.0.1", "127.0.0.1:817",
		"[::1]", "[::1]:817", "0x7f.1", "evil@"+testHost, testHost+"@evil.example", testHost+".evil.example", "evil.example/"+testHost, "evil.example?"+testHost, "evil.example#"+testHost,
		"", "xn--80ak6aa92e.com", "a b", "localhost.attacker.example", "localhost.attacker.example:8443", "localhostess", "127.0.0.1.attacker.example:8443", "127.0.0.10", "127.0.0.1"+randKey(r, r.Range(1, 5)), "localhost"+randKey(r, r.Range(1, 5)),
		randKey(r, r.Range(1, 4))+"localhost", randKey(r, 3)+".127.0.0.1", "localhost."+randKey(r, 6)+".example:"+fmt.Sprint(r.Range(1, 65535)), "%61pi.verif.test:817", randPrintable(r, r.Range(1, 20)), "abcdefghijklmnopabcdefghijklmnop")
	suffix := vlib.Pick(r, "", "", "", "/", "/path", "?q=1", "#f", ":", ":x", " ", ", http://"+testHost)
	switch r.Intn(10) {
	case 0:
		return headerSafe(randPrintable(r, r.Range(1, 40)))
	case 1:
		return vlib.Pick(r, "null", "Null", "*", "undefined", "about:blank", "%", "http://%zz", "http://[::1", "http://a:b:c", "\xff\xfe")
	}
	return headerSafe(scheme + sep + h + suffix)
}

func runFuzz(w *world, j *judge, cs childSpec) error {
	r := vlib.NewRand(cs.Seed, "C12/fuzz", uint64(cs.Shard))
	tk := makeTableKeys(cs.Seed, time.Now(), false)
	if err := w.setKeys(tk.List); err != nil {
		return err
	}
	keys := []string{tk.Perm["admin/admin"], tk.Perm["user/anyone"], tk.Short, tk.Future, tk.Past, tk.Unknown, tk.NoPerm}
	var sessions []string
	for _, p := range [][2]int{{3, 3}, {2, 4}, {4, 1}} {
		c, err := w.login(p[0], p[1])
		if err != nil {
			return err
		}
		sessions = append(sessions, c)
	}
	exp, err := w.login(4, 4)
	if err != nil {
		return err
	}
	// one expired session: expire all, then log the live ones in again
	w.expireSessions()
	sessions = sessions[:0]
	for _, p := range [][2]int{{3, 3}, {2, 4}, {4, 1}} {
		c, err := w.login(p[0], p[1])
		if err != nil {
			return err
		}
		sessions = append(sessions, c)
	}
	sessions = append(sessions, exp)
	targets := []target{
		{"/verif/p/m1/m1", mTarget{"plain", mDynamic, mDynamic}},
		{"/verif/p/2/3", mTarget{"plain", mUser, mAdmin}},
		{"/api/v1/verif/e/3/4", mTarget{"endpoint", mAdmin, mSelf}},
	}
	devEvery := 0
	if cs.Shard%2 == 1 {
		devEvery = 1 // odd shards run the Origin fuzz in development mode
	}
	for i := 0; i < cs.N; i++ {
		sp := &reqSpec{Via: "handler", Host: testHost, CredTag: "fuzz"}
		kind := i % 3
		switch kind {
		case 0:
			sp.Authz = fuzzAuthz(r, keys)
		case 1:
			sp.Cookie = fuzzCookie(r, sessions)
		case 2:
			sp.Origin = fuzzOrigin(r)
			if r.Chance(1, 4) {
				sp.Authz = "Bearer " + keys[0]
			}
		}
		if r.Chance(1, 10) {
			sp.Auth = vlib.Pick(r, "err", "deny", "ok/2/2")
		}
		if kind == 2 && r.Chance(1, 4) {
			sp.Host = "api.verif.test" // a Host header without a port
		}
		hdr := sp.Authz + "\x00" + sp.Cookie + "\x00" + sp.Origin + "\x00" + sp.Host
		j.b.Distinct([]byte("fuzz"), []byte(hdr))
		j.b.Count("fuzz_headers", 1)
		j.b.Count(fmt.Sprintf("fuzz_kind_%d", kind), 1)
		for ti, t := range targets {
			mv := methodVars[r.Intn(5)]
			sp2 := *sp
			sp2.Method, sp2.Path, sp2.Target = mv.Method, t.Path, t.T
			if r.Chance(1, 5) {
				// a preflight header on a request that is not a preflight
				sp2.ACRM = vlib.Pick(r, "GET", "HEAD", "POST", "DELETE", "OPTIONS", headerSafe(randPrintable(r, r.Range(1, 8))))
				j.b.Count("fuzz_with_preflight_header", 1)
			}
			j.replay = func(s *reqSpec) any {
				return tableReplay{Mode: "fuzz", CredTag: "fuzz", Path: s.Path, Method: s.Method, ACRM: s.ACRM, Origin: s.Origin, Via: "handler", Auth: s.Auth, Authz: s.Authz, Cookie: s.Cookie, Dev: w.model.Dev, Host: s.Host}
			}
			// (sessions issued here are never presented: fuzzed cookies derive from the fixed list)
			o, e := j.run(&sp2)
			if i < 3 && ti == 1 {
				j.b.Sample(map[string]any{"spec": &sp2, "expect": e, "obs": o})
			}
		}
		if devEvery == 1 && kind == 2 && i%300 == 2 {
			// switch development mode for the next stretch of Origin strings
			if err := w.setDev(!w.model.Dev); err != nil {
				return err
			}
		}
	}
	if w.model.Dev {
		return w.setDev(false)
	}
	return nil
}
