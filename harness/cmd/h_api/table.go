package main

// table.go — complete enumeration of the finite decision table:
//   required permission (read x write of the addressed handler)
// x method variant
// x credential value (every source and state; every granted read x write pair)
// plus the Origin sub-table and the development-mode sub-table.

import (
	"encoding/base64"
	"fmt"
	"time"

	"verifharness/internal/vlib"
)

type methodVar struct {
	Method string
	ACRM   string
	Origin string // "" or "same"
}

var methodVars = []methodVar{
	{"GET", "", ""}, {"HEAD", "", ""}, {"POST", "", ""}, {"PUT", "", ""}, {"DELETE", "", ""},
	{"OPTIONS", "", ""}, {"OPTIONS", "GET", ""}, {"OPTIONS", "POST", ""}, {"OPTIONS", "PATCH", ""},
	{"OPTIONS", "GET", "same"}, {"OPTIONS", "DELETE", "same"}, {"OPTIONS", "", "same"},
	{"PATCH", "", ""}, {"TRACE", "", ""}, {"get", "", ""},
	// a non-OPTIONS request that carries the preflight header: the header must be ignored
	{"POST", "GET", ""}, {"GET", "POST", ""}, {"PATCH", "GET", ""},
}

// acrmMethods x acrmValues: the sub-table "any method x any Access-Control-Request-Method".
var acrmMethods = []string{"GET", "HEAD", "POST", "PUT", "DELETE", "PATCH", "TRACE"}
var acrmValues = []string{"GET", "HEAD", "POST", "PUT", "DELETE", "PATCH", "get", "G E T,?"}

func acrmVars() []methodVar {
	var out []methodVar
	for _, m := range acrmMethods {
		for _, a := range acrmValues {
			out = append(out, methodVar{m, a, ""})
		}
		out = append(out, methodVar{m, "GET", "same"}, methodVar{m, "POST", "same"})
	}
	return out
}

type target struct {
	Path string
	T    mTarget
}

func plainTargets() []target {
	var out []target
	for _, r := range permVals {
		for _, p := range permVals {
			out = append(out, target{"/verif/p/" + pname(r) + "/" + pname(p), mTarget{"plain", mperm(r), mperm(p)}})
		}
	}
	return out
}

func diagTargets() []target {
	var out []target
	for _, r := range permVals {
		out = append(out, target{"/verif/p/" + pname(r) + "/" + pname(r), mTarget{"plain", mperm(r), mperm(r)}})
	}
	return out
}

func otherTargets() []target {
	var out []target
	for _, r := range permVals {
		out = append(out, target{"/verif/w/" + pname(r), mTarget{"wrapped", mperm(r), mperm(r)}})
	}
	for _, r := range permVals {
		for _, p := range permVals {
			out = append(out, target{"/verif/d/" + pname(r) + "/" + pname(p), mTarget{"dynamic", mperm(r), mperm(p)}})
		}
	}
	out = append(out, target{"/verif/u", mTarget{"undeclared", 0, 0}})
	out = append(out, target{"/verif/none", mTarget{"noroute", 0, 0}})
	out = append(out, target{"/api/v1/verif/none", mTarget{"noendpoint", 0, 0}})
	return out
}

// mutatorTargets are handlers that write into the AuthToken of their own request.
func mutatorTargets() []target {
	var out []target
	for _, rw := range mutPlainPerms {
		out = append(out, target{"/verif/m/" + pname(rw[0]) + "/" + pname(rw[1]), mTarget{"plain", mperm(rw[0]), mperm(rw[1])}})
	}
	out = append(out, target{"/verif/mw", mTarget{"wrapped", mAnyone, mAnyone}})
	for _, k := range endpointFuncKinds {
		out = append(out, target{"/api/v1/verif/mut/" + k + "/1/1", mTarget{"endpoint", mAnyone, mAnyone}})
		out = append(out, target{"/api/v1/verif/mut/" + k + "/m1/2", mTarget{"endpoint", mDynamic, mUser}})
	}
	return out
}

func endpointTargets() []target {
	var out []target
	for _, r := range endpointPermVals {
		for _, p := range endpointPermVals {
			out = append(out, target{"/api/v1/verif/e/" + pname(r) + "/" + pname(p), mTarget{"endpoint", mperm(r), mperm(p)}})
		}
	}
	for _, k := range endpointFuncKinds {
		out = append(out, target{"/api/v1/verif/f/" + k, mTarget{"endpoint", mUser, mAdmin}})
	}
	return out
}

// credVal is one credential value of the table; prepare makes it real (log in, wait for
// expiry ...) and fills the request.
type credVal struct {
	Tag   string
	Group string
	// static parts
	Authz string
	Auth  string
	// session-based
	SessR, SessW int
	SessKind     string // "", "valid", "expired", "reset", "unknown"
	WaitSoon     bool   // needs the soon-expiring key to have expired
	ResetAuthz   string // Authorization header sent along with the session reset request
}

const (
	kwAnyone = "anyone"
	kwUser   = "user"
	kwAdmin  = "admin"
)

// tableKeys is the API key configuration of the table worlds. Key strings come from the seed.
type tableKeys struct {
	Perm    map[string]string // "user/admin" -> key
	NoPerm  string
	Short   string // a configured key shorter than four bytes (valid!)
	Future  string
	Past    string
	Soon    string
	SoonAt  time.Time
	Unknown string
	List    []cfgKey
}

func randKey(r *vlib.Rand, n int) string {
	const al = "abcdefghijklmnopqrstuvwxyzABCDEFGHIJKLMNOPQRSTUVWXYZ0123456789-_"
	b := make([]byte, n)
	for i := range b {
		b[i] = al[r.Intn(len(al))]
	}
	return string(b)
}

func makeTableKeys(seed uint64, now time.Time, withSoon bool) *tableKeys {
	r := vlib.NewRand(seed, "C12/keys", 0)
	tk := &tableKeys{Perm: map[string]string{}}
	words := []string{kwAnyone, kwUser, kwAdmin}
	for _, a := range words {
		for _, b := range words {
			k := "K" + randKey(r, r.Range(8, 24))
			tk.Perm[a+"/"+b] = k
			tk.List = append(tk.List, cfgKey{Key: k, R: a, W: b, Tag: a + "/" + b})
		}
	}
	tk.NoPerm = "N" + randKey(r, 12)
	tk.List = append(tk.List, cfgKey{Key: tk.NoPerm, Tag: "noperm"})
	tk.Short = "s" + randKey(r, r.Range(0, 2))
	tk.List = append(tk.List, cfgKey{Key: tk.Short, R: kwUser, W: kwUser, Tag: "short-valid"})
	tk.Future = "F" + randKey(r, 16)
	tk.List = append(tk.List, cfgKey{Key: tk.Future, R: kwAdmin, W: kwAdmin, HasExp: true, Expires: now.Add(48 * time.Hour).Truncate(time.Second), Tag: "future"})
	tk.Past = "P" + randKey(r, 16)
	tk.List = append(tk.List, cfgKey{Key: tk.Past, R: kwAdmin, W: kwAdmin, HasExp: true, Expires: now.Add(-48 * time.Hour).Truncate(time.Second), Tag: "past"})
	tk.Soon = "S" + randKey(r, 16)
	if withSoon {
		tk.SoonAt = now.Add(4 * time.Second).Truncate(time.Second)
		tk.List = append(tk.List, cfgKey{Key: tk.Soon, R: kwAdmin, W: kwAdmin, HasExp: true, Expires: tk.SoonAt, Tag: "soon"})
	}
	tk.Unknown = "U" + randKey(r, 16)
	return tk
}

func b64(s string) string { return base64.StdEncoding.EncodeToString([]byte(s)) }

// credValues lists every credential value of the table.
func credValues(tk *tableKeys) []credVal {
	var out []credVal
	add := func(c credVal) { out = append(out, c) }
	add(credVal{Tag: "none", Group: "none"})
	// authenticator
	for _, r := range permVals {
		for _, p := range permVals {
			add(credVal{Tag: fmt.Sprintf("auth-ok/%d/%d", r, p), Group: "auth-ok", Auth: "ok/" + pname(r) + "/" + pname(p)})
		}
	}
	add(credVal{Tag: "auth-nil", Group: "auth", Auth: "nil"})
	add(credVal{Tag: "auth-err", Group: "auth", Auth: "err"})
	add(credVal{Tag: "auth-deny", Group: "auth", Auth: "deny"})
	// sessions
	for _, r := range permVals {
		for _, p := range permVals {
			add(credVal{Tag: fmt.Sprintf("cookie-valid/%d/%d", r, p), Group: "cookie-valid", SessKind: "valid", SessR: r, SessW: p})
		}
	}
	for _, r := range permVals {
		for _, p := range permVals {
			add(credVal{Tag: fmt.Sprintf("cookie-expired/%d/%d", r, p), Group: "cookie-expired", SessKind: "expired", SessR: r, SessW: p})
		}
	}
	add(credVal{Tag: "cookie-reset", Group: "cookie", SessKind: "reset", SessR: 3, SessW: 3})
	for i, az := range resetAuthzVariants(tk)[1:] {
		// the reset request itself carries an Authorization header
		add(credVal{Tag: fmt.Sprintf("cookie-reset/authz%d", i+1), Group: "cookie", SessKind: "reset", SessR: 3 + i%2, SessW: 4 - i%2, ResetAuthz: az})
	}
	add(credVal{Tag: "cookie-unknown", Group: "cookie", SessKind: "unknown"})
	// API keys
	forms := func(tag, group, key string) {
		add(credVal{Tag: tag + "/bearer", Group: group, Authz: "Bearer " + key})
		add(credVal{Tag: tag + "/basic-user", Group: group, Authz: "Basic " + b64(key+":")})
		add(credVal{Tag: tag + "/basic-pass", Group: group, Authz: "Basic " + b64(":"+key)})
		if len(key) >= 2 {
			add(credVal{Tag: tag + "/basic-split", Group: group, Authz: "Basic " + b64(key[:len(key)/2]+":"+key[len(key)/2:])})
		}
	}
	for _, a := range []string{kwAnyone, kwUser, kwAdmin} {
		for _, b := range []string{kwAnyone, kwUser, kwAdmin} {
			forms("key/"+a+"/"+b, "key-valid", tk.Perm[a+"/"+b])
		}
	}
	forms("key/noperm", "key-valid", tk.NoPerm)
	forms("key/short-valid", "key-valid", tk.Short)
	forms("key/future", "key-valid", tk.Future)
	forms("key/expired-at-config", "key-expired", tk.Past)
	forms("key/unknown", "key-unknown", tk.Unknown)
	for _, short := range []string{"", "a", "ab", "abc", "abcd"} {
		add(credVal{Tag: fmt.Sprintf("key/unknown-len%d/bearer", len(short)), Group: "key-short", Authz: "Bearer " + short + "\x00"}) // \x00 marks "keep as is" (removed below)
		add(credVal{Tag: fmt.Sprintf("key/unknown-len%d/basic", len(short)), Group: "key-short", Authz: "Basic " + b64(short+":")})
		add(credVal{Tag: fmt.Sprintf("key/unknown-len%d/basic-pass", len(short)), Group: "key-short", Authz: "Basic " + b64(":"+short)})
	}
	for i := range out {
		// "Bearer " with an empty key cannot arrive over a socket (trailing blanks are trimmed):
		// it degenerates to the malformed scheme "Bearer"
		if n := len(out[i].Authz); n > 0 && out[i].Authz[n-1] == 0 {
			out[i].Authz = out[i].Authz[:n-1]
		}
	}
	k := tk.Perm["admin/admin"]
	for i, h := range []string{"Token " + k, "bearer " + k, "Bearer" + k, "Bearer", "Basic", "Basic !!!notbase64", "Basic " + b64(k), "basic " + b64(k+":"), k, "Digest username=\"" + k + "\""} {
		add(credVal{Tag: fmt.Sprintf("authz-malformed/%d", i), Group: "authz-malformed", Authz: h})
	}
	return out
}

func soonCredValues(tk *tableKeys) []credVal {
	var out []credVal
	out = append(out, credVal{Tag: "key/expired-after-config/bearer", Group: "key-expired", Authz: "Bearer " + tk.Soon, WaitSoon: true})
	out = append(out, credVal{Tag: "key/expired-after-config/basic-user", Group: "key-expired", Authz: "Basic " + b64(tk.Soon+":"), WaitSoon: true})
	return out
}

// originVariants of the Origin sub-table (Host = testHost).
func originVariants() []string {
	return []string{
		"", "http://" + testHost, "https://" + testHost, "http://api.verif.test", "http://api.verif.test:9", "http://API.verif.test:817",
		"http://evil.example", "https://evil.example:817", "http://verif.test:817", "null", "chrome-extension://abcdefghijklmnop",
		"moz-extension://abcdef", "http://localhost", "http://localhost:4200", "http://127.0.0.1:8080", "https://127.0.0.1", "http://127.0.0.2",
		"http://%zz", "://", "http://", "evil.example", "http://evil.example/" + testHost, "http://" + testHost + ".evil.example",
		"http://" + testHost + "@evil.example", "http://evil.example#" + testHost, "file://",
	}
}

// devNearMissOrigins: Origins that are close to the two documented development-mode
// names (localhost, 127.0.0.1) without being them, plus the exact names with ports.
func devNearMissOrigins() []string {
	var out []string
	for _, n := range []string{"localhost", "127.0.0.1"} {
		for _, scheme := range []string{"http://", "https://"} {
			out = append(out, scheme+n, scheme+n+":8443", // the documented exception itself
				scheme+n+".attacker.example", scheme+n+".attacker.example:8443", scheme+n+"ess", scheme+n+"0", scheme+n+"-evil:80",
				scheme+"x"+n, scheme+"evil-"+n+":4200", scheme+"sub."+n, scheme+"sub."+n+":817", scheme+n+"."+n, scheme+n+"@evil.example")
		}
	}
	out = append(out, "http://127.0.0.10", "http://127.0.0.11:8080", "http://0127.0.0.1", "http://127.0.0.1.nip.io", "http://localhost.localdomain", "http://LOCALHOST", "http://localhosT:80")
	return out
}
