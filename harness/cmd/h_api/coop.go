package main

// coop.go — scenarios with cooperating sites:
//   poison:    a handler writes into the AuthToken of its own request; every later request
//              (of every credential class) must still be judged by what ITS credential grants.
//   sessclean: the api module's session cleaner runs in a loop while sessions are created
//              and reset; once a reset has been answered, the cookie is anonymous for good,
//              and a session that was never reset nor expired keeps granting.

import (
	"fmt"
	"runtime"
	"strings"
	"sync"
	"sync/atomic"
	"time"

	"github.com/safing/portbase/api"
	"github.com/safing/portbase/config"

	"verifharness/internal/vlib"
)

func runPoison(w *world, j *judge, cs childSpec) error {
	r := vlib.NewRand(cs.Seed, "C12/poison", uint64(cs.Shard))
	tk := makeTableKeys(cs.Seed, time.Now(), false)
	if err := w.setKeys(tk.List); err != nil {
		return err
	}
	ps, err := w.prepareAll(j, onePerClass(tk), tk)
	if err != nil {
		return err
	}
	byTag := map[string]prepared{}
	for _, p := range ps {
		byTag[p.cv.Tag] = p
	}
	var after []prepared
	for _, tag := range []string{"none", "auth-nil", "auth-deny", "key/unknown/bearer", "key/unknown-len3/bearer", "cookie-unknown", "cookie-expired/4/4",
		"key/user/anyone/basic-user", "key/admin/admin/bearer", "cookie-valid/1/2", "auth-ok/2/1"} {
		if p, ok := byTag[tag]; ok {
			after = append(after, p)
		}
	}
	probeTargets := []target{
		{"/verif/p/1/1", mTarget{"plain", mAnyone, mAnyone}}, {"/verif/p/m1/m1", mTarget{"plain", mDynamic, mDynamic}},
		{"/verif/p/2/2", mTarget{"plain", mUser, mUser}}, {"/verif/p/3/3", mTarget{"plain", mAdmin, mAdmin}}, {"/verif/p/4/4", mTarget{"plain", mSelf, mSelf}},
		{"/api/v1/verif/e/1/3", mTarget{"endpoint", mAnyone, mAdmin}}, {"/api/v1/verif/e/m1/2", mTarget{"endpoint", mDynamic, mUser}},
	}
	muts := mutatorTargets()
	writes := []string{"4/4", "3/4", "4/1", "m2/0", "100/m100", "2/2"}
	gp := []methodVar{{"GET", "", ""}, {"POST", "", ""}}
	w.b.Count("table_cells_planned", int64(len(muts)*len(ps)*len(gp)*(1+len(after)*len(probeTargets)*len(gp))))
	for _, mt := range muts {
		for _, p := range ps {
			for _, mv := range gp {
				// (a) the cooperating handler modifies the token of its own request
				sp := specFor(p, mt, mv, "")
				sp.Mutate = vlib.Pick(r, writes...)
				mode := "poison"
				j.replay = func(s *reqSpec) any {
					return tableReplay{Mode: mode, CredTag: p.cv.Tag, Path: s.Path, Method: s.Method, Via: s.Via}
				}
				o, e := j.run(sp)
				j.b.Count("table_cells_done", 1)
				j.b.Count("poison_mutator_requests", 1)
				if o.Mutated {
					j.b.Count("poison_mutations", 1)
				}
				j.b.DistinctS(fmt.Sprintf("poison|%s|%s|%s|%s", mt.Path, p.cv.Tag, mv.Method, sp.Mutate))
				if o.Mutated && p.cv.Tag == "none" && mv.Method == "GET" && mt.Path == "/verif/m/1/1" {
					j.b.Sample(map[string]any{"spec": sp, "expect": e, "obs": o})
				}
				// (b) whatever comes next is judged by its own credential only
				for _, q := range after {
					for _, t := range probeTargets {
						for _, mv2 := range gp {
							j.tableCell("poison-after", q, t, mv2, "")
							j.b.Count("poison_followup_requests", 1)
						}
					}
				}
			}
		}
	}
	return nil
}

func runSessClean(w *world, j *judge, cs childSpec) error {
	base := cs.N
	if base <= 0 {
		base = 2000
	}
	// a population of live sessions: the cleaner has to look at each of them in every pass
	var live []string
	for i := 0; i < base; i++ {
		c, err := w.login(1+i%4, 1+(i/4)%4)
		if err != nil {
			return err
		}
		live = append(live, c)
	}
	var stop atomic.Bool
	var passes atomic.Int64
	var bg sync.WaitGroup
	bg.Add(1)
	go func() {
		defer bg.Done()
		for !stop.Load() {
			api.VerifCleanSessions()
			passes.Add(1)
		}
	}()
	// clients: create a session, use it, reset it; remember every reset that was answered
	type resetRec struct {
		cookie string
		status int
	}
	var mu sync.Mutex
	var resets []resetRec
	var fresh []string // created in the concurrent phase and never reset
	resetBase := map[int]bool{}
	clients, rounds := 6, 150
	if cs.Tier == "thorough" {
		rounds = 600
	}
	adminT := mTarget{Route: "plain", DeclR: mAdmin, DeclW: mAdmin}
	var cw sync.WaitGroup
	for c := 0; c < clients; c++ {
		cw.Add(1)
		go func(c int) {
			defer cw.Done()
			for i := 0; i < rounds; i++ {
				lo := w.doConcurrent(&reqSpec{Via: "handler", Method: "GET", Host: testHost, Path: "/verif/p/m1/m1", Auth: "ok/3/3", Target: mTarget{Route: "plain", DeclR: -1, DeclW: -1}})
				if lo.SetSession == "" {
					continue
				}
				w.b.Count("sessions_created", 1)
				if i%5 == 4 {
					mu.Lock()
					fresh = append(fresh, lo.SetSession)
					mu.Unlock()
					continue
				}
				victim := lo.SetSession
				if i%2 == 1 {
					// reset a session of the standing population instead (this client's share of it):
					// it is certainly part of whatever the cleaner is looking at right now
					if k := c + clients*(i/2); k < len(live) {
						victim = live[k]
						mu.Lock()
						resetBase[k] = true
						fresh = append(fresh, lo.SetSession)
						mu.Unlock()
					}
				}
				ro := w.doConcurrent(&reqSpec{Via: "handler", Method: "GET", Host: testHost, Path: "/api/v1/auth/reset", Cookie: cookieName + "=" + victim,
					Authz:  resetAuthzVariants(nil)[(c+i)%len(resetAuthzVariants(nil))],
					Target: mTarget{Route: "endpoint", DeclR: mAnyone, DeclW: mNotSupported}})
				w.b.Count("session_resets", 1)
				mu.Lock()
				resets = append(resets, resetRec{victim, ro.Status})
				mu.Unlock()
			}
		}(c)
	}
	cw.Wait()
	stop.Store(true)
	bg.Wait()
	w.b.Count("cleaner_passes", passes.Load())
	w.b.Max("max_concurrent_requests", w.maxInflight.Load())
	// judgement, sequentially, after everything has come to rest
	check := func(cookie string) *obs {
		return w.do(&reqSpec{Via: "handler", Method: "GET", Host: testHost, Path: "/verif/p/3/3", Cookie: cookieName + "=" + cookie, Target: adminT})
	}
	for _, rr := range resets {
		if rr.status != 401 {
			j.b.Count("reset_not_answered_401", 1)
			continue
		}
		o := check(rr.cookie)
		j.b.Eval(1)
		j.b.Count("sessclean_reset_checks", 1)
		if o.Invoked > 0 {
			j.b.Violation("C12:reset-session-still-grants:after-answered-reset",
				fmt.Sprintf("session reset was answered 401 \"Session deleted.\" (session cleaner running concurrently, reset requests carry assorted Authorization headers); afterwards the old cookie still runs an Admin-only handler (token seen %v)", o.Tok),
				map[string]any{"obs": o, "cleaner_passes": passes.Load(), "sessions": len(live), "replay": tableReplay{Mode: "sessclean"}})
		}
	}
	lost := func(cookie, cls string) {
		o := check(cookie)
		j.b.Eval(1)
		j.b.Count("sessclean_live_checks", 1)
		if o.Invoked == 0 {
			j.b.Violation("C12:live-session-lost:cleaner-concurrent:"+cls,
				fmt.Sprintf("a session (admin/admin) that was neither reset nor expired no longer grants after the session cleaner ran concurrently (status %d)", o.Status),
				map[string]any{"obs": o, "cleaner_passes": passes.Load(), "replay": tableReplay{Mode: "sessclean"}})
		}
	}
	for _, c := range fresh {
		lost(c, "created-during-clean")
	}
	for i, c := range live {
		// population sessions with token 3/3 or higher for read: i%4 >= 2
		if 1+i%4 >= 3 && i%7 == 0 && !resetBase[i] {
			lost(c, "created-before")
		}
	}
	j.b.DistinctS(fmt.Sprintf("sessclean|%d|%d|%s", cs.Seed, cs.Shard, cs.Build))
	j.b.DistinctS(fmt.Sprintf("sessclean-resets|%d|%d", cs.Shard, len(resets)))
	return nil
}

// keyPermWords: what an admin may write behind read= / write= of a key entry. Documented:
// anyone, user, admin (or nothing). Everything else must make the entry grant nothing.
var keyPermWords = []string{"", "anyone", "user", "admin", "self", "Self", "SELF", "dynamic", "Dynamic", "notfound", "notsupported", "invalid", "root", "superuser",
	"4", "3", "1", "-1", "0", "Admin", "USER", "AnyOne", "admin ", " user", "adminx", "use", "permitself", "PermitAdmin", "*", "admin,self"}

// runKeyPerm configures one key per (read word, write word) pair and presents every key.
func runKeyPerm(w *world, j *judge, cs childSpec) error {
	r := vlib.NewRand(cs.Seed, "C12/keyperm", uint64(cs.Shard))
	var list []cfgKey
	for _, a := range keyPermWords {
		for _, b := range keyPermWords {
			list = append(list, cfgKey{Key: "P" + randKey(r, r.Range(6, 16)), R: a, W: b, Tag: "perm[" + a + "|" + b + "]"})
		}
	}
	vlib.Shuffle(r, list)
	if err := w.setKeys(list); err != nil {
		return err
	}
	targets := []target{
		{"/verif/p/m1/m1", mTarget{"plain", mDynamic, mDynamic}}, {"/verif/p/2/2", mTarget{"plain", mUser, mUser}}, {"/verif/p/3/3", mTarget{"plain", mAdmin, mAdmin}},
		{"/verif/p/4/4", mTarget{"plain", mSelf, mSelf}}, {"/api/v1/verif/e/4/3", mTarget{"endpoint", mSelf, mAdmin}},
	}
	gp := []methodVar{{"GET", "", ""}, {"POST", "", ""}}
	w.b.Count("table_cells_planned", int64(len(list)*len(targets)*len(gp)))
	for i, k := range list {
		form := "Bearer " + k.Key
		if i%3 == 1 {
			form = "Basic " + b64(k.Key+":")
		}
		p := prepared{cv: credVal{Tag: "keyperm/" + k.Tag, Authz: form}, ok: true}
		for _, t := range targets {
			for _, mv := range gp {
				j.tableCell("keyperm", p, t, mv, "")
				j.b.Count("keyperm_cells", 1)
			}
		}
	}
	j.b.Count("keyperm_keys", int64(len(list)))
	j.b.Count("keyperm_keys_model_valid", int64(len(w.model.Keys)))
	return nil
}

// runExpiredTwice: expired session cookies are presented again and again, the session
// cleaner runs, and then new logins and cookie requests follow. Everything must keep
// being answered (the child-wide hang monitor in guard.go decides a stall structurally).
func runExpiredTwice(w *world, j *judge, cs childSpec) error {
	r := vlib.NewRand(cs.Seed, "C12/expiredtwice", uint64(cs.Shard))
	targets := diagTargets()
	gp := []methodVar{{"GET", "", ""}, {"POST", "", ""}, {"HEAD", "", ""}}
	cell := func(mode string, p prepared, t target, mv methodVar) {
		w.b.Count("table_cells_planned", 1)
		j.tableCell(mode, p, t, mv, "")
	}
	for round := 0; round < cs.N; round++ {
		var ps []prepared
		n := r.Range(3, 10)
		for i := 0; i < n; i++ {
			a, b := r.Range(1, 4), r.Range(1, 4)
			p := w.prepareCred(credVal{Tag: fmt.Sprintf("cookie-expired-repeat/%d/%d", a, b), SessKind: "expired", SessR: a, SessW: b}, nil)
			if !p.ok {
				return fmt.Errorf("login: %s", p.skip)
			}
			ps = append(ps, p)
		}
		w.expireSessions()
		// one live session that is used in between (its own mutex is taken and released)
		livep := w.prepareCred(credVal{Tag: "cookie-valid/3/3", SessKind: "valid", SessR: 3, SessW: 3}, nil)
		if !livep.ok {
			return fmt.Errorf("login: %s", livep.skip)
		}
		for rep := 0; rep < 3; rep++ {
			for _, p := range ps {
				t, mv := vlib.Pick(r, targets...), vlib.Pick(r, gp...)
				cell("expired-repeat", p, t, mv)
				j.b.Count("expired_cookie_presentations", 1)
				cell("expired-repeat", livep, vlib.Pick(r, targets...), mv)
			}
		}
		w.progress.Add(1)
		api.VerifCleanSessions()
		w.b.Count("cleaner_passes", 1)
		// afterwards: the same cookies once more (now unknown), the live one, and new logins
		for _, p := range ps {
			cell("expired-repeat-after-clean", p, vlib.Pick(r, targets...), vlib.Pick(r, gp...))
			j.b.Count("expired_cookie_presentations", 1)
		}
		cell("expired-repeat-after-clean", livep, target{"/verif/p/3/3", mTarget{"plain", mAdmin, mAdmin}}, gp[0])
		np := w.prepareCred(credVal{Tag: "cookie-valid/2/4", SessKind: "valid", SessR: 2, SessW: 4}, nil)
		if !np.ok {
			return fmt.Errorf("login after clean: %s", np.skip)
		}
		cell("expired-repeat-after-clean", np, target{"/verif/p/2/4", mTarget{"plain", mUser, mSelf}}, gp[1])
		j.b.Count("expired_repeat_rounds", 1)
	}
	return nil
}

var invalidEntryKinds = []string{"bad-role", "bad-role-write", "bad-expires", "empty-key", "unparsable-url", "unparsable-url-2", "bad-role-uppercase-self"}

// invalidEntry builds an entry of the key setting that is not a documented key entry.
// Key is what a client would present for it (it must grant nothing).
func invalidEntry(r *vlib.Rand, kind string) cfgKey {
	name := "I" + randKey(r, r.Range(6, 14))
	k := cfgKey{Key: name, Invalid: true, Tag: "invalid/" + kind}
	switch kind {
	case "bad-role":
		k.Raw = name + "?read=root&write=admin"
	case "bad-role-write":
		k.Raw = name + "?read=admin&write=owner"
	case "bad-expires":
		k.Raw = name + "?read=admin&write=admin&expires=tomorrow"
	case "empty-key":
		k.Raw, k.Key = "?read=admin&write=admin", "admin"
	case "unparsable-url":
		k.Raw = "%zz" + name + "?read=admin&write=admin"
	case "unparsable-url-2":
		k.Raw, k.Key = "http://[::1"+name+"?read=admin&write=admin", "[::1"+name
	default:
		k.Raw = name + "?read=SELF&write=admin"
	}
	return k
}

// runBadEntry: a setting that removes one key and downgrades another ALSO contains an
// entry that is not a valid key entry. The newest setting decides all the same: the removed
// key and the invalid entry grant nothing, the downgraded key grants its new permissions,
// untouched keys keep theirs.
func runBadEntry(w *world, j *judge, cs childSpec) error {
	r := vlib.NewRand(cs.Seed, "C12/badentry", uint64(cs.Shard))
	targets := []target{
		{"/verif/p/m1/m1", mTarget{"plain", mDynamic, mDynamic}}, {"/verif/p/2/2", mTarget{"plain", mUser, mUser}}, {"/verif/p/3/3", mTarget{"plain", mAdmin, mAdmin}},
		{"/api/v1/verif/e/3/2", mTarget{"endpoint", mAdmin, mUser}},
	}
	gp := []methodVar{{"GET", "", ""}, {"POST", "", ""}}
	present := func(mode string, keys []cfgKey) {
		for i, k := range keys {
			form := "Bearer " + k.Key
			if i%2 == 1 {
				form = "Basic " + b64(k.Key+":")
			}
			p := prepared{cv: credVal{Tag: "badentry/" + k.Tag, Authz: form}, ok: true}
			for _, t := range targets {
				for _, mv := range gp {
					w.b.Count("table_cells_planned", 1)
					j.tableCell(mode, p, t, mv, "")
					j.b.Count("badentry_cells", 1)
				}
			}
		}
	}
	for round := 0; round < cs.N; round++ {
		for _, kind := range invalidEntryKinds {
			a := cfgKey{Key: "A" + randKey(r, 12), R: kwAdmin, W: kwAdmin, Tag: "removed"}
			b := cfgKey{Key: "B" + randKey(r, 12), R: kwAdmin, W: kwUser, Tag: "downgraded"}
			c := cfgKey{Key: "C" + randKey(r, 12), R: kwUser, W: kwAdmin, Tag: "kept"}
			if err := w.setKeys([]cfgKey{a, b, c}); err != nil {
				return err
			}
			present("badentry-before", []cfgKey{a, b, c})
			b2 := b
			b2.R, b2.W = vlib.Pick(r, "", kwAnyone, kwUser), vlib.Pick(r, "", kwAnyone)
			d := cfgKey{Key: "D" + randKey(r, 12), R: kwUser, W: kwUser, Tag: "added"}
			bad := invalidEntry(r, kind)
			next := []cfgKey{b2, c, d}
			pos := r.Intn(len(next) + 1)
			next = append(next[:pos], append([]cfgKey{bad}, next[pos:]...)...)
			if err := w.setKeys(next); err != nil {
				return err
			}
			j.b.Seen("badentry_kinds", kind)
			present("badentry-after", []cfgKey{a, b2, c, d, bad})
		}
	}
	j.b.Count("badentry_rounds", int64(cs.N))
	return nil
}

// runRevokeBy: the ways an admin takes access away again — setting an empty key list or
// false, or resetting the option to its default (value nil, what the config database's
// Delete and a user interface's "reset" do) — for the API keys and for development mode.
// Once the change has returned and nothing is running or pending, the value that config's
// own getters report is the one in force.
func runRevokeBy(w *world, j *judge, cs childSpec) error {
	r := vlib.NewRand(cs.Seed, "C12/revokeby", uint64(cs.Shard))
	targets := []target{
		{"/verif/p/m1/m1", mTarget{"plain", mDynamic, mDynamic}}, {"/verif/p/2/2", mTarget{"plain", mUser, mUser}}, {"/verif/p/3/3", mTarget{"plain", mAdmin, mAdmin}},
		{"/verif/p/4/4", mTarget{"plain", mSelf, mSelf}}, {"/api/v1/verif/e/3/2", mTarget{"endpoint", mAdmin, mUser}},
	}
	gp := []methodVar{{"GET", "", ""}, {"POST", "", ""}}
	present := func(mode string, keys []cfgKey) {
		ps := []prepared{{cv: credVal{Tag: "revokeby/none"}, ok: true}}
		for i, k := range keys {
			form := "Bearer " + k.Key
			if i%2 == 1 {
				form = "Basic " + b64(":"+k.Key)
			}
			ps = append(ps, prepared{cv: credVal{Tag: "revokeby/" + k.Tag, Authz: form}, ok: true})
		}
		for _, p := range ps {
			for _, t := range targets {
				for _, mv := range gp {
					w.b.Count("table_cells_planned", 1)
					j.tableCell(mode, p, t, mv, "")
					j.b.Count("revokeby_cells", 1)
				}
			}
		}
	}
	for round := 0; round < cs.N; round++ {
		for _, how := range []string{"reset", "empty", "reset-after-reset", "empty-then-reset"} {
			a := cfgKey{Key: "A" + randKey(r, 12), R: kwAdmin, W: kwAdmin, Tag: "admin-key"}
			b := cfgKey{Key: "B" + randKey(r, 12), R: kwUser, W: kwAnyone, Tag: "user-key"}
			if err := w.setKeys([]cfgKey{a, b}); err != nil {
				return err
			}
			present("revokeby-keys-before", []cfgKey{a, b})
			var err error
			switch how {
			case "reset":
				err = w.resetKeys()
			case "empty":
				err = w.setKeys(nil)
			case "reset-after-reset":
				if err = w.resetKeys(); err == nil {
					err = w.resetKeys()
				}
			default:
				if err = w.setKeys(nil); err == nil {
					err = w.resetKeys()
				}
			}
			if err != nil {
				return err
			}
			j.b.Seen("revokeby_ways", "keys/"+how)
			present("revokeby-keys-after-"+how, []cfgKey{a, b})
			// and the keys can be configured again afterwards
			if err := w.setKeys([]cfgKey{b}); err != nil {
				return err
			}
			present("revokeby-keys-again", []cfgKey{a, b})
		}
		for _, how := range []string{"reset", "false"} {
			if err := w.setDev(true); err != nil {
				return err
			}
			present("revokeby-dev-on", w.configured)
			var err error
			if how == "reset" {
				err = w.resetDev()
			} else {
				err = w.setDev(false)
			}
			if err != nil {
				return err
			}
			j.b.Seen("revokeby_ways", "dev/"+how)
			present("revokeby-dev-after-"+how, w.configured)
		}
	}
	return nil
}

// runBurst: two changes of the key setting in quick succession — the second one arrives
// while the import of the first is still running (the first import is parked inside its
// api.keys.updated hook until the second SetConfigOption has returned). Once nothing is
// running or pending, the newest setting is the enforced one.
func runBurst(w *world, j *judge, cs childSpec) error {
	r := vlib.NewRand(cs.Seed, "C12/burst", uint64(cs.Shard))
	targets := []target{{"/verif/p/2/2", mTarget{"plain", mUser, mUser}}, {"/verif/p/3/3", mTarget{"plain", mAdmin, mAdmin}}, {"/verif/p/m1/m1", mTarget{"plain", mDynamic, mDynamic}}}
	gp := []methodVar{{"GET", "", ""}, {"POST", "", ""}}
	for round := 0; round < cs.N; round++ {
		a := cfgKey{Key: "A" + randKey(r, 12), R: kwAdmin, W: kwAdmin, Tag: "first-setting"}
		b := cfgKey{Key: "B" + randKey(r, 12), R: kwUser, W: kwUser, Tag: "second-setting"}
		c := cfgKey{Key: "C" + randKey(r, 12), R: kwAdmin, W: kwUser, Tag: "both-settings"}
		c2 := c
		c2.R = kwAnyone
		l1, l2 := []cfgKey{a, c}, []cfgKey{c2, b}
		if round%3 == 2 {
			l2 = nil // the second change revokes everything
		}
		parked, release := make(chan struct{}), make(chan struct{})
		armed := true
		park := func() {
			armed = false
			close(parked)
			select {
			case <-release:
			case <-time.After(60 * time.Second):
			}
		}
		w.keyEvMu.Lock()
		if round%2 == 0 {
			// park the first import at the end (inside its api.keys.updated hook)
			w.onKeyEv = func(idx int, snap string, dirty bool) {
				if armed && strings.Contains(snap, a.Key) {
					park()
				}
			}
			w.b.Count("burst_parked_in_updated_hook", 1)
		} else {
			// park the first import while it reads the setting (inside the config getter's refresh)
			w.onRefetch = func(option string) {
				if armed && option == api.CfgAPIKeys && strings.Contains(ownStack(), "api.updateAPIKeys") {
					park()
				}
			}
			w.b.Count("burst_parked_in_getter", 1)
		}
		w.keyEvMu.Unlock()
		mk := w.mark()
		if err := w.guarded("SetConfigOption(core/apiKeys)", func() error { return config.SetConfigOption(api.CfgAPIKeys, cfgStrings(l1)) }); err != nil {
			return err
		}
		select {
		case <-parked:
		case <-time.After(60 * time.Second):
			close(release)
			return errInconclusive("burst: the import of the first setting did not start within 60s")
		}
		// the second change lands while the first import is running
		err := w.guarded("SetConfigOption(core/apiKeys)", func() error { return config.SetConfigOption(api.CfgAPIKeys, cfgStrings(l2)) })
		close(release)
		w.keyEvMu.Lock()
		w.onKeyEv, w.onRefetch = nil, nil
		w.keyEvMu.Unlock()
		if err != nil {
			return err
		}
		ok, how := w.awaitImport(mk, cfgStrings(l2))
		if !ok {
			return w.awaitFailed(mk.upd, l2, l2, "burst: api.keys.updated with the second setting")
		}
		if how == settledNoImport {
			w.b.Count("settled_without_import", 1)
			if cur := strings.Join(w.keysGetSafe(), "\n"); cur != strings.Join(cfgStrings(l2), "\n") {
				return w.awaitFailed(mk.upd, l2, l2, "burst: the second setting")
			}
		}
		w.configured = l2
		w.model.setKeys(l2)
		w.b.Count("key_updates_awaited", 1)
		w.b.Count("burst_rounds", 1)
		for i, k := range []cfgKey{a, b, c} {
			form := "Bearer " + k.Key
			if i == 1 {
				form = "Basic " + b64(k.Key+":")
			}
			p := prepared{cv: credVal{Tag: "burst/" + k.Tag, Authz: form}, ok: true}
			for _, t := range targets {
				for _, mv := range gp {
					w.b.Count("table_cells_planned", 1)
					j.tableCell("burst", p, t, mv, "")
					j.b.Count("burst_cells", 1)
				}
			}
		}
	}
	return nil
}

// ownStack returns the stack of the calling goroutine.
func ownStack() string {
	buf := make([]byte, 8192)
	return string(buf[:runtime.Stack(buf, false)])
}

// runOverlap: development mode is switched off (or reset); then two requests overlap — the
// first one is parked inside the refresh of the api package's concurrency-safe devMode
// getter (config.get.refetch), the second one is sent meanwhile. Whatever the second one
// does (wait for the refresh or not), it must be judged by the setting in force: refused.
func runOverlap(w *world, j *judge, cs childSpec) error {
	r := vlib.NewRand(cs.Seed, "C12/overlap", uint64(cs.Shard))
	targets := []target{{"/verif/p/4/4", mTarget{"plain", mSelf, mSelf}}, {"/verif/p/3/3", mTarget{"plain", mAdmin, mAdmin}}, {"/verif/p/2/4", mTarget{"plain", mUser, mSelf}},
		{"/api/v1/verif/e/4/3", mTarget{"endpoint", mSelf, mAdmin}}}
	for round := 0; round < cs.N; round++ {
		if err := w.setDev(true); err != nil {
			return err
		}
		// use the getter while development mode is on (it caches "true")
		for k := 0; k < 3; k++ {
			t := vlib.Pick(r, targets...)
			w.b.Count("table_cells_planned", 1)
			j.tableCell("overlap-dev-on", prepared{cv: credVal{Tag: "none"}, ok: true}, t, methodVars[r.Intn(5)], "")
		}
		var err error
		if round%2 == 0 {
			err = w.setDev(false)
		} else {
			err = w.resetDev()
		}
		if err != nil {
			return err
		}
		parked, release := make(chan struct{}), make(chan struct{})
		armed := true
		w.keyEvMu.Lock()
		w.onRefetch = func(option string) {
			if armed && option == config.CfgDevModeKey && strings.Contains(ownStack(), "api.(*mainHandler).handle") {
				armed = false
				close(parked)
				select {
				case <-release:
				case <-time.After(60 * time.Second):
				}
			}
		}
		w.keyEvMu.Unlock()
		t1, t2 := vlib.Pick(r, targets...), vlib.Pick(r, targets...)
		mv1, mv2 := methodVars[r.Intn(5)], methodVars[r.Intn(5)]
		sp1 := specFor(prepared{cv: credVal{Tag: "none"}, ok: true}, t1, mv1, "")
		sp2 := specFor(prepared{cv: credVal{Tag: "none"}, ok: true}, t2, mv2, "")
		e1, e2 := w.model.expect(sp1, time.Now()), w.model.expect(sp2, time.Now())
		d1, d2 := make(chan *obs, 1), make(chan *obs, 1)
		go func() { d1 <- w.doConcurrent(sp1) }()
		select {
		case <-parked:
		case o1 := <-d1:
			// the getter did not have to refresh (nothing to park on): judge and go on
			d1 <- o1
		case <-time.After(60 * time.Second):
			close(release)
			return errInconclusive("overlap: first request neither parked nor returned within 60s")
		}
		go func() { d2 <- w.doConcurrent(sp2) }()
		// the second request either completes, or waits for the refresh of the first one
		// (parked on the getter's mutex): both are fine, then the first one is released
		var o2 *obs
		for o2 == nil {
			select {
			case o2 = <-d2:
			case <-time.After(20 * time.Millisecond):
				if len(blockedIn(allStacks(), "config.(*safe).GetAsBool.func1")) > 0 {
					w.b.Count("overlap_second_waited_for_refresh", 1)
					goto released
				}
			}
		}
		w.b.Count("overlap_second_completed_during_refresh", 1)
	released:
		close(release)
		w.keyEvMu.Lock()
		w.onRefetch = nil
		w.keyEvMu.Unlock()
		if o2 == nil {
			select {
			case o2 = <-d2:
			case <-time.After(60 * time.Second):
				return errInconclusive("overlap: second request did not return within 60s after the first was released")
			}
		}
		var o1 *obs
		select {
		case o1 = <-d1:
		case <-time.After(60 * time.Second):
			return errInconclusive("overlap: first request did not return within 60s after its release")
		}
		jj := &judge{w: w, b: j.b, logLevel: j.logLevel}
		jj.replay = func(*reqSpec) any { return tableReplay{Mode: "overlap", CredTag: "none"} }
		w.b.Count("table_cells_planned", 2)
		w.b.Count("table_cells_done", 2)
		jj.check(sp2, e2, o2)
		jj.check(sp1, e1, o1)
		j.b.Count("overlap_rounds", 1)
		j.b.DistinctS(fmt.Sprintf("overlap|%d|%d|%s|%s|%s|%s", cs.Shard, round, t1.Path, mv1.Method, t2.Path, mv2.Method))
	}
	return nil
}
