package main

import (
	"strings"
)

// ---------------------------------------------------------------------------------
// Reference model: a plain map key -> record {payload, form, created, modified,
// expires, ttl, deleted, secret, crown-jewel}. It knows nothing about backends,
// caches or shadow deletes: those must not be observable.

// tval is a timestamp that portbase derived from its own clock reading during an
// operation. The harness reads the same clock before (t0) and after (t1) the call:
// the value must lie in [v, v+slack] with slack = t1-t0 (0 unless the call straddled
// a second boundary). The first observation pins it.
type tval struct{ v, slack int64 }

func (t *tval) match(got int64) bool {
	if got >= t.v && got <= t.v+t.slack {
		t.v, t.slack = got, 0
		return true
	}
	return false
}

type mmeta struct {
	created   tval
	modified  tval
	expires   tval  // absolute expiry (unix s), 0 = none
	ttl       int64 // relative expiry in s (0 = none); expires is recomputed as now+ttl on every save
	deleted   bool
	deletedAt tval
	secret    bool
	crown     bool
}

// update is what saving a record does to its metadata (record.Meta.Update as
// documented: modified = now, created = now if unset, expiry = now+ttl if a ttl is set).
func (m *mmeta) update(t0, t1 int64) {
	m.modified = tval{t0, t1 - t0}
	if m.created.v == 0 {
		m.created = tval{t0, t1 - t0}
	}
	if m.ttl > 0 && !m.deleted {
		m.expires = tval{t0 + m.ttl, t1 - t0}
	}
}

func (m *mmeta) reset() {
	m.created, m.modified, m.expires, m.deletedAt = tval{}, tval{}, tval{}, tval{}
	m.ttl, m.deleted = 0, false
}

// portbaseDeleted maps the model's (deleted, ttl) pair to the Meta.Deleted encoding.
func (m *mmeta) portbaseDeleted() int64 {
	if m.deleted {
		return m.deletedAt.v
	}
	return -m.ttl
}

type mrec struct {
	stored   bool
	form     string
	c        content
	data     []byte // serialized payload handed to the database (json / opaque forms)
	format   uint8
	meta     mmeta
	lastOp   string // last mutating operation that touched the key (signature class)
	verified bool   // the key was read back intact since lastOp
	tainted  bool   // a violation left the state of this key undetermined: skip until rewritten
}

type model struct {
	recs map[string]*mrec
}

func newModel() *model { return &model{recs: map[string]*mrec{}} }

func (m *model) get(k string) *mrec {
	r := m.recs[k]
	if r == nil {
		r = &mrec{}
		m.recs[k] = r
	}
	return r
}

// vis reports whether the record is visible at time now, and whether that is certain.
func (r *mrec) vis(now0, now1 int64) (visible, certain bool) {
	if r == nil || !r.stored || r.meta.deleted {
		return false, true
	}
	e := r.meta.expires
	if e.v <= 0 {
		return true, true
	}
	// invisible iff expires < now
	if e.v+e.slack < now0 {
		return false, true
	}
	if e.v >= now1 {
		return true, true
	}
	return false, false
}

// matches reports whether the record satisfies the query's value condition. ok=false:
// not determined by the documented semantics (record without accessible fields).
func (r *mrec) matches(q *qSpec) (match, ok bool) {
	if q.Where == nil {
		return true, true
	}
	if r.form == "opaque" {
		return false, false
	}
	return q.Where.eval(r.c), true
}

func hasPrefix(k, p string) bool { return strings.HasPrefix(k, p) }
