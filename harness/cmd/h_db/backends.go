package main

import (
	"context"
	"errors"
	"sync"
	"time"

	"github.com/safing/portbase/database/iterator"
	"github.com/safing/portbase/database/query"
	"github.com/safing/portbase/database/record"
	"github.com/safing/portbase/database/storage"
	"github.com/safing/portbase/database/storage/badger"
	"github.com/safing/portbase/database/storage/bbolt"
	"github.com/safing/portbase/database/storage/fstree"
	"github.com/safing/portbase/database/storage/hashmap"
)

// The real backends are registered a second time under the names v<backend> through
// the public storage.Register API. The factory returns the *unwrapped* real backend
// object (so every optional-capability type assertion of the controller behaves as
// usual) and remembers it, which gives the harness the raw storage view the in-package
// tests have (Controller.storage) — used only for the "physically removes" clause.

var (
	rawMu     sync.Mutex
	rawByName = map[string]storage.Interface{}
	rawLoc    = map[string]string{}
)

func rawOf(name string) storage.Interface {
	rawMu.Lock()
	defer rawMu.Unlock()
	return rawByName[name]
}

func locOf(name string) string {
	rawMu.Lock()
	defer rawMu.Unlock()
	return rawLoc[name]
}

func keep(f storage.Factory) storage.Factory {
	return func(name, location string) (storage.Interface, error) {
		s, err := f(name, location)
		if err == nil {
			rawMu.Lock()
			rawByName[name] = s
			rawLoc[name] = location
			rawMu.Unlock()
		}
		return s, err
	}
}

func registerBackends() {
	_ = storage.Register("vhashmap", keep(hashmap.NewHashMap))
	_ = storage.Register("vbbolt", keep(bbolt.NewBBolt))
	_ = storage.Register("vfstree", keep(fstree.NewFSTree))
	_ = storage.Register("vbadger", keep(badger.NewBadger))
	_ = storage.Register("vfaulty", newFaulty)
}

// ---------------------------------------------------------------------------------
// faulty: a harness storage backend (public storage.Interface) whose query emits k
// records and then finishes the iterator with an injected error, the way every real
// backend finishes its iterator: queryIter.Finish(err) from the producing goroutine.

var errInjected = errors.New("verif: injected storage error")

type faulty struct {
	name string
	mu   sync.Mutex
	k    int           // records to emit before failing
	fin  chan struct{} // closed when Finish returned (harness-side event)
}

var (
	faultyMu sync.Mutex
	faulties = map[string]*faulty{}
)

func newFaulty(name, location string) (storage.Interface, error) {
	f := &faulty{name: name}
	faultyMu.Lock()
	faulties[name] = f
	faultyMu.Unlock()
	return f, nil
}

func faultyOf(name string) *faulty {
	faultyMu.Lock()
	defer faultyMu.Unlock()
	return faulties[name]
}

func (f *faulty) arm(k int) chan struct{} {
	f.mu.Lock()
	defer f.mu.Unlock()
	f.k = k
	f.fin = make(chan struct{})
	return f.fin
}

func (f *faulty) Get(key string) (record.Record, error) { return nil, storage.ErrNotFound }
func (f *faulty) Put(r record.Record) (record.Record, error) {
	return r, nil
}
func (f *faulty) Delete(key string) error { return nil }
func (f *faulty) ReadOnly() bool          { return false }
func (f *faulty) Injected() bool          { return false }
func (f *faulty) Shutdown() error         { return nil }
func (f *faulty) MaintainRecordStates(ctx context.Context, purgeDeletedBefore time.Time, shadowDelete bool) error {
	return nil
}

func (f *faulty) Query(q *query.Query, local, internal bool) (*iterator.Iterator, error) {
	f.mu.Lock()
	k, fin := f.k, f.fin
	f.mu.Unlock()
	it := iterator.New()
	go func() {
		defer close(fin)
		for i := 0; i < k; i++ {
			w, _ := record.NewWrapper(f.name+":k"+string(rune('a'+i%26)), &record.Meta{Created: 1, Modified: 1}, 74, []byte(`{"S":"x"}`))
			select {
			case it.Next <- w:
			case <-it.Done:
				it.Finish(errInjected)
				return
			}
		}
		it.Finish(errInjected)
	}()
	return it, nil
}
