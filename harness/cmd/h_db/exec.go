package main

import (
	"bytes"
	"context"
	"encoding/json"
	"errors"
	"fmt"
	"os"
	"path/filepath"
	"sort"
	"strings"
	"time"

	"github.com/safing/portbase/database"
	"github.com/safing/portbase/database/record"
	"github.com/safing/portbase/database/storage"
	"github.com/safing/portbase/formats/dsd"

	"verifharness/internal/vlib"
)

// ---------------------------------------------------------------------------------
// Executor: runs one history against the real database system through a
// database.Interface and compares every result with the reference model (online
// monitor), with full read-backs at quiescent points.

type world struct {
	cs    childSpec
	cfg   cfgSpec
	b     *vlib.Batch
	db    string
	iface *database.Interface
	raw   storage.Interface
	m     *model
	h     *history
	log   []string
	step  int
	used  map[string]bool
	phase string // set while a read-back after a maintenance/flush operation runs (signature class)

	dwCancel context.CancelFunc
	dwDone   chan error

	aborted  bool
	compared int
	found    int

	postMaint func() // runs right after the maintenance call returned (boundary steps)

	soft     bool     // collect mismatches instead of reporting them (state may legitimately lag)
	softHits []string // what was collected
}

func nowS() int64 { return time.Now().Unix() }

func errClass(err error) string {
	switch {
	case err == nil:
		return "ok"
	case errors.Is(err, database.ErrNotFound):
		return "notfound"
	case errors.Is(err, database.ErrNotImplemented):
		return "notimpl"
	case errors.Is(err, database.ErrPermissionDenied):
		return "denied"
	default:
		return "error"
	}
}

func isTimeout(err error) bool {
	return err != nil && strings.Contains(err.Error(), "timeout")
}

func (w *world) logf(format string, a ...any) {
	s := fmt.Sprintf(format, a...)
	if len(s) > 400 {
		s = s[:400] + "…"
	}
	w.log = append(w.log, fmt.Sprintf("%03d %s", w.step, s))
}

func tailS(l []string, n int) []string {
	if len(l) > n {
		return l[len(l)-n:]
	}
	return l
}

// viol records a violation. oracle = which comparison failed, class = operation /
// precondition class; the configuration class (backend/cache) is appended.
func (w *world) viol(oracle, class, what string, extra map[string]any) {
	if w.soft {
		w.softHits = append(w.softHits, oracle+": "+what)
		return
	}
	sig := "C02:" + oracle + ":" + class + ":" + w.cfg.class()
	// the history travels as a JSON string: 64-bit integers must survive the trip through
	// generic JSON values on the way into the replay file
	hj, _ := json.Marshal(w.h)
	d := map[string]any{"mode": "hist", "cfg": w.cfg, "history_json": string(hj), "history_no": w.h.No, "step": w.step, "build": w.cs.Build,
		"log_tail": tailS(w.log, 80)}
	for k, v := range extra {
		d[k] = v
	}
	w.logf("!! VIOLATION %s: %s", sig, what)
	w.b.Violation(sig, what, d)
}

func (w *world) inconclusive(format string, a ...any) {
	w.b.Inconclusive("%s history %d step %d: %s", w.cfg.label(), w.h.No, w.step, fmt.Sprintf(format, a...))
	w.aborted = true
}

// after names the precondition class of a mismatch on a key: the last operation that
// changed the key — unless the key was already seen intact since then and the check
// runs right after a maintenance/flush call, which then is the suspect.
func (w *world) after(mr *mrec) string {
	if mr == nil || mr.lastOp == "" {
		if w.phase != "" {
			return w.phase
		}
		return "after-nothing"
	}
	if w.phase != "" && mr.verified {
		return w.phase
	}
	return "after-" + mr.lastOp
}

func (w *world) taint(mr *mrec) {
	if mr != nil && !w.soft {
		mr.tainted = true
	}
}

// kindClass folds the list of differing aspects into a stable signature part.
func kindClass(kinds []string) string {
	var metas []string
	for _, k := range kinds {
		if !strings.HasPrefix(k, "meta-") {
			return "content"
		}
		metas = append(metas, k)
	}
	if len(metas) == 1 {
		return metas[0]
	}
	return "meta"
}

// ---------------------------------------------------------------------------------
// building the client's record object

func (w *world) fullKey(k string) string { return w.db + ":" + k }

// build creates the record object the client hands to the database and the model
// record that a plain map would hold afterwards (before the save-time update).
func (w *world) build(rs recSpec, old *mrec, kind string, t0 int64) (record.Record, *mrec) {
	nm := &mrec{stored: true, form: rs.Form}
	var pm *record.Meta
	if rs.Meta == "keep" && old != nil && old.stored {
		nm.meta = old.meta
		nm.meta.created.slack, nm.meta.modified.slack, nm.meta.expires.slack, nm.meta.deletedAt.slack = 0, 0, 0, 0
		pm = &record.Meta{Created: nm.meta.created.v, Modified: nm.meta.modified.v, Expires: nm.meta.expires.v, Deleted: nm.meta.portbaseDeleted()}
		if nm.meta.secret {
			pm.MakeSecret()
		}
		if nm.meta.crown {
			pm.MakeCrownJewel()
		}
	} else if len(rs.Edits) > 0 {
		pm = &record.Meta{}
	}
	for _, e := range rs.Edits {
		switch e.K {
		case "abs":
			pm.SetAbsoluteExpiry(t0 + e.V)
			nm.meta.expires, nm.meta.ttl, nm.meta.deleted = tval{t0 + e.V, 0}, 0, false
		case "noexp":
			pm.SetAbsoluteExpiry(0)
			nm.meta.expires, nm.meta.ttl, nm.meta.deleted = tval{}, 0, false
		case "rel":
			pm.SetRelativateExpiry(e.V)
			nm.meta.ttl, nm.meta.deleted = e.V, false
		case "secret":
			pm.MakeSecret()
			nm.meta.secret = true
		case "crown":
			pm.MakeCrownJewel()
			nm.meta.crown = true
		case "del":
			// the way the repository's own system test deletes: set Meta.Deleted and save
			pm.Deleted = t0 + e.V
			nm.meta.deleted, nm.meta.deletedAt, nm.meta.ttl = true, tval{t0 + e.V, 0}, 0
		}
	}
	if kind == "putnew" {
		nm.meta.reset()
	}
	var rec record.Record
	switch rs.Form {
	case "struct":
		c := rs.C.full()
		t := &TestRec{S: *c.S, T: *c.T, I: *c.I, N: *c.N, F: *c.F, B: *c.B}
		// the model's view of a typed record is its serialized form
		nm.c, _ = jsonView(t)
		t.SetKey(w.fullKey(rs.Key))
		if pm != nil {
			t.SetMeta(pm)
		}
		rec = t
	case "estruct":
		c := rs.C.full()
		t := &TestRecE{EIn1: EIn1{EIn2: EIn2{I: *c.I}, S: *c.S}, EPtr: &EPtr{F: *c.F, B: *c.B},
			EShadow: EShadow{T: "decoy:" + *c.T, N: *c.N}, T: *c.T}
		if rs.NilPtr {
			t.EPtr = nil
		}
		nm.c, _ = jsonView(t)
		t.SetKey(w.fullKey(rs.Key))
		if pm != nil {
			t.SetMeta(pm)
		}
		rec = t
	case "json":
		nm.c = rs.C
		data, _ := json.Marshal(rs.C)
		nm.data, nm.format = data, dsd.JSON
		wr, _ := record.NewWrapper(w.fullKey(rs.Key), pm, dsd.JSON, append([]byte(nil), data...))
		rec = wr
	default: // opaque: a serialized payload the database cannot look into
		nm.c = rs.C
		dumped, err := dsd.Dump(rs.C, dsd.CBOR)
		if err != nil || len(dumped) < 1 {
			dumped = []byte{dsd.CBOR, 0xa0}
		}
		nm.data, nm.format = dumped[1:], dsd.CBOR
		wr, _ := record.NewWrapper(w.fullKey(rs.Key), pm, dsd.CBOR, append([]byte(nil), dumped[1:]...))
		rec = wr
	}
	return rec, nm
}

// ---------------------------------------------------------------------------------
// record comparison

type metaView struct {
	Created, Modified, Expires, Deleted int64
	Secret, Crown                       bool
}

func viewMeta(m *record.Meta) metaView {
	return metaView{m.Created, m.Modified, m.Expires, m.Deleted, !m.CheckPermission(true, false), !m.CheckPermission(false, true)}
}

// cmpMeta compares observed metadata with the model (pinning clock-derived values on
// their first observation). now1 is the harness clock after the observation.
func (w *world) cmpMeta(mr *mrec, mv metaView, now1 int64) (kinds []string) {
	mm := &mr.meta
	if !mm.created.match(mv.Created) {
		kinds = append(kinds, "meta-created")
	}
	mod := mm.modified
	if w.cfg.Cache == "delayed" && now1 > mod.v+mod.slack {
		// flushing the write cache saves the record again (a save re-stamps it)
		mod.slack = now1 - mod.v
	}
	if !mod.match(mv.Modified) {
		kinds = append(kinds, "meta-modified")
	} else {
		mm.modified = mod
	}
	exp := mm.expires
	if w.cfg.Cache == "delayed" && mm.ttl > 0 && now1+mm.ttl > exp.v+exp.slack {
		exp.slack = now1 + mm.ttl - exp.v
	}
	if mm.deleted {
		// the expiry of a deleted record means nothing
	} else if !exp.match(mv.Expires) {
		kinds = append(kinds, "meta-expires")
	} else {
		mm.expires = exp
	}
	if mm.deleted {
		if mv.Deleted <= 0 {
			kinds = append(kinds, "meta-deleted")
		}
	} else if mv.Deleted != -mm.ttl {
		kinds = append(kinds, "meta-ttl")
	}
	if mv.Secret != mm.secret {
		kinds = append(kinds, "meta-secret")
	}
	if mv.Crown != mm.crown {
		kinds = append(kinds, "meta-crownjewel")
	}
	return kinds
}

// cmpRecord compares a record returned by Get or by a query with the model record.
func (w *world) cmpRecord(key string, mr *mrec, r record.Record, now1 int64) (kinds []string, desc string) {
	r.Lock()
	defer r.Unlock()
	if r.Key() != w.fullKey(key) {
		kinds = append(kinds, "key")
	}
	var gotC string
	switch t := r.(type) {
	case *TestRec, *TestRecE:
		form := "struct"
		if _, ok := t.(*TestRecE); ok {
			form = "estruct"
		}
		c, err := jsonView(t)
		gotC = form + " " + c.String()
		if mr.form != form {
			kinds = append(kinds, "form")
		} else if err != nil || !c.equal(mr.c) {
			kinds = append(kinds, "data")
		}
	case *record.Wrapper:
		gotC = fmt.Sprintf("wrapped format=%d %q", t.Format, trunc(t.Data, 200))
		switch mr.form {
		case "struct", "estruct":
			if t.Format != dsd.JSON {
				kinds = append(kinds, "format")
			} else {
				// must load into the typed record again and show the same fields
				var x record.Record = &TestRec{}
				if mr.form == "estruct" {
					x = &TestRecE{}
				}
				if err := dsd.LoadAsFormat(t.Data, t.Format, x); err != nil {
					kinds = append(kinds, "undecodable")
				} else if c, err := jsonView(x); err != nil || !c.equal(mr.c) {
					kinds = append(kinds, "data")
				} else if c2, err := jsonViewOf(t.Data); err != nil || !c2.equal(mr.c) {
					kinds = append(kinds, "data")
				}
			}
		default:
			if t.Format != mr.format {
				kinds = append(kinds, "format")
			} else if !bytes.Equal(t.Data, mr.data) {
				kinds = append(kinds, "data")
			}
		}
	default:
		kinds = append(kinds, "type")
	}
	m := r.Meta()
	if m == nil {
		kinds = append(kinds, "meta-nil")
		return kinds, gotC
	}
	mv := viewMeta(m)
	before := mr.meta
	mk := w.cmpMeta(mr, mv, now1)
	kinds = append(kinds, mk...)
	desc = fmt.Sprintf("got %s meta=%+v; model %s %s meta={created:%+v modified:%+v expires:%+v ttl:%d deleted:%v secret:%v crown:%v}",
		gotC, mv, mr.form, mr.c.String(), before.created, before.modified, before.expires, before.ttl, before.deleted, before.secret, before.crown)
	return kinds, desc
}

func trunc(b []byte, n int) []byte {
	if len(b) > n {
		return b[:n]
	}
	return b
}

// ---------------------------------------------------------------------------------
// operations

func (w *world) doGet(key string) {
	t0 := nowS()
	r, err := w.iface.Get(w.fullKey(key))
	t1 := nowS()
	w.b.Count("op/get", 1)
	w.logf("get %q -> %s", key, errClass(err))
	w.checkGet(key, r, err, t0, t1)
}

func (w *world) checkGet(key string, r record.Record, err error, t0, t1 int64) {
	mr := w.m.recs[key]
	if mr != nil && mr.tainted {
		w.b.Count("skipped_tainted", 1)
		return
	}
	vis, certain := mr.vis(t0, t1)
	if !certain {
		w.b.Count("skipped_time_boundary", 1)
		return
	}
	if isTimeout(err) {
		w.inconclusive("get: %v", err)
		return
	}
	w.compared++
	if !vis {
		w.b.Count("get_expect_notfound", 1)
		switch errClass(err) {
		case "notfound":
		case "ok":
			why := "never stored"
			if mr != nil && mr.stored {
				why = "deleted"
				if !mr.meta.deleted {
					why = "expired"
				}
			}
			var mv metaView
			r.Lock()
			if r.Meta() != nil {
				mv = viewMeta(r.Meta())
			}
			r.Unlock()
			w.viol("get:stale-visible", w.after(mr), fmt.Sprintf("Get(%q) returned a record although the record is %s (returned meta %+v)", key, why, mv),
				map[string]any{"key": key, "returned_meta": mv})
			w.taint(mr)
		default:
			w.viol("get:error", w.after(mr), fmt.Sprintf("Get(%q) failed: %v (expected not-found)", key, err), map[string]any{"key": key})
		}
		return
	}
	w.b.Count("get_expect_found", 1)
	switch errClass(err) {
	case "ok":
		w.found++
		kinds, desc := w.cmpRecord(key, mr, r, t1)
		if len(kinds) > 0 {
			w.viol("get:"+kindClass(kinds), w.after(mr), fmt.Sprintf("Get(%q) returned something else than what was stored last (%s): %s", key, strings.Join(kinds, ","), desc),
				map[string]any{"key": key, "differs": kinds})
			w.taint(mr)
		} else if !w.soft {
			mr.verified = true
		}
	case "notfound":
		w.viol("get:lost", w.after(mr), fmt.Sprintf("Get(%q) says not-found although a visible record is stored (model meta %+v)", key, mr.meta),
			map[string]any{"key": key})
		w.taint(mr)
	default:
		w.viol("get:error", w.after(mr), fmt.Sprintf("Get(%q) failed: %v", key, err), map[string]any{"key": key})
		w.taint(mr)
	}
}

func (w *world) doExists(key string) {
	t0 := nowS()
	ok, err := w.iface.Exists(w.fullKey(key))
	t1 := nowS()
	w.b.Count("op/exists", 1)
	w.logf("exists %q -> %v %s", key, ok, errClass(err))
	mr := w.m.recs[key]
	if mr != nil && mr.tainted {
		return
	}
	vis, certain := mr.vis(t0, t1)
	if !certain {
		return
	}
	w.compared++
	if err != nil {
		w.viol("exists:error", w.after(mr), fmt.Sprintf("Exists(%q) failed: %v", key, err), map[string]any{"key": key})
		return
	}
	if ok != vis {
		w.viol(fmt.Sprintf("exists:%v-want-%v", ok, vis), w.after(mr), fmt.Sprintf("Exists(%q) = %v, the reference map says %v", key, ok, vis), map[string]any{"key": key})
		w.taint(mr)
	}
}

// checkApplied verifies what saving did to the metadata of the client's own record
// object (portbase updates it in place) and pins the clock-derived values.
func (w *world) checkApplied(kind string, rec record.Record, nm *mrec, t1 int64) {
	rec.Lock()
	m := rec.Meta()
	var mv metaView
	if m != nil {
		mv = viewMeta(m)
	}
	rec.Unlock()
	if m == nil {
		w.viol("put:meta-nil", kind, "record has no metadata after a successful save", nil)
		return
	}
	before := nm.meta
	if kinds := w.cmpMeta(nm, mv, t1); len(kinds) > 0 {
		w.viol("put:"+kindClass(kinds), kind, fmt.Sprintf("%s of %q: metadata of the saved record is %+v (%s differ), expected created=%+v modified=%+v expires=%+v ttl=%d deleted=%v",
			kind, rec.DatabaseKey(), mv, strings.Join(kinds, ","), before.created, before.modified, before.expires, before.ttl, before.deleted), nil)
		nm.tainted = true
	}
}

func (w *world) doPut(o op) {
	rs := *o.Rec
	old := w.m.recs[rs.Key]
	t0 := nowS()
	rec, nm := w.build(rs, old, o.K, t0)
	physAbsent := false
	if nm.meta.deleted && !w.cfg.Shadow && w.cfg.Cache != "delayed" {
		if _, e := w.raw.Get(rs.Key); errors.Is(e, storage.ErrNotFound) {
			physAbsent = true
		}
	}
	var err error
	if o.K == "putnew" {
		err = w.iface.PutNew(rec)
	} else {
		err = w.iface.Put(rec)
	}
	t1 := nowS()
	nm.meta.update(t0, t1)
	w.b.Count("op/"+o.K, 1)
	w.b.Count("form/"+rs.Form, 1)
	if rs.NilPtr {
		w.b.Count("nil_embedded_pointer_records", 1)
	}
	w.logf("%s %q form=%s meta=%s edits=%v c=%s -> %s", o.K, rs.Key, rs.Form, rs.Meta, rs.Edits, rs.C.String(), errClass(err))
	w.used[rs.Key] = true
	cls := o.K
	if nm.meta.deleted {
		cls += "-deleted"
		w.b.Count("put_deleted_records", 1)
	}
	nm.lastOp = cls
	nm.verified = false
	if err != nil {
		if isTimeout(err) {
			w.inconclusive("%s: %v", o.K, err)
			return
		}
		if physAbsent {
			cls += "-absent"
		}
		w.viol("op-error", cls, fmt.Sprintf("%s(%q) failed: %v", o.K, rs.Key, err), map[string]any{"key": rs.Key})
		// the write may or may not have happened
		nm.tainted = true
		w.m.recs[rs.Key] = nm
		return
	}
	w.compared++
	w.checkApplied(o.K, rec, nm, t1)
	w.m.recs[rs.Key] = nm
}

func (w *world) doPutMany(o op) {
	t0 := nowS()
	overlay := map[string]*mrec{}
	type item struct {
		rec record.Record
		nm  *mrec
		key string
	}
	var items []item
	for _, rs := range o.Batch {
		old := overlay[rs.Key]
		if old == nil {
			old = w.m.recs[rs.Key]
		}
		rec, nm := w.build(rs, old, "putmany", t0)
		overlay[rs.Key] = nm
		items = append(items, item{rec, nm, rs.Key})
	}
	put := w.iface.PutMany(w.db)
	var err error
	for _, it := range items {
		if err = put(it.rec); err != nil {
			break
		}
	}
	if err == nil {
		done := make(chan error, 1)
		go func() { done <- put(nil) }()
		select {
		case err = <-done:
		case <-time.After(60 * time.Second):
			w.inconclusive("putmany: finishing the batch did not return within 60 s")
			return
		}
	}
	t1 := nowS()
	w.b.Count("op/putmany", 1)
	w.b.Count("putmany_records", int64(len(items)))
	var ks []string
	for _, it := range items {
		ks = append(ks, it.key)
	}
	w.logf("putmany %q -> %s (%v)", ks, errClass(err), err)
	if w.h.Priv == "none" {
		// batch writes are reserved to local+internal interfaces: denied, state unchanged
		w.compared++
		if errClass(err) != "denied" {
			w.viol("putmany:unprivileged-"+errClass(err), "putmany", fmt.Sprintf("PutMany through an interface without permissions answered %v instead of permission-denied", err), nil)
		}
		return
	}
	if !w.cfg.batcher() {
		// optional capability: must answer not-implemented and leave the state unchanged
		// (the unchanged part is decided by the following gets / read-backs)
		w.compared++
		if errClass(err) != "notimpl" {
			w.viol("putmany:no-batcher-"+errClass(err), "putmany", fmt.Sprintf("backend without batch support answered %v instead of not-implemented", err), nil)
		}
		return
	}
	if err != nil {
		if isTimeout(err) {
			w.inconclusive("putmany: %v", err)
			return
		}
		w.viol("op-error", "putmany", fmt.Sprintf("PutMany failed: %v", err), nil)
		for _, it := range items {
			it.nm.tainted = true
			it.nm.lastOp = "putmany"
			it.nm.verified = false
			w.m.recs[it.key] = it.nm
			w.used[it.key] = true
		}
		return
	}
	w.compared++
	for _, it := range items {
		it.nm.meta.update(t0, t1)
		it.nm.lastOp = "putmany"
		it.nm.verified = false
		if it.nm.meta.deleted {
			it.nm.lastOp = "putmany-deleted"
			it.nm.verified = false
		}
		w.used[it.key] = true
	}
	for _, it := range items {
		// only the last record per key is what the map holds; its object shows the applied meta
		if overlay[it.key] == it.nm {
			w.checkApplied("putmany", it.rec, it.nm, t1)
			w.m.recs[it.key] = it.nm
		}
	}
}

func (w *world) doDelete(key string) {
	mr := w.m.recs[key]
	t0 := nowS()
	err := w.iface.Delete(w.fullKey(key))
	t1 := nowS()
	w.b.Count("op/delete", 1)
	w.logf("delete %q -> %s", key, errClass(err))
	if mr != nil && mr.tainted {
		return
	}
	vis, certain := mr.vis(t0, t1)
	if !certain {
		if mr != nil {
			mr.tainted = true
		}
		return
	}
	if isTimeout(err) {
		w.inconclusive("delete: %v", err)
		return
	}
	w.compared++
	if !vis {
		// deleting what is not there: not-found (what the interface documents) or a no-op
		if c := errClass(err); c != "notfound" && c != "ok" {
			w.viol("op-error", "delete-absent", fmt.Sprintf("Delete(%q) of an absent record failed: %v", key, err), map[string]any{"key": key})
		}
		return
	}
	switch errClass(err) {
	case "ok":
		mr.meta.update(t0, t1)
		mr.meta.deleted, mr.meta.deletedAt, mr.meta.ttl = true, tval{t0, t1 - t0}, 0
		mr.lastOp = "delete"
		mr.verified = false
		w.b.Count("deletes_effective", 1)
	case "notfound":
		w.viol("delete:lost", w.after(mr), fmt.Sprintf("Delete(%q) says not-found although a visible record is stored", key), map[string]any{"key": key})
		mr.tainted = true
	default:
		w.viol("op-error", "delete", fmt.Sprintf("Delete(%q) failed: %v", key, err), map[string]any{"key": key})
		mr.tainted = true
	}
}

// doSetExpiry runs SetAbsoluteExpiry (abs=true, val = absolute time or 0) or
// SetRelativateExpiry (val = ttl).
func (w *world) doSetExpiry(kind, key string, abs bool, val int64) {
	mr := w.m.recs[key]
	t0 := nowS()
	var err error
	if abs {
		err = w.iface.SetAbsoluteExpiry(w.fullKey(key), val)
	} else {
		err = w.iface.SetRelativateExpiry(w.fullKey(key), val)
	}
	t1 := nowS()
	w.b.Count("op/"+kind, 1)
	w.logf("%s %q %d -> %s", kind, key, val, errClass(err))
	if mr != nil && mr.tainted {
		return
	}
	vis, certain := mr.vis(t0, t1)
	if !certain {
		if mr != nil {
			mr.tainted = true
		}
		return
	}
	if isTimeout(err) {
		w.inconclusive("%s: %v", kind, err)
		return
	}
	w.compared++
	if !vis {
		switch errClass(err) {
		case "notfound":
		case "ok":
			w.viol(kind+":stale-visible", w.after(mr), fmt.Sprintf("%s(%q) succeeded on a record that is deleted/expired/absent", kind, key), map[string]any{"key": key})
			if mr != nil {
				mr.tainted = true
			}
		default:
			w.viol("op-error", kind+"-absent", fmt.Sprintf("%s(%q) failed: %v", kind, key, err), map[string]any{"key": key})
		}
		return
	}
	switch errClass(err) {
	case "ok":
		if abs {
			mr.meta.ttl = 0
			mr.meta.update(t0, t1)
			mr.meta.expires = tval{val, 0}
			mr.lastOp = kind
			mr.verified = false
			if val != 0 && val < t0 {
				mr.lastOp = kind + "-past"
				mr.verified = false
			}
		} else {
			if val > 0 {
				// a relative expiry of d seconds: the record expires d seconds after this save
				mr.meta.ttl = val
				mr.meta.update(t0, t1)
			} else {
				// ttl removed. Whether this last save still moved the expiry (now + old ttl)
				// or left it where the previous save put it is not determined: accept both.
				oldTTL, oldExp := mr.meta.ttl, mr.meta.expires
				mr.meta.ttl = 0
				mr.meta.update(t0, t1)
				if oldTTL > 0 && oldExp.v > 0 && t1+oldTTL > oldExp.v {
					mr.meta.expires = tval{oldExp.v, t1 + oldTTL - oldExp.v}
				}
			}
			mr.lastOp = kind
			mr.verified = false
		}
	case "notfound":
		w.viol(kind+":lost", w.after(mr), fmt.Sprintf("%s(%q) says not-found although a visible record is stored", kind, key), map[string]any{"key": key})
		mr.tainted = true
	default:
		w.viol("op-error", kind, fmt.Sprintf("%s(%q) failed: %v", kind, key, err), map[string]any{"key": key})
		mr.tainted = true
	}
}

// ---------------------------------------------------------------------------------
// queries

func consumeName(q *qSpec) string {
	if q.Consume == "" {
		return "buffer"
	}
	return q.Consume
}

func condClass(q *qSpec) string {
	if q.Where == nil {
		return "nocond"
	}
	n := 0
	name := ""
	q.Where.leaves(func(l *cond) { n++; name = l.Op })
	if n == 1 && q.Where.Op == name {
		return "op" + name
	}
	return "tree"
}

func (w *world) doQuery(q *qSpec, why string) {
	pq := q.build(w.db)
	if childDir != "" && w.cfg.Backend == "hashmap" {
		// conditions run inside the storage's executor goroutine on this backend: a panic
		// there is process-fatal, so name the query first
		_ = os.WriteFile(filepath.Join(childDir, "current_step"), []byte(fmt.Sprintf("history %d step %d: query(%s) %s", w.h.No, w.step, why, q)), 0o644)
	}
	t0 := nowS()
	it, err := w.iface.Query(pq)
	w.b.Count("op/query", 1)
	if err != nil {
		w.logf("query %s -> error %v", q, err)
		w.compared++
		cls := "query"
		if strings.Contains(err.Error(), "no such file") {
			cls = "prefix-not-on-disk"
		}
		w.viol("query:refused", cls, fmt.Sprintf("Query(%s) was refused: %v", q, err), map[string]any{"query": q})
		return
	}
	cc := condClass(q)
	seen := map[string]int{}
	// checkRec compares one delivered record with the model (tb = harness clock when the
	// record is looked at)
	checkRec := func(r record.Record, tb int64) {
		k := r.DatabaseKey()
		seen[k]++
		mr := w.m.recs[k]
		if mr != nil && mr.tainted {
			return
		}
		vis, certain := mr.vis(t0, tb)
		if !certain {
			return
		}
		switch {
		case !hasPrefix(k, q.Prefix):
			w.viol("query:extra-prefix", "query", fmt.Sprintf("Query(%s) returned key %q, which does not start with the prefix %q", q, k, q.Prefix),
				map[string]any{"query": q, "key": k})
			return
		case !vis:
			w.viol("query:extra-invisible", w.after(mr), fmt.Sprintf("Query(%s) returned key %q, which is deleted/expired/absent in the reference map", q, k),
				map[string]any{"query": q, "key": k})
			w.taint(mr)
			return
		}
		if match, ok := mr.matches(q); ok && !match {
			w.viol("query:extra-cond", cc+"/"+mr.form, fmt.Sprintf("Query(%s) returned key %q whose fields %s do not satisfy the condition", q, k, mr.c.String()),
				map[string]any{"query": q, "key": k, "content": mr.c})
			return
		}
		if kinds, desc := w.cmpRecord(k, mr, r, tb); len(kinds) > 0 {
			w.viol("query:record-"+kindClass(kinds), w.after(mr), fmt.Sprintf("Query(%s) delivered key %q with other content than stored (%s; consumer: %s): %s", q, k, strings.Join(kinds, ","), consumeName(q), desc),
				map[string]any{"query": q, "key": k, "differs": kinds, "consume": consumeName(q)})
			w.taint(mr)
		}
	}
	var got []record.Record
	ngot := 0
	drained := make(chan struct{})
	go func() {
		for r := range it.Next {
			ngot++
			switch q.Consume {
			case "prompt":
				checkRec(r, nowS())
			case "slow":
				got = append(got, r)
				time.Sleep(150 * time.Microsecond)
			case "stall":
				got = append(got, r)
				if ngot == q.StallAfter {
					time.Sleep(time.Duration(q.StallMs) * time.Millisecond)
				}
			default:
				got = append(got, r)
			}
		}
		close(drained)
	}()
	select {
	case <-drained:
	case <-time.After(120*time.Second + time.Duration(q.StallMs)*time.Millisecond):
		it.Cancel()
		w.inconclusive("query %s: result stream did not end within 120 s", q)
		return
	}
	ierr := it.Err()
	t1 := nowS()
	w.logf("query(%s) %s -> %d records, err=%v", why, q, ngot, ierr)
	w.b.Count("query_consume/"+consumeName(q), 1)
	w.b.Max("query_records_max", int64(ngot))
	// A consumer that stalls on purpose may make the executor give up: then the stream is
	// truncated and MUST end with an error; the records that did arrive are still judged.
	gaveUp := q.Consume == "stall" && isTimeout(ierr)
	if isTimeout(ierr) && !gaveUp {
		w.inconclusive("query: %v", ierr)
		return
	}
	if gaveUp {
		w.b.Count("stall_truncated_with_error", 1)
		ierr = nil
	}
	w.compared++
	if q.Where != nil {
		w.b.Seen("cond_shapes", q.Where.shape())
		q.Where.leaves(func(l *cond) {
			w.b.Seen("leaf_operators", l.Op)
			if l.VI != nil || l.VF != nil {
				form := l.As
				if form == "" && l.Text {
					form = "text"
				}
				kind := "int-operator"
				if strings.HasPrefix(l.Op, "f") {
					kind = "float-operator"
				}
				w.b.Seen("operand_forms", kind+":"+form)
			}
		})
	}
	if ierr != nil {
		cls := "query"
		if strings.Contains(ierr.Error(), "no such file") {
			cls = "prefix-not-on-disk"
		}
		w.viol("query:error", cls, fmt.Sprintf("Query(%s) ended with error %v; the reference map has no failing queries", q, ierr), map[string]any{"query": q})
	}
	// the stream has ended and the producer is done with its iteration: only now look
	// at the buffered records
	for _, r := range got {
		checkRec(r, t1)
	}
	for k, n := range seen {
		if n > 1 {
			w.viol("query:duplicate", "query", fmt.Sprintf("Query(%s) returned key %q %d times", q, k, n), map[string]any{"query": q, "key": k})
		}
	}
	if gaveUp {
		// the error was handed over: an incomplete result is what the consumer was told
		return
	}
	stallSoft := q.Consume == "stall" && !w.soft
	hitsBefore := len(w.softHits)
	if stallSoft {
		w.soft = true
	}
	defer func() {
		if !stallSoft {
			return
		}
		w.soft = false
		missing := w.softHits[hitsBefore:]
		w.softHits = w.softHits[:hitsBefore]
		if len(missing) > 0 {
			w.viol("query:truncated-without-error", "stalled-consumer", fmt.Sprintf("Query(%s): the consumer stalled %d ms after %d records; the stream then ended after %d records with Err() == nil although %d more visible matching records exist (first: %s)",
				q, q.StallMs, q.StallAfter, ngot, len(missing), missing[0]), map[string]any{"query": q, "received": ngot, "missing": len(missing)})
		} else {
			w.b.Count("stall_complete_without_error", 1)
		}
	}()
	want, total := 0, 0
	for k, mr := range w.m.recs {
		if mr.tainted {
			continue
		}
		vis, certain := mr.vis(t0, t1)
		if !certain || !vis {
			continue
		}
		total++
		if !hasPrefix(k, q.Prefix) {
			continue
		}
		match, ok := mr.matches(q)
		if !ok || !match {
			continue
		}
		want++
		if seen[k] == 0 {
			cls := w.after(mr)
			if q.Where != nil && mr.verified {
				// the record was read back intact after its last change: the condition
				// evaluation is the suspect, not the write
				cls = cc + "/" + mr.form
			}
			if w.cfg.Backend == "fstree" && q.Prefix != "" && !strings.HasSuffix(q.Prefix, "/") {
				cls = "prefix-below-directory"
			}
			w.viol("query:missing", cls, fmt.Sprintf("Query(%s) did not return key %q (fields %s), which is visible and matches", q, k, mr.c.String()),
				map[string]any{"query": q, "key": k, "content": mr.c})
		}
	}
	w.b.Count("query_records", int64(ngot))
	switch {
	case want == 0:
		w.b.Count("query_empty", 1)
	case want == total:
		w.b.Count("query_all", 1)
	default:
		w.b.Count("query_proper_subset", 1)
	}
}

// ---------------------------------------------------------------------------------
// purge

func (w *world) doPurge(q *qSpec) {
	pq := q.build(w.db)
	t0 := nowS()
	cnt, err := w.iface.Purge(context.Background(), pq)
	t1 := nowS()
	w.b.Count("op/purge", 1)
	w.logf("purge %s -> %d %s (%v)", q, cnt, errClass(err), err)
	w.compared++
	if !w.cfg.purger() {
		if errClass(err) != "notimpl" {
			w.viol("purge:no-purger-"+errClass(err), "purge", fmt.Sprintf("backend without purge support answered %v instead of not-implemented", err), nil)
		}
		return
	}
	if err != nil {
		w.viol("op-error", "purge", fmt.Sprintf("Purge(%s) failed: %v", q, err), map[string]any{"query": q})
		return
	}
	lo, hi := 0, 0
	for k, mr := range w.m.recs {
		if !mr.stored || mr.meta.deleted || !hasPrefix(k, q.Prefix) {
			continue
		}
		match, ok := mr.matches(q)
		vis, certain := mr.vis(t0, t1)
		if mr.tainted || !ok {
			// undetermined: may or may not have been purged
			mr.tainted = true
			hi++
			continue
		}
		if !match {
			continue
		}
		hi++
		if vis && certain {
			lo++
		}
		mr.meta.deleted, mr.meta.deletedAt, mr.meta.ttl = true, tval{t0, t1 - t0}, 0
		mr.lastOp = "purge"
		mr.verified = false
	}
	w.b.Count("purged_records", int64(cnt))
	if cnt < lo || cnt > hi {
		w.viol("purge:count", "purge", fmt.Sprintf("Purge(%s) reported %d deletes; the reference map deletes between %d and %d records", q, cnt, lo, hi), map[string]any{"query": q})
	}
}

// ---------------------------------------------------------------------------------
// maintenance

func (w *world) physical() map[string]bool {
	p := map[string]bool{}
	for k := range w.used {
		_, err := w.raw.Get(k)
		switch {
		case err == nil:
			p[k] = true
		case errors.Is(err, storage.ErrNotFound):
			p[k] = false
		}
	}
	return p
}

func (w *world) doMaintain(o op) {
	if w.cfg.Cache == "delayed" {
		w.flushByWriter()
	}
	before := w.physical()
	t0 := nowS()
	var err error
	ctx := context.Background()
	switch o.K {
	case "maintain":
		err = database.Maintain(ctx)
	case "maintain_thorough":
		err = database.MaintainThorough(ctx)
	case "maintain_states":
		err = database.MaintainRecordStates(ctx)
	case "maintain_direct":
		// the storage-level entry point the controller calls, with another purge threshold
		err = w.raw.MaintainRecordStates(ctx, time.Unix(t0+o.Off, 0), w.cfg.Shadow)
	}
	t1 := nowS()
	w.b.Count("op/"+o.K, 1)
	if w.postMaint != nil {
		w.postMaint()
	}
	after := w.physical()
	removed := 0
	for k, was := range before {
		now, known := after[k]
		if !was || !known || now {
			continue
		}
		removed++
		mr := w.m.recs[k]
		if mr == nil || mr.tainted {
			continue
		}
		if vis, certain := mr.vis(t0, t1); vis && certain {
			w.viol("maint:removed-visible", o.K, fmt.Sprintf("%s physically removed key %q, which is neither deleted nor expired", o.K, k), map[string]any{"key": k})
			mr.tainted = true
		}
	}
	w.logf("%s off=%d -> %v, physically removed %d of %d", o.K, o.Off, err, removed, len(before))
	w.b.Count("maint_physically_removed", int64(removed))
	w.compared++
	if err != nil {
		w.viol("op-error", o.K, fmt.Sprintf("%s failed: %v", o.K, err), nil)
	}
	// visible set and every visible record unchanged
	w.phase = "post-" + o.K
	w.readback(1)
	w.phase = ""
}

// ---------------------------------------------------------------------------------
// read-back at a quiescent point

func (w *world) readback(nq int) {
	keys := make([]string, 0, len(w.h.Keys))
	keys = append(keys, w.h.Keys...)
	sort.Strings(keys)
	for _, k := range keys {
		if w.aborted {
			return
		}
		w.doGet(k)
	}
	if w.cfg.Cache == "delayed" {
		w.flushByWriter()
	}
	w.doQuery(&qSpec{Prefix: ""}, "readback")
	for i := 0; i < nq-1 && i < len(keys); i++ {
		k := keys[(w.step+i*7)%len(keys)]
		p := k
		if j := strings.Index(k, "/"); j > 0 {
			p = k[:j+1]
		}
		w.doQuery(&qSpec{Prefix: p}, "readback")
	}
	w.b.Count("readbacks", 1)
}

// ---------------------------------------------------------------------------------
// expiry transition (the only place where real time passes)

func (w *world) doWait(o op) {
	key := o.Key
	t0 := nowS()
	switch o.K {
	case "wait_abs":
		w.doSetExpiry("setabs", key, true, t0+1)
	case "wait_rel":
		w.doSetExpiry("setrel", key, false, 1)
	case "wait_put":
		rs := recSpec{Key: key, Form: vlib.Pick(vlib.NewRand(uint64(w.h.No), "waitform", uint64(w.step)), "struct", "json", "estruct"), Meta: "keep",
			Edits: []medit{{K: "rel", V: 1}}}
		s := "waiting"
		rs.C = content{S: &s}
		w.doPut(op{K: "put", Key: key, Rec: &rs})
	}
	mr := w.m.recs[key]
	if w.aborted || mr == nil || mr.tainted || !mr.stored || mr.meta.deleted || mr.meta.expires.v == 0 {
		return
	}
	ref := mr.meta.expires
	limit := ref.v + ref.slack
	if limit > t0+5 {
		return
	}
	saved := *mr
	w.doGet(key)
	// the reference expiry stands, whatever the database reported just now
	*mr = saved
	for nowS() <= limit {
		time.Sleep(40 * time.Millisecond)
	}
	w.b.Count("expiry_transitions", 1)
	mr.lastOp += "-elapsed"
	mr.verified = false
	w.doGet(key)
	w.doExists(key)
	if w.cfg.Cache == "delayed" {
		w.flushByWriter()
	}
	w.doQuery(&qSpec{Prefix: key}, "after-expiry")
}

// doBoundary runs maintenance during the very second in which a record expires: a record
// with Expires == E is visible as long as the clock reads <= E (CheckValidity: expired
// iff Expires < now), so maintenance at second E must neither remove nor hide it. The
// step is judged only if the same clock portbase reads shows E before the maintenance
// call and still E after the reads that follow it; otherwise it is skipped and counted.
func (w *world) doBoundary(o op) {
	key := o.Key
	mr := w.m.recs[key]
	if mr == nil || mr.tainted || !mr.stored || mr.meta.deleted || mr.meta.expires.v == 0 || mr.meta.expires.slack != 0 {
		w.b.Count("boundary_steps_skipped", 1)
		return
	}
	E := mr.meta.expires.v
	w.doGet(key) // read back intact before the boundary (also marks the key as verified)
	if nowS() > E || E-nowS() > 3 {
		w.b.Count("boundary_steps_skipped", 1)
		return
	}
	for nowS() < E {
		time.Sleep(2 * time.Millisecond)
	}
	kind := "maintain_states"
	if o.Off != 0 {
		kind = "maintain_direct"
	}
	var tBefore, tAfter int64
	w.postMaint = func() {
		w.phase = "at-expiry-second-" + kind
		w.doGet(key)
		w.doExists(key)
		w.doQuery(&qSpec{Prefix: key}, "boundary")
		w.phase = ""
		tAfter = nowS()
	}
	tBefore = nowS()
	w.doMaintain(op{K: kind})
	w.postMaint = nil
	if tBefore == E && tAfter == E {
		w.b.Count("boundary_steps_judged", 1)
		w.b.Count("boundary_steps_judged/"+w.cfg.Backend, 1)
	} else {
		w.b.Count("boundary_steps_skipped", 1)
	}
}

// ---------------------------------------------------------------------------------
// delayed write cache: the writer a user of such an interface must run

func (w *world) startWriter() {
	ctx, cancel := context.WithCancel(context.Background())
	w.dwCancel = cancel
	w.dwDone = make(chan error, 1)
	go func() { w.dwDone <- w.iface.DelayedCacheWriter(ctx) }()
}

// flushByWriter flushes the way the documentation prescribes: cancel the writer's
// context and wait for it to return (it flushes on its way out), then start it again.
func (w *world) flushByWriter() {
	if w.dwCancel == nil {
		return
	}
	w.dwCancel()
	select {
	case err := <-w.dwDone:
		if err != nil {
			w.viol("delayed:writer-error", "flush", fmt.Sprintf("DelayedCacheWriter returned %v", err), nil)
		}
	case <-time.After(60 * time.Second):
		w.inconclusive("DelayedCacheWriter did not return within 60 s after its context was cancelled")
		return
	}
	w.b.Count("writer_flushes", 1)
	w.startWriter()
}

func (w *world) stopWriter() {
	if w.dwCancel == nil {
		return
	}
	w.dwCancel()
	select {
	case <-w.dwDone:
	case <-time.After(60 * time.Second):
		w.inconclusive("DelayedCacheWriter did not return within 60 s after its context was cancelled")
	}
	w.dwCancel = nil
}

// ---------------------------------------------------------------------------------

func (w *world) run() {
	defer func() {
		if p := recover(); p != nil {
			w.viol("panic", "history", fmt.Sprintf("panic while executing the history: %v", p), map[string]any{"panic": fmt.Sprint(p)})
			w.aborted = true
		}
	}()
	if w.cfg.Cache == "delayed" {
		w.startWriter()
		defer w.stopWriter()
	}
	for i, o := range w.h.Ops {
		if w.aborted {
			return
		}
		w.step = i
		switch o.K {
		case "put", "putnew":
			w.doPut(o)
		case "get":
			w.doGet(o.Key)
		case "exists":
			w.doExists(o.Key)
		case "delete":
			w.doDelete(o.Key)
		case "putmany":
			w.doPutMany(o)
		case "purge":
			w.doPurge(o.Q)
		case "setabs":
			v := int64(0)
			if o.Off != 0 {
				v = nowS() + o.Off
			}
			w.doSetExpiry("setabs", o.Key, true, v)
		case "setrel":
			w.doSetExpiry("setrel", o.Key, false, o.Off)
		case "maintain", "maintain_thorough", "maintain_states", "maintain_direct":
			w.doMaintain(o)
		case "query":
			if w.cfg.Cache == "delayed" {
				w.flushByWriter()
			}
			w.doQuery(o.Q, "op")
		case "flush":
			w.flushByWriter()
			w.b.Count("op/flush", 1)
			w.phase = "post-writer-flush"
			w.doQuery(&qSpec{Prefix: ""}, "after-flush")
			w.phase = ""
		case "flushapi":
			// "FlushCache writes (and thus clears) the write cache."
			w.iface.FlushCache()
			w.b.Count("op/flushapi", 1)
			w.logf("FlushCache()")
			w.soft, w.softHits = true, nil
			w.doQuery(&qSpec{Prefix: ""}, "after-FlushCache")
			w.soft = false
			if len(w.softHits) > 0 {
				w.viol("flushcache:writes-not-flushed", "Interface.FlushCache", fmt.Sprintf("a query right after FlushCache() does not see the writes made before it (%d differences, first: %s)",
					len(w.softHits), w.softHits[0]), map[string]any{"differences": tailS(w.softHits, 10)})
			} else {
				w.b.Count("flushapi_queries_consistent", 1)
			}
			// bring storage and model together again the documented way
			w.flushByWriter()
		case "readback":
			w.b.Count("op/readback", 1)
			w.readback(3)
		case "boundary":
			w.b.Count("op/boundary", 1)
			w.doBoundary(o)
		case "wait_abs", "wait_rel", "wait_put":
			w.b.Count("op/"+o.K, 1)
			w.doWait(o)
		}
		w.b.Seen("cfg_op", w.cfg.label()+":"+o.K)
	}
	if !w.aborted {
		w.step = len(w.h.Ops)
		w.readback(3)
	}
}
