package main

import (
	"errors"
	"fmt"
	"os"
	"path/filepath"
	"runtime"
	"sync"
	"sync/atomic"
	"time"

	"github.com/safing/portbase/database"
	"github.com/safing/portbase/database/query"
	"github.com/safing/portbase/utils/vhook"

	"verifharness/internal/vlib"
)

// ---------------------------------------------------------------------------------
// Error hand-over clause: "a storage error during the query is reported to the
// consumer once the result stream has ended".
//
// The consumer does what every consumer in portbase does (and what the repository's
// countRecords test helper does): drain it.Next until it is closed, then call
// it.Err(). If the storage ended the query with an error, that call must return it.
//
// Sources of the storage error:
//   faulty — a harness backend registered through storage.Register that emits k
//            records and then calls Finish(errInjected) (like every real backend).
//   fstree — the real file-tree backend with an undecodable file inside the queried
//            directory: its walk ends with an error.
// Schedules:
//   pause  — pairwise plan: the producer is parked at the hook point db.iter.finish
//            until the consumer has observed the end of the stream and asked for the
//            error (deterministic interleaving, one the scheduler may produce),
//   delay  — PRNG-chosen yields / short sleeps at the hook point,
//   idle   — hook idle (plain stress).

type iterPlan struct {
	mu      sync.Mutex
	mode    string
	release chan struct{}
	hits    atomic.Int64
	rnd     *vlib.Rand
}

func (p *iterPlan) handler(point, subject string) {
	p.hits.Add(1)
	p.mu.Lock()
	mode, rel := p.mode, p.release
	var d int
	if mode == "delay" {
		d = p.rnd.Intn(6)
	}
	p.mu.Unlock()
	switch mode {
	case "pause":
		select {
		case <-rel:
		case <-time.After(30 * time.Second):
		}
	case "delay":
		switch d {
		case 0:
		case 1, 2:
			runtime.Gosched()
		case 3:
			time.Sleep(20 * time.Microsecond)
		default:
			time.Sleep(300 * time.Microsecond)
		}
	}
}

func (p *iterPlan) set(mode string) chan struct{} {
	p.mu.Lock()
	defer p.mu.Unlock()
	p.mode = mode
	p.release = make(chan struct{})
	return p.release
}

func childIter(dir string, cs childSpec, b *vlib.Batch) {
	root := filepath.Join(dir, "dbroot")
	if err := database.InitializeWithPath(root); err != nil {
		b.Inconclusive("iter: cannot initialise database system: %v", err)
		return
	}
	registerBackends()
	iface := database.NewInterface(&database.Options{Local: true, Internal: true})
	plan := &iterPlan{rnd: vlib.NewRand(cs.Seed, "C02/iter/delay", 0)}
	vhook.Set("db.iter.finish", plan.handler)
	defer vhook.Set("db.iter.finish", nil)

	// source 1: faulty harness backend
	if _, err := database.Register(&database.Database{Name: "faulty-db", StorageType: "vfaulty"}); err != nil {
		b.Inconclusive("iter: register: %v", err)
		return
	}
	_, _ = iface.Get("faulty-db:init")
	f := faultyOf("faulty-db")
	if f == nil {
		b.Inconclusive("iter: faulty backend was not started")
		return
	}

	// source 2: real fstree with an undecodable file
	if _, err := database.Register(&database.Database{Name: "fst-db", StorageType: "vfstree"}); err != nil {
		b.Inconclusive("iter: register: %v", err)
		return
	}
	for i := 0; i < 3; i++ {
		t := &TestRec{S: "ok", I: int64(i)}
		t.SetKey(fmt.Sprintf("fst-db:a/k%d", i))
		if err := iface.Put(t); err != nil {
			b.Inconclusive("iter: put into fstree: %v", err)
			return
		}
	}
	loc := locOf("fst-db")
	if loc == "" {
		b.Inconclusive("iter: fstree location unknown")
		return
	}
	if err := os.WriteFile(filepath.Join(loc, "zz-corrupt"), []byte("garbage, not a record"), 0o644); err != nil {
		b.Inconclusive("iter: cannot write corrupt file: %v", err)
		return
	}

	r := vlib.NewRand(cs.Seed, "C02/iter", 0)
	rounds := map[string]int{"pause": cs.Rounds / 4, "delay": cs.Rounds, "idle": cs.Rounds}
	for _, source := range []string{"faulty", "fstree"} {
		for _, mode := range []string{"pause", "delay", "idle"} {
			lost, ok := 0, 0
			for n := 0; n < rounds[mode]; n++ {
				k := r.Intn(16)
				release := plan.set(mode)
				hits0 := plan.hits.Load()
				var fin chan struct{}
				var q *query.Query
				if source == "faulty" {
					fin = f.arm(k)
					q = query.New("faulty-db:")
				} else {
					q = query.New("fst-db:")
				}
				it, err := iface.Query(q)
				if err != nil {
					b.Inconclusive("iter: query refused: %v", err)
					return
				}
				nrec := 0
				drained := make(chan struct{})
				go func() {
					for range it.Next {
						nrec++
					}
					close(drained)
				}()
				select {
				case <-drained:
				case <-time.After(60 * time.Second):
					close(release)
					b.Inconclusive("iter: %s/%s stream did not end within 60 s", source, mode)
					return
				}
				// the result stream has ended: ask for the error
				e1 := it.Err()
				close(release)
				// wait until the producer has left Finish, then read the final value
				var e2 error
				if fin != nil {
					select {
					case <-fin:
					case <-time.After(60 * time.Second):
						b.Inconclusive("iter: producer did not finish within 60 s")
						return
					}
					e2 = it.Err()
				} else {
					// the real backend gives no signal when Finish returned: every Finish
					// passes the hook point, so wait for that, then for the error
					deadline := time.Now().Add(60 * time.Second)
					for plan.hits.Load() == hits0 && time.Now().Before(deadline) {
						time.Sleep(50 * time.Microsecond)
					}
					for e2 = it.Err(); e2 == nil && time.Now().Before(deadline); e2 = it.Err() {
						time.Sleep(100 * time.Microsecond)
					}
				}
				b.Eval(1)
				b.Count("iter/rounds/"+source+"/"+mode, 1)
				if plan.hits.Load() == hits0 {
					b.Inconclusive("iter: hook point db.iter.finish was not reached (%s/%s)", source, mode)
					return
				}
				if e2 == nil {
					// the storage did not fail at all: the scenario did not happen
					b.Inconclusive("iter: %s query ended without the expected storage error (records=%d)", source, nrec)
					return
				}
				if source == "faulty" && !errors.Is(e2, errInjected) {
					b.Inconclusive("iter: unexpected final error %v", e2)
					return
				}
				b.DistinctS(fmt.Sprintf("iter/%s/%s/k%d/%v", source, mode, nrec, e1 == nil))
				if e1 == nil {
					lost++
					b.Violation("C02:iter:error-lost-at-stream-end:Iterator.Finish",
						"a query ended by a storage error: the consumer drained Next until it was closed and then called Err(), which returned nil; the error only became visible later",
						map[string]any{"mode": "iter", "source": source, "schedule": mode, "records_delivered": nrec,
							"err_after_stream_end": nil, "err_after_producer_returned": e2.Error(), "build": cs.Build,
							"events": []string{"consumer: Query()", fmt.Sprintf("producer: %d records, then Finish(err): close(Next)", nrec),
								"consumer: range Next ended", "consumer: Err() -> nil", "producer: (leaves db.iter.finish) stores err", "consumer: Err() -> " + e2.Error()}})
				} else {
					ok++
				}
			}
			b.Count("iter/lost/"+source+"/"+mode, int64(lost))
			b.Count("iter/handed_over/"+source+"/"+mode, int64(ok))
			b.Seen("iter_schedules", source+"/"+mode)
		}
	}
	b.Count("iter/hook_hits", plan.hits.Load())
	b.Sample(map[string]any{"mode": "iter", "sources": []string{"faulty backend via storage.Register", "fstree with undecodable file"},
		"schedules": []string{"pause-until at db.iter.finish", "PRNG delays at db.iter.finish", "idle"}, "rounds": rounds})
}
