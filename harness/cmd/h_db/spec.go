package main

import (
	"bytes"
	"encoding/json"
	"fmt"
	"sync"

	"github.com/safing/portbase/database/record"
)

// ---------------------------------------------------------------------------------
// Scenario specs. Everything a child executes is described by JSON-serialisable
// values so that a witness can be replayed from the spec alone.

// cfgSpec is one storage configuration.
type cfgSpec struct {
	Backend   string `json:"backend"` // hashmap | bbolt | fstree | badger
	Shadow    bool   `json:"shadow"`
	Cache     string `json:"cache"` // none | read | delayed
	CacheSize int    `json:"cache_size,omitempty"`
}

func (c cfgSpec) del() string {
	if c.Shadow {
		return "shadow"
	}
	return "immediate"
}

func (c cfgSpec) label() string { return fmt.Sprintf("%s-%s-%s", c.Backend, c.del(), c.Cache) }

// class is the precondition class used at the end of violation signatures.
func (c cfgSpec) class() string { return c.Backend + "/" + c.Cache }

func (c cfgSpec) batcher() bool { return c.Backend == "hashmap" || c.Backend == "bbolt" }
func (c cfgSpec) purger() bool  { return c.Backend == "bbolt" }

// childSpec is what one child process runs.
type childSpec struct {
	Prop   string   `json:"prop"`
	Tier   string   `json:"tier"`
	Seed   uint64   `json:"seed"`
	Mode   string   `json:"mode"` // hist | iter | big
	Cfg    cfgSpec  `json:"cfg"`
	NHist  int      `json:"nhist"`
	First  int      `json:"first,omitempty"` // number of the first history of this shard
	Big    int      `json:"big,omitempty"`   // mode big: number of records
	Build  string   `json:"build"`           // plain | race
	Rounds int      `json:"rounds,omitempty"`
	Replay *history `json:"replay,omitempty"`
}

// history is one generated operation history over one fresh database.
type history struct {
	No   int      `json:"no"`
	Priv string   `json:"priv,omitempty"` // "" = local+internal interface, "none" = neither (records carry no secret/crown-jewel flags then)
	Keys []string `json:"keys"`
	Ops  []op     `json:"ops"`
}

// op is one interface operation.
type op struct {
	K     string    `json:"k"`
	Key   string    `json:"key,omitempty"`
	Rec   *recSpec  `json:"rec,omitempty"`
	Batch []recSpec `json:"batch,omitempty"`
	Q     *qSpec    `json:"q,omitempty"`
	Off   int64     `json:"off,omitempty"` // seconds relative to "now" (expiry, threshold) or a ttl
}

// recSpec describes the record object the client hands to Put/PutNew/PutMany.
type recSpec struct {
	Key    string  `json:"key"`
	NilPtr bool    `json:"nil_ptr,omitempty"` // estruct: the embedded pointer is nil (its fields F, B are absent)
	Form   string  `json:"form"`              // struct | estruct (fields promoted from embedded structs) | json | opaque
	C      content `json:"c"`
	Meta   string  `json:"meta"` // fresh (no meta yet) | keep (the meta the client last stored under this key)
	Edits  []medit `json:"edits,omitempty"`
}

// medit is a client-side change of the record's metadata before the write.
type medit struct {
	K string `json:"k"` // abs | rel | noexp | secret | crown | del
	V int64  `json:"v,omitempty"`
}

// content is the record payload. nil = field absent (only in the json form).
type content struct {
	S *string  `json:"S,omitempty"`
	T *string  `json:"T,omitempty"`
	I *int64   `json:"I,omitempty"`
	N *int32   `json:"N,omitempty"`
	F *float64 `json:"F,omitempty"`
	B *bool    `json:"B,omitempty"`
}

func (c content) String() string {
	b, _ := json.Marshal(c)
	return string(b)
}

func (c content) equal(o content) bool { return c.String() == o.String() }

// TestRec is the typed-struct form of a record.
type TestRec struct {
	record.Base
	sync.Mutex

	S string
	T string
	I int64
	N int32
	F float64
	B bool
}

// TestRecE is a typed record whose queried fields all come from embedded structs, the
// way encoding/json and reflect's FieldByName both promote them:
//
//	I  two levels deep (EIn1.EIn2.I)      S  one level deep (EIn1.S)
//	F, B  through an embedded pointer     N  from an embedded struct whose T is shadowed
//	T  declared directly, shadowing EShadow.T (which holds a decoy value)
type TestRecE struct {
	record.Base
	sync.Mutex

	EIn1
	*EPtr
	EShadow
	T string
}

// EIn2 is embedded in EIn1.
type EIn2 struct{ I int64 }

// EIn1 is embedded in TestRecE.
type EIn1 struct {
	EIn2
	S string
}

// EPtr is embedded in TestRecE by pointer.
type EPtr struct {
	F float64
	B bool
}

// EShadow is embedded in TestRecE; its T is hidden by TestRecE.T.
type EShadow struct {
	T string
	N int32
}

// jsonView is the model's view of a typed record: its serialized (JSON) form, read
// back into the field set. Fields that JSON does not show (nil embedded pointer,
// shadowed names) are not part of the record.
func jsonView(v any) (content, error) {
	var c content
	b, err := json.Marshal(v)
	if err != nil {
		return c, err
	}
	return jsonViewOf(b)
}

func jsonViewOf(data []byte) (content, error) {
	var c content
	dec := json.NewDecoder(bytes.NewReader(data))
	dec.DisallowUnknownFields()
	err := dec.Decode(&c)
	return c, err
}

func (t *TestRec) content() content {
	s, tt, i, n, f, b := t.S, t.T, t.I, t.N, t.F, t.B
	return content{S: &s, T: &tt, I: &i, N: &n, F: &f, B: &b}
}

// full returns the content with every absent field set to its zero value (what the
// typed struct holds).
func (c content) full() content {
	if c.S == nil {
		c.S = new(string)
	}
	if c.T == nil {
		c.T = new(string)
	}
	if c.I == nil {
		c.I = new(int64)
	}
	if c.N == nil {
		c.N = new(int32)
	}
	if c.F == nil {
		c.F = new(float64)
	}
	if c.B == nil {
		c.B = new(bool)
	}
	return c
}

// qSpec is a query: key prefix plus optional condition tree.
type qSpec struct {
	Prefix string `json:"prefix"`
	Where  *cond  `json:"where,omitempty"`
	// Consume says how the consumer treats the result stream: "" / "buffer" = collect
	// every record and look at them after the stream has ended (the producer has moved
	// on long ago), "prompt" = compare every record the moment it is received,
	// "slow" = like buffer, with a pause after every received record.
	// "stall" = receive StallAfter records, then do nothing for StallMs (far longer than
	// the executors' send timeout, so the producer may give up), then drain and buffer.
	Consume    string `json:"consume,omitempty"`
	StallAfter int    `json:"stall_after,omitempty"`
	StallMs    int    `json:"stall_ms,omitempty"`
}

// cond is a node of the condition tree.
type cond struct {
	Op    string   `json:"op"` // and | or | not | operator name
	Kids  []cond   `json:"kids,omitempty"`
	Field string   `json:"field,omitempty"`
	VI    *int64   `json:"vi,omitempty"`
	VF    *float64 `json:"vf,omitempty"`
	VS    *string  `json:"vs,omitempty"`
	VB    *bool    `json:"vb,omitempty"`
	VL    []string `json:"vl,omitempty"`
	Text  bool     `json:"text,omitempty"` // hand the value to query.Where in its textual form
	// As selects another operand representation for int / float operators (everything
	// newIntCondition / newFloatCondition accept): a Go type ("int", "int8", "int16",
	// "int32", "uint", "uint8", "uint16", "uint32", "float32") or a decimal string shape
	// ("pad" = zero-padded like "010" / "-007", "plus" = explicit sign "+5", "exp" =
	// float in exponent notation). Strings are base-10 strconv input: "010" is ten.
	As string `json:"as,omitempty"`
}

func (q *qSpec) String() string {
	b, _ := json.Marshal(q)
	return string(b)
}
