package main

import (
	"fmt"
	"math"
	"strings"

	"verifharness/internal/vlib"
)

// ---------------------------------------------------------------------------------
// History generator. A history is generated up front from the PRNG stream only (it
// does not depend on what the database answers), so the spec is the whole case.

var (
	segs       = []string{"a", "ab", "abc", "b", "ba", "x", "x1", "k-1", "q.r", "é", "a b", "ab_"}
	strVocab   = []string{"", "a", "ab", "abc", "bert", "Norbert", "Herbert", "x\"y", "back\\slash", "new\nline", "ünï", "a,b", "<tag>&", "  sp  ", "A"}
	intVocab   = []int64{0, 1, -1, 2, 3, -3, 7, 100, 255, 256, -129, 1 << 31, -(1 << 31), 1<<53 + 1, -(1<<53 + 1), math.MaxInt64, math.MinInt64}
	int32Vocab = []int32{0, 1, -1, 2, 5, 127, -128, math.MaxInt32, math.MinInt32}
	fltVocab   = []float64{0, 1, -1, 0.5, 1.5, -2.25, 3.141592653589793, 1e-9, 1e21, -1e21, 1e300, 5e-324, 2, 100}
	reVocab    = []string{"^a", "b$", "bert", "^$", ".", "^[A-Z]", "a.c", "x.y", "\\\\", "^\\s", "(?i)^a"}
)

type gen struct {
	noFlags  bool
	r        *vlib.Rand
	cfg      cfgSpec
	thorough bool
	keys     []string
	live     map[string]bool // generator-side guess of which keys hold a visible record (bias only)
}

func segConflict(a, b string) bool {
	return a == b || strings.HasPrefix(a, b+"/") || strings.HasPrefix(b, a+"/")
}

func (g *gen) genKeys() {
	n := g.r.Range(6, 20)
	odd := g.cfg.Backend != "fstree" && g.r.Chance(1, 3)
	tries := 0
	for len(g.keys) < n && tries < 2000 {
		tries++
		depth := vlib.Pick(g.r, 1, 2, 2, 2, 3, 3)
		parts := make([]string, depth)
		for i := range parts {
			// few distinct first segments so that keys share prefixes
			if i == 0 {
				parts[i] = segs[g.r.Intn(5)]
			} else {
				parts[i] = segs[g.r.Intn(len(segs))]
			}
		}
		k := strings.Join(parts, "/")
		if odd && g.r.Chance(1, 4) {
			// key shapes that are ordinary strings for a key-value store (not generated
			// for the file tree, whose keys are paths)
			k = vlib.Pick(g.r, k+"/", "a//"+k, "a:"+k, k+":", ".", "a/./b", "a/", "ab/", k+" ", "\t"+k)
		}
		ok := true
		for _, e := range g.keys {
			if e == k {
				ok = false
				break
			}
			// the file tree cannot hold a key that is both a file and a directory: keep
			// the key set prefix-free at path-segment boundaries (the stated restriction);
			// other backends get such pairs on purpose
			if g.cfg.Backend == "fstree" && segConflict(e, k) {
				ok = false
				break
			}
		}
		if ok {
			g.keys = append(g.keys, k)
		}
	}
}

func (g *gen) key() string { return g.keys[g.r.Intn(len(g.keys))] }

func (g *gen) liveKey() string {
	var l []string
	for _, k := range g.keys {
		if g.live[k] {
			l = append(l, k)
		}
	}
	if len(l) == 0 || g.r.Chance(1, 6) {
		return g.key()
	}
	return l[g.r.Intn(len(l))]
}

func (g *gen) content(form string) content {
	r := g.r
	s := strVocab[r.Intn(len(strVocab))]
	t := strVocab[r.Intn(len(strVocab))]
	var i int64
	if r.Chance(3, 4) {
		i = intVocab[r.Intn(8)]
	} else {
		i = intVocab[r.Intn(len(intVocab))]
	}
	n := int32Vocab[r.Intn(len(int32Vocab))]
	f := fltVocab[r.Intn(len(fltVocab))]
	b := r.Bool()
	c := content{S: &s, T: &t, I: &i, N: &n, F: &f, B: &b}
	if form == "json" {
		// serialized records may lack fields
		if r.Chance(1, 5) {
			c.S = nil
		}
		if r.Chance(1, 6) {
			c.T = nil
		}
		if r.Chance(1, 6) {
			c.I = nil
		}
		if r.Chance(1, 6) {
			c.N = nil
		}
		if r.Chance(1, 6) {
			c.F = nil
		}
		if r.Chance(1, 6) {
			c.B = nil
		}
	}
	return c
}

func (g *gen) rec(key string, allowDeleted bool) recSpec {
	r := g.r
	form := vlib.Pick(r, "struct", "struct", "estruct", "estruct", "json", "json", "json", "opaque")
	rs := recSpec{Key: key, Form: form, C: g.content(form), Meta: "fresh"}
	if form == "estruct" && r.Chance(1, 4) {
		// nil embedded pointer: the fields behind it (F, B) are absent, as in the JSON form
		rs.NilPtr = true
	}
	if r.Chance(2, 5) {
		rs.Meta = "keep"
	}
	ne := 0
	if r.Chance(1, 3) {
		ne = r.Range(1, 2)
	}
	for j := 0; j < ne; j++ {
		switch r.Intn(10) {
		case 0, 1:
			rs.Edits = append(rs.Edits, medit{K: "abs", V: 100000})
		case 2:
			rs.Edits = append(rs.Edits, medit{K: "abs", V: -100000})
		case 3, 4:
			rs.Edits = append(rs.Edits, medit{K: "rel", V: 100000})
		case 5:
			rs.Edits = append(rs.Edits, medit{K: "noexp"})
		case 6:
			if !g.noFlags {
				rs.Edits = append(rs.Edits, medit{K: "secret"})
			}
		case 7:
			if !g.noFlags {
				rs.Edits = append(rs.Edits, medit{K: "crown"})
			}
		default:
			if allowDeleted {
				rs.Edits = append(rs.Edits, medit{K: "del", V: -int64(r.Intn(3)) * 61})
			}
		}
	}
	return rs
}

func (g *gen) noteWrite(rs recSpec) {
	dead := false
	for _, e := range rs.Edits {
		if e.K == "del" || (e.K == "abs" && e.V < 0) {
			dead = true
		}
		if e.K == "noexp" || (e.K == "abs" && e.V > 0) {
			dead = false
		}
	}
	g.live[rs.Key] = !dead
}

func (g *gen) prefix() string {
	r := g.r
	k := g.key()
	switch r.Intn(12) {
	case 0, 1:
		return ""
	case 2:
		return k
	case 3, 4:
		// cut at a path boundary, keep the separator
		if i := strings.Index(k, "/"); i >= 0 {
			return k[:i+1]
		}
		return k
	case 5:
		// cut at a path boundary, drop the separator
		if i := strings.LastIndex(k, "/"); i >= 0 {
			return k[:i]
		}
		return k
	case 6, 7, 8:
		// cut anywhere (below directory granularity); stay on a rune boundary
		rs := []rune(k)
		return string(rs[:r.Range(1, len(rs))])
	case 9:
		if i := strings.LastIndex(k, "/"); i >= 0 {
			rs := []rune(k[i+1:])
			return k[:i+1] + string(rs[:r.Range(0, len(rs))])
		}
		return k
	case 10:
		if g.cfg.Backend == "fstree" {
			// a prefix that runs *below* a stored key would treat a file as a directory:
			// outside the stated key discipline of the file tree
			return vlib.Pick(r, "zz", "zz/", "zz/y/x", "zz/y/")
		}
		return vlib.Pick(r, "zz", "zz/", "a/zz/", "zz/y/x", "b/nope")
	default:
		if g.cfg.Backend == "fstree" {
			return k + vlib.Pick(r, "x", "")
		}
		return k + vlib.Pick(r, "/", "x", "")
	}
}

func (g *gen) leaf() cond {
	r := g.r
	switch r.Intn(9) {
	case 0, 1:
		v := intVocab[r.Intn(8)]
		if r.Chance(1, 5) {
			v = intVocab[r.Intn(len(intVocab))]
		}
		f := "I"
		if r.Chance(1, 3) {
			f = "N"
			v = int64(int32Vocab[r.Intn(len(int32Vocab))])
		}
		c := cond{Op: intOps[r.Intn(len(intOps))], Field: f, VI: &v, Text: r.Chance(1, 4)}
		if r.Chance(1, 2) {
			// every operand representation the API accepts; one that cannot hold the value
			// falls back to int64
			c.As = vlib.Pick(r, "pad", "pad", "plus", "int", "int8", "int16", "int32", "uint", "uint8", "uint16", "uint32")
		}
		return c
	case 2:
		if r.Chance(1, 5) {
			// float operator with an integer operand (exactly representable)
			v := int64(vlib.Pick(r, 0, 1, -1, 2, 100, -3))
			return cond{Op: floatOps[r.Intn(len(floatOps))], Field: "F", VI: &v,
				As: vlib.Pick(r, "", "pad", "plus", "int", "int8", "int16", "int32", "uint", "uint8", "uint16", "uint32")}
		}
		v := fltVocab[r.Intn(len(fltVocab))]
		c := cond{Op: floatOps[r.Intn(len(floatOps))], Field: "F", VF: &v, Text: r.Chance(1, 4)}
		if r.Chance(1, 3) {
			c.As = vlib.Pick(r, "pad", "plus", "exp", "float32")
			if c.As == "float32" {
				// only operands that survive the float32 round trip unchanged
				v = vlib.Pick(r, 0.0, 1, -1, 0.5, 1.5, -2.25, 2, 100)
			}
			if c.As == "pad" && (v > 1e15 || v < -1e15 || (v != 0 && v > -1e-6 && v < 1e-6)) {
				c.As = "exp"
			}
		}
		return c
	case 3, 4:
		v := strVocab[r.Intn(len(strVocab))]
		if r.Chance(1, 3) && len(v) > 1 {
			v = v[:1]
		}
		return cond{Op: stringOps[r.Intn(len(stringOps))], Field: vlib.Pick(r, "S", "T"), VS: &v}
	case 5:
		n := r.Range(2, 4)
		var l []string
		text := r.Chance(1, 3)
		for len(l) < n {
			e := strVocab[r.Intn(len(strVocab))]
			if text && strings.Contains(e, ",") {
				continue
			}
			l = append(l, e)
		}
		return cond{Op: "in", Field: vlib.Pick(r, "S", "T"), VL: l, Text: text}
	case 6:
		v := reVocab[r.Intn(len(reVocab))]
		return cond{Op: "matches", Field: vlib.Pick(r, "S", "T"), VS: &v}
	case 7:
		v := r.Bool()
		return cond{Op: "is", Field: "B", VB: &v, Text: r.Chance(1, 4)}
	default:
		return cond{Op: "exists", Field: vlib.Pick(r, "S", "T", "I", "N", "F", "B", "Zz")}
	}
}

func (g *gen) cond(depth int) cond {
	r := g.r
	if depth <= 0 || r.Chance(1, 2) {
		return g.leaf()
	}
	switch r.Intn(3) {
	case 0:
		return cond{Op: "not", Kids: []cond{g.cond(depth - 1)}}
	case 1:
		n := r.Range(2, 3)
		c := cond{Op: "and"}
		for i := 0; i < n; i++ {
			c.Kids = append(c.Kids, g.cond(depth-1))
		}
		return c
	default:
		n := r.Range(2, 3)
		c := cond{Op: "or"}
		for i := 0; i < n; i++ {
			c.Kids = append(c.Kids, g.cond(depth-1))
		}
		return c
	}
}

func (g *gen) query() *qSpec {
	q := &qSpec{Prefix: g.prefix(), Consume: vlib.Pick(g.r, "", "", "prompt", "slow")}
	if g.r.Chance(3, 5) {
		c := g.cond(3)
		q.Where = &c
	}
	return q
}

type wop struct {
	k string
	w int
}

func (g *gen) opTable() []wop {
	if g.cfg.Cache == "delayed" {
		// the quantifier restricts the delayed write cache to get/put/delete at any time
		// and queries after a flush
		return []wop{{"put", 26}, {"putnew", 5}, {"get", 24}, {"exists", 6}, {"delete", 12}, {"query", 10}, {"flush", 4}, {"flushapi", 3}, {"readback", 2}}
	}
	return []wop{{"put", 22}, {"putnew", 6}, {"get", 18}, {"exists", 6}, {"delete", 10}, {"putmany", 4}, {"purge", 3},
		{"setabs", 4}, {"setrel", 3}, {"maintain", 1}, {"maintain_thorough", 1}, {"maintain_states", 3}, {"maintain_direct", 2},
		{"query", 15}, {"readback", 2}}
}

func genHistory(seed uint64, cfg cfgSpec, no int, thorough bool) history {
	r := vlib.NewRand(seed, "C02/hist/"+cfg.label(), uint64(no))
	g := &gen{r: r, cfg: cfg, thorough: thorough, live: map[string]bool{}}
	h := history{No: no}
	if cfg.Cache != "delayed" && no%5 == 4 {
		// an interface without special permissions must be the same map as long as no
		// record is marked secret / crown jewel (delayed writes require a privileged interface)
		h.Priv = "none"
		g.noFlags = true
	}
	g.genKeys()
	h.Keys = g.keys
	n := r.Range(20, 120)
	tab := g.opTable()
	tot := 0
	for _, w := range tab {
		tot += w.w
	}
	// one expiry-transition scenario (needs ~2 s of real time) in a few histories
	waitAt := -1
	if cfg.Cache != "delayed" && no%7 == 3 {
		waitAt = r.Range(5, n-1)
	}
	// one maintenance run during the very second a record expires, in a few histories
	boundaryAt := -1
	if cfg.Cache != "delayed" && no%8 == 5 {
		boundaryAt = r.Range(3, n-1)
	}
	for i := 0; i < n; i++ {
		if i == boundaryAt {
			k := g.key()
			rs := g.rec(k, false)
			rs.Edits = []medit{{K: "abs", V: 1}}
			rs.NilPtr = false
			h.Ops = append(h.Ops, op{K: "put", Key: k, Rec: &rs})
			h.Ops = append(h.Ops, op{K: "boundary", Key: k, Off: int64(r.Intn(2))})
			g.live[k] = false
			continue
		}
		if i == waitAt {
			k := g.liveKey()
			rs := g.rec(k, false)
			rs.Edits = nil
			h.Ops = append(h.Ops, op{K: "put", Key: k, Rec: &rs})
			h.Ops = append(h.Ops, op{K: "get", Key: k})
			h.Ops = append(h.Ops, op{K: vlib.Pick(r, "wait_abs", "wait_rel", "wait_put"), Key: k})
			g.live[k] = false
			continue
		}
		x := r.Intn(tot)
		kind := ""
		for _, w := range tab {
			if x < w.w {
				kind = w.k
				break
			}
			x -= w.w
		}
		switch kind {
		case "put", "putnew":
			k := g.key()
			rs := g.rec(k, true)
			h.Ops = append(h.Ops, op{K: kind, Key: k, Rec: &rs})
			g.noteWrite(rs)
		case "get", "exists":
			k := g.key()
			if r.Chance(1, 8) {
				if g.cfg.Backend == "fstree" {
					// stay inside the stated key discipline: no probe below a stored key, no empty segment
					k = vlib.Pick(r, "zz-never", "zz/never", g.key()+"x")
				} else {
					k = vlib.Pick(r, "never", "a/never", g.key()+"x", g.key()+"/", g.key()+"/x")
				}
			}
			h.Ops = append(h.Ops, op{K: kind, Key: k})
		case "delete":
			k := g.liveKey()
			h.Ops = append(h.Ops, op{K: "delete", Key: k})
			g.live[k] = false
		case "putmany":
			nb := r.Range(1, 8)
			o := op{K: "putmany"}
			for j := 0; j < nb; j++ {
				rs := g.rec(g.key(), true)
				o.Batch = append(o.Batch, rs)
				g.noteWrite(rs)
			}
			h.Ops = append(h.Ops, o)
		case "purge":
			q := g.query()
			if r.Chance(1, 2) && q.Prefix == "" {
				q.Prefix = g.prefix()
			}
			h.Ops = append(h.Ops, op{K: "purge", Q: q})
		case "setabs":
			k := g.liveKey()
			off := vlib.Pick(r, int64(100000), 100000, -100000, 0)
			h.Ops = append(h.Ops, op{K: "setabs", Key: k, Off: off})
			if off < 0 {
				g.live[k] = false
			}
		case "setrel":
			h.Ops = append(h.Ops, op{K: "setrel", Key: g.liveKey(), Off: vlib.Pick(r, int64(100000), 100000, 0)})
		case "maintain_direct":
			h.Ops = append(h.Ops, op{K: kind, Off: vlib.Pick(r, int64(-100010), -100, 0, 100)})
		case "query":
			h.Ops = append(h.Ops, op{K: "query", Q: g.query()})
		default:
			h.Ops = append(h.Ops, op{K: kind})
		}
	}
	return h
}

// genBigHistory is one large history: a batch of n records under two prefixes, a
// conditional purge of more than 1000 of them, batches that delete and expire many
// records, every maintenance call, with read-backs in between.
func genBigHistory(seed uint64, cfg cfgSpec, n int) history {
	r := vlib.NewRand(seed, "C02/big/"+cfg.label(), 0)
	h := history{No: 0}
	mk := func(i int) string {
		if i%2 == 0 {
			return fmt.Sprintf("p/%05d", i)
		}
		return fmt.Sprintf("q/%05d", i)
	}
	batch := op{K: "putmany"}
	for i := 0; i < n; i++ {
		k := mk(i)
		h.Keys = append(h.Keys, k)
		s, t := strVocab[r.Intn(len(strVocab))], "big"
		iv, nv, f, b := int64(i), int32(i%7), float64(i)/4, i%3 == 0
		form := "struct"
		if i%5 == 1 {
			form = "json"
		}
		batch.Batch = append(batch.Batch, recSpec{Key: k, Form: form, C: content{S: &s, T: &t, I: &iv, N: &nv, F: &f, B: &b}, Meta: "fresh"})
	}
	cut := int64(n / 8)
	pq := &qSpec{Prefix: "p/", Where: &cond{Op: ">=", Field: "I", VI: &cut}}
	h.Ops = append(h.Ops, batch, op{K: "query", Q: &qSpec{Prefix: "p/"}}, op{K: "query", Q: pq},
		op{K: "purge", Q: pq}, op{K: "readback"})
	// delete / expire a share of what is left through a second batch
	b2 := op{K: "putmany"}
	for i := 0; i < n; i++ {
		if i%2 == 0 || i%3 == 0 {
			continue
		}
		rs := recSpec{Key: mk(i), Form: "struct", C: batch.Batch[i].C, Meta: "keep"}
		switch i % 4 {
		case 1:
			rs.Edits = []medit{{K: "del", V: -61}}
		default:
			rs.Edits = []medit{{K: "abs", V: -100000}}
		}
		b2.Batch = append(b2.Batch, rs)
	}
	zero := int32(0)
	h.Ops = append(h.Ops, b2, op{K: "query", Q: &qSpec{Prefix: "q/"}}, op{K: "maintain_direct", Off: -30},
		op{K: "maintain_states"}, op{K: "maintain"}, op{K: "maintain_thorough"},
		op{K: "purge", Q: &qSpec{Prefix: "q/", Where: &cond{Op: "==", Field: "N", VI: func() *int64 { v := int64(zero); return &v }()}}},
		op{K: "readback"}, op{K: "maintain_states"})
	return h
}

// genWideHistory is a history over 150-400 keys with records of similar size, so that
// a single query iteration passes far more records than any backend-internal read-ahead
// or buffer window holds (badger prefetches 100 items, the iterator channel buffers 10).
// Every delivered record is compared with the model in full; the consumer looks at the
// records after the stream has ended (buffer), with pauses (slow) and on receipt (prompt).
func genWideHistory(seed uint64, cfg cfgSpec, no int, longStall bool) history {
	r := vlib.NewRand(seed, "C02/wide/"+cfg.label(), uint64(no))
	n := r.Range(150, 400)
	h := history{No: no}
	key := func(i int) string {
		if i%10 < 7 {
			return fmt.Sprintf("w/%04d", i)
		}
		return fmt.Sprintf("v/%04d", i)
	}
	mkRec := func(i, version int) recSpec {
		s, t := fmt.Sprintf("name-of-%04d-v%d", i, version), "wide"
		iv, nv, f, b := int64(i), int32(i%7), float64(i)/4, i%3 == 0
		form := "struct"
		switch i % 4 {
		case 1:
			form = "json"
		case 2:
			form = "estruct"
		}
		return recSpec{Key: key(i), Form: form, C: content{S: &s, T: &t, I: &iv, N: &nv, F: &f, B: &b}, Meta: "fresh"}
	}
	for i := 0; i < n; i++ {
		h.Keys = append(h.Keys, key(i))
	}
	// store: in one batch where the backend has batches (and the coin says so), else one by one
	if cfg.batcher() && r.Bool() {
		b := op{K: "putmany"}
		for i := 0; i < n; i++ {
			b.Batch = append(b.Batch, mkRec(i, 0))
		}
		h.Ops = append(h.Ops, b)
	} else {
		for i := 0; i < n; i++ {
			rs := mkRec(i, 0)
			h.Ops = append(h.Ops, op{K: "put", Key: rs.Key, Rec: &rs})
		}
	}
	half := int64(n / 2)
	three := int64(3)
	queries := func() {
		modes := []string{"", "slow", "prompt"}
		vlib.Shuffle(r, modes)
		h.Ops = append(h.Ops,
			op{K: "query", Q: &qSpec{Prefix: "", Consume: ""}},
			op{K: "query", Q: &qSpec{Prefix: "w/", Consume: modes[0]}},
			op{K: "query", Q: &qSpec{Prefix: "", Consume: modes[1]}},
			op{K: "query", Q: &qSpec{Prefix: "", Where: &cond{Op: ">=", Field: "I", VI: &half}, Consume: modes[2]}},
			op{K: "query", Q: &qSpec{Prefix: "v/", Where: &cond{Op: "not", Kids: []cond{{Op: "==", Field: "N", VI: &three}}}, Consume: ""}},
			op{K: "query", Q: &qSpec{Prefix: "w/0", Where: &cond{Op: "startswith", Field: "S", VS: func() *string { v := "name-of-0"; return &v }()}, Consume: "slow"}})
	}
	queries()
	// stalling consumer: stops taking records for far longer than the executors' send
	// timeout (1 s on hashmap, bbolt, fstree; 1 min on badger) while the iterator's buffer
	// of 10 is full, then drains; k below and above the buffer size
	stall := func(k, ms int) {
		h.Ops = append(h.Ops, op{K: "query", Q: &qSpec{Prefix: vlib.Pick(r, "", "w/"), Consume: "stall", StallAfter: k, StallMs: ms}})
	}
	stall(r.Range(1, 8), r.Range(2000, 2800))
	if cfg.Backend == "badger" && longStall {
		stall(r.Range(12, 40), 65000)
	} else {
		stall(r.Range(12, 60), r.Range(2000, 3000))
	}
	// change, delete and expire a share of the records
	for j := 0; j < n/8; j++ {
		rs := mkRec(r.Intn(n), 1+j%3)
		rs.Meta = "keep"
		h.Ops = append(h.Ops, op{K: "put", Key: rs.Key, Rec: &rs})
	}
	for j := 0; j < n/10; j++ {
		h.Ops = append(h.Ops, op{K: "delete", Key: key(r.Intn(n))})
	}
	for j := 0; j < n/20; j++ {
		h.Ops = append(h.Ops, op{K: "setabs", Key: key(r.Intn(n)), Off: vlib.Pick(r, int64(-100000), 100000)})
	}
	queries()
	h.Ops = append(h.Ops, op{K: "maintain_states"}, op{K: "query", Q: &qSpec{Prefix: "", Consume: ""}})
	return h
}
