package main

import (
	"fmt"
	"regexp"
	"strconv"
	"strings"

	"github.com/safing/portbase/database/query"
)

// Operator names as in database/query/README.md ("Textual" column).
var opConst = map[string]uint8{
	"==": query.Equals, ">": query.GreaterThan, ">=": query.GreaterThanOrEqual, "<": query.LessThan, "<=": query.LessThanOrEqual,
	"f==": query.FloatEquals, "f>": query.FloatGreaterThan, "f>=": query.FloatGreaterThanOrEqual, "f<": query.FloatLessThan, "f<=": query.FloatLessThanOrEqual,
	"sameas": query.SameAs, "contains": query.Contains, "startswith": query.StartsWith, "endswith": query.EndsWith,
	"in": query.In, "matches": query.Matches, "is": query.Is, "exists": query.Exists,
}

var (
	intOps    = []string{"==", ">", ">=", "<", "<="}
	floatOps  = []string{"f==", "f>", "f>=", "f<", "f<="}
	stringOps = []string{"sameas", "contains", "startswith", "endswith"}
)

// build turns the condition spec into a portbase condition through the public query API.
func (c *cond) build() query.Condition {
	switch c.Op {
	case "and", "or":
		kids := make([]query.Condition, 0, len(c.Kids))
		for i := range c.Kids {
			kids = append(kids, c.Kids[i].build())
		}
		if c.Op == "and" {
			return query.And(kids...)
		}
		return query.Or(kids...)
	case "not":
		return query.Not(c.Kids[0].build())
	}
	var v interface{}
	switch {
	case c.VI != nil && c.VF == nil && (c.Op == "==" || c.Op == ">" || c.Op == ">=" || c.Op == "<" || c.Op == "<="):
		v = intOperand(*c.VI, c.As, c.Text)
	case c.VI != nil:
		// float operator with an integer operand
		v = intOperand(*c.VI, c.As, c.Text)
	case c.VF != nil:
		switch {
		case c.As == "float32":
			v = float32(*c.VF)
		case c.As == "exp":
			v = strconv.FormatFloat(*c.VF, 'e', -1, 64)
		case c.As == "pad":
			v = padNumber(strconv.FormatFloat(*c.VF, 'f', -1, 64))
		case c.As == "plus" && *c.VF >= 0:
			v = "+" + strconv.FormatFloat(*c.VF, 'f', -1, 64)
		case c.Text:
			v = strconv.FormatFloat(*c.VF, 'g', -1, 64)
		default:
			v = *c.VF
		}
	case c.VB != nil:
		if c.Text {
			v = strconv.FormatBool(*c.VB)
		} else {
			v = *c.VB
		}
	case c.VL != nil:
		if c.Text {
			v = strings.Join(c.VL, ",")
		} else {
			v = c.VL
		}
	case c.VS != nil:
		v = *c.VS
	}
	return query.Where(c.Field, opConst[c.Op], v)
}

func (q *qSpec) build(db string) *query.Query {
	pq := query.New(db + ":" + q.Prefix)
	if q.Where != nil {
		pq = pq.Where(q.Where.build())
	}
	return pq
}

// ---------------------------------------------------------------------------------
// Independent evaluator of the documented operator table (database/query/README.md):
//   == > >= < <=            int    int64    Go comparison
//   f== f> f>= f< f<=       float  float64  Go comparison
//   sameas                  string ==; contains strings.Contains; startswith HasPrefix; endswith HasSuffix
//   in                      string, for loop with ==
//   matches                 regexp match
//   is                      bool ==
//   exists                  field present
// A leaf whose field is absent (or is not of the required type) does not hold.
// and / or / not are the usual connectives.

func fieldInt(c content, f string) (int64, bool) {
	switch f {
	case "I":
		if c.I != nil {
			return *c.I, true
		}
	case "N":
		if c.N != nil {
			return int64(*c.N), true
		}
	}
	return 0, false
}

func fieldFloat(c content, f string) (float64, bool) {
	if f == "F" && c.F != nil {
		return *c.F, true
	}
	return 0, false
}

func fieldString(c content, f string) (string, bool) {
	switch f {
	case "S":
		if c.S != nil {
			return *c.S, true
		}
	case "T":
		if c.T != nil {
			return *c.T, true
		}
	}
	return "", false
}

func fieldBool(c content, f string) (bool, bool) {
	if f == "B" && c.B != nil {
		return *c.B, true
	}
	return false, false
}

func fieldExists(c content, f string) bool {
	switch f {
	case "S":
		return c.S != nil
	case "T":
		return c.T != nil
	case "I":
		return c.I != nil
	case "N":
		return c.N != nil
	case "F":
		return c.F != nil
	case "B":
		return c.B != nil
	}
	return false
}

// eval decides whether content satisfies the condition.
func (c *cond) eval(x content) bool {
	switch c.Op {
	case "and":
		for i := range c.Kids {
			if !c.Kids[i].eval(x) {
				return false
			}
		}
		return true
	case "or":
		for i := range c.Kids {
			if c.Kids[i].eval(x) {
				return true
			}
		}
		return false
	case "not":
		return !c.Kids[0].eval(x)
	case "==", ">", ">=", "<", "<=":
		v, ok := fieldInt(x, c.Field)
		if !ok || c.VI == nil {
			return false
		}
		switch c.Op {
		case "==":
			return v == *c.VI
		case ">":
			return v > *c.VI
		case ">=":
			return v >= *c.VI
		case "<":
			return v < *c.VI
		default:
			return v <= *c.VI
		}
	case "f==", "f>", "f>=", "f<", "f<=":
		v, ok := fieldFloat(x, c.Field)
		if c.VF == nil && c.VI != nil {
			// integer operand of a float operator: compared as float64
			f := float64(*c.VI)
			c = &cond{Op: c.Op, Field: c.Field, VF: &f}
		}
		if !ok || c.VF == nil {
			return false
		}
		switch c.Op {
		case "f==":
			return v == *c.VF
		case "f>":
			return v > *c.VF
		case "f>=":
			return v >= *c.VF
		case "f<":
			return v < *c.VF
		default:
			return v <= *c.VF
		}
	case "sameas", "contains", "startswith", "endswith":
		v, ok := fieldString(x, c.Field)
		if !ok || c.VS == nil {
			return false
		}
		switch c.Op {
		case "sameas":
			return v == *c.VS
		case "contains":
			return strings.Contains(v, *c.VS)
		case "startswith":
			return strings.HasPrefix(v, *c.VS)
		default:
			return strings.HasSuffix(v, *c.VS)
		}
	case "in":
		v, ok := fieldString(x, c.Field)
		if !ok {
			return false
		}
		for _, e := range c.VL {
			if e == v {
				return true
			}
		}
		return false
	case "matches":
		v, ok := fieldString(x, c.Field)
		if !ok || c.VS == nil {
			return false
		}
		re, err := regexp.Compile(*c.VS)
		if err != nil {
			return false
		}
		return re.MatchString(v)
	case "is":
		v, ok := fieldBool(x, c.Field)
		if !ok || c.VB == nil {
			return false
		}
		return v == *c.VB
	case "exists":
		return fieldExists(x, c.Field)
	}
	panic(fmt.Sprintf("evaluator: unknown operator %q", c.Op))
}

// shape returns the operator skeleton of a condition (coverage key).
func (c *cond) shape() string {
	if c == nil {
		return "-"
	}
	switch c.Op {
	case "and", "or":
		parts := make([]string, len(c.Kids))
		for i := range c.Kids {
			parts[i] = c.Kids[i].shape()
		}
		return c.Op + "(" + strings.Join(parts, ",") + ")"
	case "not":
		return "not(" + c.Kids[0].shape() + ")"
	}
	return c.Op
}

func (c *cond) leaves(f func(l *cond)) {
	if c == nil {
		return
	}
	switch c.Op {
	case "and", "or", "not":
		for i := range c.Kids {
			c.Kids[i].leaves(f)
		}
	default:
		f(c)
	}
}

// padNumber inserts zeros after the sign of a decimal number: "10" -> "010", "-7" -> "-007".
func padNumber(s string) string {
	if strings.HasPrefix(s, "-") {
		return "-00" + s[1:]
	}
	return "0" + s
}

// intFits reports whether v can be handed over as the given Go type without change.
func intFits(v int64, as string) bool {
	switch as {
	case "int":
		return true
	case "int8":
		return v >= -128 && v <= 127
	case "int16":
		return v >= -32768 && v <= 32767
	case "int32":
		return v >= -(1<<31) && v <= 1<<31-1
	case "uint":
		return v >= 0
	case "uint8":
		return v >= 0 && v <= 255
	case "uint16":
		return v >= 0 && v <= 65535
	case "uint32":
		return v >= 0 && v <= 1<<32-1
	case "plus":
		return v >= 0
	}
	return true
}

func intOperand(v int64, as string, text bool) interface{} {
	if !intFits(v, as) {
		as = ""
	}
	switch as {
	case "int":
		return int(v)
	case "int8":
		return int8(v)
	case "int16":
		return int16(v)
	case "int32":
		return int32(v)
	case "uint":
		return uint(v)
	case "uint8":
		return uint8(v)
	case "uint16":
		return uint16(v)
	case "uint32":
		return uint32(v)
	case "pad":
		return padNumber(strconv.FormatInt(v, 10))
	case "plus":
		return "+" + strconv.FormatInt(v, 10)
	}
	if text {
		return strconv.FormatInt(v, 10)
	}
	return v
}
