// h_db — engine for property C02: every database backend behaves like one reference
// key-to-record store.
//
// Orchestrator: one child process per (backend x delete mode x cache mode)
// configuration (+ shards in the thorough tier), each running a PRNG-determined list
// of operation histories against the real database system; plus children for the
// iterator error hand-over clause and for large batch/purge/maintenance histories;
// a subset is repeated under the race detector.
// Child: see exec.go (online model comparison), iter.go (hand-over), gen.go.
package main

import (
	"encoding/json"
	"fmt"
	"os"
	"path/filepath"
	"runtime/debug"
	"strings"
	"time"

	"github.com/safing/portbase/database"

	"verifharness/internal/vlib"
)

func allConfigs() []cfgSpec {
	var out []cfgSpec
	for _, be := range []string{"hashmap", "bbolt", "fstree", "badger"} {
		for _, sh := range []bool{false, true} {
			for _, ca := range []string{"none", "read", "delayed"} {
				c := cfgSpec{Backend: be, Shadow: sh, Cache: ca}
				// a delayed write cache requires a backend with batch support (interface.go, Options.DelayCachedWrites)
				if ca == "delayed" && !c.batcher() {
					continue
				}
				out = append(out, c)
			}
		}
	}
	return out
}

const rule = "case = one operation history (20-120 interface operations over 6-20 keys sharing prefixes and '/' separators; records as typed struct, JSON-wrapped or opaque serialized data; " +
	"client-side metadata edits; queries = key prefix (cut at and below path boundaries, missing prefixes) x nested and/or/not over all 18 operators in their documented typing) " +
	"executed through a database.Interface on a fresh database of one configuration (4 backends x shadow/immediate delete x no cache / read cache / delayed write cache), every result compared online with a key->record map, " +
	"full read-back (Get of every key, Query of prefixes) every few steps, after every maintenance call and at the end; plus iterator error hand-over rounds (one round = one failing query under one schedule). " +
	"distinct = (configuration, history) pairs / (source, schedule, outcome) of hand-over rounds; non-trivial = at least 10 compared results including a Get that returned a stored record"

func main() {
	if dir, ok := vlib.IsChild(); ok {
		childMain(dir)
		return
	}
	cfg := vlib.Load()
	rep := vlib.NewReport(cfg)
	rep.Rule(rule)

	var specs []vlib.ChildSpec
	var cspecs []childSpec
	add := func(cs childSpec, to time.Duration) {
		cs.Prop, cs.Tier, cs.Seed = cfg.Prop, cfg.Tier, cfg.Seed
		bin := cfg.BinPlain
		if cs.Build == "race" {
			bin = cfg.BinRace
		}
		name := fmt.Sprintf("%s-%s-%s-%03d", cs.Build, cs.Mode, cs.Cfg.label(), cs.First)
		cspecs = append(cspecs, cs)
		specs = append(specs, vlib.ChildSpec{Name: name, Bin: bin, Spec: cs, Timeout: to, Race: cs.Build == "race"})
	}
	to := 12 * time.Minute
	if cfg.Thorough() {
		to = 40 * time.Minute
	}

	if cfg.Replay != "" {
		cs, err := replaySpec(cfg.Replay)
		if err != nil {
			fmt.Println("h_db: cannot replay:", err)
			rep.Inconclusive("replay file not usable: %v", err)
			_ = rep.Finish()
			return
		}
		add(cs, to)
	} else {
		nh, shard := cfg.N(40, 480), cfg.N(40, 60)
		// the slow (fsync-bound) configurations first
		cfgs := allConfigs()
		for _, slow := range []bool{true, false} {
			for _, c := range cfgs {
				if (c.Backend == "bbolt" || c.Backend == "fstree") != slow {
					continue
				}
				for first := 0; first < nh; first += shard {
					add(childSpec{Mode: "hist", Cfg: c, NHist: shard, First: first, Build: "plain"}, to)
				}
			}
		}
		add(childSpec{Mode: "iter", Build: "plain", Rounds: cfg.N(400, 4000)}, to)
		for _, c := range []cfgSpec{{Backend: "bbolt", Shadow: true, Cache: "none"}, {Backend: "bbolt", Shadow: false, Cache: "none"},
			{Backend: "bbolt", Shadow: false, Cache: "read", CacheSize: 64}, {Backend: "hashmap", Shadow: true, Cache: "none"}, {Backend: "hashmap", Shadow: false, Cache: "none"}} {
			add(childSpec{Mode: "big", Cfg: c, NHist: 1, Big: cfg.N(2600, 5200), Build: "plain"}, to)
		}
		// wide histories: queries over 150-400 visible keys with full content comparison
		wide := []cfgSpec{{Backend: "badger", Shadow: false, Cache: "none"}, {Backend: "badger", Shadow: true, Cache: "read", CacheSize: 64},
			{Backend: "hashmap", Shadow: true, Cache: "none"}, {Backend: "bbolt", Shadow: false, Cache: "none"}, {Backend: "fstree", Shadow: true, Cache: "none"}}
		if cfg.Thorough() {
			wide = nil
			for _, c := range allConfigs() {
				if c.Cache != "delayed" {
					wide = append(wide, c)
				}
			}
		}
		for _, c := range wide {
			add(childSpec{Mode: "wide", Cfg: c, NHist: cfg.N(1, 4), Build: "plain"}, to)
		}
		if cfg.BinRace != "" {
			add(childSpec{Mode: "iter", Build: "race", Rounds: cfg.N(200, 2000)}, to)
			for _, c := range []cfgSpec{{Backend: "hashmap", Shadow: false, Cache: "delayed"}, {Backend: "hashmap", Shadow: true, Cache: "delayed"},
				{Backend: "bbolt", Shadow: true, Cache: "delayed"}, {Backend: "hashmap", Shadow: false, Cache: "read"},
				{Backend: "bbolt", Shadow: false, Cache: "none"}, {Backend: "fstree", Shadow: true, Cache: "read"}, {Backend: "badger", Shadow: false, Cache: "none"}} {
				add(childSpec{Mode: "hist", Cfg: c, NHist: cfg.N(6, 40), Build: "race"}, to)
			}
		}
	}

	vlib.RunChildren(cfg, specs, func(i int, c *vlib.ChildResult) {
		cs := cspecs[i]
		rep.Seen("builds_run", cs.Build)
		if cs.Build == "race" {
			rep.MergeChildNoDistinct(c)
		} else {
			rep.MergeChild(c)
		}
		rep.Max("child_wall_s_max", int64(c.Wall.Seconds()))
		for _, rr := range c.Races {
			switch {
			case rr.HarnessOnly():
				rep.Note("race report in harness-only frames (%s): %s", c.Name, rr.Signature())
				rep.FloorMissed("the monitor itself is racy: %s", rr.Signature())
			case rr.InScope("iterator.(*Iterator).Finish", "iterator.(*Iterator).Err", "(*Interface).flushWriteCache", "(*Interface).cacheEvictHandler",
				"(*Interface).updateCache", "(*Interface).checkCache"):
				rep.Violation("C02:race:"+rr.Signature(), "data race on the iterator's terminal error or on the interface cache / write set",
					map[string]any{"mode": "race", "child": c.Name, "report": rr.Text})
			default:
				rep.Seen("race_diagnostics", rr.Signature())
			}
		}
		if c.TimedOut {
			rep.Inconclusive("child %s hit its watchdog (%s); stderr tail: %s", c.Name, specs[i].Timeout, tailStr(c.StderrTail(1500), 1500))
			return
		}
		if !c.Done {
			tail := c.StderrTail(6000)
			d := map[string]any{"mode": cs.Mode, "cfg": cs.Cfg, "child_spec": cs, "stderr_tail": tail}
			// the history the child was executing when it died (replayable on its own)
			if hj, err := os.ReadFile(filepath.Join(c.Dir, "current_history.json")); err == nil {
				d["history_json"] = string(hj)
			}
			if st, err := os.ReadFile(filepath.Join(c.Dir, "current_step")); err == nil {
				d["last_operation_started"] = string(st)
			}
			rep.Violation("C02:fatal:"+fatalSite(tail)+":"+cs.Cfg.class(), fmt.Sprintf("child %s died (exit=%d signal=%q) while executing database operations", c.Name, c.Exit, c.Signal), d)
		}
	})

	if cfg.Replay == "" {
		finish(cfg, rep)
	}
	if err := rep.Finish(); err != nil {
		fmt.Println("h_db: cannot write result:", err)
		os.Exit(2)
	}
}

func tailStr(s string, n int) string {
	if len(s) > n {
		return s[len(s)-n:]
	}
	return s
}

func fatalSite(tail string) string {
	for _, ln := range strings.Split(tail, "\n") {
		if strings.HasPrefix(ln, "fatal error:") || strings.HasPrefix(ln, "panic:") {
			s := strings.TrimSpace(ln)
			if len(s) > 80 {
				s = s[:80]
			}
			return s
		}
	}
	return "unknown"
}

// finish evaluates the "observed enough" floors.
func finish(cfg vlib.Cfg, rep *vlib.Report) {
	want := 0
	for _, c := range allConfigs() {
		g := &gen{cfg: c}
		want += len(g.opTable())
	}
	got := rep.SeenCount("cfg_op")
	// wait_* operations come on top of the table
	rep.Floor(got >= want, "operation kind x configuration pairs executed: %d, expected at least %d", got, want)
	q := rep.Counter("query_empty") + rep.Counter("query_all") + rep.Counter("query_proper_subset")
	rep.Floor(q >= int64(cfg.N(2000, 20000)), "queries compared: %d", q)
	rep.Floor(rep.Counter("query_proper_subset")*10 >= q, "queries returning a non-empty proper subset: %d of %d (< 10%%)", rep.Counter("query_proper_subset"), q)
	rep.Floor(rep.Counter("get_expect_found") >= 1000 && rep.Counter("get_expect_notfound") >= 1000, "gets compared: found=%d notfound=%d",
		rep.Counter("get_expect_found"), rep.Counter("get_expect_notfound"))
	rep.Floor(rep.Counter("expiry_transitions") >= 5, "expiry transitions observed: %d", rep.Counter("expiry_transitions"))
	rep.Floor(rep.Counter("maint_physically_removed") >= 20, "records physically removed by maintenance: %d", rep.Counter("maint_physically_removed"))
	for _, s := range []string{"faulty", "fstree"} {
		k := "iter/rounds/" + s + "/pause"
		rep.Floor(rep.Counter(k) >= 10, "iterator hand-over rounds with the producer parked at db.iter.finish (%s): %d", s, rep.Counter(k))
	}
	rep.Floor(rep.Counter("big_histories") >= 3, "large batch/purge histories: %d", rep.Counter("big_histories"))
	for _, be := range []string{"badger", "hashmap", "bbolt", "fstree"} {
		rep.Floor(rep.Counter("wide_histories/"+be) >= 1, "wide histories (queries over 150-400 keys) on %s: %d", be, rep.Counter("wide_histories/"+be))
	}
	rep.Floor(rep.Counter("query_records_max") >= 150, "largest query result: %d records", rep.Counter("query_records_max"))
	rep.Floor(rep.Counter("form/estruct") >= 300 && rep.Counter("nil_embedded_pointer_records") >= 5, "typed records with fields promoted from embedded structs: %d (with nil embedded pointer: %d)",
		rep.Counter("form/estruct"), rep.Counter("nil_embedded_pointer_records"))
	rep.Floor(rep.Counter("boundary_steps_judged") >= 3, "maintenance runs judged within the second a record expires: %d (skipped %d)",
		rep.Counter("boundary_steps_judged"), rep.Counter("boundary_steps_skipped"))
	rep.Floor(rep.SeenCount("operand_forms") >= 15, "operand representations of int/float operators seen: %d", rep.SeenCount("operand_forms"))
	rep.Floor(rep.Counter("query_consume/stall") >= 8, "queries with a stalling consumer: %d", rep.Counter("query_consume/stall"))
	rep.Floor(rep.Counter("stall_truncated_with_error") >= 2, "stalled queries that the executor gave up on (truncated, with error): %d", rep.Counter("stall_truncated_with_error"))
	for _, m := range []string{"buffer", "slow", "prompt"} {
		rep.Floor(rep.Counter("query_consume/"+m) >= 100, "queries consumed in mode %s: %d", m, rep.Counter("query_consume/"+m))
	}
	rep.Assume("clock: portbase and the harness read the same system clock; expiry values are now +-10^5 s except in the explicit expiry-transition steps, which are decided by comparing unix seconds read before/after the call (undecided if the call straddles the boundary)")
	rep.Assume("the typed struct TestRec and its JSON form are the two record representations; conditions use only the documented operator/field-type pairings on root-level fields")
	rep.Assume("file-tree backend: key sets prefix-free at path-segment boundaries, segments never '.', '..' or empty")
	rep.Assume("raw storage view for the 'physically removes' clause: the real backend object obtained through a storage.Register factory wrapper")
}

// ---------------------------------------------------------------------------------
// replay

func replaySpec(path string) (childSpec, error) {
	var doc struct {
		Detail struct {
			Mode    string    `json:"mode"`
			Cfg     cfgSpec   `json:"cfg"`
			History string    `json:"history_json"`
			Build   string    `json:"build"`
			Child   childSpec `json:"child_spec"`
		} `json:"detail"`
	}
	b, err := os.ReadFile(path)
	if err != nil {
		return childSpec{}, err
	}
	if err := json.Unmarshal(b, &doc); err != nil {
		return childSpec{}, err
	}
	d := doc.Detail
	switch {
	case d.Mode == "iter":
		return childSpec{Mode: "iter", Build: "plain", Rounds: 200}, nil
	case d.History != "":
		var h history
		if err := json.Unmarshal([]byte(d.History), &h); err != nil {
			return childSpec{}, err
		}
		return childSpec{Mode: "hist", Cfg: d.Cfg, NHist: 1, Build: "plain", Replay: &h}, nil
	case d.Child.Mode != "":
		c := d.Child
		c.Build = "plain"
		return c, nil
	}
	return childSpec{}, fmt.Errorf("no replayable scenario in %s", path)
}

// ---------------------------------------------------------------------------------
// child

func childMain(dir string) {
	var cs childSpec
	if err := vlib.ChildSpecInto(dir, &cs); err != nil {
		fmt.Println("bad spec:", err)
		os.Exit(3)
	}
	b := vlib.NewBatch()
	switch cs.Mode {
	case "iter":
		childIter(dir, cs, b)
	default:
		childHist(dir, cs, b)
	}
	b.Finish(dir)
}

var childDir string

func childHist(dir string, cs childSpec, b *vlib.Batch) {
	childDir = dir
	root := filepath.Join(dir, "dbroot")
	if err := database.InitializeWithPath(root); err != nil {
		b.Inconclusive("cannot initialise database system: %v", err)
		return
	}
	registerBackends()
	thorough := cs.Tier == "thorough"
	for n := 0; n < cs.NHist; n++ {
		var h history
		switch {
		case cs.Replay != nil:
			h = *cs.Replay
		case cs.Mode == "big":
			h = genBigHistory(cs.Seed, cs.Cfg, cs.Big)
		case cs.Mode == "wide":
			h = genWideHistory(cs.Seed, cs.Cfg, cs.First+n, thorough && n == 0 && !cs.Cfg.Shadow && cs.Cfg.Cache == "none")
		default:
			h = genHistory(cs.Seed, cs.Cfg, cs.First+n, thorough)
		}
		if !runHistory(cs, b, &h, n) {
			return
		}
		if cs.Mode == "big" {
			b.Count("big_histories", 1)
			break
		}
		if cs.Mode == "wide" {
			b.Count("wide_histories/"+cs.Cfg.Backend, 1)
		}
	}
}

// runHistory executes one history on a fresh database. It returns false if the world
// is wedged and the child has to stop.
func runHistory(cs childSpec, b *vlib.Batch, h *history, n int) bool {
	cfg := cs.Cfg
	reuse := cfg.Backend == "badger" // an open badger database costs ~80 MB: reuse one and wipe it
	name := fmt.Sprintf("h%04d", n)
	if reuse {
		name = "reused"
	}
	_, err := database.Register(&database.Database{Name: name, Description: cfg.label(), StorageType: "v" + cfg.Backend, ShadowDelete: cfg.Shadow})
	if err != nil {
		b.Inconclusive("%s: register: %v", cfg.label(), err)
		return false
	}
	opts := &database.Options{Local: h.Priv != "none", Internal: h.Priv != "none"}
	if cfg.Cache != "none" {
		opts.CacheSize = cfg.CacheSize
		if opts.CacheSize == 0 {
			opts.CacheSize = []int{2, 3, 8, 64}[h.No%4]
		}
		if cfg.Cache == "delayed" {
			opts.DelayCachedWrites = name
		}
	}
	w := &world{cs: cs, cfg: cfg, b: b, db: name, iface: database.NewInterface(opts), m: newModel(), h: h, used: map[string]bool{}}
	// first access starts the storage
	_, _ = w.iface.Get(name + ":\x00init")
	w.raw = rawOf(name)
	if w.raw == nil {
		b.Inconclusive("%s: storage was not started", cfg.label())
		return false
	}
	b.Max("cache_size_max", int64(opts.CacheSize))
	if childDir != "" {
		// journal: if the process dies inside portbase, the orchestrator names the history
		hj, _ := json.Marshal(h)
		_ = os.WriteFile(filepath.Join(childDir, "current_history.json"), hj, 0o644)
	}
	done := make(chan struct{})
	go func() {
		defer close(done)
		w.run()
	}()
	limit := 5 * time.Minute
	if cs.Mode == "big" {
		limit = 15 * time.Minute
	}
	select {
	case <-done:
	case <-time.After(limit):
		b.Inconclusive("%s history %d did not finish within %s (step %d); goroutines:\n%s", cfg.label(), h.No, limit, w.step, tailStr(string(debug.Stack()), 2000))
		return false
	}
	b.Eval(1)
	b.Count("histories/"+cfg.Backend, 1)
	if h.Priv == "none" {
		b.Count("histories_unprivileged_interface", 1)
	}
	b.Count("compared_results", int64(w.compared))
	if w.compared >= 10 && w.found > 0 {
		hb, _ := json.Marshal(h)
		b.Distinct([]byte(cfg.label()), hb)
	}
	if n == 0 && cs.Build == "plain" && cs.Mode == "hist" && cs.First == 0 {
		b.Sample(map[string]any{"cfg": cfg.label(), "history_no": h.No, "keys": h.Keys, "ops": len(h.Ops), "log_excerpt": tailS(w.log, 25)})
	}
	if reuse {
		for k := range w.used {
			_ = w.raw.Delete(k)
		}
	}
	return true
}
