package main

import (
	"fmt"
	"os"
	"path/filepath"
	"runtime"
	"strings"
	"sync"
	"sync/atomic"
	"time"

	"github.com/safing/portbase/api"
	"github.com/safing/portbase/dataroot"
	"github.com/safing/portbase/modules"
	"github.com/safing/portbase/utils/vhook"

	"verifharness/internal/vlib"
)

// Generous watchdogs. Their expiry alone never yields a violation: a violation needs
// a structural witness on top (see inflight); otherwise the check is undecided.
const (
	waitBegin  = 30 * time.Second
	waitSettle = 15 * time.Second
	waitRerun  = 30 * time.Second
)

// world is the state of one child: event log, received error reports, checks.
type world struct {
	spec caseSpec
	dir  string
	log  *vlib.Log
	out  *childOut

	mu      sync.Mutex
	reports []*modules.ModuleError
	claimed map[*modules.ModuleError]bool
	repCh   chan *modules.ModuleError

	release  chan struct{} // closed to let the healthy items finish
	released atomic.Bool

	chanSet      atomic.Bool  // the error reporting channel is registered
	stopTimeouts atomic.Int32 // modules.stop.timeout hook hits
	stopTOSnap   atomic.Value // string: counters at the moment of the timeout
	stopTOLeak   atomic.Bool  // a counter / the control-function flag was still set then

	subjectName string // module whose accounting is watched
}

func newWorld(sp caseSpec, dir string) *world {
	w := &world{spec: sp, dir: dir, log: vlib.NewLog(), release: make(chan struct{}),
		claimed: map[*modules.ModuleError]bool{}}
	w.out = &childOut{Spec: sp, Facts: map[string]any{}, Snaps: map[string]snap{}, Counts: map[string]int64{}, Seen: map[string]string{}}
	// The engine links the api package (API part), whose init registers the modules
	// database, config and api in every child: they need a data root and a listen
	// address to come up. Only the API part lets the HTTP server listen (port 0 = an
	// ephemeral port, parallel children do not collide).
	root := filepath.Join(dir, "dataroot")
	_ = os.MkdirAll(root, 0o755)
	if err := dataroot.Initialize(root, 0o755); err != nil {
		fmt.Println("dataroot:", err)
		os.Exit(3)
	}
	api.SetDefaultAPIListenAddress("127.0.0.1:0")
	api.EnableServer = sp.Part == "api"
	// the sink of the property: a buffered channel with a permanent receiver
	w.repCh = make(chan *modules.ModuleError, 256)
	if sp.RepCfg == "" || sp.RepCfg == "chan" {
		w.setChannel()
	}
	modules.SetStdErrReporting(sp.StdErr)
	go func() {
		for me := range w.repCh {
			w.mu.Lock()
			w.reports = append(w.reports, me)
			w.mu.Unlock()
		}
	}()
	// portbase's own timeouts stay far away from anything the case does (work ends in
	// milliseconds); only the *event* that the stop timeout expired is used.
	modules.VerifSetStopTimeout(25 * time.Second)
	vhook.Set("modules.stop.timeout", func(_, subject string) {
		w.stopTimeouts.Add(1)
		if st := modules.GetStatus(); st != nil {
			if ms := st.Modules[subject]; ms != nil {
				if subject == w.subjectName && (ms.Workers != 0 || ms.Tasks != 0 || ms.MicroTasks != 0 || ms.CtrlFuncRunning) {
					w.stopTOLeak.Store(true)
				}
				w.stopTOSnap.Store(fmt.Sprintf("%s: workers=%d tasks=%d microtasks=%d ctrlfn=%v", subject, ms.Workers, ms.Tasks, ms.MicroTasks, ms.CtrlFuncRunning))
			}
		}
		w.log.Rec("hook", subject, "modules.stop.timeout", nil)
	})
	// Amplifier / de-amplifier at modules.task.defer (start of the deferred clean-up of a
	// task execution): a delay keeps the clean-up from overtaking the goroutine that
	// watches the task's context (see finding "task watcher reads a replaced context").
	if d := time.Duration(sp.TaskDeferUS) * time.Microsecond; d > 0 {
		vhook.Set("modules.task.defer", func(_, _ string) { time.Sleep(d) })
	}
	return w
}

// setChannel registers the error reporting channel.
func (w *world) setChannel() {
	if w.chanSet.CompareAndSwap(false, true) {
		modules.SetErrorReportingChannel(w.repCh)
		w.log.Rec("call", "driver", "SetErrorReportingChannel", nil)
	}
}

// quietKind: with stderr reporting off and no channel registered nobody "listens";
// such cases are their own class in the violation signature.
func (w *world) quietKind(kind string) string {
	if !w.spec.StdErr && !w.chanSet.Load() {
		return kind + "/quiet"
	}
	return kind
}

func (w *world) check(oracle, kind, value string, ok bool, what string, detail any) {
	w.mu.Lock()
	defer w.mu.Unlock()
	c := check{Oracle: oracle, Kind: kind, Value: value, OK: ok}
	if !ok {
		c.What, c.Detail = what, detail
		if shortExpired.Load() {
			// judged after a shortened wait: not a verdict
			c.OK, c.Undecided, c.Detail = false, true, nil
			c.What = "(not judged: follows an earlier failed check of this case, waits were cut short) " + what
		}
		failedOnce.Store(true)
	}
	w.out.Checks = append(w.out.Checks, c)
}

// checkHard records a failed check whose witness is structural: it stays a verdict even
// when earlier waits of the case were cut short.
func (w *world) checkHard(oracle, kind, value, what string, detail any) {
	w.mu.Lock()
	defer w.mu.Unlock()
	failedOnce.Store(true)
	w.out.Checks = append(w.out.Checks, check{Oracle: oracle, Kind: kind, Value: value, What: what, Detail: detail})
}

func (w *world) undecided(oracle, kind, value, what string) {
	w.mu.Lock()
	defer w.mu.Unlock()
	w.out.Checks = append(w.out.Checks, check{Oracle: oracle, Kind: kind, Value: value, Undecided: true, What: what})
}

func (w *world) note(format string, a ...any) {
	w.mu.Lock()
	defer w.mu.Unlock()
	if len(w.out.Notes) < 30 {
		w.out.Notes = append(w.out.Notes, fmt.Sprintf(format, a...))
	}
}

func (w *world) fact(k string, v any) {
	w.mu.Lock()
	w.out.Facts[k] = v
	w.mu.Unlock()
}

func (w *world) count(k string, n int64) {
	w.mu.Lock()
	w.out.Counts[k] += n
	w.mu.Unlock()
}

// finish writes the observations and leaves the process (goroutines the case left
// behind must not keep it alive).
func (w *world) finish() {
	w.mu.Lock()
	for i, me := range w.reports {
		if i >= 40 {
			break
		}
		w.out.Reports = append(w.out.Reports, reportObs{Module: me.ModuleName, TaskName: me.TaskName, TaskType: me.TaskType,
			Severity: me.Severity, Message: trunc(safeString(func() string { return me.Message }), 200),
			ValueType: typeOf(me.PanicValue), StackLen: len(me.StackTrace)})
	}
	evs := w.log.Events()
	if len(evs) > 120 {
		evs = evs[:120]
	}
	w.out.Events = evs
	w.out.Counts["events"] = int64(w.log.Len())
	w.out.Counts["error_reports_received"] = int64(len(w.reports))
	// written under the lock: work that portbase still runs late must not race with it
	vlib.ChildFinish(w.dir, w.out)
	os.Exit(0)
}

func (w *world) harnessProblem(format string, a ...any) {
	w.mu.Lock()
	w.out.HarnessProblem = fmt.Sprintf(format, a...)
	w.mu.Unlock()
	w.finish()
}

func trunc(s string, n int) string {
	if len(s) > n {
		return s[:n]
	}
	return s
}

func safeString(f func() string) (s string) {
	defer func() {
		if r := recover(); r != nil {
			s = fmt.Sprint("<panicked: ", r, ">")
		}
	}()
	return f()
}

func errText(err error) string {
	if err == nil {
		return ""
	}
	return safeString(err.Error)
}

// Once a check of this case has failed (the case is a violation witness already), the
// remaining waits are cut short; what they would have decided is then left undecided
// instead of being judged on a short clock.
var (
	failedOnce   atomic.Bool
	shortExpired atomic.Bool
	slowOnce     atomic.Bool
)

const shortWait = 4 * time.Second

// waitFor polls cond until it holds or the (generous) limit expires.
func waitFor(limit time.Duration, cond func() bool) bool {
	short, full := false, limit
	if (failedOnce.Load() || slowOnce.Load()) && limit > shortWait {
		limit, short = shortWait, true
	}
	deadline := time.Now().Add(limit)
	d := 50 * time.Microsecond
	for {
		// cond may have side effects (claiming a report): evaluated once per round only
		if cond() {
			return true
		}
		if time.Now().After(deadline) {
			if short {
				shortExpired.Store(true)
			} else if full >= 10*time.Second {
				// the first full watchdog that expires makes the case a slow one:
				// everything after it waits briefly only (and is not judged on that
				// short clock)
				slowOnce.Store(true)
			}
			return false
		}
		time.Sleep(d)
		if d < 2*time.Millisecond {
			d *= 2
		}
	}
}

// ---------------------------------------------------------------------------------
// accounting

func (w *world) snapOf(module string) snap {
	var s snap
	if st := modules.GetStatus(); st != nil {
		if ms := st.Modules[module]; ms != nil {
			s.Workers, s.Tasks, s.MicroTasks, s.CtrlFn = ms.Workers, ms.Tasks, ms.MicroTasks, ms.CtrlFuncRunning
		}
	}
	s.Global = modules.VerifMicroTasks()
	return s
}

func (w *world) snap() snap { return w.snapOf(w.subjectName) }

func (w *world) keepSnap(name string, s snap) {
	w.mu.Lock()
	w.out.Snaps[name] = s
	w.mu.Unlock()
}

// settle waits until the accounting reads want in three consecutive readings (the
// global microtask counter is incremented by the scheduler *after* it granted a
// clearance, so single readings may be transient).
func (w *world) settle(want snap) (last snap, ok bool) {
	ok = waitFor(waitSettle, func() bool {
		for i := 0; i < 3; i++ {
			last = w.snap()
			if last != want {
				return false
			}
			runtime.Gosched()
		}
		return true
	})
	return last, ok
}

// portbase frames inside which managed work (or its deferred accounting) executes.
var runFrames = []string{
	"modules.(*Module).runWorker", "modules.(*Module).RunWorker", "modules.(*Module).runServiceWorker",
	"modules.(*Module).runMicroTask", "modules.(*Module).concludeMicroTask",
	"modules.(*Module).RunMicroTask", "modules.(*Module).RunLowPriorityMicroTask", "modules.(*Module).RunHighPriorityMicroTask",
	"modules.(*Task).executeWithLocking", "modules.(*Module).runEventHook", "modules.(*Module).processEventTrigger",
	"api.(*mainHandler).ServeHTTP",
}

var foreignWorkers = []string{"portbase/rng.", "api.serverManager", "net/http.(*Server).", "portbase/database.", "dbmodule."}

// inflight is the structural witness used when a watchdog expired: it returns the
// goroutines that are still inside a portbase run path and are not one of the
// harness' own parked healthy items (or other known long-lived workers). If there are
// none, no goroutine exists any more that could still do the missing accounting.
func inflight(ignore ...string) (n int, sample string) {
	buf := make([]byte, 4<<20)
	buf = buf[:runtime.Stack(buf, true)]
	for _, g := range strings.Split(string(buf), "\n\n") {
		hit := false
		for _, f := range runFrames {
			if strings.Contains(g, f) {
				hit = true
				break
			}
		}
		if !hit || strings.Contains(g, "healthyWait") {
			continue
		}
		// long-lived workers of the modules the binary links besides the harness' own
		skip := false
		for _, ig := range foreignWorkers {
			if strings.Contains(g, ig) {
				skip = true
			}
		}
		for _, ig := range ignore {
			if strings.Contains(g, ig) {
				skip = true
			}
		}
		if skip {
			continue
		}
		n++
		if sample == "" {
			sample = trunc(g, 1500)
		}
	}
	return n, sample
}

// decideSettle turns the outcome of a settle into a check.
func (w *world) decideSettle(kind, value, when string, prev, last snap, ok bool, ignore ...string) {
	if ok {
		w.check("counter-leak", kind, value, true, "", nil)
		return
	}
	if n, g := inflight(ignore...); n > 0 {
		w.undecided("counter-leak", kind, value, fmt.Sprintf("%s: accounting %+v, expected %+v, but %d goroutine(s) still inside a portbase run path after %s: %s", when, last, prev, n, waitSettle, trunc(g, 400)))
		return
	}
	w.check("counter-leak", kind, value, false,
		fmt.Sprintf("%s: the work counters did not return to their previous values (now %+v, before the panicking item %+v) and no goroutine is left inside a portbase run path that could still adjust them", when, last, prev),
		map[string]any{"previous": prev, "now": last})
}

// ---------------------------------------------------------------------------------
// error reports

// claimReport finds a not yet claimed report that satisfies match.
func (w *world) claimReport(match func(*modules.ModuleError) bool) *modules.ModuleError {
	w.mu.Lock()
	defer w.mu.Unlock()
	for _, me := range w.reports {
		if !w.claimed[me] && match(me) {
			w.claimed[me] = true
			return me
		}
	}
	return nil
}

func (w *world) reportIndex(me *modules.ModuleError) int {
	w.mu.Lock()
	defer w.mu.Unlock()
	for i, r := range w.reports {
		if r == me {
			return i
		}
	}
	return -1
}

func (w *world) nReports() int { w.mu.Lock(); defer w.mu.Unlock(); return len(w.reports) }

// checkReported decides clause "reported through the module error channel" (and that
// the report identifies itself as a panic, carries the value and a stack trace) for one
// panic occurrence. taskOK tells whether a task name is the item's.
func (w *world) checkReported(kind string, v *pvalue, module string, taskOK func(string) bool, ret *modules.ModuleError) {
	if !w.chanSet.Load() {
		w.checkViaLast(kind, v, module, taskOK, ret)
		if w.spec.RepCfg == "late" {
			w.setChannel() // later panics of the case are observed through the channel
		}
		return
	}
	var sawCandidate *modules.ModuleError
	found := waitFor(waitSettle, func() bool {
		me := w.claimReport(func(me *modules.ModuleError) bool {
			if me.ModuleName != module || !taskOK(me.TaskName) {
				return false
			}
			if ret != nil {
				return me == ret
			}
			sawCandidate = me
			ok, _ := v.matches(me.PanicValue)
			return ok && me.Severity == "panic"
		})
		if me != nil {
			sawCandidate = me
			return true
		}
		return false
	})
	if !found {
		what := fmt.Sprintf("no ModuleError for the panicking %s arrived on the channel set with SetErrorReportingChannel (%d reports received in total)", kind, w.nReports())
		if sawCandidate != nil {
			_, why := v.matches(sawCandidate.PanicValue)
			w.check("wrong-report", kind, v.class, false,
				fmt.Sprintf("a report for the item arrived but it does not describe the panic: severity=%q, value: %s", sawCandidate.Severity, why), nil)
			return
		}
		if n, g := inflight(); n > 0 {
			w.undecided("not-reported", kind, v.class, what+"; a goroutine is still inside a portbase run path: "+trunc(g, 300))
			return
		}
		w.check("not-reported", kind, v.class, false, what, nil)
		return
	}
	me := sawCandidate
	w.check("not-reported", kind, v.class, true, "", nil)
	okV, why := v.matches(me.PanicValue)
	w.check("wrong-report", kind, v.class, me.Severity == "panic" && okV,
		fmt.Sprintf("the reported error does not identify the panic: severity=%q, PanicValue: %s", me.Severity, why), nil)
	w.check("no-stack", kind, v.class, strings.Contains(me.StackTrace, "raiseVerifPanic"),
		fmt.Sprintf("the reported StackTrace (%d bytes) does not contain the panicking function", len(me.StackTrace)),
		map[string]any{"stack": trunc(me.StackTrace, 1200)})
	// GetLastReportedError is this report or a later one: Report() stores it and
	// sends on the channel under one lock, so channel order = assignment order.
	last := modules.GetLastReportedError()
	idx := w.reportIndex(me)
	okLast := waitFor(waitSettle, func() bool { li := w.reportIndex(last); return li >= idx })
	w.check("last-reported", kind, v.class, okLast,
		"GetLastReportedError returned neither the report of this panic nor a later one", nil)
}

// checkViaLast: no reporting channel is registered, so the channel clause does not
// apply; the converted error is still what GetLastReportedError hands out (unless a
// later report replaced it, as the lifecycle passes do with their own error message).
// It must identify the panic and carry value and stack trace in every configuration.
func (w *world) checkViaLast(kind string, v *pvalue, module string, taskOK func(string) bool, ret *modules.ModuleError) {
	w.count("panics_without_channel", 1)
	if w.spec.Part == "life" {
		return // replaced at once by the pass' own "start/stop module" error report
	}
	qk := w.quietKind(kind)
	var me *modules.ModuleError
	found := waitFor(waitSettle, func() bool {
		l := modules.GetLastReportedError()
		if l == nil || l.ModuleName != module || !taskOK(l.TaskName) {
			return false
		}
		if ret != nil && l != ret {
			return false
		}
		me = l
		return true
	})
	if !found {
		l := modules.GetLastReportedError()
		if n, _ := inflight(); l == nil && n == 0 {
			w.check("last-reported", qk, v.class, false, "GetLastReportedError returns nil after the panic was handled (no reporting channel registered)", nil)
		} else {
			w.undecided("last-reported", qk, v.class, "GetLastReportedError does not (yet) hand out the error of this panic; no reporting channel is registered to observe it otherwise")
		}
		return
	}
	w.check("last-reported", qk, v.class, true, "", nil)
	okV, why := v.matches(me.PanicValue)
	w.check("wrong-report", qk, v.class, me.Severity == "panic" && okV,
		fmt.Sprintf("the error handed out by GetLastReportedError does not identify the panic: severity=%q, PanicValue: %s", me.Severity, why), nil)
	w.check("no-stack", qk, v.class, strings.Contains(me.StackTrace, "raiseVerifPanic"),
		fmt.Sprintf("the panic error (GetLastReportedError; stderr reporting %v, no reporting channel) carries a StackTrace of %d bytes that does not contain the panicking function", w.spec.StdErr, len(me.StackTrace)),
		map[string]any{"stack": trunc(me.StackTrace, 1200)})
}

// checkReturned decides the clause "returned by the blocking run variants".
func (w *world) checkReturned(kind string, v *pvalue, err error) *modules.ModuleError {
	if err == nil {
		w.check("not-returned", kind, v.class, false, "the blocking run variant returned a nil error although its function panicked", nil)
		return nil
	}
	is, me := modules.IsPanic(err)
	if !is || me == nil {
		w.check("not-returned", kind, v.class, false, fmt.Sprintf("the blocking run variant returned %T (%s), which modules.IsPanic does not recognise", err, trunc(errText(err), 200)), nil)
		return nil
	}
	w.check("not-returned", kind, v.class, true, "", nil)
	okV, why := v.matches(me.PanicValue)
	w.check("wrong-return", kind, v.class, me.Severity == "panic" && okV,
		fmt.Sprintf("the returned error does not identify the panic: severity=%q, PanicValue: %s", me.Severity, why), nil)
	w.check("no-stack", w.quietKind(kind), v.class, strings.Contains(me.StackTrace, "raiseVerifPanic"),
		fmt.Sprintf("the returned error's StackTrace (%d bytes) does not contain the panicking function (stderr reporting %v, reporting channel registered %v)", len(me.StackTrace), w.spec.StdErr, w.chanSet.Load()),
		map[string]any{"stack": trunc(me.StackTrace, 1200)})
	return me
}

// boundStop: a case that is already slow or failed does not wait out the long stop
// timeout as well (the timeout's verdict is its accounting snapshot, not its length).
func (w *world) boundStop() {
	if failedOnce.Load() || slowOnce.Load() {
		modules.VerifSetStopTimeout(6 * time.Second)
	}
}

// shutdownAndCheck stops the module system and decides "the module can still be
// stopped" for cases whose stop routines are healthy.
func (w *world) shutdownAndCheck(kind, value string, wantErr bool) {
	w.log.Rec("call", "driver", "Shutdown", nil)
	w.boundStop()
	done := make(chan error, 1)
	go func() { done <- modules.Shutdown() }()
	var err error
	select {
	case err = <-done:
	case <-time.After(90 * time.Second):
		n, g := inflight()
		w.undecided("stop", kind, value, fmt.Sprintf("Shutdown did not return within 90 s (%d goroutines in run paths) %s", n, trunc(g, 300)))
		return
	}
	w.log.Rec("ret", "driver", "Shutdown", map[string]any{"err": errText(err)})
	w.fact("shutdown_err", errText(err))
	if wantErr {
		w.check("lifecycle-no-error", kind, value, err != nil, "Shutdown returned nil although the module's stop routine panicked", nil)
	} else {
		w.check("stop", kind, value, err == nil, "after the panic was handled, Shutdown returned an error: "+errText(err), nil)
	}
	if n := w.stopTimeouts.Load(); n > 0 {
		s, _ := w.stopTOSnap.Load().(string)
		if w.stopTOLeak.Load() {
			// structural: every harness item that began has ended, yet the module's
			// accounting was not zero when portbase gave up waiting
			w.checkHard("stop", kind, value,
				"stopping the module only completed through the stop timeout although all managed work had ended; accounting at the timeout: "+s, nil)
		} else {
			w.undecided("stop", kind, value, "the stop timeout expired although the accounting read zero: "+s)
		}
	}
}
