package main

import (
	"fmt"
	"sync/atomic"
	"time"

	"github.com/safing/portbase/modules"
)

// Lifecycle part: a panic inside the prep / start / stop routine of module "subject"
// (depends on "base"; healthy sibling modules start and stop concurrently; for the
// stop kinds a module "top" depends on the subject so that stops happen before and
// after the panicking one).
type lifeWorld struct {
	*world
	mods       map[string]*modules.Module
	delays     map[string]time.Duration
	phaseRun   map[string]*atomic.Int32 // "<module>/<phase>" -> entries
	phaseEnd   map[string]*atomic.Int32
	val        *pvalue
	panicsLeft atomic.Int32
	// earlyDone: inside its (still running) stop routine the subject already read as
	// offline, i.e. portbase had declared the stop complete before the routine ended.
	earlyDone atomic.Bool
	phase     string // phase of the subject that panics
}

func (lw *lifeWorld) routine(mod, phase string) func() error {
	key := mod + "/" + phase
	lw.phaseRun[key] = &atomic.Int32{}
	lw.phaseEnd[key] = &atomic.Int32{}
	run, end := lw.phaseRun[key], lw.phaseEnd[key]
	return func() error {
		defer end.Add(1)
		n := run.Add(1)
		lw.log.Rec("begin", mod, phase, map[string]any{"n": n})
		if d := lw.delays[mod]; d > 0 {
			time.Sleep(d)
		}
		if mod == "subject" && phase == "stop" && lw.status("subject") == "offline" {
			lw.earlyDone.Store(true)
			lw.log.Rec("note", mod, phase, map[string]any{"status_inside_running_stop_routine": "offline"})
		}
		if mod == "subject" && phase == lw.phase && lw.panicsLeft.Add(-1) >= 0 {
			lw.log.Rec("panic", mod, phase, map[string]any{"value": lw.val.class})
			lw.count("panics_raised", 1)
			lw.val.raiseVerifPanic()
		}
		lw.log.Rec("end", mod, phase, map[string]any{"n": n})
		return nil
	}
}

// quiesce waits until every lifecycle routine that began has ended (Start returns at
// the first failure while sibling starts may still be in flight).
func (lw *lifeWorld) quiesce() {
	waitFor(waitBegin, func() bool {
		for k, r := range lw.phaseRun {
			if lw.phaseEnd[k].Load() < r.Load() {
				return false
			}
		}
		// also the routines of the modules the binary links (database, config, api)
		if st := modules.GetStatus(); st != nil && st.Total.CtrlFuncRunning > 0 {
			return false
		}
		return true
	})
}

// raised makes sure the scenario got as far as the panic.
func (lw *lifeWorld) raised(startErr error) {
	lw.mu.Lock()
	n := lw.out.Counts["panics_raised"]
	lw.mu.Unlock()
	if n == 0 {
		sts := ""
		for n := range lw.mods {
			sts += n + "=" + lw.status(n) + " "
		}
		evs := ""
		for _, e := range lw.log.Events() {
			evs += fmt.Sprintf("%d:%s/%s/%s ", e.Seq, e.Kind, e.Who, e.Op)
		}
		lw.harnessProblem("the panicking routine was never entered (err: %s) statuses: %s events: %s", errText(startErr), sts, evs)
	}
}

func (lw *lifeWorld) status(mod string) string {
	if st := modules.GetStatus(); st != nil {
		if ms := st.Modules[mod]; ms != nil {
			return ms.Status
		}
	}
	return "?"
}

func runLifeChild(sp caseSpec, dir string) {
	w := newWorld(sp, dir)
	lw := &lifeWorld{world: w, mods: map[string]*modules.Module{}, delays: map[string]time.Duration{},
		phaseRun: map[string]*atomic.Int32{}, phaseEnd: map[string]*atomic.Int32{}}
	w.subjectName = "subject"
	lw.val = newValue(sp.Value, "subject-"+sp.Kind)
	lw.panicsLeft.Store(1)
	switch sp.Kind {
	case "prep":
		lw.phase = "prep"
	case "start", "start-mgmt":
		lw.phase = "start"
	case "stop", "stop-mgmt":
		lw.phase = "stop"
	}
	mgmt := sp.Kind == "start-mgmt" || sp.Kind == "stop-mgmt"
	withTop := lw.phase == "stop"

	names := []string{"subject", "base"}
	for i := 0; i < sp.Siblings; i++ {
		names = append(names, fmt.Sprintf("sib%d", i))
	}
	for i, n := range names {
		if i < len(sp.Delays) {
			lw.delays[n] = time.Duration(sp.Delays[i]) * time.Millisecond
		}
	}
	reg := func(name string, deps ...string) {
		lw.mods[name] = modules.Register(name, lw.routine(name, "prep"), lw.routine(name, "start"), lw.routine(name, "stop"), deps...)
	}
	reg("base")
	reg("subject", "base")
	for i := 0; i < sp.Siblings; i++ {
		reg(fmt.Sprintf("sib%d", i), "base")
	}
	if withTop {
		reg("top", "subject")
	}
	if mgmt {
		modules.EnableModuleManagement(func(*modules.Module) {})
		for n, m := range lw.mods {
			if n == "base" {
				continue // comes up as a dependency
			}
			if sp.Kind == "start-mgmt" && n == "subject" {
				continue // enabled later: its start runs inside a management pass
			}
			m.Enable()
		}
	}

	taskName := lw.phase + " module"
	taskOK := func(s string) bool { return s == taskName }

	w.log.Rec("call", "driver", "Start", nil)
	startErr := modules.Start()
	w.log.Rec("ret", "driver", "Start", map[string]any{"err": errText(startErr)})
	w.fact("start_err", errText(startErr))

	switch sp.Kind {
	case "prep", "start":
		lw.raised(startErr)
		w.check("lifecycle-no-error", sp.Kind, sp.Value, startErr != nil,
			fmt.Sprintf("modules.Start returned nil although the %s routine of a module panicked", lw.phase), nil)
		w.checkReported(sp.Kind, lw.val, "subject", taskOK, nil)
		lw.quiesce()
		s := w.snap()
		w.keepSnap("after_panic", s)
		w.check("counter-leak", sp.Kind, sp.Value, !s.CtrlFn,
			"the module's control-function flag is still set after its routine panicked", s)
		w.fact("subject_status_after_panic", lw.status("subject"))
		// Stopping what did start is C01's business (a failed start leaves the module
		// in "starting"); here: Shutdown returns and the process survives.
		lw.shutdownLife(sp, false)

	case "start-mgmt":
		if startErr != nil {
			w.harnessProblem("modules.Start with healthy routines failed: %s", startErr)
		}
		lw.mods["subject"].Enable()
		w.log.Rec("call", "driver", "ManageModules", nil)
		err := modules.ManageModules()
		w.log.Rec("ret", "driver", "ManageModules", map[string]any{"err": errText(err)})
		w.fact("manage_err", errText(err))
		lw.raised(err)
		w.check("lifecycle-no-error", sp.Kind, sp.Value, err != nil,
			"ManageModules returned nil although the start routine of the module it started panicked", nil)
		w.checkReported(sp.Kind, lw.val, "subject", taskOK, nil)
		lw.quiesce()
		s := w.snap()
		w.keepSnap("after_panic", s)
		w.check("counter-leak", sp.Kind, sp.Value, !s.CtrlFn,
			"the module's control-function flag is still set after its routine panicked", s)
		w.fact("subject_status_after_panic", lw.status("subject"))
		lw.shutdownLife(sp, false)

	case "stop":
		if startErr != nil {
			w.harnessProblem("modules.Start with healthy routines failed: %s", startErr)
		}
		lw.shutdownLife(sp, true)
		lw.quiesce()
		lw.raised(nil)
		w.checkReported(sp.Kind, lw.val, "subject", taskOK, nil)
		s := w.snap()
		w.keepSnap("after_panic", s)
		w.check("counter-leak", sp.Kind, sp.Value, !s.CtrlFn,
			"the module's control-function flag is still set after its stop routine panicked", s)
		st := lw.status("subject")
		w.fact("subject_status_after_panic", st)
		w.check("stop", sp.Kind, sp.Value, st == "offline", "after Shutdown the module whose stop routine panicked is "+st+", not offline", nil)
		w.fact("base_stop_ran", lw.phaseRun["base/stop"].Load())

	case "stop-mgmt":
		if startErr != nil {
			w.harnessProblem("modules.Start with healthy routines failed: %s", startErr)
		}
		lw.mods["top"].Disable()
		lw.mods["subject"].Disable()
		w.log.Rec("call", "driver", "ManageModules", nil)
		err := modules.ManageModules()
		w.log.Rec("ret", "driver", "ManageModules", map[string]any{"err": errText(err)})
		w.fact("manage_err", errText(err))
		lw.quiesce()
		lw.raised(err)
		if lw.earlyDone.Load() {
			lw.earlyStop(sp, "ManageModules", err)
		} else {
			w.check("lifecycle-no-error", sp.Kind, sp.Value, err != nil,
				"ManageModules returned nil although the stop routine of the module it stopped panicked", nil)
		}
		w.checkReported(sp.Kind, lw.val, "subject", taskOK, nil)
		s := w.snap()
		w.keepSnap("after_panic", s)
		w.check("counter-leak", sp.Kind, sp.Value, !s.CtrlFn,
			"the module's control-function flag is still set after its stop routine panicked", s)
		st := lw.status("subject")
		w.fact("subject_status_after_panic", st)
		w.check("stop", sp.Kind, sp.Value, st == "offline", "after the management pass the module whose stop routine panicked is "+st+", not offline", nil)
		// the module can be started and stopped again
		lw.mods["subject"].Enable()
		err = modules.ManageModules()
		w.fact("manage_again_err", errText(err))
		st = lw.status("subject")
		w.fact("subject_status_restarted", st)
		if err == nil && st == "online" {
			before := lw.phaseRun["subject/stop"].Load()
			lw.shutdownLife(sp, false)
			after := lw.phaseRun["subject/stop"].Load()
			w.check("stop", sp.Kind, sp.Value, after == before+1 && lw.status("subject") == "offline",
				fmt.Sprintf("the module whose stop routine had panicked was started again, but Shutdown did not stop it (stop routine entries %d -> %d, status %s)", before, after, lw.status("subject")), nil)
		} else {
			w.note("restart after the stop panic: ManageModules=%q status=%s", errText(err), st)
			lw.shutdownLife(sp, false)
		}
	}
	w.finish()
}

// shutdownLife calls Shutdown; for lifecycle cases only "returns (an error, where the
// stop routine panicked)" and "no stop timeout" are demanded.
func (lw *lifeWorld) shutdownLife(sp caseSpec, wantErr bool) {
	w := lw.world
	w.log.Rec("call", "driver", "Shutdown", nil)
	done := make(chan error, 1)
	go func() { done <- modules.Shutdown() }()
	var err error
	select {
	case err = <-done:
	case <-time.After(150 * time.Second):
		n, g := inflight()
		w.undecided("stop", sp.Kind, sp.Value, fmt.Sprintf("Shutdown did not return within 150 s (%d goroutines in run paths) %s", n, trunc(g, 300)))
		return
	}
	w.log.Rec("ret", "driver", "Shutdown", map[string]any{"err": errText(err)})
	w.fact("shutdown_err", errText(err))
	if wantErr {
		lw.quiesce()
		if lw.earlyDone.Load() {
			lw.earlyStop(sp, "Shutdown", err)
		} else {
			w.check("lifecycle-no-error", sp.Kind, sp.Value, err != nil, "Shutdown returned nil although the stop routine of a module panicked", nil)
		}
	}
	if n := w.stopTimeouts.Load(); n > 0 {
		s, _ := w.stopTOSnap.Load().(string)
		if w.stopTOLeak.Load() {
			w.check("stop", sp.Kind, sp.Value, false, "stopping only completed through the stop timeout; accounting at the timeout: "+s, nil)
		} else {
			w.undecided("stop", sp.Kind, sp.Value, "the stop timeout expired although the accounting read zero: "+s)
		}
	}
}

// earlyStop: the pass declared the module stopped while its stop routine was still
// running, so the routine's panic could not be part of the result any more. That is a
// defect of the stop-completion accounting (found and fixed under C01/C05: a stale
// reset of the control-function flag), kept apart from "returned nil after the panic".
func (lw *lifeWorld) earlyStop(sp caseSpec, call string, err error) {
	lw.check("stop-declared-complete-early", sp.Kind, "any", err != nil,
		call+" treated the module as stopped (status offline, dependencies released) while its stop routine was still running, and returned nil although that routine then panicked", nil)
}
