package main

import (
	"context"
	"fmt"
	"runtime"
	"sort"
	"strings"
	"sync/atomic"
	"time"

	"github.com/safing/portbase/modules"
	"github.com/safing/portbase/utils/vhook"
)

// Lifecycle part: a panic inside the prep / start / stop routine of module "subject"
// (depends on "base"; healthy sibling modules start and stop concurrently; for the
// stop kinds a module "top" depends on the subject so that stops happen before and
// after the panicking one).
type lifeWorld struct {
	*world
	mods       map[string]*modules.Module
	delays     map[string]time.Duration
	phaseRun   map[string]*atomic.Int32 // "<module>/<phase>" -> entries
	phaseEnd   map[string]*atomic.Int32
	val        *pvalue
	panicsLeft atomic.Int32
	// earlyDone: inside its (still running) stop routine the subject already read as
	// offline, i.e. portbase had declared the stop complete before the routine ended.
	earlyDone atomic.Bool
	phase     string // phase of the subject that panics

	// items launched by the start routine that panics (spec.StartItems)
	startItems []*startItem
	// Linger: worker that outlives the stop timeout
	lingerBegun     atomic.Bool
	lingerEnded     atomic.Bool
	lingerRelease   chan struct{}
	stopSent        atomic.Bool // the stop routine's result was handed over (hook modules.ctrlfn.sent)
	timeoutSeen     atomic.Bool // modules.stop.timeout fired for the subject
	lingerUndecided atomic.Bool

	// failure-update notify function (spec.Notify)
	notifyCalls atomic.Int64
	readSeq     atomic.Int64 // progress of the reading notifier
	reading     atomic.Value // string: module whose state is being read right now
}

// startItem is a healthy managed item launched by the start routine before it panics;
// it stays inside its function until the context it was handed is cancelled.
type startItem struct {
	name, kind string
	begun      atomic.Bool
	ended      atomic.Bool
	ctx        atomic.Value // ctxBox
}

type ctxBox struct{ ctx context.Context }

func (it *startItem) ctxLive() bool {
	b, ok := it.ctx.Load().(ctxBox)
	return ok && b.ctx.Err() == nil
}

func (lw *lifeWorld) launchStartItems() {
	m := lw.mods["subject"]
	for i, k := range lw.spec.StartItems {
		it := &startItem{name: fmt.Sprintf("start-item-%d-%s", i, k), kind: k}
		lw.startItems = append(lw.startItems, it)
		body := func(ctx context.Context) error {
			it.ctx.Store(ctxBox{ctx})
			lw.log.Rec("begin", it.name, it.kind, map[string]any{"ctx_done": ctx.Err() != nil})
			it.begun.Store(true)
			<-ctx.Done()
			lw.log.Rec("end", it.name, it.kind, map[string]any{"ctx_cancelled": true})
			it.ended.Store(true)
			return nil
		}
		switch k {
		case "worker":
			m.StartWorker(it.name, body)
		case "serviceworker":
			m.StartServiceWorker(it.name, svcBackoff, body)
		case "mt-high":
			m.StartHighPriorityMicroTask(it.name, body)
		case "mt-med":
			m.StartMicroTask(it.name, 0, body)
		}
	}
	// the start routine sees its items running before it goes on (and panics)
	if !waitFor(waitBegin, func() bool {
		for _, it := range lw.startItems {
			if !it.begun.Load() {
				return false
			}
		}
		return true
	}) {
		lw.harnessProblem("items launched by the start routine did not begin")
	}
}

func (lw *lifeWorld) routine(mod, phase string) func() error {
	key := mod + "/" + phase
	lw.phaseRun[key] = &atomic.Int32{}
	lw.phaseEnd[key] = &atomic.Int32{}
	run, end := lw.phaseRun[key], lw.phaseEnd[key]
	return func() error {
		defer end.Add(1)
		n := run.Add(1)
		lw.log.Rec("begin", mod, phase, map[string]any{"n": n})
		if mod == "subject" && phase == "start" && n == 1 && len(lw.spec.StartItems) > 0 {
			lw.launchStartItems()
		}
		if d := lw.delays[mod]; d > 0 {
			time.Sleep(d)
		}
		if mod == "subject" && phase == "stop" && lw.status("subject") == "offline" {
			lw.earlyDone.Store(true)
			lw.log.Rec("note", mod, phase, map[string]any{"status_inside_running_stop_routine": "offline"})
		}
		if mod == "subject" && phase == lw.phase && lw.panicsLeft.Add(-1) >= 0 {
			lw.log.Rec("panic", mod, phase, map[string]any{"value": lw.val.class})
			lw.count("panics_raised", 1)
			lw.val.raiseVerifPanic()
		}
		lw.log.Rec("end", mod, phase, map[string]any{"n": n})
		return nil
	}
}

// quiesce waits until every lifecycle routine that began has ended (Start returns at
// the first failure while sibling starts may still be in flight).
func (lw *lifeWorld) quiesce() {
	waitFor(waitBegin, func() bool {
		for k, r := range lw.phaseRun {
			if lw.phaseEnd[k].Load() < r.Load() {
				return false
			}
		}
		// also the routines of the modules the binary links (database, config, api)
		if st := modules.GetStatus(); st != nil && st.Total.CtrlFuncRunning > 0 {
			return false
		}
		return true
	})
}

// raised makes sure the scenario got as far as the panic.
func (lw *lifeWorld) raised(startErr error) {
	lw.mu.Lock()
	n := lw.out.Counts["panics_raised"]
	lw.mu.Unlock()
	if n == 0 {
		sts := ""
		for n := range lw.mods {
			sts += n + "=" + lw.status(n) + " "
		}
		evs := ""
		for _, e := range lw.log.Events() {
			evs += fmt.Sprintf("%d:%s/%s/%s ", e.Seq, e.Kind, e.Who, e.Op)
		}
		lw.harnessProblem("the panicking routine was never entered (err: %s) statuses: %s events: %s", errText(startErr), sts, evs)
	}
}

func (lw *lifeWorld) status(mod string) string {
	if st := modules.GetStatus(); st != nil {
		if ms := st.Modules[mod]; ms != nil {
			return ms.Status
		}
	}
	return "?"
}

func runLifeChild(sp caseSpec, dir string) {
	w := newWorld(sp, dir)
	lw := &lifeWorld{world: w, mods: map[string]*modules.Module{}, delays: map[string]time.Duration{},
		phaseRun: map[string]*atomic.Int32{}, phaseEnd: map[string]*atomic.Int32{}}
	w.subjectName = "subject"
	lw.val = newValue(sp.Value, "subject-"+sp.Kind)
	lw.panicsLeft.Store(1)
	switch sp.Kind {
	case "prep":
		lw.phase = "prep"
	case "start", "start-mgmt":
		lw.phase = "start"
	case "stop", "stop-mgmt":
		lw.phase = "stop"
	}
	mgmt := sp.Kind == "start-mgmt" || sp.Kind == "stop-mgmt"
	withTop := lw.phase == "stop"

	names := []string{"subject", "base"}
	for i := 0; i < sp.Siblings; i++ {
		names = append(names, fmt.Sprintf("sib%d", i))
	}
	for i, n := range names {
		if i < len(sp.Delays) {
			lw.delays[n] = time.Duration(sp.Delays[i]) * time.Millisecond
		}
	}
	reg := func(name string, deps ...string) {
		lw.mods[name] = modules.Register(name, lw.routine(name, "prep"), lw.routine(name, "start"), lw.routine(name, "stop"), deps...)
	}
	reg("base")
	reg("subject", "base")
	for i := 0; i < sp.Siblings; i++ {
		reg(fmt.Sprintf("sib%d", i), "base")
	}
	if withTop {
		reg("top", "subject")
	}
	if mgmt {
		modules.EnableModuleManagement(func(*modules.Module) {})
		for n, m := range lw.mods {
			if n == "base" {
				continue // comes up as a dependency
			}
			if sp.Kind == "start-mgmt" && n == "subject" {
				continue // enabled later: its start runs inside a management pass
			}
			m.Enable()
		}
	}

	if sp.Linger {
		lw.setupLinger()
	}
	if sp.Notify != "" {
		modules.SetFailureUpdateNotifyFunc(lw.failureNotifier)
	}

	taskName := lw.phase + " module"
	taskOK := func(s string) bool { return s == taskName }

	w.log.Rec("call", "driver", "Start", nil)
	startErr := lw.guard("Start", modules.Start)
	w.log.Rec("ret", "driver", "Start", map[string]any{"err": errText(startErr)})
	w.fact("start_err", errText(startErr))

	switch sp.Kind {
	case "prep", "start":
		lw.raised(startErr)
		w.check("lifecycle-no-error", sp.Kind, sp.Value, startErr != nil,
			fmt.Sprintf("modules.Start returned nil although the %s routine of a module panicked", lw.phase), nil)
		w.checkReported(sp.Kind, lw.val, "subject", taskOK, nil)
		lw.quiesce()
		s := w.snap()
		w.keepSnap("after_panic", s)
		w.check("counter-leak", sp.Kind, sp.Value, !s.CtrlFn,
			"the module's control-function flag is still set after its routine panicked", s)
		w.fact("subject_status_after_panic", lw.status("subject"))
		// Stopping what did start is C01's business (a failed start leaves the module
		// in "starting"); here: Shutdown returns and the process survives.
		if len(sp.StartItems) > 0 {
			lw.retryAndStop(sp)
		} else {
			lw.shutdownLife(sp, false)
		}

	case "start-mgmt":
		if startErr != nil {
			w.harnessProblem("modules.Start with healthy routines failed: %s", startErr)
		}
		lw.mods["subject"].Enable()
		w.log.Rec("call", "driver", "ManageModules", nil)
		err := lw.guard("ManageModules", modules.ManageModules)
		w.log.Rec("ret", "driver", "ManageModules", map[string]any{"err": errText(err)})
		w.fact("manage_err", errText(err))
		lw.raised(err)
		w.check("lifecycle-no-error", sp.Kind, sp.Value, err != nil,
			"ManageModules returned nil although the start routine of the module it started panicked", nil)
		w.checkReported(sp.Kind, lw.val, "subject", taskOK, nil)
		lw.quiesce()
		s := w.snap()
		w.keepSnap("after_panic", s)
		w.check("counter-leak", sp.Kind, sp.Value, !s.CtrlFn,
			"the module's control-function flag is still set after its routine panicked", s)
		w.fact("subject_status_after_panic", lw.status("subject"))
		if len(sp.StartItems) > 0 {
			lw.retryAndStop(sp)
		} else {
			lw.shutdownLife(sp, false)
		}

	case "stop":
		if startErr != nil {
			w.harnessProblem("modules.Start with healthy routines failed: %s", startErr)
		}
		lw.launchLinger()
		lw.shutdownLife(sp, true)
		lw.quiesce()
		lw.raised(nil)
		w.checkReported(sp.Kind, lw.val, "subject", taskOK, nil)
		s := w.snap()
		w.keepSnap("after_panic", s)
		w.check("counter-leak", sp.Kind, sp.Value, !s.CtrlFn,
			"the module's control-function flag is still set after its stop routine panicked", s)
		st := lw.status("subject")
		w.fact("subject_status_after_panic", st)
		w.check("stop", sp.Kind, sp.Value, st == "offline", "after Shutdown the module whose stop routine panicked is "+st+", not offline", nil)
		w.fact("base_stop_ran", lw.phaseRun["base/stop"].Load())

	case "stop-mgmt":
		if startErr != nil {
			w.harnessProblem("modules.Start with healthy routines failed: %s", startErr)
		}
		lw.launchLinger()
		lw.mods["top"].Disable()
		lw.mods["subject"].Disable()
		w.log.Rec("call", "driver", "ManageModules", nil)
		err := lw.guard("ManageModules", modules.ManageModules)
		w.log.Rec("ret", "driver", "ManageModules", map[string]any{"err": errText(err)})
		w.fact("manage_err", errText(err))
		lw.quiesce()
		lw.raised(err)
		if lw.earlyDone.Load() {
			lw.earlyStop(sp, "ManageModules", err)
		} else if lw.lingerUndecided.Load() {
			w.undecided("lifecycle-no-error", sp.Kind, sp.Value, "the stop routine had not handed over its result when the stop timeout fired")
		} else {
			w.check("lifecycle-no-error", lw.lingerKind(sp), sp.Value, err != nil,
				"ManageModules returned nil although the stop routine of the module it stopped panicked"+lw.lingerText(), nil)
		}
		lw.afterLinger(sp)
		w.checkReported(sp.Kind, lw.val, "subject", taskOK, nil)
		s := w.snap()
		w.keepSnap("after_panic", s)
		w.check("counter-leak", sp.Kind, sp.Value, !s.CtrlFn,
			"the module's control-function flag is still set after its stop routine panicked", s)
		st := lw.status("subject")
		w.fact("subject_status_after_panic", st)
		w.check("stop", sp.Kind, sp.Value, st == "offline", "after the management pass the module whose stop routine panicked is "+st+", not offline", nil)
		// the module can be started and stopped again
		lw.mods["subject"].Enable()
		err = lw.guard("ManageModules", modules.ManageModules)
		w.fact("manage_again_err", errText(err))
		st = lw.status("subject")
		w.fact("subject_status_restarted", st)
		if err == nil && st == "online" {
			before := lw.phaseRun["subject/stop"].Load()
			lw.shutdownLife(sp, false)
			after := lw.phaseRun["subject/stop"].Load()
			w.check("stop", sp.Kind, sp.Value, after == before+1 && lw.status("subject") == "offline",
				fmt.Sprintf("the module whose stop routine had panicked was started again, but Shutdown did not stop it (stop routine entries %d -> %d, status %s)", before, after, lw.status("subject")), nil)
		} else {
			w.note("restart after the stop panic: ManageModules=%q status=%s", errText(err), st)
			lw.shutdownLife(sp, false)
		}
	}
	w.finish()
}

// shutdownLife calls Shutdown; for lifecycle cases only "returns (an error, where the
// stop routine panicked)" and "no stop timeout" are demanded.
func (lw *lifeWorld) shutdownLife(sp caseSpec, wantErr bool) {
	w := lw.world
	w.log.Rec("call", "driver", "Shutdown", nil)
	if !lw.spec.Linger {
		w.boundStop()
	}
	done := make(chan error, 1)
	go func() { done <- lw.guard("Shutdown", modules.Shutdown) }()
	var err error
	select {
	case err = <-done:
	case <-time.After(90 * time.Second):
		n, g := inflight()
		w.undecided("stop", sp.Kind, sp.Value, fmt.Sprintf("Shutdown did not return within 90 s (%d goroutines in run paths) %s", n, trunc(g, 300)))
		return
	}
	w.log.Rec("ret", "driver", "Shutdown", map[string]any{"err": errText(err)})
	w.fact("shutdown_err", errText(err))
	if wantErr {
		lw.quiesce()
		if lw.earlyDone.Load() {
			lw.earlyStop(sp, "Shutdown", err)
		} else if lw.lingerUndecided.Load() {
			w.undecided("lifecycle-no-error", sp.Kind, sp.Value, "the stop routine had not handed over its result when the stop timeout fired")
		} else {
			w.check("lifecycle-no-error", lw.lingerKind(sp), sp.Value, err != nil, "Shutdown returned nil although the stop routine of a module panicked"+lw.lingerText(), nil)
		}
		lw.afterLinger(sp)
	}
	if n := w.stopTimeouts.Load(); n > 0 {
		s, _ := w.stopTOSnap.Load().(string)
		if w.stopTOLeak.Load() {
			w.checkHard("stop", sp.Kind, sp.Value, "stopping only completed through the stop timeout; accounting at the timeout: "+s, nil)
		} else {
			w.undecided("stop", sp.Kind, sp.Value, "the stop timeout expired although the accounting read zero: "+s)
		}
	}
}

// earlyStop: the pass declared the module stopped while its stop routine was still
// running, so the routine's panic could not be part of the result any more. That is a
// defect of the stop-completion accounting (found and fixed under C01/C05: a stale
// reset of the control-function flag), kept apart from "returned nil after the panic".
func (lw *lifeWorld) earlyStop(sp caseSpec, call string, err error) {
	lw.check("stop-declared-complete-early", sp.Kind, "any", err != nil,
		call+" treated the module as stopped (status offline, dependencies released) while its stop routine was still running, and returned nil although that routine then panicked", nil)
}

// ---------------------------------------------------------------------------------
// start routine launches work, panics; retry pass; stop

// retryAndStop: after the panic of the start routine was judged, a management pass
// starts the module again (healthy this time), then everything is stopped. The items
// the failed attempt left behind must not keep the module from stopping: no stop
// timeout, their context is cancelled, the counters are zero at quiescence.
func (lw *lifeWorld) retryAndStop(sp caseSpec) {
	w := lw.world
	if lw.status("subject") != "online" {
		if sp.Kind == "start" {
			// Start() cannot be repeated: switch to module management for the retry
			modules.EnableModuleManagement(func(*modules.Module) {})
			for _, m := range lw.mods {
				m.Enable()
			}
		}
		w.log.Rec("call", "driver", "ManageModules(retry)", nil)
		err := lw.guard("ManageModules", modules.ManageModules)
		w.log.Rec("ret", "driver", "ManageModules(retry)", map[string]any{"err": errText(err)})
		w.fact("retry_err", errText(err))
		lw.quiesce()
	}
	st := lw.status("subject")
	w.fact("subject_status_after_retry", st)
	if st != "online" {
		// nothing to stop; whether a failed start can be retried is not this property
		w.note("retry pass did not bring the module online (status %s)", st)
		lw.shutdownLife(sp, false)
		return
	}
	w.count("start_retries_succeeded", 1)
	kind := sp.Kind + "+items" // own case class in the violation signature
	running := 0
	for _, it := range lw.startItems {
		if !it.ended.Load() {
			running++
		}
	}
	w.fact("start_items_still_running_before_stop", running)
	spK := sp
	spK.Kind = kind
	lw.shutdownLife(spK, false) // judges modules.stop.timeout
	// Shutdown has returned and the module is offline: every item has been told to stop
	live := []string{}
	for _, it := range lw.startItems {
		if !it.ended.Load() && it.ctxLive() {
			live = append(live, it.name)
		}
	}
	w.check("stop", kind, sp.Value, len(live) == 0,
		fmt.Sprintf("the start routine launched work and panicked, a later pass started the module again, and after Shutdown (module %s) %d of that work item(s) are still running with a context that was never cancelled: %v", lw.status("subject"), len(live), live), nil)
	zero := snap{}
	last, ok := w.settle(zero)
	w.keepSnap("after_retry_and_shutdown", last)
	if !ok && len(live) > 0 {
		w.check("counter-leak", kind, sp.Value, false,
			fmt.Sprintf("after Shutdown the module's work counters read %+v instead of zero: work launched by the start routine that panicked was never cancelled (%v)", last, live), last)
		return
	}
	w.decideSettle(kind, sp.Value, "after the retry pass and Shutdown", zero, last, ok)
	w.count("start_items_seen_cancelled", int64(len(lw.startItems)))
}

// ---------------------------------------------------------------------------------
// stop routine panics while a healthy worker outlives the stop timeout

const lingerStopTimeout = 300 * time.Millisecond

func (lw *lifeWorld) setupLinger() {
	lw.lingerRelease = make(chan struct{})
	// the only place where a stop timeout is wanted: small, and its *event* (not the
	// clock) releases the worker
	modules.VerifSetStopTimeout(lingerStopTimeout)
	vhook.Set("modules.ctrlfn.sent", func(_, subject string) {
		if subject == "subject" && lw.phaseRun["subject/stop"].Load() >= 1 {
			lw.stopSent.Store(true)
		}
	})
	vhook.Set("modules.stop.timeout", func(_, subject string) {
		lw.log.Rec("hook", subject, "modules.stop.timeout", nil)
		if subject != "subject" || !lw.timeoutSeen.CompareAndSwap(false, true) {
			return // a slow stop elsewhere under this small timeout is of no interest
		}
		// Runs in stopAllTasks before it looks for the stop routine's result: make
		// sure that result (the panic) has been handed over, so that what the pass
		// returns does not depend on how fast the stop routine was scheduled.
		if !waitFor(60*time.Second, lw.stopSent.Load) {
			lw.lingerUndecided.Store(true)
		}
		close(lw.lingerRelease)
	})
}

func (lw *lifeWorld) launchLinger() {
	if !lw.spec.Linger {
		return
	}
	lw.mods["subject"].StartWorker("lingering worker", func(ctx context.Context) error {
		lw.log.Rec("begin", "lingering worker", "worker", nil)
		lw.lingerBegun.Store(true)
		<-ctx.Done()
		<-lw.lingerRelease // winds down for longer than the stop timeout
		lw.log.Rec("end", "lingering worker", "worker", nil)
		lw.lingerEnded.Store(true)
		return nil
	})
	if !waitFor(waitBegin, lw.lingerBegun.Load) {
		lw.harnessProblem("the lingering worker did not begin")
	}
}

// lingerKind: these cases are their own class in the violation signature.
func (lw *lifeWorld) lingerKind(sp caseSpec) string {
	if sp.Linger {
		return sp.Kind + "+linger"
	}
	return sp.Kind
}

func (lw *lifeWorld) lingerText() string {
	if lw.spec.Linger && lw.timeoutSeen.Load() {
		return " (a healthy worker of the module was still winding down when the stop timeout fired; the stop routine's result had been handed over before)"
	}
	return ""
}

// afterLinger: the timeout event was seen, the worker ended, the counters are back.
func (lw *lifeWorld) afterLinger(sp caseSpec) {
	if !sp.Linger {
		return
	}
	w := lw.world
	w.fact("stop_timeout_event_seen", lw.timeoutSeen.Load())
	if lw.timeoutSeen.Load() {
		w.count("stops_through_timeout_with_panicked_stop_routine", 1)
	}
	zero := snap{}
	last, ok := w.settle(zero)
	w.decideSettle(lw.lingerKind(sp), sp.Value, "after the lingering worker was released", zero, last, ok)
}

// ---------------------------------------------------------------------------------
// failure-update notify function; hang verdict for the lifecycle calls

// failureNotifier is what a host installs with SetFailureUpdateNotifyFunc (e.g. to
// publish the module states). The "reads" flavour looks at the state of every module,
// the failing one included.
//
//go:noinline
func (lw *lifeWorld) failureNotifier(moduleFailure uint8, id, title, msg string) {
	lw.notifyCalls.Add(1)
	if lw.spec.Notify != "reads" {
		return
	}
	names := make([]string, 0, len(lw.mods))
	for n := range lw.mods {
		names = append(names, n)
	}
	sort.Strings(names)
	for _, n := range names {
		lw.reading.Store(n)
		lw.readSeq.Add(1)
		_, _, _ = lw.mods[n].FailureStatus()
		_ = lw.mods[n].Status()
	}
	lw.reading.Store("*")
	lw.readSeq.Add(1)
	_ = modules.GetStatus()
	lw.reading.Store("")
	lw.readSeq.Add(1)
}

// guard runs Start / ManageModules / Shutdown and watches for the structural hang "the
// notify function, called from within setFailure, is blocked reading module state and
// makes no progress": then the call can never return. The child ends at once with that
// verdict (nothing else can be observed in a deadlocked module system).
func (lw *lifeWorld) guard(call string, fn func() error) error {
	if lw.spec.Notify != "reads" {
		return fn()
	}
	done := make(chan error, 1)
	go func() { done <- fn() }()
	var stuckSince time.Time
	lastSeq := int64(-1)
	start := time.Now()
	for {
		select {
		case err := <-done:
			return err
		case <-time.After(300 * time.Millisecond):
		}
		rd, _ := lw.reading.Load().(string)
		seq := lw.readSeq.Load()
		if rd == "" || seq != lastSeq {
			lastSeq, stuckSince = seq, time.Now()
		}
		if rd != "" && time.Since(stuckSince) > 6*time.Second {
			buf := make([]byte, 2<<20)
			buf = buf[:runtime.Stack(buf, true)]
			for _, g := range strings.Split(string(buf), "\n\n") {
				if strings.Contains(g, "failureNotifier") && strings.Contains(g, "RWMutex).RLock") && strings.Contains(g, "setFailure") {
					lw.count("panics_raised", 0)
					lw.checkHard("lifecycle-hang", lw.spec.Kind+"+notify-reads", lw.spec.Value,
						fmt.Sprintf("%s does not return after the %s routine panicked: the failure-update notify function (SetFailureUpdateNotifyFunc), run from within Module.setFailure, is blocked reading the state of module %q and makes no progress", call, lw.phase, rd),
						map[string]any{"blocked_goroutine": trunc(g, 1500)})
					lw.finish()
				}
			}
		}
		if time.Since(start) > 90*time.Second {
			lw.undecided("lifecycle-hang", lw.spec.Kind, lw.spec.Value, call+" did not return within 90 s")
			lw.finish()
		}
	}
}
