// h_panic — engine for property C06: a panic in managed code is contained, reported
// and leaves accounting intact.
//
// Orchestrator: derives the case list (kind of managed execution x panic value x
// position among healthy items) from VERIF_SEED and runs every case in its own child
// process (plain and -race build); the exit status of the child is an observation.
// Child: one module-system life. It registers modules whose routines / work items /
// API handlers are harness functions, lets one of them panic, and records what the
// portbase API returned, what arrived on the error reporting channel, the work
// counters, and whether the system could still be used and stopped.
package main

import (
	"encoding/json"
	"fmt"
	"os"
	"sort"
	"strings"
	"time"

	"verifharness/internal/vlib"
)

const prop = "C06"

func main() {
	if dir, ok := vlib.IsChild(); ok {
		var sp caseSpec
		if err := vlib.ChildSpecInto(dir, &sp); err != nil {
			fmt.Println("bad spec:", err)
			os.Exit(3)
		}
		switch sp.Part {
		case "work":
			runWorkChild(sp, dir)
		case "life":
			runLifeChild(sp, dir)
		case "api":
			runAPIChild(sp, dir)
		}
		fmt.Println("unknown part", sp.Part)
		os.Exit(3)
	}
	orchestrate()
}

func partOf(kind string) string {
	for _, k := range lifeKinds {
		if k == kind {
			return "life"
		}
	}
	if strings.HasPrefix(kind, "api-") {
		return "api"
	}
	return "work"
}

func allKinds() []string {
	var ks []string
	ks = append(ks, lifeKinds...)
	ks = append(ks, workKinds...)
	ks = append(ks, apiKinds...)
	return ks
}

// fill draws the PRNG-determined parts of a case.
func fill(cfg vlib.Cfg, sp *caseSpec) {
	r := vlib.NewRand(cfg.Seed, "C06/case", uint64(sp.No))
	sp.Part = partOf(sp.Kind)
	if sp.Repeat == 0 {
		sp.Repeat = 1
	}
	sp.StdErr = r.Bool()
	// reporting configuration: {stderr on/off} x {channel set / never / set later}
	if sp.RepCfg == "" {
		sp.RepCfg = vlib.Pick(r, "chan", "chan", "none", "late")
		if sp.SecondKind != "" || sp.Mgmt == "passes" {
			sp.RepCfg = "chan"
		}
	}
	// Delay at modules.task.defer: without it a task that finishes at once can overtake
	// its watcher goroutine, which then stalls the task queue for maxExecutionWait
	// (1 min; a task-scheduling defect outside this property). Thorough keeps some
	// cases without the delay.
	sp.TaskDeferUS = vlib.Pick(r, 1000, 2000, 4000)
	if cfg.Thorough() && r.Chance(1, 8) {
		sp.TaskDeferUS = 0
	}
	switch sp.Part {
	case "work":
		n := r.Range(0, 6)
		var hs []string
		for i := 0; i < n; i++ {
			hs = append(hs, vlib.Pick(r, healthyKinds...))
		}
		pos := r.Range(0, n)
		sp.Before, sp.After = hs[:pos], hs[pos:]
		if sp.AtStop {
			sp.Before, sp.After = hs, nil
		}
	case "life":
		sp.Repeat = 1
		sp.Siblings = r.Range(0, 3)
		for i := 0; i < 2+sp.Siblings; i++ {
			sp.Delays = append(sp.Delays, vlib.Pick(r, 0, 0, 1, 3, 10))
		}
		// failure-update notify function of the host program
		sp.Notify = vlib.Pick(r, "", "", "trivial", "reads")
		// multi-step histories (every second case of the kind)
		switch sp.Kind {
		case "start", "start-mgmt":
			if r.Bool() {
				for i, n := 0, r.Range(1, 3); i < n; i++ {
					sp.StartItems = append(sp.StartItems, vlib.Pick(r, "worker", "serviceworker", "mt-high", "mt-med"))
				}
			}
		case "stop", "stop-mgmt":
			sp.Linger = r.Bool()
		}
	case "api":
		sp.Method = vlib.Pick(r, "GET", "POST")
		if sp.Via == "" {
			sp.Via = vlib.Pick(r, "direct", "direct", "server", "bridge")
		}
		if sp.Via == "bridge" {
			if strings.HasPrefix(sp.Kind, "api-raw") {
				sp.Via = "direct" // the bridge only reaches /api/v1 endpoints
			} else {
				sp.Method = "GET"
			}
		}
		sp.DevMode = r.Chance(1, 3)
		if sp.Kind == "api-handlerfunc" || strings.HasPrefix(sp.Kind, "api-raw") {
			sp.Late = r.Chance(1, 4)
		}
		for i, n := 0, r.Range(0, 4); i < n; i++ {
			sp.Before = append(sp.Before, "request")
		}
		for i, n := 0, r.Range(0, 3); i < n; i++ {
			sp.After = append(sp.After, "request")
		}
	}
}

func genCases(cfg vlib.Cfg) []caseSpec {
	var cases []caseSpec
	add := func(sp caseSpec) {
		sp.No = len(cases)
		fill(cfg, &sp)
		cases = append(cases, sp)
	}
	kinds := allKinds()
	rounds := cfg.N(1, 7)
	rr := vlib.NewRand(cfg.Seed, "C06/plan", 0)
	for round := 0; round < rounds; round++ {
		for _, k := range kinds {
			vals := append(append([]string{}, coreValues...), extraValues...)
			// sentinel values: all of them for the API handlers and the worker kinds
			// (whose callers test errors with errors.Is), one per round elsewhere
			if strings.HasPrefix(k, "api-") || strings.HasSuffix(k, "worker") || cfg.Thorough() {
				vals = append(vals, sentinelValues...)
			} else {
				vals = append(vals, vlib.Pick(rr, sentinelValues...))
			}
			for vi, v := range vals {
				add(caseSpec{Kind: k, Value: v, Build: "plain"})
				// the race build repeats the matrix (fresh healthy mix): all of it in
				// thorough, half of the core values of every kind in quick
				if cfg.BinRace != "" && (cfg.Thorough() || round == 0) {
					isCore := false
					for _, c := range coreValues {
						isCore = isCore || c == v
					}
					if cfg.Thorough() && round%2 == 1 {
						continue
					}
					// quick: every second core value per kind (alternating with the seed)
					if cfg.Thorough() || (isCore && (vi+len(k)+int(cfg.Seed))%2 == 0) {
						add(caseSpec{Kind: k, Value: v, Build: "race"})
					}
				}
			}
		}
	}
	// the same item panics repeatedly
	repKinds := append(append([]string{}, workKinds...), apiKinds...)
	for _, k := range repKinds {
		for i := 0; i < cfg.N(1, 4); i++ {
			add(caseSpec{Kind: k, Value: vlib.Pick(rr, append(coreValues, extraValues...)...), Build: vlib.Pick(rr, "plain", "race"), Repeat: 3})
		}
	}
	// two items panic at the same moment (at most one of them a task: the task queue
	// executes one task at a time)
	for i := 0; i < cfg.N(12, 300); i++ {
		a := vlib.Pick(rr, workKinds...)
		b := vlib.Pick(rr, workKinds...)
		for isTaskKind(a) && isTaskKind(b) {
			b = vlib.Pick(rr, workKinds...)
		}
		add(caseSpec{Kind: a, Value: vlib.Pick(rr, coreValues...), SecondKind: b, SecondValue: vlib.Pick(rr, coreValues...), Build: vlib.Pick(rr, "plain", "race")})
	}
	// a service worker panics under module management
	for i := 0; i < cfg.N(6, 60); i++ {
		add(caseSpec{Kind: "serviceworker", Value: vlib.Pick(rr, append(coreValues, extraValues...)...), Build: vlib.Pick(rr, "plain", "race"),
			Mgmt: "flap", Repeat: vlib.Pick(rr, 1, 1, 2)})
	}
	for i := 0; i < cfg.N(4, 40); i++ {
		add(caseSpec{Kind: "serviceworker", Value: vlib.Pick(rr, coreValues...), Build: vlib.Pick(rr, "plain", "race"),
			Mgmt: "passes", Repeat: vlib.Pick(rr, 150, 300, 600)})
	}
	// a service worker launched before its module was started
	for i := 0; i < cfg.N(6, 40); i++ {
		add(caseSpec{Kind: "serviceworker", Value: vlib.Pick(rr, append(coreValues, extraValues...)...), Build: vlib.Pick(rr, "plain", "race"),
			From: vlib.Pick(rr, "prep", "globalprep"), Repeat: vlib.Pick(rr, 1, 1, 2)})
	}
	// the item panics while the module is being stopped
	for _, k := range workKinds {
		for i := 0; i < cfg.N(2, 20); i++ {
			add(caseSpec{Kind: k, Value: vlib.Pick(rr, append(coreValues, extraValues...)...), Build: vlib.Pick(rr, "plain", "race"), AtStop: true})
		}
	}
	for i := range cases {
		if cases[i].Build == "race" && cfg.BinRace == "" {
			cases[i].Build = "plain"
		}
	}
	return cases
}

func caseSig(sp caseSpec) string {
	return fmt.Sprintf("%s%s%s%s%s|%v%v%v|%s|%s|%d|%s/%s|b=%s|a=%s|sib=%d %v|%s %v %v", sp.Via, sp.RepCfg, sp.Mgmt, sp.From, sp.Notify, sp.AtStop, sp.Linger, sp.StartItems, sp.Kind, sp.Value, sp.Repeat, sp.SecondKind, sp.SecondValue,
		strings.Join(sp.Before, ","), strings.Join(sp.After, ","), sp.Siblings, sp.Delays, sp.Method, sp.DevMode, sp.Late)
}

type failKey struct{ oracle, kind string }

type failure struct {
	value string
	what  string
	det   map[string]any
}

// functions that hold the state the property's mechanism is made of (error sink)
// (narrowed after the first runs: runWorker / runMicroTask also read Module.Ctx, whose
// unsynchronised write in Module.start is not this property's state)
var raceScope = []string{"modules.(*ModuleError).Report", "modules.GetLastReportedError", "modules.SetErrorReportingChannel",
	"modules.(*Module).NewPanicError", "modules.(*Module).startCtrlFn"}

func orchestrate() {
	cfg := vlib.Load()
	rep := vlib.NewReport(cfg)
	rep.Rule("one child process per case; case = kind of managed execution (5 lifecycle, 15 worker/task/microtask/hook entry points, 7 API handler types) x panic value class (8 quantified + 5 hostile extras) x PRNG-chosen healthy items running before/after the panic (work), sibling modules and routine delays (lifecycle), method/devmode/requests in flight (API); plus repeated panics of one item and two items panicking at once. Non-trivial = the child really raised the panic inside the managed function; distinct = kind, value and the drawn surroundings.")

	cases := genCases(cfg)
	if cfg.Replay != "" {
		cases = replayCases(cfg)
	}
	specs := make([]vlib.ChildSpec, len(cases))
	for i, sp := range cases {
		bin := cfg.BinPlain
		if sp.Build == "race" {
			bin = cfg.BinRace
		}
		specs[i] = vlib.ChildSpec{Name: fmt.Sprintf("c%04d-%s-%s", sp.No, sp.Kind, sp.Value), Bin: bin, Spec: sp,
			Timeout: 6 * time.Minute, Race: sp.Build == "race"}
	}

	fails := map[failKey][]failure{}
	executed := map[string]map[string]bool{} // kind -> value classes that ran to a verdict
	nHarness, nUndecided, nDone := 0, 0, 0
	t0 := time.Now()

	vlib.RunChildren(cfg, specs, func(i int, c *vlib.ChildResult) {
		sp := cases[i]
		rep.Eval(1)
		rep.Seen("builds_run", sp.Build)
		addFail := func(oracle, kind, value, what string, det map[string]any) {
			k := failKey{oracle, kind}
			fails[k] = append(fails[k], failure{value, what, det})
		}
		for _, rr := range c.Races {
			switch {
			case rr.HarnessOnly() || harnessAccess(rr):
				rep.Note("race report in harness-only frames: %s", rr.Signature())
				rep.Count("race_reports_harness_only", 1)
			case rr.InScope(raceScope...):
				rep.Violation(prop+":race:"+rr.Signature(), "data race on the panic recovery / error reporting state", map[string]any{"spec": sp, "report": rr.Text})
			default:
				rep.Seen("race_diagnostics", rr.Signature())
			}
		}
		if c.TimedOut {
			rep.Inconclusive("case %s: watchdog (%s) expired; stderr tail: %s", c.Name, specs[i].Timeout, trunc(c.StderrTail(600), 600))
			return
		}
		if !c.Done {
			tail := c.StderrTail(6000)
			line, crash, escaped, site := classifyDeath(c.Dir)
			if line != "" || c.Exit == 2 {
				det := map[string]any{"spec": sp, "exit": c.Exit, "signal": c.Signal, "death_line": line, "crashing_goroutine": crash,
					"stderr_tail": tail, "stdout_tail": c.StdoutTail(1500)}
				rep.Count("children_died", 1)
				if escaped {
					addFail("process-died", sp.Kind, sp.Value,
						fmt.Sprintf("the panic raised inside the %s left the recovery and terminated the process (exit=%d): %s", sp.Kind, c.Exit, line), det)
					markExecuted(executed, sp)
				} else {
					// the process died, but not of the managed panic: a different defect,
					// named by where it crashed
					rep.Violation(fmt.Sprintf("%s:process-died-elsewhere:%s", prop, site),
						fmt.Sprintf("the process terminated (exit=%d) during a case with a panicking %s, by a fatal error outside the managed function: %s", c.Exit, sp.Kind, line), det)
				}
			} else {
				rep.Inconclusive("case %s: child ended without result (exit=%d signal=%q) and without a Go panic/fatal error on stderr: %s", c.Name, c.Exit, c.Signal, trunc(tail, 400))
			}
			return
		}
		var out childOut
		if err := json.Unmarshal(c.Out, &out); err != nil {
			rep.Inconclusive("case %s: unreadable child output: %s", c.Name, err)
			return
		}
		hasFail := false
		for _, ck := range out.Checks {
			hasFail = hasFail || (!ck.OK && !ck.Undecided)
		}
		if out.HarnessProblem != "" && !hasFail {
			nHarness++
			rep.Inconclusive("case %s: scenario could not be set up: %s", c.Name, out.HarnessProblem)
			return
		}
		nDone++
		markExecuted(executed, sp)
		for k, n := range out.Counts {
			rep.Count(k, n)
		}
		if out.Counts["panics_raised"] > 0 {
			rep.Distinct(caseSig(sp))
		}
		rep.Seen("kinds", sp.Kind)
		rep.Seen("values", sp.Value)
		rep.Seen("kind_x_value", sp.Kind+"/"+sp.Value)
		if sp.SecondKind != "" {
			rep.Seen("kinds", sp.SecondKind)
			rep.Count("cases_two_items_at_once", 1)
		}
		if sp.Repeat > 1 {
			rep.Count("cases_repeated_panic", 1)
		}
		if sp.AtStop {
			rep.Count("cases_panic_while_stopping", 1)
		}
		std := "stderr-off"
		if sp.StdErr {
			std = "stderr-on"
		}
		if sp.Part == "life" {
			rep.Seen("failure_notify_functions", "notify-"+sp.Notify)
		}
		if sp.Via != "" {
			rep.Seen("api_request_paths", sp.Via)
			rep.Count("cases_api_via_"+sp.Via, 1)
		}
		rep.Seen("reporting_configs", std+"/channel-"+sp.RepCfg)
		rep.Count("cases_"+std+"_channel-"+sp.RepCfg, 1)
		if len(sp.StartItems) > 0 {
			rep.Count("cases_start_panic_with_items_then_retry_and_stop", 1)
		}
		if sp.Linger {
			rep.Count("cases_stop_panic_with_worker_outliving_stop_timeout", 1)
		}
		for _, h := range append(append([]string{}, sp.Before...), sp.After...) {
			rep.Seen("healthy_kinds_alongside", h)
		}
		rep.Max("max_healthy_items_running_at_panic", int64(len(sp.Before)))
		for _, n := range out.Notes {
			rep.Note("case %s: %s", c.Name, n)
		}
		if s, ok := out.Facts["subject_status_after_panic"].(string); ok {
			rep.Seen("lifecycle_status_after_"+sp.Kind, s)
		}
		if s, ok := out.Facts["shutdown_err"].(string); ok && s != "" && sp.Part == "life" {
			rep.Seen("shutdown_err_after_"+sp.Kind, trunc(s, 60))
		}
		for _, ck := range out.Checks {
			rep.Count("checks_evaluated", 1)
			rep.Count("check_"+ck.Oracle, 1)
			switch {
			case ck.Undecided && hasFail && strings.HasPrefix(ck.What, "(not judged"):
				rep.Count("checks_skipped_after_failure", 1)
			case ck.Undecided:
				nUndecided++
				rep.Inconclusive("case %s: %s/%s undecided: %s", c.Name, ck.Oracle, ck.Kind, trunc(ck.What, 500))
			case !ck.OK:
				det := map[string]any{"spec": sp, "check": ck, "facts": out.Facts, "snaps": out.Snaps, "reports": out.Reports,
					"events": out.Events, "build": sp.Build}
				addFail(ck.Oracle, ck.Kind, ck.Value, ck.What, det)
			}
		}
		out.Events = vlib.Tail(out.Events, 40)
		rep.Sample(out)
	})

	// Violation signatures: C06:<oracle>:<kind>, refined by the value class only if the
	// value is a genuine precondition (other values of that kind passed this oracle).
	var keys []failKey
	for k := range fails {
		keys = append(keys, k)
	}
	sort.Slice(keys, func(i, j int) bool { return keys[i].oracle+keys[i].kind < keys[j].oracle+keys[j].kind })
	for _, k := range keys {
		fs := fails[k]
		byVal := map[string][]failure{}
		for _, f := range fs {
			byVal[f.value] = append(byVal[f.value], f)
		}
		allValues := true
		for v := range executed[k.kind] {
			if len(byVal[v]) == 0 {
				allValues = false
			}
		}
		var vals []string
		for v := range byVal {
			vals = append(vals, v)
		}
		sort.Strings(vals)
		if allValues {
			f := fs[0]
			f.det["failing_values"] = vals
			for range fs {
				rep.Violation(fmt.Sprintf("%s:%s:%s", prop, k.oracle, k.kind), f.what, f.det)
			}
			continue
		}
		for _, v := range vals {
			for _, f := range byVal[v] {
				rep.Violation(fmt.Sprintf("%s:%s:%s:%s", prop, k.oracle, k.kind, v), f.what, f.det)
			}
		}
	}

	rep.Set("cases_planned", len(cases))
	rep.Set("cases_decided", nDone)
	rep.Set("cases_harness_problem", nHarness)
	rep.Set("checks_undecided", nUndecided)
	rep.Set("run_wall_s", int(time.Since(t0).Seconds()))
	rep.Assume("the error reporting channel has free capacity (ModuleError.Report drops a report instead of blocking when the channel is full)")
	rep.Assume("GODEBUG panicnil=0 (go >= 1.21 semantics): panic(nil) is recovered as *runtime.PanicNilError")
	if cfg.Replay == "" {
		// floors: reached by construction (the matrix is enumerated, not sampled)
		for _, k := range allKinds() {
			for _, v := range coreValues {
				rep.Floor(executed[k][v], "kind %s with value %s did not run to a verdict", k, v)
			}
		}
		rep.Floor(nDone*10 >= len(cases)*8, "only %d of %d cases ran to a verdict", nDone, len(cases))
	}
	if err := rep.Finish(); err != nil {
		fmt.Println("h_panic: cannot write result:", err)
		os.Exit(2)
	}
}

// harnessAccess reports whether both racing accesses are made by harness code (its
// callbacks run below portbase frames, so vlib's HarnessOnly does not see this).
func harnessAccess(rr vlib.RaceReport) bool {
	own := func(i int) bool {
		if i >= len(rr.Stacks) {
			return false
		}
		for _, f := range rr.Stacks[i] {
			switch {
			case strings.HasPrefix(f, "runtime."), strings.HasPrefix(f, "reflect."), strings.HasPrefix(f, "encoding/"),
				strings.HasPrefix(f, "sync."), strings.HasPrefix(f, "sync/"), strings.HasPrefix(f, "internal/"):
				continue
			}
			return strings.HasPrefix(f, "main.") || strings.HasPrefix(f, "verifharness/")
		}
		return false
	}
	return own(0) && own(1)
}

func markExecuted(m map[string]map[string]bool, sp caseSpec) {
	if m[sp.Kind] == nil {
		m[sp.Kind] = map[string]bool{}
	}
	m[sp.Kind][sp.Value] = true
	for _, cls := range []struct {
		on  bool
		sfx string
	}{{len(sp.StartItems) > 0, "+items"}, {sp.Linger, "+linger"}, {sp.Mgmt != "", "+mgmt-" + sp.Mgmt}, {sp.From != "", "+from-" + sp.From}, {sp.Notify != "", "+notify-" + sp.Notify},
		{!sp.StdErr && sp.RepCfg != "chan" && sp.RepCfg != "", "/quiet"}} {
		if cls.on {
			if m[sp.Kind+cls.sfx] == nil {
				m[sp.Kind+cls.sfx] = map[string]bool{}
			}
			m[sp.Kind+cls.sfx][sp.Value] = true
		}
	}
	if sp.SecondKind != "" {
		if m["two-at-once"] == nil {
			m["two-at-once"] = map[string]bool{}
		}
		m["two-at-once"]["any"] = true
	}
}

// deathLine finds the line with which the Go runtime announces an unrecovered panic or
// a fatal error.
func deathLine(tail string) string {
	for _, ln := range strings.Split(tail, "\n") {
		if strings.HasPrefix(ln, "panic: ") || strings.HasPrefix(ln, "fatal error: ") {
			return trunc(strings.TrimSpace(ln), 160)
		}
	}
	return ""
}

// classifyDeath reads the whole stderr of a dead child: the announcement line, the
// crashing goroutine, whether that goroutine was running the harness' panicking
// function (the managed panic escaped) and otherwise the innermost portbase frame.
func classifyDeath(dir string) (line, crash string, escaped bool, site string) {
	b, err := os.ReadFile(dir + "/stderr")
	if err != nil {
		return "", "", false, "unknown"
	}
	lines := strings.Split(string(b), "\n")
	at := -1
	for i, ln := range lines {
		if strings.HasPrefix(ln, "panic: ") || strings.HasPrefix(ln, "fatal error: ") {
			// the error report printed to stderr contains "panic:" only inside lines
			line, at = trunc(strings.TrimSpace(ln), 200), i
			break
		}
	}
	if at < 0 {
		return "", "", false, "unknown"
	}
	// the first goroutine block after the announcement is the crashing one
	var blk []string
	started := false
	for _, ln := range lines[at+1:] {
		if strings.HasPrefix(ln, "goroutine ") {
			if started {
				break
			}
			started = true
		}
		if started {
			if ln == "" {
				break
			}
			blk = append(blk, ln)
		}
	}
	crash = trunc(strings.Join(blk, "\n"), 3000)
	escaped = strings.Contains(crash, "raiseVerifPanic")
	site = "unknown"
	for _, ln := range blk {
		if strings.HasPrefix(ln, "github.com/safing/portbase/") {
			fn := strings.TrimPrefix(ln, "github.com/safing/portbase/")
			if i := strings.LastIndex(fn, "("); i > 0 {
				fn = fn[:i]
			}
			site = fn
			break
		}
	}
	return line, crash, escaped, site
}

func replayCases(cfg vlib.Cfg) []caseSpec {
	var doc struct {
		Detail struct {
			Spec caseSpec `json:"spec"`
		} `json:"detail"`
	}
	b, err := os.ReadFile(cfg.Replay)
	if err == nil {
		err = json.Unmarshal(b, &doc)
	}
	if err != nil || doc.Detail.Spec.Kind == "" {
		fmt.Println("h_panic: replay file has no case spec:", err)
		os.Exit(2)
	}
	sp := doc.Detail.Spec
	if sp.Build == "race" && cfg.BinRace == "" {
		sp.Build = "plain"
	}
	// re-execute the recorded case several times (schedules differ)
	var out []caseSpec
	for i := 0; i < 8; i++ {
		c := sp
		c.No = 9000 + i
		out = append(out, c)
	}
	return out
}
