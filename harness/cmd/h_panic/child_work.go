package main

import (
	"context"
	"fmt"
	"strings"
	"sync"
	"sync/atomic"
	"time"

	"github.com/safing/portbase/modules"
)

// item is one piece of managed work handed to portbase: healthy (panics == 0) or
// panicking on its first `panics` entries.
type item struct {
	w      *world
	name   string
	kind   string
	panics int
	val    *pvalue
	block  bool // healthy: stay inside the function until the world is released

	entered atomic.Int32
	ended   atomic.Int32
	ctxErr  atomic.Value // string: ctx.Err() seen at the end of a healthy run

	task *modules.Task
	flap *modules.Module // Mgmt "flap": module to disable right before the panic
	gate chan struct{}   // From: launched early, its first entry waits until the module is online

	mu   sync.Mutex
	rets []error // what the blocking run variants returned, in order
}

//go:noinline
func (w *world) healthyWait(ctx context.Context) {
	if w.spec.AtStop {
		select {
		case <-w.release:
		case <-ctx.Done():
		}
		return
	}
	<-w.release
}

// barrier lets two panicking items panic at the same moment.
type barrier struct {
	n    int32
	need int32
	ch   chan struct{}
}

func (b *barrier) arrive() {
	if b == nil {
		return
	}
	if atomic.AddInt32(&b.n, 1) == b.need {
		close(b.ch)
	}
	select {
	case <-b.ch:
	case <-time.After(20 * time.Second):
	}
}

var doubleBarrier *barrier

func (it *item) body(ctx context.Context) error {
	n := int(it.entered.Add(1))
	it.w.log.Rec("begin", it.name, it.kind, map[string]any{"n": n, "ctx_done": ctx.Err() != nil})
	if n == 1 && it.gate != nil {
		<-it.gate
	}
	if n <= it.panics {
		if n == 1 {
			doubleBarrier.arrive()
		}
		if it.w.spec.AtStop {
			<-ctx.Done()
		}
		if it.w.spec.Mgmt == "flap" && it.flap != nil {
			// switched off (and, once the restart was judged, on again) without a
			// management pass in between: the module stays online all the time
			it.flap.Disable()
			it.w.log.Rec("call", it.name, "Disable", nil)
		}
		it.w.log.Rec("panic", it.name, it.kind, map[string]any{"value": it.val.class})
		it.val.raiseVerifPanic()
	}
	if it.block {
		it.w.healthyWait(ctx)
	}
	if err := ctx.Err(); err != nil {
		it.ctxErr.Store(err.Error())
	}
	it.w.log.Rec("end", it.name, it.kind, map[string]any{"n": n})
	it.ended.Add(1)
	return nil
}

func (it *item) taskFn(ctx context.Context, _ *modules.Task) error { return it.body(ctx) }

func (it *item) addRet(err error) {
	it.mu.Lock()
	it.rets = append(it.rets, err)
	it.mu.Unlock()
}

func (it *item) ret(i int) (error, bool) {
	it.mu.Lock()
	defer it.mu.Unlock()
	if i < len(it.rets) {
		return it.rets[i], true
	}
	return nil, false
}

type workWorld struct {
	*world
	base, subject *modules.Module
	hookDesc      string
}

const (
	svcBackoff = 5 * time.Millisecond
	evName     = "verif event"
)

// launch hands the item to portbase through the entry point of its kind.
func (ww *workWorld) launch(it *item) {
	m := ww.subject
	ww.log.Rec("call", "driver", "launch", map[string]any{"item": it.name, "kind": it.kind})
	switch it.kind {
	case "runworker":
		go func() { it.addRet(m.RunWorker(it.name, it.body)) }()
	case "startworker", "worker":
		m.StartWorker(it.name, it.body)
	case "serviceworker":
		backoff := svcBackoff
		if ww.spec.Mgmt == "passes" && it.panics > 0 {
			backoff = 1 // nanosecond: many restart checks while management passes run
		}
		m.StartServiceWorker(it.name, backoff, it.body)
	case "task-queue", "task":
		if it.task == nil {
			it.task = m.NewTask(it.name, it.taskFn)
		}
		it.task.Queue()
	case "task-prio":
		if it.task == nil {
			it.task = m.NewTask(it.name, it.taskFn)
		}
		it.task.QueuePrioritized()
	case "task-asap":
		if it.task == nil {
			it.task = m.NewTask(it.name, it.taskFn)
		}
		it.task.StartASAP()
	case "task-schedule":
		if it.task == nil {
			it.task = m.NewTask(it.name, it.taskFn)
		}
		it.task.Schedule(time.Now().Add(10 * time.Millisecond))
	case "task-repeat":
		if it.task == nil {
			it.task = m.NewTask(it.name, it.taskFn).Repeat(time.Minute)
		}
		it.task.StartASAP()
	case "mt-run-high":
		go func() { it.addRet(m.RunHighPriorityMicroTask(it.name, it.body)) }()
	case "mt-run-med":
		go func() { it.addRet(m.RunMicroTask(it.name, 0, it.body)) }()
	case "mt-run-low":
		go func() { it.addRet(m.RunLowPriorityMicroTask(it.name, 0, it.body)) }()
	case "mt-start-high", "mt-high":
		m.StartHighPriorityMicroTask(it.name, it.body)
	case "mt-start-med", "mt-med":
		m.StartMicroTask(it.name, 0, it.body)
	case "mt-start-low", "mt-low":
		m.StartLowPriorityMicroTask(it.name, 0, it.body)
	case "hook-trigger", "hook":
		ww.base.TriggerEvent(evName, it)
	case "hook-inject":
		if err := m.InjectEvent("verif injected", ww.base.Name, evName, it); err != nil {
			ww.harnessProblem("InjectEvent failed: %s", err)
		}
	default:
		ww.harnessProblem("unknown item kind %q", it.kind)
	}
}

func (ww *workWorld) hookFn(ctx context.Context, data interface{}) error {
	if it, ok := data.(*item); ok {
		return it.body(ctx)
	}
	return nil
}

// delta is what an item that is inside its function contributes to the accounting.
func delta(kind string) (d snap) {
	switch {
	case kind == "runworker" || kind == "startworker" || kind == "worker" || kind == "serviceworker" || strings.HasPrefix(kind, "hook"):
		d.Workers = 1
	case strings.HasPrefix(kind, "task"):
		d.Tasks = 1
	case strings.HasPrefix(kind, "mt-"):
		d.MicroTasks, d.Global = 1, 1
	}
	return d
}

func (it *item) taskNameOK(ww *workWorld) func(string) bool {
	if strings.HasPrefix(it.kind, "hook") {
		return func(s string) bool { return strings.Contains(s, "event hook") && strings.Contains(s, ww.hookDesc) }
	}
	return func(s string) bool { return s == it.name }
}

func runWorkChild(sp caseSpec, dir string) {
	w := newWorld(sp, dir)
	ww := &workWorld{world: w, hookDesc: "verif hook"}
	w.subjectName = "subject"

	// From: the panicking service worker exists before the system starts
	var early *item
	if sp.From != "" {
		early = &item{w: w, name: "subject-" + sp.Kind, kind: sp.Kind, panics: sp.Repeat, val: newValue(sp.Value, "subject-"+sp.Kind),
			gate: make(chan struct{})}
	}
	if sp.From == "globalprep" {
		modules.SetGlobalPrepFn(func() error {
			w.log.Rec("begin", "global", "prep", nil)
			ww.launch(early)
			return nil
		})
	}
	lc := func(mod, phase string) func() error {
		return func() error {
			w.log.Rec("begin", mod, phase, nil)
			if mod == "subject" && phase == "prep" && sp.From == "prep" {
				ww.launch(early)
			}
			if mod == "subject" && phase == "start" {
				if err := ww.subject.RegisterEventHook("base", evName, ww.hookDesc, ww.hookFn); err != nil {
					return err
				}
			}
			w.log.Rec("end", mod, phase, nil)
			return nil
		}
	}
	ww.base = modules.Register("base", lc("base", "prep"), lc("base", "start"), lc("base", "stop"))
	ww.base.RegisterEvent(evName, true)
	ww.subject = modules.Register("subject", lc("subject", "prep"), lc("subject", "start"), lc("subject", "stop"), "base")

	switch sp.Mgmt {
	case "flap":
		modules.EnableModuleManagement(func(*modules.Module) {})
		ww.subject.Enable() // base comes up as its dependency
	case "passes":
		// the subject is enabled only as a dependency of "top": every management pass
		// clears and re-marks that flag
		modules.EnableModuleManagement(func(*modules.Module) {})
		modules.Register("top", nil, nil, nil, "subject").Enable()
	}

	w.log.Rec("call", "driver", "Start", nil)
	if err := modules.Start(); err != nil {
		w.harnessProblem("modules.Start with healthy routines failed: %s", err)
	}
	w.log.Rec("ret", "driver", "Start", nil)
	if sp.Mgmt != "" && !ww.subject.Online() {
		w.harnessProblem("subject not online under module management")
	}

	// idle accounting of the subject, known by construction: nothing of its own runs
	// (under module management a "notify of change" worker may still be winding down)
	idle := snap{}
	if early != nil {
		idle.Workers = 1 // the early service worker, parked at its gate
	}
	s0, okIdle := w.settle(idle)
	if !okIdle {
		w.harnessProblem("the subject module did not reach its idle accounting (reads %+v)", s0)
	}
	w.keepSnap("s0_idle", s0)
	s0 = snap{} // quiescence at the end: the early service worker has ended as well

	// --- healthy items that run concurrently with the panic
	var healthy []*item
	mk := func(i int, kind string) *item {
		return &item{w: w, name: fmt.Sprintf("healthy-%d-%s", i, kind), kind: kind, block: kind != "task"}
	}
	var before []*item
	for i, k := range sp.Before {
		it := mk(i, k)
		before = append(before, it)
		healthy = append(healthy, it)
		ww.launch(it)
	}
	if !waitFor(waitBegin, func() bool {
		for _, it := range before {
			if it.entered.Load() < 1 {
				return false
			}
		}
		return true
	}) {
		w.harnessProblem("healthy items did not all begin within %s", waitBegin)
	}
	// a healthy task runs to completion (the task queue executes one task at a time);
	// wait until those are accounted for again
	s1 := w.snap()
	want1 := idle
	for _, it := range before {
		if it.block {
			d := delta(it.kind)
			want1.Workers += d.Workers
			want1.MicroTasks += d.MicroTasks
			want1.Global += d.Global
		}
	}
	if last, ok := w.settle(want1); ok {
		s1 = last
	} else {
		// not this property's business (C05/C15): note it and use what is observed
		s1 = w.snap()
		w.note("accounting with %d healthy items running reads %+v, model says %+v", len(before), s1, want1)
	}
	w.keepSnap("s1_previous", s1)
	w.fact("max_concurrent_healthy", len(before))

	// --- the panicking item(s)
	subject := &item{w: w, name: "subject-" + sp.Kind, kind: sp.Kind, panics: sp.Repeat, val: newValue(sp.Value, "subject-"+sp.Kind)}
	if early != nil {
		subject = early
		s1.Workers-- // "previous values" = the accounting without the panicking item
		w.count("cases_service_worker_launched_before_module_start", 1)
	}
	if sp.Mgmt == "flap" {
		subject.flap = ww.subject
	}
	pitems := []*item{subject}
	if sp.Mgmt == "passes" {
		ww.runPasses(subject, s1)
	}
	if sp.SecondKind != "" {
		second := &item{w: w, name: "second-" + sp.SecondKind, kind: sp.SecondKind, panics: 1, val: newValue(sp.SecondValue, "second-"+sp.SecondKind)}
		pitems = append(pitems, second)
		doubleBarrier = &barrier{need: 2, ch: make(chan struct{})}
	}

	if sp.AtStop {
		ww.runAtStop(pitems, healthy)
		return
	}

	for occ := 1; occ <= sp.Repeat && sp.Mgmt != "passes"; occ++ {
		for _, it := range pitems {
			if occ > it.panics {
				continue
			}
			if it.kind == "serviceworker" && occ > 1 {
				continue // restarted by portbase itself
			}
			if it.gate != nil {
				close(it.gate) // launched long ago (prep): let it go on now, the module is online
				w.log.Rec("call", "driver", "open gate", map[string]any{"item": it.name})
				continue
			}
			ww.launch(it)
		}
		for _, it := range pitems {
			if occ > it.panics {
				continue
			}
			ww.observeOccurrence(it, occ, s1)
		}
	}

	// --- afterwards: the same item runs again (restart of a service worker, re-queue
	// of the task, fresh call of the other kinds)
	for _, it := range pitems {
		if sp.Mgmt == "passes" {
			break // judged in runPasses
		}
		ww.observeRerun(it, s1)
	}
	if sp.Mgmt == "flap" {
		ww.subject.Enable()
		w.log.Rec("call", "driver", "Enable", nil)
		w.count("cases_service_panic_between_disable_and_enable", 1)
	}

	// accounting once every panicking item is through
	// (with two items panicking at once the accounting is judged for the pair)
	accKind, accValue := sp.Kind, sp.Value
	if sp.SecondKind != "" {
		accKind, accValue = "two-at-once", "any"
	}
	last, ok := w.settle(s1)
	w.keepSnap("s2_after_panics", last)
	w.decideSettle(accKind, accValue, "after the panicking item(s) finished", s1, last, ok)

	// --- healthy items started after the panic
	var after []*item
	for i, k := range sp.After {
		it := mk(100+i, k)
		after = append(after, it)
		healthy = append(healthy, it)
		ww.launch(it)
	}
	if !waitFor(waitRerun, func() bool {
		for _, it := range after {
			if it.entered.Load() < 1 {
				return false
			}
		}
		return true
	}) {
		n, g := inflight()
		w.undecided("stop", sp.Kind, sp.Value, fmt.Sprintf("healthy items launched after the panic did not all begin within %s (%d goroutines in run paths) %s", waitRerun, n, trunc(g, 300)))
	}

	// --- release everything, quiescence, stop
	w.released.Store(true)
	close(w.release)
	w.log.Rec("call", "driver", "release", nil)
	allEnded := waitFor(waitRerun, func() bool {
		for _, it := range healthy {
			if it.entered.Load() >= 1 && it.ended.Load() < it.entered.Load() {
				return false
			}
		}
		return true
	})
	if !allEnded {
		w.harnessProblem("healthy items did not all end after the release")
	}
	cancelled := 0
	for _, it := range healthy {
		if s, _ := it.ctxErr.Load().(string); s != "" {
			cancelled++
		}
	}
	w.fact("healthy_items", len(healthy))
	w.fact("healthy_items_with_cancelled_ctx", cancelled)
	if cancelled > 0 {
		w.note("%d healthy item(s) saw their context cancelled although the module was not being stopped", cancelled)
	}
	last, ok = w.settle(s0)
	w.keepSnap("s3_quiescent", last)
	w.decideSettle(accKind, accValue, "at quiescence (all work ended)", s0, last, ok)

	w.shutdownAndCheck(accKind, accValue, false)
	w.finish()
}

// observeOccurrence decides the clauses about one panic occurrence of one item.
func (ww *workWorld) observeOccurrence(it *item, occ int, prev snap) {
	w := ww.world
	v := it.val
	if !ww.waitEntered(it, occ, waitRerun) {
		if it.kind == "serviceworker" && occ > 1 {
			if n, _ := inflight(); n == 0 {
				w.check("service-not-restarted", ww.mgmtKind(it.kind), v.class, false,
					fmt.Sprintf("after panic %d the service worker function was never entered again and no service-worker goroutine is left%s", occ-1, ww.mgmtText()), nil)
				return
			}
		}
		n, g := inflight()
		w.undecided("not-reported", it.kind, v.class, fmt.Sprintf("the item's function was not entered (occurrence %d) within %s (%d goroutines in run paths) %s", occ, waitRerun, n, trunc(g, 300)))
		return
	}
	w.count("panics_raised", 1)
	var retME *modules.ModuleError
	if isBlockingKind(it.kind) {
		if !waitFor(waitSettle, func() bool { _, ok := it.ret(occ - 1); return ok }) {
			n, g := inflight()
			if n > 0 {
				w.undecided("not-returned", it.kind, v.class, "the blocking run variant has not returned yet: "+trunc(g, 300))
			} else {
				w.check("not-returned", it.kind, v.class, false, "the blocking run variant never returned and its goroutine is gone", nil)
			}
			return
		}
		err, _ := it.ret(occ - 1)
		retME = w.checkReturned(it.kind, v, err)
	}
	w.checkReported(it.kind, v, ww.subject.Name, it.taskNameOK(ww), retME)

	// accounting after this occurrence; a service worker stays alive (it is restarted)
	want := prev
	if it.kind == "serviceworker" {
		want.Workers++
	}
	if doubleBarrier != nil {
		return // two items in flight: decided once both are through
	}
	if it.kind == "serviceworker" && occ == it.panics {
		return // it restarts on its own and then ends: decided after the restart
	}
	if it.kind == "serviceworker" {
		return // between restarts the worker count legitimately includes it
	}
	last, ok := w.settle(want)
	w.decideSettle(it.kind, v.class, fmt.Sprintf("after panic occurrence %d", occ), want, last, ok)
	if isTaskKind(it.kind) && it.task != nil {
		if !ok {
			return
		}
		// the executing flag is reset after the counter is decremented
		var executing, canceled bool
		reset := waitFor(waitSettle, func() bool {
			executing, canceled, _, _, _ = it.task.VerifTaskState()
			return !executing
		})
		if !reset {
			if n, g := inflight(); n > 0 {
				w.undecided("task-stuck", it.kind, v.class, "the task is still marked executing; its goroutine is still in the run path: "+trunc(g, 300))
				return
			}
		}
		w.check("task-stuck", it.kind, v.class, !executing && !canceled,
			fmt.Sprintf("after the panicking execution the task is left executing=%v canceled=%v and no goroutine is inside its run path", executing, canceled), nil)
		if it.kind == "task-repeat" && reset {
			// a repeating task is put back into the schedule by the same clean-up
			_, _, _, _, scheduled := it.task.VerifTaskState()
			w.check("task-not-rerun", it.kind, v.class, scheduled,
				"the repeating task is not in the schedule any more after its execution panicked", nil)
		}
	}
}

// observeRerun: service workers are restarted, the panicked task can run again.
func (ww *workWorld) observeRerun(it *item, prev snap) {
	w := ww.world
	v := it.val
	want := int32(it.panics + 1)
	switch {
	case it.kind == "serviceworker":
		// restarted by portbase after the back-off (occurrence n waits n*5ms)
		ok := ww.waitEntered(it, int(want), waitBegin)
		if !ok {
			if n, g := inflight(); n > 0 {
				w.undecided("service-not-restarted", it.kind, v.class, "the service worker function was not entered again yet; its goroutine is still alive: "+trunc(g, 300))
			} else {
				w.check("service-not-restarted", ww.mgmtKind(it.kind), v.class, false,
					fmt.Sprintf("after %d panic(s) the service worker function was never entered again and no service-worker goroutine is left%s", it.panics, ww.mgmtText()), nil)
			}
			return
		}
		w.check("service-not-restarted", it.kind, v.class, true, "", nil)
		w.count("service_restarts_seen", int64(it.panics))
	case isTaskKind(it.kind):
		ww.launch(it)
		ok := waitFor(waitRerun, func() bool { return it.entered.Load() >= want })
		if !ok {
			executing, canceled, q, p, s := it.task.VerifTaskState()
			if executing || canceled {
				w.check("task-not-rerun", it.kind, v.class, false,
					fmt.Sprintf("the panicked task, submitted again, was not executed (executing=%v canceled=%v queued=%v prioritized=%v scheduled=%v)", executing, canceled, q, p, s), nil)
			} else {
				w.undecided("task-not-rerun", it.kind, v.class, fmt.Sprintf("the re-submitted task did not begin within %s (queued=%v prioritized=%v scheduled=%v)", waitRerun, q, p, s))
			}
			return
		}
		w.check("task-not-rerun", it.kind, v.class, true, "", nil)
		w.count("task_reruns_seen", 1)
	default:
		// fresh call through the same entry point; healthy this time. Not demanded by
		// the statement beyond the counters: recorded as a fact.
		ww.launch(it)
		ok := waitFor(waitBegin, func() bool { return it.entered.Load() >= want })
		w.fact("same_kind_runs_again", ok)
		if isBlockingKind(it.kind) && ok {
			if waitFor(waitSettle, func() bool { _, ok := it.ret(it.panics); return ok }) {
				if err, _ := it.ret(it.panics); err != nil {
					w.note("healthy %s after the panic returned %s", it.kind, errText(err))
				}
			}
		}
	}
	// the healthy run ends
	if !waitFor(waitBegin, func() bool { return it.ended.Load() >= 1 }) {
		w.note("the healthy re-run of %s did not end", it.kind)
	}
	_ = prev
}

// runAtStop: the panicking item(s) and the healthy items are inside their functions
// when Shutdown is called; the panic happens once the module's context is cancelled.
func (ww *workWorld) runAtStop(pitems, healthy []*item) {
	w := ww.world
	sp := w.spec
	for _, it := range pitems {
		it.panics = 1
		ww.launch(it)
	}
	for _, it := range pitems {
		if !waitFor(waitRerun, func() bool { return it.entered.Load() >= 1 }) {
			w.harnessProblem("the item that is to panic at the stop did not begin")
		}
	}
	w.count("panics_at_stop", int64(len(pitems)))
	accKind, accValue := sp.Kind, sp.Value
	if sp.SecondKind != "" {
		accKind, accValue = "two-at-once", "any"
	}
	w.shutdownAndCheck(accKind, accValue, false)
	for _, it := range pitems {
		v := it.val
		w.count("panics_raised", 1)
		var retME *modules.ModuleError
		if isBlockingKind(it.kind) {
			if waitFor(waitSettle, func() bool { _, ok := it.ret(0); return ok }) {
				err, _ := it.ret(0)
				retME = w.checkReturned(it.kind, v, err)
			} else if n, g := inflight(); n > 0 {
				w.undecided("not-returned", it.kind, v.class, "the blocking run variant has not returned yet: "+trunc(g, 300))
			} else {
				w.check("not-returned", it.kind, v.class, false, "the blocking run variant never returned and its goroutine is gone", nil)
			}
		}
		w.checkReported(it.kind, v, ww.subject.Name, it.taskNameOK(ww), retME)
	}
	zero := snap{}
	last, ok := w.settle(zero)
	w.keepSnap("s3_after_shutdown", last)
	w.decideSettle(accKind, accValue, "after Shutdown returned", zero, last, ok)
	for _, it := range healthy {
		if it.entered.Load() >= 1 && it.ended.Load() < it.entered.Load() {
			w.note("healthy item %s did not end at the stop", it.name)
		}
	}
	w.finish()
}

// waitEntered waits until the item's function was entered n times. For a service
// worker it gives up early when the structural witness is already there: no goroutine
// is left in a portbase run path (the service worker's goroutine lives in
// runServiceWorker from its launch to its end, so once gone it cannot come back).
func (ww *workWorld) waitEntered(it *item, n int, limit time.Duration) bool {
	lastDump := time.Now()
	gone := false
	waitFor(limit, func() bool {
		if int(it.entered.Load()) >= n {
			return true
		}
		if it.kind == "serviceworker" && time.Since(lastDump) > 300*time.Millisecond {
			lastDump = time.Now()
			if k, _ := inflight(); k == 0 && int(it.entered.Load()) < n {
				gone = true
				return true
			}
		}
		return false
	})
	return !gone && int(it.entered.Load()) >= n
}

func (ww *workWorld) mgmtKind(kind string) string {
	if ww.spec.Mgmt != "" {
		return kind + "+mgmt-" + ww.spec.Mgmt
	}
	if ww.spec.From != "" {
		return kind + "+from-" + ww.spec.From
	}
	return kind
}

func (ww *workWorld) mgmtText() string {
	if ww.spec.From != "" {
		return " (the service worker was launched from " + ww.spec.From + ", before its module was started; it panicked when the module was online and not stopping)"
	}
	switch ww.spec.Mgmt {
	case "flap":
		return " (module management on; the module was disabled when the worker panicked and enabled again without a management pass in between: it stayed online and was not stopping)"
	case "passes":
		return " (module management on; the module is enabled as a dependency and management passes that change nothing ran concurrently: it stayed online and was not stopping)"
	}
	return ""
}

// runPasses: a service worker that panics on each of its first N entries (back-off
// 1 ns) while management passes that change nothing run concurrently. Every panic must
// be followed by a restart: the function is entered N+1 times in the end.
func (ww *workWorld) runPasses(it *item, prev snap) {
	w := ww.world
	stop := make(chan struct{})
	var passes atomic.Int64
	done := make(chan struct{}, 2)
	for i := 0; i < 2; i++ {
		go func() {
			defer func() { done <- struct{}{} }()
			for {
				select {
				case <-stop:
					return
				default:
				}
				_ = modules.ManageModules()
				passes.Add(1)
			}
		}()
	}
	ww.launch(it)
	want := it.panics + 1
	ok := ww.waitEntered(it, want, waitRerun)
	close(stop)
	<-done
	<-done
	w.count("management_passes_during_service_panics", passes.Load())
	w.count("panics_raised", int64(it.entered.Load())-1)
	w.count("cases_service_panics_during_management_passes", 1)
	w.fact("service_entries", it.entered.Load())
	v := it.val
	if !ok {
		if n, g := inflight(); n > 0 {
			w.undecided("service-not-restarted", ww.mgmtKind(it.kind), v.class, "the service worker function was not entered again yet; its goroutine is still alive: "+trunc(g, 300))
		} else {
			w.check("service-not-restarted", ww.mgmtKind(it.kind), v.class, false,
				fmt.Sprintf("after panic #%d the service worker function was never entered again and no service-worker goroutine is left%s", it.entered.Load(), ww.mgmtText()), nil)
		}
		return
	}
	w.check("service-not-restarted", ww.mgmtKind(it.kind), v.class, true, "", nil)
	w.count("service_restarts_seen", int64(it.panics))
	if !waitFor(waitBegin, func() bool { return it.ended.Load() >= 1 }) {
		w.note("the healthy last run of the service worker did not end")
	}
	_ = prev
}
