package main

import (
	"context"
	"fmt"
	"strings"
	"sync"
	"sync/atomic"
	"time"

	"github.com/safing/portbase/modules"
)

// item is one piece of managed work handed to portbase: healthy (panics == 0) or
// panicking on its first `panics` entries.
type item struct {
	w      *world
	name   string
	kind   string
	panics int
	val    *pvalue
	block  bool // healthy: stay inside the function until the world is released

	entered atomic.Int32
	ended   atomic.Int32
	ctxErr  atomic.Value // string: ctx.Err() seen at the end of a healthy run

	task *modules.Task

	mu   sync.Mutex
	rets []error // what the blocking run variants returned, in order
}

//go:noinline
func (w *world) healthyWait(ctx context.Context) {
	if w.spec.AtStop {
		select {
		case <-w.release:
		case <-ctx.Done():
		}
		return
	}
	<-w.release
}

// barrier lets two panicking items panic at the same moment.
type barrier struct {
	n    int32
	need int32
	ch   chan struct{}
}

func (b *barrier) arrive() {
	if b == nil {
		return
	}
	if atomic.AddInt32(&b.n, 1) == b.need {
		close(b.ch)
	}
	select {
	case <-b.ch:
	case <-time.After(20 * time.Second):
	}
}

var doubleBarrier *barrier

func (it *item) body(ctx context.Context) error {
	n := int(it.entered.Add(1))
	it.w.log.Rec("begin", it.name, it.kind, map[string]any{"n": n, "ctx_done": ctx.Err() != nil})
	if n <= it.panics {
		if n == 1 {
			doubleBarrier.arrive()
		}
		if it.w.spec.AtStop {
			<-ctx.Done()
		}
		it.w.log.Rec("panic", it.name, it.kind, map[string]any{"value": it.val.class})
		it.val.raiseVerifPanic()
	}
	if it.block {
		it.w.healthyWait(ctx)
	}
	if err := ctx.Err(); err != nil {
		it.ctxErr.Store(err.Error())
	}
	it.w.log.Rec("end", it.name, it.kind, map[string]any{"n": n})
	it.ended.Add(1)
	return nil
}

func (it *item) taskFn(ctx context.Context, _ *modules.Task) error { return it.body(ctx) }

func (it *item) addRet(err error) {
	it.mu.Lock()
	it.rets = append(it.rets, err)
	it.mu.Unlock()
}

func (it *item) ret(i int) (error, bool) {
	it.mu.Lock()
	defer it.mu.Unlock()
	if i < len(it.rets) {
		return it.rets[i], true
	}
	return nil, false
}

type workWorld struct {
	*world
	base, subject *modules.Module
	hookDesc      string
}

const (
	svcBackoff = 5 * time.Millisecond
	evName     = "verif event"
)

// launch hands the item to portbase through the entry point of its kind.
func (ww *workWorld) launch(it *item) {
	m := ww.subject
	ww.log.Rec("call", "driver", "launch", map[string]any{"item": it.name, "kind": it.kind})
	switch it.kind {
	case "runworker":
		go func() { it.addRet(m.RunWorker(it.name, it.body)) }()
	case "startworker", "worker":
		m.StartWorker(it.name, it.body)
	case "serviceworker":
		m.StartServiceWorker(it.name, svcBackoff, it.body)
	case "task-queue", "task":
		if it.task == nil {
			it.task = m.NewTask(it.name, it.taskFn)
		}
		it.task.Queue()
	case "task-prio":
		if it.task == nil {
			it.task = m.NewTask(it.name, it.taskFn)
		}
		it.task.QueuePrioritized()
	case "task-asap":
		if it.task == nil {
			it.task = m.NewTask(it.name, it.taskFn)
		}
		it.task.StartASAP()
	case "task-schedule":
		if it.task == nil {
			it.task = m.NewTask(it.name, it.taskFn)
		}
		it.task.Schedule(time.Now().Add(10 * time.Millisecond))
	case "task-repeat":
		if it.task == nil {
			it.task = m.NewTask(it.name, it.taskFn).Repeat(time.Minute)
		}
		it.task.StartASAP()
	case "mt-run-high":
		go func() { it.addRet(m.RunHighPriorityMicroTask(it.name, it.body)) }()
	case "mt-run-med":
		go func() { it.addRet(m.RunMicroTask(it.name, 0, it.body)) }()
	case "mt-run-low":
		go func() { it.addRet(m.RunLowPriorityMicroTask(it.name, 0, it.body)) }()
	case "mt-start-high", "mt-high":
		m.StartHighPriorityMicroTask(it.name, it.body)
	case "mt-start-med", "mt-med":
		m.StartMicroTask(it.name, 0, it.body)
	case "mt-start-low", "mt-low":
		m.StartLowPriorityMicroTask(it.name, 0, it.body)
	case "hook-trigger", "hook":
		ww.base.TriggerEvent(evName, it)
	case "hook-inject":
		if err := m.InjectEvent("verif injected", ww.base.Name, evName, it); err != nil {
			ww.harnessProblem("InjectEvent failed: %s", err)
		}
	default:
		ww.harnessProblem("unknown item kind %q", it.kind)
	}
}

func (ww *workWorld) hookFn(ctx context.Context, data interface{}) error {
	if it, ok := data.(*item); ok {
		return it.body(ctx)
	}
	return nil
}

// delta is what an item that is inside its function contributes to the accounting.
func delta(kind string) (d snap) {
	switch {
	case kind == "runworker" || kind == "startworker" || kind == "worker" || kind == "serviceworker" || strings.HasPrefix(kind, "hook"):
		d.Workers = 1
	case strings.HasPrefix(kind, "task"):
		d.Tasks = 1
	case strings.HasPrefix(kind, "mt-"):
		d.MicroTasks, d.Global = 1, 1
	}
	return d
}

func (it *item) taskNameOK(ww *workWorld) func(string) bool {
	if strings.HasPrefix(it.kind, "hook") {
		return func(s string) bool { return strings.Contains(s, "event hook") && strings.Contains(s, ww.hookDesc) }
	}
	return func(s string) bool { return s == it.name }
}

func runWorkChild(sp caseSpec, dir string) {
	w := newWorld(sp, dir)
	ww := &workWorld{world: w, hookDesc: "verif hook"}
	w.subjectName = "subject"

	lc := func(mod, phase string) func() error {
		return func() error {
			w.log.Rec("begin", mod, phase, nil)
			if mod == "subject" && phase == "start" {
				if err := ww.subject.RegisterEventHook("base", evName, ww.hookDesc, ww.hookFn); err != nil {
					return err
				}
			}
			w.log.Rec("end", mod, phase, nil)
			return nil
		}
	}
	ww.base = modules.Register("base", lc("base", "prep"), lc("base", "start"), lc("base", "stop"))
	ww.base.RegisterEvent(evName, true)
	ww.subject = modules.Register("subject", lc("subject", "prep"), lc("subject", "start"), lc("subject", "stop"), "base")

	w.log.Rec("call", "driver", "Start", nil)
	if err := modules.Start(); err != nil {
		w.harnessProblem("modules.Start with healthy routines failed: %s", err)
	}
	w.log.Rec("ret", "driver", "Start", nil)

	s0 := w.snap()
	w.keepSnap("s0_idle", s0)

	// --- healthy items that run concurrently with the panic
	var healthy []*item
	mk := func(i int, kind string) *item {
		return &item{w: w, name: fmt.Sprintf("healthy-%d-%s", i, kind), kind: kind, block: kind != "task"}
	}
	var before []*item
	for i, k := range sp.Before {
		it := mk(i, k)
		before = append(before, it)
		healthy = append(healthy, it)
		ww.launch(it)
	}
	if !waitFor(waitBegin, func() bool {
		for _, it := range before {
			if it.entered.Load() < 1 {
				return false
			}
		}
		return true
	}) {
		w.harnessProblem("healthy items did not all begin within %s", waitBegin)
	}
	// a healthy task runs to completion (the task queue executes one task at a time);
	// wait until those are accounted for again
	s1 := w.snap()
	want1 := s0
	for _, it := range before {
		if it.block {
			d := delta(it.kind)
			want1.Workers += d.Workers
			want1.MicroTasks += d.MicroTasks
			want1.Global += d.Global
		}
	}
	if last, ok := w.settle(want1); ok {
		s1 = last
	} else {
		// not this property's business (C05/C15): note it and use what is observed
		s1 = w.snap()
		w.note("accounting with %d healthy items running reads %+v, model says %+v", len(before), s1, want1)
	}
	w.keepSnap("s1_previous", s1)
	w.fact("max_concurrent_healthy", len(before))

	// --- the panicking item(s)
	subject := &item{w: w, name: "subject-" + sp.Kind, kind: sp.Kind, panics: sp.Repeat, val: newValue(sp.Value, "subject-"+sp.Kind)}
	pitems := []*item{subject}
	if sp.SecondKind != "" {
		second := &item{w: w, name: "second-" + sp.SecondKind, kind: sp.SecondKind, panics: 1, val: newValue(sp.SecondValue, "second-"+sp.SecondKind)}
		pitems = append(pitems, second)
		doubleBarrier = &barrier{need: 2, ch: make(chan struct{})}
	}

	if sp.AtStop {
		ww.runAtStop(pitems, healthy)
		return
	}

	for occ := 1; occ <= sp.Repeat; occ++ {
		for _, it := range pitems {
			if occ > it.panics {
				continue
			}
			if it.kind == "serviceworker" && occ > 1 {
				continue // restarted by portbase itself
			}
			ww.launch(it)
		}
		for _, it := range pitems {
			if occ > it.panics {
				continue
			}
			ww.observeOccurrence(it, occ, s1)
		}
	}

	// --- afterwards: the same item runs again (restart of a service worker, re-queue
	// of the task, fresh call of the other kinds)
	for _, it := range pitems {
		ww.observeRerun(it, s1)
	}

	// accounting once every panicking item is through
	// (with two items panicking at once the accounting is judged for the pair)
	accKind, accValue := sp.Kind, sp.Value
	if sp.SecondKind != "" {
		accKind, accValue = "two-at-once", "any"
	}
	last, ok := w.settle(s1)
	w.keepSnap("s2_after_panics", last)
	w.decideSettle(accKind, accValue, "after the panicking item(s) finished", s1, last, ok)

	// --- healthy items started after the panic
	var after []*item
	for i, k := range sp.After {
		it := mk(100+i, k)
		after = append(after, it)
		healthy = append(healthy, it)
		ww.launch(it)
	}
	if !waitFor(waitRerun, func() bool {
		for _, it := range after {
			if it.entered.Load() < 1 {
				return false
			}
		}
		return true
	}) {
		n, g := inflight()
		w.undecided("stop", sp.Kind, sp.Value, fmt.Sprintf("healthy items launched after the panic did not all begin within %s (%d goroutines in run paths) %s", waitRerun, n, trunc(g, 300)))
	}

	// --- release everything, quiescence, stop
	w.released.Store(true)
	close(w.release)
	w.log.Rec("call", "driver", "release", nil)
	allEnded := waitFor(waitRerun, func() bool {
		for _, it := range healthy {
			if it.entered.Load() >= 1 && it.ended.Load() < it.entered.Load() {
				return false
			}
		}
		return true
	})
	if !allEnded {
		w.harnessProblem("healthy items did not all end after the release")
	}
	cancelled := 0
	for _, it := range healthy {
		if s, _ := it.ctxErr.Load().(string); s != "" {
			cancelled++
		}
	}
	w.fact("healthy_items", len(healthy))
	w.fact("healthy_items_with_cancelled_ctx", cancelled)
	if cancelled > 0 {
		w.note("%d healthy item(s) saw their context cancelled although the module was not being stopped", cancelled)
	}
	last, ok = w.settle(s0)
	w.keepSnap("s3_quiescent", last)
	w.decideSettle(accKind, accValue, "at quiescence (all work ended)", s0, last, ok)

	w.shutdownAndCheck(accKind, accValue, false)
	w.finish()
}

// observeOccurrence decides the clauses about one panic occurrence of one item.
func (ww *workWorld) observeOccurrence(it *item, occ int, prev snap) {
	w := ww.world
	v := it.val
	if !waitFor(waitRerun, func() bool { return int(it.entered.Load()) >= occ }) {
		n, g := inflight()
		w.undecided("not-reported", it.kind, v.class, fmt.Sprintf("the item's function was not entered (occurrence %d) within %s (%d goroutines in run paths) %s", occ, waitRerun, n, trunc(g, 300)))
		return
	}
	w.count("panics_raised", 1)
	var retME *modules.ModuleError
	if isBlockingKind(it.kind) {
		if !waitFor(waitSettle, func() bool { _, ok := it.ret(occ - 1); return ok }) {
			n, g := inflight()
			if n > 0 {
				w.undecided("not-returned", it.kind, v.class, "the blocking run variant has not returned yet: "+trunc(g, 300))
			} else {
				w.check("not-returned", it.kind, v.class, false, "the blocking run variant never returned and its goroutine is gone", nil)
			}
			return
		}
		err, _ := it.ret(occ - 1)
		retME = w.checkReturned(it.kind, v, err)
	}
	w.checkReported(it.kind, v, ww.subject.Name, it.taskNameOK(ww), retME)

	// accounting after this occurrence; a service worker stays alive (it is restarted)
	want := prev
	if it.kind == "serviceworker" {
		want.Workers++
	}
	if doubleBarrier != nil {
		return // two items in flight: decided once both are through
	}
	if it.kind == "serviceworker" && occ == it.panics {
		return // it restarts on its own and then ends: decided after the restart
	}
	if it.kind == "serviceworker" {
		return // between restarts the worker count legitimately includes it
	}
	last, ok := w.settle(want)
	w.decideSettle(it.kind, v.class, fmt.Sprintf("after panic occurrence %d", occ), want, last, ok)
	if isTaskKind(it.kind) && it.task != nil {
		if !ok {
			return
		}
		// the executing flag is reset after the counter is decremented
		var executing, canceled bool
		reset := waitFor(waitSettle, func() bool {
			executing, canceled, _, _, _ = it.task.VerifTaskState()
			return !executing
		})
		if !reset {
			if n, g := inflight(); n > 0 {
				w.undecided("task-stuck", it.kind, v.class, "the task is still marked executing; its goroutine is still in the run path: "+trunc(g, 300))
				return
			}
		}
		w.check("task-stuck", it.kind, v.class, !executing && !canceled,
			fmt.Sprintf("after the panicking execution the task is left executing=%v canceled=%v and no goroutine is inside its run path", executing, canceled), nil)
		if it.kind == "task-repeat" && reset {
			// a repeating task is put back into the schedule by the same clean-up
			_, _, _, _, scheduled := it.task.VerifTaskState()
			w.check("task-not-rerun", it.kind, v.class, scheduled,
				"the repeating task is not in the schedule any more after its execution panicked", nil)
		}
	}
}

// observeRerun: service workers are restarted, the panicked task can run again.
func (ww *workWorld) observeRerun(it *item, prev snap) {
	w := ww.world
	v := it.val
	want := int32(it.panics + 1)
	switch {
	case it.kind == "serviceworker":
		// restarted by portbase after the back-off (occurrence n waits n*5ms)
		ok := waitFor(waitBegin, func() bool { return it.entered.Load() >= want })
		if !ok {
			if n, g := inflight(); n > 0 {
				w.undecided("service-not-restarted", it.kind, v.class, "the service worker function was not entered again yet; its goroutine is still alive: "+trunc(g, 300))
			} else {
				w.check("service-not-restarted", it.kind, v.class, false,
					fmt.Sprintf("after %d panic(s) the service worker function was never entered again and no service-worker goroutine is left", it.panics), nil)
			}
			return
		}
		w.check("service-not-restarted", it.kind, v.class, true, "", nil)
		w.count("service_restarts_seen", int64(it.panics))
	case isTaskKind(it.kind):
		ww.launch(it)
		ok := waitFor(waitRerun, func() bool { return it.entered.Load() >= want })
		if !ok {
			executing, canceled, q, p, s := it.task.VerifTaskState()
			if executing || canceled {
				w.check("task-not-rerun", it.kind, v.class, false,
					fmt.Sprintf("the panicked task, submitted again, was not executed (executing=%v canceled=%v queued=%v prioritized=%v scheduled=%v)", executing, canceled, q, p, s), nil)
			} else {
				w.undecided("task-not-rerun", it.kind, v.class, fmt.Sprintf("the re-submitted task did not begin within %s (queued=%v prioritized=%v scheduled=%v)", waitRerun, q, p, s))
			}
			return
		}
		w.check("task-not-rerun", it.kind, v.class, true, "", nil)
		w.count("task_reruns_seen", 1)
	default:
		// fresh call through the same entry point; healthy this time. Not demanded by
		// the statement beyond the counters: recorded as a fact.
		ww.launch(it)
		ok := waitFor(waitBegin, func() bool { return it.entered.Load() >= want })
		w.fact("same_kind_runs_again", ok)
		if isBlockingKind(it.kind) && ok {
			if waitFor(waitSettle, func() bool { _, ok := it.ret(it.panics); return ok }) {
				if err, _ := it.ret(it.panics); err != nil {
					w.note("healthy %s after the panic returned %s", it.kind, errText(err))
				}
			}
		}
	}
	// the healthy run ends
	if !waitFor(waitBegin, func() bool { return it.ended.Load() >= 1 }) {
		w.note("the healthy re-run of %s did not end", it.kind)
	}
	_ = prev
}

// runAtStop: the panicking item(s) and the healthy items are inside their functions
// when Shutdown is called; the panic happens once the module's context is cancelled.
func (ww *workWorld) runAtStop(pitems, healthy []*item) {
	w := ww.world
	sp := w.spec
	for _, it := range pitems {
		it.panics = 1
		ww.launch(it)
	}
	for _, it := range pitems {
		if !waitFor(waitRerun, func() bool { return it.entered.Load() >= 1 }) {
			w.harnessProblem("the item that is to panic at the stop did not begin")
		}
	}
	w.count("panics_at_stop", int64(len(pitems)))
	accKind, accValue := sp.Kind, sp.Value
	if sp.SecondKind != "" {
		accKind, accValue = "two-at-once", "any"
	}
	w.shutdownAndCheck(accKind, accValue, false)
	for _, it := range pitems {
		v := it.val
		w.count("panics_raised", 1)
		var retME *modules.ModuleError
		if isBlockingKind(it.kind) {
			if waitFor(waitSettle, func() bool { _, ok := it.ret(0); return ok }) {
				err, _ := it.ret(0)
				retME = w.checkReturned(it.kind, v, err)
			} else if n, g := inflight(); n > 0 {
				w.undecided("not-returned", it.kind, v.class, "the blocking run variant has not returned yet: "+trunc(g, 300))
			} else {
				w.check("not-returned", it.kind, v.class, false, "the blocking run variant never returned and its goroutine is gone", nil)
			}
		}
		w.checkReported(it.kind, v, ww.subject.Name, it.taskNameOK(ww), retME)
	}
	zero := snap{}
	last, ok := w.settle(zero)
	w.keepSnap("s3_after_shutdown", last)
	w.decideSettle(accKind, accValue, "after Shutdown returned", zero, last, ok)
	for _, it := range healthy {
		if it.entered.Load() >= 1 && it.ended.Load() < it.entered.Load() {
			w.note("healthy item %s did not end at the stop", it.name)
		}
	}
	w.finish()
}
