package main

import (
	"bytes"
	"fmt"
	"net/http"
	"net/http/httptest"
	"strings"
	"sync"
	"sync/atomic"

	"github.com/safing/portbase/api"
	"github.com/safing/portbase/config"
	_ "github.com/safing/portbase/database/dbmodule" // the api module depends on the database module
	"github.com/safing/portbase/database/record"
	"github.com/safing/portbase/modules"
)

// API part: a panic inside the function of an api.Endpoint of every function type and
// inside raw handlers registered with api.RegisterHandler / RegisterHandleFunc. The
// api module is fully started (database, config, api) on a scratch data root; requests
// go through the handler the API server serves.

type apiRecord struct {
	record.Base
	sync.Mutex
	Msg string
}

type apiWorld struct {
	*world
	handler http.Handler
	val     *pvalue
	entered atomic.Int32
	panics  int
	owner   *modules.Module
}

const okBody = "verif endpoint healthy"

// subjectFn is the body of the panicking endpoint / handler.
func (aw *apiWorld) subjectFn(kind string) {
	n := int(aw.entered.Add(1))
	aw.log.Rec("begin", "subject-"+kind, kind, map[string]any{"n": n})
	if n <= aw.panics {
		aw.log.Rec("panic", "subject-"+kind, kind, map[string]any{"value": aw.val.class})
		aw.count("panics_raised", 1)
		aw.val.raiseVerifPanic()
	}
	aw.log.Rec("end", "subject-"+kind, kind, map[string]any{"n": n})
}

// healthyFn is the body of the healthy endpoints; with ?block=1 it stays inside until
// the world is released (a request in flight while another one panics).
func (aw *apiWorld) healthyFn(r *http.Request, started *atomic.Int32) {
	aw.log.Rec("begin", "healthy", r.URL.Path, nil)
	if r.URL.Query().Get("block") == "1" {
		started.Add(1)
		aw.healthyWait(r.Context())
	}
	aw.log.Rec("end", "healthy", r.URL.Path, nil)
}

func runAPIChild(sp caseSpec, dir string) {
	w := newWorld(sp, dir)
	aw := &apiWorld{world: w, panics: sp.Repeat, val: newValue(sp.Value, "subject-"+sp.Kind)}
	w.subjectName = "api"

	// an authenticator granting full access (the plain raw handler requires PermitSelf)
	if err := api.SetAuthenticator(func(r *http.Request, s *http.Server) (*api.AuthToken, error) {
		return &api.AuthToken{Read: api.PermitSelf, Write: api.PermitSelf}, nil
	}); err != nil {
		w.harnessProblem("SetAuthenticator: %s", err)
	}

	var blockedStarted atomic.Int32
	late := func(wr http.ResponseWriter) {
		if sp.Late {
			wr.Header().Set("Content-Type", "text/plain")
			wr.WriteHeader(http.StatusOK)
			_, _ = wr.Write([]byte("partial response before the panic\n"))
		}
	}
	prep := func() error {
		reg := func(e api.Endpoint) error {
			e.Read, e.Write = api.PermitAnyone, api.PermitAnyone
			e.BelongsTo = aw.owner
			return api.RegisterEndpoint(e)
		}
		eps := []api.Endpoint{
			{Path: "verif/action", ActionFunc: func(ar *api.Request) (string, error) { aw.subjectFn("api-action"); return okBody, nil }},
			{Path: "verif/data", DataFunc: func(ar *api.Request) ([]byte, error) { aw.subjectFn("api-data"); return []byte(okBody), nil }},
			{Path: "verif/struct", StructFunc: func(ar *api.Request) (interface{}, error) {
				aw.subjectFn("api-struct")
				return map[string]string{"msg": okBody}, nil
			}},
			{Path: "verif/record", RecordFunc: func(ar *api.Request) (record.Record, error) {
				aw.subjectFn("api-record")
				r := &apiRecord{Msg: okBody}
				r.SetKey("verif:record")
				r.CreateMeta()
				return r, nil
			}},
			{Path: "verif/handlerfunc", HandlerFunc: func(wr http.ResponseWriter, r *http.Request) {
				late(wr)
				aw.subjectFn("api-handlerfunc")
				_, _ = wr.Write([]byte(okBody))
			}},
			{Path: "verif/ok", ActionFunc: func(ar *api.Request) (string, error) {
				aw.healthyFn(ar.Request, &blockedStarted)
				return okBody, nil
			}},
			{Path: "verif/ok-data", DataFunc: func(ar *api.Request) ([]byte, error) {
				aw.healthyFn(ar.Request, &blockedStarted)
				return []byte(okBody), nil
			}},
		}
		for _, e := range eps {
			if err := reg(e); err != nil {
				return fmt.Errorf("register %s: %w", e.Path, err)
			}
		}
		api.RegisterHandler("/verif-raw/wrapped", api.WrapInAuthHandler(func(wr http.ResponseWriter, r *http.Request) {
			late(wr)
			aw.subjectFn("api-raw-wrapped")
			_, _ = wr.Write([]byte(okBody))
		}, api.PermitAnyone, api.PermitAnyone))
		api.RegisterHandleFunc("/verif-raw/plain", func(wr http.ResponseWriter, r *http.Request) {
			late(wr)
			aw.subjectFn("api-raw-plain")
			_, _ = wr.Write([]byte(okBody))
		})
		api.RegisterHandleFunc("/verif-raw/ok", func(wr http.ResponseWriter, r *http.Request) {
			aw.healthyFn(r, &blockedStarted)
			_, _ = wr.Write([]byte(okBody))
		})
		return nil
	}
	aw.owner = modules.Register("verifowner", prep, nil, nil, "api")

	w.log.Rec("call", "driver", "Start", nil)
	if err := modules.Start(); err != nil {
		w.harnessProblem("modules.Start (database, config, api) failed: %s", err)
	}
	w.log.Rec("ret", "driver", "Start", nil)
	if sp.DevMode {
		if err := config.SetConfigOption(config.CfgDevModeKey, true); err != nil {
			w.harnessProblem("cannot switch on dev mode: %s", err)
		}
	}
	aw.handler = api.VerifMainHandler()

	path := map[string]string{
		"api-action": "/api/v1/verif/action", "api-data": "/api/v1/verif/data", "api-struct": "/api/v1/verif/struct",
		"api-record": "/api/v1/verif/record", "api-handlerfunc": "/api/v1/verif/handlerfunc",
		"api-raw-wrapped": "/verif-raw/wrapped", "api-raw-plain": "/verif-raw/plain",
	}[sp.Kind]
	healthyPaths := []string{"/api/v1/verif/ok", "/api/v1/verif/ok-data", "/verif-raw/ok"}

	// do: one request through the main handler. A panic that comes out of ServeHTTP was
	// not contained by portbase (a real net/http server would swallow it silently).
	type resp struct {
		code    int
		body    string
		escaped any
	}
	do := func(method, p string) (rs resp) {
		var body *bytes.Reader
		if method == http.MethodPost {
			body = bytes.NewReader([]byte(`{"verif":"input"}`))
		} else {
			body = bytes.NewReader(nil)
		}
		req := httptest.NewRequest(method, p, body)
		rec := httptest.NewRecorder()
		func() {
			defer func() {
				if r := recover(); r != nil {
					rs.escaped = r
				}
			}()
			aw.handler.ServeHTTP(rec, req)
		}()
		rs.code, rs.body = rec.Code, rec.Body.String()
		return rs
	}

	// warm-up: a healthy request is served (otherwise the world is not set up)
	if rs := do(http.MethodGet, healthyPaths[0]); rs.code != 200 || !strings.Contains(rs.body, okBody) {
		w.harnessProblem("healthy endpoint not served before the panic: %d %q", rs.code, trunc(rs.body, 200))
	}
	// Idle accounting of the api module, known by construction: the "http server
	// manager" service worker and the "http endpoint" worker it runs (start-up work such
	// as the config-change hook is transient).
	idle := snap{Workers: 2}
	s0, okIdle := w.settle(idle)
	if !okIdle {
		w.harnessProblem("the api module did not reach its idle accounting %+v (reads %+v)", idle, s0)
	}
	w.keepSnap("s0_idle", s0)

	// healthy requests in flight while the panic happens
	nBefore := len(sp.Before)
	var hw sync.WaitGroup
	hres := make([]resp, nBefore)
	for i := 0; i < nBefore; i++ {
		hw.Add(1)
		go func(i int) {
			defer hw.Done()
			hres[i] = do(http.MethodGet, healthyPaths[i%len(healthyPaths)]+"?block=1")
		}(i)
	}
	if !waitFor(waitBegin, func() bool { return int(blockedStarted.Load()) >= nBefore }) {
		w.harnessProblem("healthy requests did not reach their handlers")
	}
	// "Previous values" must be a settled reading: a single sample can catch a transient
	// worker of the api module itself (e.g. its config-change event hook, which runs as a
	// worker) and would then demand a value the counters legitimately never return to.
	// Known by construction: idle accounting plus one "http request" worker per healthy
	// request that is parked in its handler.
	s1want := idle
	s1want.Workers += nBefore
	s1, okPrev := w.settle(s1want)
	if !okPrev {
		w.harnessProblem("the api module did not settle at idle + %d in-flight requests (reads %+v)", nBefore, s1)
	}
	w.keepSnap("s1_previous", s1)
	w.fact("max_concurrent_healthy", nBefore)

	taskOK := func(s string) bool { return s == "api request" }
	for occ := 1; occ <= sp.Repeat; occ++ {
		w.log.Rec("call", "driver", sp.Method+" "+path, nil)
		rs := do(sp.Method, path)
		w.log.Rec("ret", "driver", sp.Method+" "+path, map[string]any{"status": rs.code, "escaped": rs.escaped != nil})
		w.fact("panic_response_status", rs.code)
		if int(aw.entered.Load()) < occ {
			w.harnessProblem("the request did not reach the panicking function: %d %q", rs.code, trunc(rs.body, 200))
		}
		w.check("api-escaped", sp.Kind, sp.Value, rs.escaped == nil,
			fmt.Sprintf("the panic (%s) left the API main handler's ServeHTTP instead of being contained", typeOf(rs.escaped)), nil)
		if rs.escaped != nil {
			continue
		}
		if !sp.Late {
			w.check("api-status", sp.Kind, sp.Value, rs.code == http.StatusInternalServerError,
				fmt.Sprintf("the request whose handler panicked was answered with status %d, not 500 (body %q)", rs.code, trunc(rs.body, 120)), nil)
		}
		w.checkReported(sp.Kind, aw.val, "api", taskOK, nil)
		// the request ran inside RunWorker: the api module's counters are back
		last, ok := w.settle(s1)
		w.decideSettle(sp.Kind, sp.Value, fmt.Sprintf("after the panicking request %d returned", occ), s1, last, ok, "serverManager", "ListenAndServe")
	}

	// the next requests are served: the same endpoint (healthy now) and a healthy one
	rs := do(sp.Method, path)
	w.check("api-next-request", sp.Kind, sp.Value, rs.escaped == nil && rs.code == 200 && strings.Contains(rs.body, okBody),
		fmt.Sprintf("after the panic the same endpoint answered %d %q", rs.code, trunc(rs.body, 120)), nil)
	for i := range sp.After {
		p := healthyPaths[i%len(healthyPaths)]
		rs := do(http.MethodGet, p)
		w.check("api-next-request", sp.Kind, sp.Value, rs.escaped == nil && rs.code == 200 && strings.Contains(rs.body, okBody),
			fmt.Sprintf("after the panic the healthy endpoint %s answered %d %q", p, rs.code, trunc(rs.body, 120)), nil)
	}
	w.released.Store(true)
	close(w.release)
	hw.Wait()
	for i, hr := range hres {
		w.check("api-next-request", sp.Kind, sp.Value, hr.escaped == nil && hr.code == 200 && strings.Contains(hr.body, okBody),
			fmt.Sprintf("healthy request %d that was in flight during the panic ended with %d %q", i, hr.code, trunc(hr.body, 120)), nil)
	}
	last, ok := w.settle(s0)
	w.keepSnap("s3_quiescent", last)
	w.decideSettle(sp.Kind, sp.Value, "at quiescence (all requests answered)", s0, last, ok, "serverManager", "ListenAndServe")

	w.shutdownAndCheck(sp.Kind, sp.Value, false)
	w.finish()
}
