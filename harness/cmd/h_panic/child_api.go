package main

import (
	"bytes"
	"fmt"
	"io"
	"net"
	"net/http"
	"net/http/httptest"
	"runtime"
	"strings"
	"sync"
	"sync/atomic"
	"time"

	"github.com/safing/portbase/api"
	"github.com/safing/portbase/config"
	"github.com/safing/portbase/database"
	_ "github.com/safing/portbase/database/dbmodule" // the api module depends on the database module
	"github.com/safing/portbase/database/record"
	"github.com/safing/portbase/modules"
)

// API part: a panic inside the function of an api.Endpoint of every function type and
// inside raw handlers registered with api.RegisterHandler / RegisterHandleFunc. The
// api module is fully started (database, config, api) on a scratch data root; requests
// go through the handler the API server serves.

type apiRecord struct {
	record.Base
	sync.Mutex
	Msg string
}

// sharedRecord is handed out by a RecordFunc endpoint again and again (like a module's
// status record); marshalling it runs the panicking function on demand.
type sharedRecord struct {
	record.Base
	sync.Mutex
	Msg string
	Hot *hotField
}

type hotField struct{ aw *apiWorld }

// MarshalJSON is called while api.MarshalRecord holds the record lock.
func (h *hotField) MarshalJSON() ([]byte, error) {
	h.aw.subjectFn("api-record-marshal")
	return []byte(`"marshalled"`), nil
}

type apiWorld struct {
	*world
	handler http.Handler
	val     *pvalue
	entered atomic.Int32
	panics  int
	owner   *modules.Module
}

const okBody = "verif endpoint healthy"

// subjectFn is the body of the panicking endpoint / handler.
func (aw *apiWorld) subjectFn(kind string) {
	n := int(aw.entered.Add(1))
	aw.log.Rec("begin", "subject-"+kind, kind, map[string]any{"n": n})
	if n <= aw.panics {
		aw.log.Rec("panic", "subject-"+kind, kind, map[string]any{"value": aw.val.class})
		aw.count("panics_raised", 1)
		aw.val.raiseVerifPanic()
	}
	aw.log.Rec("end", "subject-"+kind, kind, map[string]any{"n": n})
}

// healthyFn is the body of the healthy endpoints; with ?block=1 it stays inside until
// the world is released (a request in flight while another one panics).
func (aw *apiWorld) healthyFn(r *http.Request, started *atomic.Int32) {
	aw.log.Rec("begin", "healthy", r.URL.Path, nil)
	if r.URL.Query().Get("block") == "1" {
		started.Add(1)
		aw.healthyWait(r.Context())
	}
	aw.log.Rec("end", "healthy", r.URL.Path, nil)
}

func runAPIChild(sp caseSpec, dir string) {
	w := newWorld(sp, dir)
	aw := &apiWorld{world: w, panics: sp.Repeat, val: newValue(sp.Value, "subject-"+sp.Kind)}
	w.subjectName = "api"

	// an authenticator granting full access (the plain raw handler requires PermitSelf)
	if err := api.SetAuthenticator(func(r *http.Request, s *http.Server) (*api.AuthToken, error) {
		return &api.AuthToken{Read: api.PermitSelf, Write: api.PermitSelf}, nil
	}); err != nil {
		w.harnessProblem("SetAuthenticator: %s", err)
	}

	// real server path: a free port chosen here (the listen address must be known)
	listenAddr := ""
	if sp.Via == "server" {
		l, err := net.Listen("tcp", "127.0.0.1:0")
		if err != nil {
			w.harnessProblem("no free port: %s", err)
		}
		listenAddr = l.Addr().String()
		_ = l.Close()
		api.SetDefaultAPIListenAddress(listenAddr)
	}
	shared := &sharedRecord{Msg: okBody}
	shared.Hot = &hotField{aw: aw}
	shared.SetKey("verif:shared-record")
	shared.CreateMeta()

	var blockedStarted atomic.Int32
	late := func(wr http.ResponseWriter) {
		if sp.Late {
			wr.Header().Set("Content-Type", "text/plain")
			wr.WriteHeader(http.StatusOK)
			_, _ = wr.Write([]byte("partial response before the panic\n"))
		}
	}
	prep := func() error {
		reg := func(e api.Endpoint) error {
			e.Read, e.Write = api.PermitAnyone, api.PermitAnyone
			e.BelongsTo = aw.owner
			return api.RegisterEndpoint(e)
		}
		eps := []api.Endpoint{
			{Path: "verif/action", ActionFunc: func(ar *api.Request) (string, error) { aw.subjectFn("api-action"); return okBody, nil }},
			{Path: "verif/data", DataFunc: func(ar *api.Request) ([]byte, error) { aw.subjectFn("api-data"); return []byte(okBody), nil }},
			{Path: "verif/struct", StructFunc: func(ar *api.Request) (interface{}, error) {
				aw.subjectFn("api-struct")
				return map[string]string{"msg": okBody}, nil
			}},
			{Path: "verif/record", RecordFunc: func(ar *api.Request) (record.Record, error) {
				aw.subjectFn("api-record")
				r := &apiRecord{Msg: okBody}
				r.SetKey("verif:record")
				r.CreateMeta()
				return r, nil
			}},
			{Path: "verif/shared-record", RecordFunc: func(ar *api.Request) (record.Record, error) { return shared, nil }},
			{Path: "verif/handlerfunc", HandlerFunc: func(wr http.ResponseWriter, r *http.Request) {
				late(wr)
				aw.subjectFn("api-handlerfunc")
				_, _ = wr.Write([]byte(okBody))
			}},
			{Path: "verif/ok", ActionFunc: func(ar *api.Request) (string, error) {
				aw.healthyFn(ar.Request, &blockedStarted)
				return okBody, nil
			}},
			{Path: "verif/ok-data", DataFunc: func(ar *api.Request) ([]byte, error) {
				aw.healthyFn(ar.Request, &blockedStarted)
				return []byte(okBody), nil
			}},
		}
		for _, e := range eps {
			if err := reg(e); err != nil {
				return fmt.Errorf("register %s: %w", e.Path, err)
			}
		}
		api.RegisterHandler("/verif-raw/wrapped", api.WrapInAuthHandler(func(wr http.ResponseWriter, r *http.Request) {
			late(wr)
			aw.subjectFn("api-raw-wrapped")
			_, _ = wr.Write([]byte(okBody))
		}, api.PermitAnyone, api.PermitAnyone))
		api.RegisterHandleFunc("/verif-raw/plain", func(wr http.ResponseWriter, r *http.Request) {
			late(wr)
			aw.subjectFn("api-raw-plain")
			_, _ = wr.Write([]byte(okBody))
		})
		api.RegisterHandleFunc("/verif-raw/ok", func(wr http.ResponseWriter, r *http.Request) {
			aw.healthyFn(r, &blockedStarted)
			_, _ = wr.Write([]byte(okBody))
		})
		return nil
	}
	aw.owner = modules.Register("verifowner", prep, nil, nil, "api")

	w.log.Rec("call", "driver", "Start", nil)
	if err := modules.Start(); err != nil {
		w.harnessProblem("modules.Start (database, config, api) failed: %s", err)
	}
	w.log.Rec("ret", "driver", "Start", nil)
	if sp.DevMode {
		if err := config.SetConfigOption(config.CfgDevModeKey, true); err != nil {
			w.harnessProblem("cannot switch on dev mode: %s", err)
		}
	}
	aw.handler = api.VerifMainHandler()

	path := map[string]string{
		"api-action": "/api/v1/verif/action", "api-data": "/api/v1/verif/data", "api-struct": "/api/v1/verif/struct",
		"api-record": "/api/v1/verif/record", "api-handlerfunc": "/api/v1/verif/handlerfunc",
		"api-raw-wrapped": "/verif-raw/wrapped", "api-raw-plain": "/verif-raw/plain",
		"api-record-marshal": "/api/v1/verif/shared-record",
	}[sp.Kind]
	healthyPaths := []string{"/api/v1/verif/ok", "/api/v1/verif/ok-data", "/verif-raw/ok"}

	// do: one request through the main handler. A panic that comes out of ServeHTTP was
	// not contained by portbase (a real net/http server would swallow it silently).
	do := func(method, p string) (rs resp) {
		var body *bytes.Reader
		if method == http.MethodPost {
			body = bytes.NewReader([]byte(`{"verif":"input"}`))
		} else {
			body = bytes.NewReader(nil)
		}
		req := httptest.NewRequest(method, p, body)
		rec := httptest.NewRecorder()
		func() {
			defer func() {
				if r := recover(); r != nil {
					rs.escaped = r
				}
			}()
			aw.handler.ServeHTTP(rec, req)
		}()
		rs.code, rs.body = rec.Code, rec.Body.String()
		return rs
	}

	// doVia: the panicking request takes the path of the case.
	client := &http.Client{Timeout: 90 * time.Second}
	bridge := database.NewInterface(&database.Options{Local: true, Internal: true})
	doVia := func(method, p string) (rs resp) {
		switch sp.Via {
		case "server":
			var body io.Reader
			if method == http.MethodPost {
				body = bytes.NewReader([]byte(`{"verif":"input"}`))
			}
			req, err := http.NewRequest(method, "http://"+listenAddr+p, body)
			if err != nil {
				w.harnessProblem("request: %s", err)
			}
			res, err := client.Do(req)
			if err != nil {
				rs.code, rs.body = 0, "no HTTP response: "+err.Error()
				return rs
			}
			b, _ := io.ReadAll(res.Body)
			_ = res.Body.Close()
			rs.code, rs.body = res.StatusCode, string(b)
			return rs
		case "bridge":
			// database interface -> injected "api" database -> callAPI -> main handler,
			// on the caller's goroutine
			key := "api:" + strings.TrimPrefix(p, "/api/v1/")
			func() {
				defer func() {
					if r := recover(); r != nil {
						rs.escaped = r
					}
				}()
				rec, err := bridge.Get(key)
				switch {
				case err == nil:
					rs.code = 200
					if br, ok := rec.(*api.EndpointBridgeResponse); ok {
						rs.body = br.Body
					} else {
						rs.body = fmt.Sprintf("%T %s", rec, okBody)
					}
				case strings.Contains(err.Error(), "bridged api call failed"):
					rs.code, rs.body = 500, err.Error()
				default:
					rs.body = err.Error()
					_, _ = fmt.Sscanf(err.Error()[strings.LastIndex(err.Error(), " ")+1:], "%d", &rs.code)
				}
			}()
			return rs
		}
		return do(method, p)
	}
	if sp.Via == "server" {
		// the listener comes up asynchronously (service worker of the api module)
		if !waitFor(waitBegin, func() bool {
			c, err := net.DialTimeout("tcp", listenAddr, time.Second)
			if err == nil {
				_ = c.Close()
			}
			return err == nil
		}) {
			w.harnessProblem("the API server does not accept connections on %s", listenAddr)
		}
	}

	// warm-up: a healthy request is served (otherwise the world is not set up)
	if rs := doVia(http.MethodGet, healthyPaths[0]); rs.escaped != nil || rs.code != 200 || !strings.Contains(rs.body, okBody) {
		w.harnessProblem("healthy endpoint not served before the panic (via %s): %d %q", sp.Via, rs.code, trunc(rs.body, 200))
	}
	// Idle accounting of the api module, known by construction: the "http server
	// manager" service worker and the "http endpoint" worker it runs (start-up work such
	// as the config-change hook is transient).
	idle := snap{Workers: 2}
	s0, okIdle := w.settle(idle)
	if !okIdle {
		w.harnessProblem("the api module did not reach its idle accounting %+v (reads %+v)", idle, s0)
	}
	w.keepSnap("s0_idle", s0)

	// healthy requests in flight while the panic happens
	nBefore := len(sp.Before)
	var hw sync.WaitGroup
	hres := make([]resp, nBefore)
	for i := 0; i < nBefore; i++ {
		hw.Add(1)
		go func(i int) {
			defer hw.Done()
			hres[i] = do(http.MethodGet, healthyPaths[i%len(healthyPaths)]+"?block=1")
		}(i)
	}
	if !waitFor(waitBegin, func() bool { return int(blockedStarted.Load()) >= nBefore }) {
		w.harnessProblem("healthy requests did not reach their handlers")
	}
	// "Previous values" must be a settled reading: a single sample can catch a transient
	// worker of the api module itself (e.g. its config-change event hook, which runs as a
	// worker) and would then demand a value the counters legitimately never return to.
	// Known by construction: idle accounting plus one "http request" worker per healthy
	// request that is parked in its handler.
	s1want := idle
	s1want.Workers += nBefore
	s1, okPrev := w.settle(s1want)
	if !okPrev {
		w.harnessProblem("the api module did not settle at idle + %d in-flight requests (reads %+v)", nBefore, s1)
	}
	w.keepSnap("s1_previous", s1)
	w.fact("max_concurrent_healthy", nBefore)

	taskOK := func(s string) bool { return s == "api request" }
	for occ := 1; occ <= sp.Repeat; occ++ {
		w.log.Rec("call", "driver", sp.Method+" "+path, nil)
		rs := doVia(sp.Method, path)
		w.log.Rec("ret", "driver", sp.Method+" "+path, map[string]any{"status": rs.code, "escaped": rs.escaped != nil, "via": sp.Via})
		w.fact("panic_response_status", rs.code)
		if int(aw.entered.Load()) < occ {
			w.harnessProblem("the request did not reach the panicking function: %d %q", rs.code, trunc(rs.body, 200))
		}
		w.check("api-escaped", sp.Kind, sp.Value, rs.escaped == nil,
			fmt.Sprintf("the panic (%s) left the API main handler's ServeHTTP instead of being contained and hit the calling goroutine (request path: %s)", typeOf(rs.escaped), sp.Via), nil)
		if rs.escaped != nil {
			continue
		}
		if !sp.Late {
			w.check("api-status", sp.Kind, sp.Value, rs.code == http.StatusInternalServerError,
				fmt.Sprintf("the request whose handler panicked was answered with status %d, not 500 (request path %s; %q)", rs.code, sp.Via, trunc(rs.body, 120)), nil)
		}
		if sp.Kind == "api-record-marshal" {
			if !aw.checkRecordLock(shared, func() resp { return do(sp.Method, path) }, s1) {
				break // witness complete; further panics would only leave the lock behind again
			}
		}
		w.checkReported(sp.Kind, aw.val, "api", taskOK, nil)
		// the request ran inside RunWorker: the api module's counters are back
		last, ok := w.settle(s1)
		w.decideSettle(sp.Kind, sp.Value, fmt.Sprintf("after the panicking request %d returned", occ), s1, last, ok, "serverManager", "ListenAndServe")
	}

	// the next requests are served: the same endpoint (healthy now) and a healthy one
	rs := do(sp.Method, path)
	w.check("api-next-request", sp.Kind, sp.Value, rs.escaped == nil && rs.code == 200 && strings.Contains(rs.body, okBody),
		fmt.Sprintf("after the panic the same endpoint answered %d %q", rs.code, trunc(rs.body, 120)), nil)
	for i := range sp.After {
		p := healthyPaths[i%len(healthyPaths)]
		rs := do(http.MethodGet, p)
		w.check("api-next-request", sp.Kind, sp.Value, rs.escaped == nil && rs.code == 200 && strings.Contains(rs.body, okBody),
			fmt.Sprintf("after the panic the healthy endpoint %s answered %d %q", p, rs.code, trunc(rs.body, 120)), nil)
	}
	w.released.Store(true)
	close(w.release)
	hw.Wait()
	for i, hr := range hres {
		w.check("api-next-request", sp.Kind, sp.Value, hr.escaped == nil && hr.code == 200 && strings.Contains(hr.body, okBody),
			fmt.Sprintf("healthy request %d that was in flight during the panic ended with %d %q", i, hr.code, trunc(hr.body, 120)), nil)
	}
	last, ok := w.settle(s0)
	w.keepSnap("s3_quiescent", last)
	w.decideSettle(sp.Kind, sp.Value, "at quiescence (all requests answered)", s0, last, ok, "serverManager", "ListenAndServe")

	w.shutdownAndCheck(sp.Kind, sp.Value, false)
	w.finish()
}

type resp struct {
	code    int
	body    string
	escaped any
}

// checkRecordLock: the panic happened while the handler held the lock of the shared
// record. Once the request has returned nobody holds that lock; a healthy request for
// the same record is answered.
func (aw *apiWorld) checkRecordLock(shared *sharedRecord, again func() resp, prev snap) bool {
	w := aw.world
	sp := w.spec
	if shared.TryLock() {
		shared.Unlock()
		w.check("api-record-left-locked", sp.Kind, sp.Value, true, "", nil)
		return true
	}
	w.check("api-record-left-locked", sp.Kind, sp.Value, false,
		"the request whose record marshalling panicked has returned (500, reported), but the record it served is still locked: nobody will ever unlock it", nil)
	// the structural consequence: a healthy request for the same record hangs inside
	// RunWorker("http request") and the api module's worker count stays up
	done := make(chan resp, 1)
	go func() { done <- again() }()
	blocked := ""
	hung := waitFor(20*time.Second, func() bool {
		select {
		case r := <-done:
			done <- r
			return true
		default:
		}
		buf := make([]byte, 2<<20)
		buf = buf[:runtime.Stack(buf, true)]
		for _, g := range strings.Split(string(buf), "\n\n") {
			if strings.Contains(g, "api.MarshalRecord") && strings.Contains(g, "sync.(*Mutex).Lock") {
				blocked = trunc(g, 1200)
				return true
			}
		}
		return false
	})
	now := w.snap()
	if hung && blocked != "" {
		w.check("api-hang", sp.Kind, sp.Value, false,
			fmt.Sprintf("the next healthy request for the same record is blocked on the record lock inside the API handler; api module accounting %+v (before the panicking request %+v): the module cannot be stopped any more", now, prev),
			map[string]any{"blocked_goroutine": blocked})
	}
	// release it so that the case can go on and the process can end; the endpoint
	// behaves from now on (the unlock orders this write before the blocked request)
	aw.panics = 0
	shared.Unlock()
	select {
	case <-done:
	case <-time.After(20 * time.Second):
	}
	return false
}
