package main

import (
	"context"
	"errors"
	"fmt"
	"io"
	"net/http"
	"reflect"
	"runtime"
	"strings"

	"github.com/safing/portbase/modules"
)

// Panic values. Every value is tied to the item that raises it (id) so that a report
// can be attributed to its item.

type vStruct struct {
	ID string
	N  int
}

type vPtr struct {
	ID string
	N  int
}

// badErr is an error whose Error method panics itself (formatting the panic value
// with %s must not blow up the recovery path).
type badErr struct{ id string }

func (b *badErr) Error() string { panic("Error() method of the panic value panicked: " + b.id) }

// nilErr is used as a typed nil pointer: calling Error on it dereferences nil.
type nilErr struct{ s string }

func (e *nilErr) Error() string { return e.s }

type pvalue struct {
	class string
	id    string
	val   any
}

func newValue(class, id string) *pvalue {
	v := &pvalue{class: class, id: id}
	switch class {
	case "error":
		v.val = errors.New("verif panic error " + id)
	case "error-canceled":
		v.val = context.Canceled
	case "string":
		v.val = "verif panic string " + id
	case "struct":
		v.val = vStruct{ID: id, N: 7}
	case "pointer":
		v.val = &vPtr{ID: id, N: 9}
	case "slice":
		v.val = []string{"verif", id}
	case "bad-error":
		v.val = &badErr{id: id}
	case "nil-typed-error":
		v.val = (*nilErr)(nil)
	case "int":
		v.val = 424242
	// sentinel errors that code on the recovery path might treat specially
	case "http-abort":
		v.val = http.ErrAbortHandler
	case "http-abort-wrapped":
		v.val = fmt.Errorf("verif %s: %w", id, http.ErrAbortHandler)
	case "http-server-closed":
		v.val = http.ErrServerClosed
	case "restart-now":
		v.val = modules.ErrRestartNow
	case "ctx-deadline":
		v.val = context.DeadlineExceeded
	case "io-eof":
		v.val = io.EOF
	}
	return v
}

// raiseVerifPanic raises the panic. Its name is what the oracle looks for in the
// reported stack trace.
//
//go:noinline
func (v *pvalue) raiseVerifPanic() {
	switch v.class {
	case "nil":
		panic(nil) //nolint:govet // panic(nil) is one of the quantified values
	case "rt-index":
		var a []byte
		idx := len(v.id) // not a constant: no compile-time bounds error
		_ = a[idx]
	case "rt-nilmap":
		var m map[string]int
		m[v.id] = 1
	case "rt-nilderef":
		var p *vPtr
		sinkInt = p.N
	default:
		panic(v.val)
	}
	panic("unreachable: value class " + v.class + " did not panic")
}

var sinkInt int

// matches reports whether got is the value this item panicked with.
func (v *pvalue) matches(got any) (ok bool, why string) {
	defer func() {
		if r := recover(); r != nil {
			ok, why = false, fmt.Sprint("comparison panicked: ", r)
		}
	}()
	switch v.class {
	case "nil":
		if _, is := got.(*runtime.PanicNilError); is {
			return true, ""
		}
		return false, fmt.Sprintf("want *runtime.PanicNilError, got %T", got)
	case "rt-index", "rt-nilmap", "rt-nilderef":
		re, is := got.(runtime.Error)
		if !is {
			return false, fmt.Sprintf("want a runtime.Error, got %T", got)
		}
		needle := map[string]string{"rt-index": "index out of range", "rt-nilmap": "nil map", "rt-nilderef": "nil pointer dereference"}[v.class]
		if !strings.Contains(re.Error(), needle) {
			return false, fmt.Sprintf("runtime error %q does not mention %q", re.Error(), needle)
		}
		return true, ""
	case "slice":
		if reflect.DeepEqual(got, v.val) {
			return true, ""
		}
		return false, fmt.Sprintf("want %v, got %T", v.val, got)
	case "nil-typed-error":
		p, is := got.(*nilErr)
		if is && p == nil {
			return true, ""
		}
		return false, fmt.Sprintf("want (*nilErr)(nil), got %T", got)
	default:
		if got == v.val {
			return true, ""
		}
		return false, fmt.Sprintf("want the raised %T, got %T", v.val, got)
	}
}

func typeOf(x any) string { return fmt.Sprintf("%T", x) }
