package main

import (
	"verifharness/internal/vlib"
)

// caseSpec fully describes one case (= one child process = one module-system life).
type caseSpec struct {
	No    int    `json:"no"`
	Part  string `json:"part"`  // work | life | api
	Kind  string `json:"kind"`  // kind of managed execution that panics
	Value string `json:"value"` // panic value class
	Build string `json:"build"` // plain | race

	// Repeat: how many times the same item panics (>= 1) before it behaves.
	Repeat int `json:"repeat"`
	// Second: a second item panicking at the same moment (work part only).
	SecondKind  string `json:"second_kind,omitempty"`
	SecondValue string `json:"second_value,omitempty"`

	// Healthy items running concurrently: Before are started (and have begun) before
	// the panicking item is launched and stay blocked inside their function until the
	// end of the case; After are started once the panic was handled.
	Before []string `json:"before,omitempty"`
	After  []string `json:"after,omitempty"`

	// Lifecycle part: number of healthy sibling modules and the delay (ms) inside each
	// routine: index 0 = subject, 1 = base, 2.. = siblings.
	Siblings int   `json:"siblings,omitempty"`
	Delays   []int `json:"delays,omitempty"`

	// StartItems (kinds start / start-mgmt): healthy managed items the start routine
	// launches (and sees running) before it panics; they wait for their context. A later
	// management pass starts the module again, then the system is stopped.
	StartItems []string `json:"start_items,omitempty"`
	// Linger (kinds stop / stop-mgmt): a healthy worker of the module whose stop routine
	// panics outlives the (small) stop timeout; it is released by the timeout event.
	Linger bool `json:"linger,omitempty"`

	// RepCfg: the error reporting channel is set before the system starts ("chan"),
	// never ("none"), or only after the first panic was handled ("late"). Together
	// with StdErr this is the reporting configuration of the host program.
	RepCfg string `json:"rep_cfg,omitempty"`
	// Mgmt (work part, service worker): module management is enabled. "flap": the module
	// is disabled while the worker panics and enabled again without a pass in between
	// (it stays online); "passes": the module is enabled only as a dependency and
	// management passes run concurrently with a rapidly panicking service worker.
	Mgmt string `json:"mgmt,omitempty"`

	// From (work part, service worker): the service worker is launched before its module
	// was started: from the module's prep routine ("prep") or from the global prep
	// function ("globalprep"); it panics once the module is online.
	From string `json:"from,omitempty"`
	// Notify (lifecycle part): a failure-update notify function is installed
	// (SetFailureUpdateNotifyFunc): "trivial", or "reads" = it reads the state of the
	// failing module and of the other modules.
	Notify string `json:"notify,omitempty"`

	// StdErr: leave the default stderr error report on (production default) or not.
	StdErr bool `json:"stderr"`

	// AtStop (work part): the item stays inside its function until the module is being
	// stopped (its context is cancelled) and panics then; healthy items end at the stop.
	AtStop bool `json:"at_stop,omitempty"`

	// TaskDeferUS: delay (µs) at hook point modules.task.defer (0 = hook idle).
	TaskDeferUS int `json:"task_defer_us,omitempty"`

	// Via (API part): how the panicking request reaches the main handler: "direct"
	// (VerifMainHandler().ServeHTTP), "server" (the real listening HTTP server) or
	// "bridge" (database interface api: -> callAPI).
	Via string `json:"via,omitempty"`

	// API part.
	Method  string `json:"method,omitempty"`  // GET | POST
	DevMode bool   `json:"devmode,omitempty"` // core/devMode on: 500 body carries value + stack
	Late    bool   `json:"late,omitempty"`    // handler writes its response before it panics
}

// check is one primitive observation compared with what the statement demands.
type check struct {
	Oracle string `json:"oracle"` // stable oracle name (part of the violation signature)
	Kind   string `json:"kind"`   // kind of the item the observation is about
	Value  string `json:"value"`  // its panic value class
	OK     bool   `json:"ok"`
	// Undecided: the observation could not be made (a generous watchdog expired while
	// the work was structurally still in flight); never a violation.
	Undecided bool   `json:"undecided,omitempty"`
	What      string `json:"what,omitempty"`
	Detail    any    `json:"detail,omitempty"`
}

// snap is one reading of the accounting of the module that owns the panicking item.
type snap struct {
	Workers    int   `json:"workers"`
	Tasks      int   `json:"tasks"`
	MicroTasks int   `json:"microtasks"`
	Global     int32 `json:"global_microtasks"`
	CtrlFn     bool  `json:"ctrl_fn_running"`
}

// reportObs is one ModuleError received on the error reporting channel.
type reportObs struct {
	Module    string `json:"module"`
	TaskName  string `json:"task_name"`
	TaskType  string `json:"task_type"`
	Severity  string `json:"severity"`
	Message   string `json:"message"`
	ValueType string `json:"value_type"`
	StackLen  int    `json:"stack_len"`
}

// childOut is what a child observed.
type childOut struct {
	Spec    caseSpec          `json:"spec"`
	Checks  []check           `json:"checks"`
	Notes   []string          `json:"notes,omitempty"`
	Facts   map[string]any    `json:"facts"`
	Snaps   map[string]snap   `json:"snaps,omitempty"`
	Reports []reportObs       `json:"reports,omitempty"`
	Events  []vlib.Event      `json:"events,omitempty"`
	Counts  map[string]int64  `json:"counts,omitempty"`
	Seen    map[string]string `json:"seen,omitempty"`
	// HarnessProblem: the scenario could not be set up (not a verdict about portbase).
	HarnessProblem string `json:"harness_problem,omitempty"`
}

var (
	workKinds = []string{
		"runworker", "startworker", "serviceworker",
		"task-queue", "task-prio", "task-asap", "task-schedule", "task-repeat",
		"mt-run-high", "mt-run-med", "mt-run-low",
		"mt-start-high", "mt-start-med", "mt-start-low",
		"hook-trigger", "hook-inject",
	}
	lifeKinds = []string{"prep", "start", "start-mgmt", "stop", "stop-mgmt"}
	apiKinds  = []string{
		"api-action", "api-data", "api-struct", "api-record", "api-handlerfunc",
		"api-raw-wrapped", "api-raw-plain",
		// RecordFunc handing out a shared record whose marshalling panics
		"api-record-marshal",
	}
	// the value classes the property's quantifier names ...
	coreValues = []string{"nil", "error", "string", "rt-index", "rt-nilmap", "rt-nilderef", "struct", "pointer"}
	// ... and hostile extras ("arbitrary" values): an error that could steer control
	// flow if it were unwrapped, an uncomparable value, values whose formatting panics.
	extraValues = []string{"error-canceled", "slice", "bad-error", "nil-typed-error", "int"}

	// ... and sentinel error values that recovery code might single out.
	sentinelValues = []string{"http-abort", "http-abort-wrapped", "http-server-closed", "restart-now", "ctx-deadline", "io-eof"}

	healthyKinds = []string{"worker", "serviceworker", "mt-high", "mt-med", "mt-low", "task", "hook"}
)

func isTaskKind(k string) bool { return len(k) > 5 && k[:5] == "task-" }
func isBlockingKind(k string) bool {
	return k == "runworker" || k == "mt-run-high" || k == "mt-run-med" || k == "mt-run-low"
}
