package main

import (
	"bytes"
	"encoding/binary"
	"encoding/hex"
	"encoding/json"
	"fmt"
	"math"
	"reflect"
	"strings"
	"sync"

	"github.com/safing/portbase/database/record"
	"github.com/safing/portbase/formats/dsd"

	"verifharness/internal/vlib"
)

// C08 — the stored-record format round-trips and its decoder is total.
//
// Round trip (class c08.rt; a case is regenerated from its 16-byte input = seed and
// case number): a record (wrapped raw data in any format 0..255, a typed harness struct
// through Base.MarshalRecord, or a typed struct carried in a Wrapper as JSON/CBOR/MsgPack)
// is serialised with MarshalRecord and parsed with NewRawWrapper (once from an
// exact-capacity copy, once from a canary-embedded view); key, the six meta fields,
// format and data must come back; deleted records come back without data; Unwrap must
// reproduce the typed struct. The parsed record is itself a record, so it is serialised
// and parsed once more and must again come back unchanged.
//
// Totality (class c08.parse; the case is the byte string): truncations, single-field
// corruptions of valid encodings (including metadata sections re-encoded as
// JSON/CBOR/MsgPack/YAML/GZIP, which the decoder accepts) and PRNG byte strings are
// given to NewRawWrapper: record xor error, no panic, Data inside the input, the same
// result for the exact and the embedded view, and a returned record must round-trip.

type c08Nested struct {
	A string
	B int64
	C []byte
	D map[string]string
}

type c08Rec struct {
	record.Base
	sync.Mutex

	S     string
	I     int64
	U     uint64
	U8    uint8
	F     float64
	B     bool
	Bytes []byte
	L     []string
	IL    []int32
	M     map[string]int64
	N     *c08Nested
	Sub   c08Nested
	T     string `json:"renamed" cbor:"renamed" msgpack:"renamed"`
}

type c08MetaLike struct {
	Created  int64
	Modified int64
	Expires  int64
	Deleted  int64
}

var c08stats struct {
	rt, rtWrapper, rtTyped, rtCarried, rtDeleted, rtFmtHigh, unwraps, reparses int64
	rtKeyColon                                                                 int64
	hostile, hostileOK, hostileErr, payloadMax                                 int64
}

func init() {
	props["C08"] = &propImpl{
		shards: func(cfg vlib.Cfg) int { return cfg.N(8, 32) },
		run:    runC08,
		rule: "round trip: PRNG records = meta tuple (four int64 from {0,+-1,+-2^31,+-2^53,min,max} and PRNG values, both flags, deleted >0 / relative <0 / 0) x key (compared with the original full key; database-key part ASCII/UTF-8/empty, with one or several ':' incl. leading/trailing/IPv6-like/host:port, and other separators) x " +
			"{wrapped raw data with every format id 0..255 and payloads empty/1 byte/<=4KiB/64KiB, typed harness struct via Base.MarshalRecord, typed struct carried as JSON/CBOR/MsgPack}; " +
			"hostile: every truncation, version byte 0..255, meta length prefix in {0,1,33..37,len-1..len+1,2^31,2^32,2^63-1,2^63,2^64-1,...}, every meta byte flipped five ways, meta format id 0..255, " +
			"all one- and two-byte format varints, meta re-encoded as JSON/CBOR/MsgPack/YAML/GZIP, and PRNG strings <= 256 B (random / valid prefix + random tail / mutated valid encoding). " +
			"distinct = distinct (class,input); non-trivial = the input was parsed from both an exact-capacity and a canary-embedded copy and every returned record was compared (round trip: with the original; hostile: with its own re-serialisation)",
		finish: func(cfg vlib.Cfg, r *vlib.Report) {
			r.Floor(r.Counter("roundtrips") >= int64(cfg.N(10000, 100000)), "roundtrips=%d", r.Counter("roundtrips"))
			r.Floor(r.Counter("hostile_inputs") >= int64(cfg.N(100000, 1000000)), "hostile_inputs=%d", r.Counter("hostile_inputs"))
			r.Floor(r.Counter("hostile_parsed_ok") > 1000 && r.Counter("hostile_rejected") > 1000, "hostile ok=%d rejected=%d", r.Counter("hostile_parsed_ok"), r.Counter("hostile_rejected"))
			r.Floor(r.Counter("roundtrips_typed_unwrapped") > 1000 && r.Counter("roundtrips_deleted") > 1000 && r.Counter("roundtrips_format_ge_128") > 500,
				"typed=%d deleted=%d format>=128=%d", r.Counter("roundtrips_typed_unwrapped"), r.Counter("roundtrips_deleted"), r.Counter("roundtrips_format_ge_128"))
			r.Floor(r.SeenCount("meta_section_formats_accepted") >= 5, "meta section formats accepted: %d", r.SeenCount("meta_section_formats_accepted"))
			r.Floor(r.Counter("roundtrips_key_with_colon_in_db_key") > 1000, "roundtrips_key_with_colon_in_db_key=%d", r.Counter("roundtrips_key_with_colon_in_db_key"))
			r.Assume("typed harness schema: valid UTF-8 strings, finite floats, integers of all widths, byte slices, slices, maps, pointer and nested struct (values a JSON document can carry)")
			r.Assume("for deleted records the format identifier is not stored and therefore not compared; payloads above 64 KiB are not generated")
		},
	}
	classes["c08.rt"] = func(c *ctx, in []byte) {
		if len(in) >= 16 {
			c08RoundTrip(c, binary.LittleEndian.Uint64(in), binary.LittleEndian.Uint64(in[8:]))
		}
	}
	classes["c08.parse"] = c08Parse
}

// ---------------------------------------------------------------------------------
// generators

var c08Int64s = []int64{0, 1, -1, 1 << 31, -(1 << 31), 1 << 53, -(1 << 53), math.MinInt64, math.MaxInt64, 1<<31 - 1, 255, 256, 1600000000}

func c08Int64(r *vlib.Rand) int64 {
	if r.Chance(1, 2) {
		return c08Int64s[r.Intn(len(c08Int64s))]
	}
	return r.Int64Boundary()
}

func c08Meta(r *vlib.Rand) *record.Meta {
	m := &record.Meta{Created: c08Int64(r), Modified: c08Int64(r), Expires: c08Int64(r)}
	switch r.Intn(5) {
	case 0, 1:
		m.Deleted = 0
	case 2:
		m.Deleted = int64(r.Uint64()>>1) | 1 // deleted
		if r.Bool() {
			m.Deleted = vlib.Pick(r, int64(1), math.MaxInt64, 1<<31, 1<<53, 1600000000)
		}
	case 3:
		m.Deleted = -(int64(r.Uint64()>>1) | 1) // relative expiry, not deleted
		if r.Bool() {
			m.Deleted = vlib.Pick(r, int64(-1), math.MinInt64, -(1 << 31), -3600)
		}
	default:
		m.Deleted = c08Int64(r)
	}
	if r.Bool() {
		m.MakeSecret()
	}
	if r.Bool() {
		m.MakeCrownJewel()
	}
	return m
}

var c08Runes = []rune("abcXYZ019 _-./:\\\"'<>&{}[]\x00\x01\x1f\x7fäß€  �世界\U0001F600\U0010FFFF")

func c08String(r *vlib.Rand, max int) string {
	n := r.Intn(max + 1)
	var sb strings.Builder
	for i := 0; i < n; i++ {
		sb.WriteRune(c08Runes[r.Intn(len(c08Runes))])
	}
	return sb.String()
}

func c08Key(r *vlib.Rand) string {
	db := vlib.Pick(r, "core", "cache", "db", "t", "a-b_c", "ädb", "x")
	if r.Chance(1, 20) {
		db = c08String(r, 6)
		db = strings.ReplaceAll(db, ":", "")
	}
	switch r.Intn(9) {
	case 0:
		return db + ":"
	case 1:
		return db + ":" + c08String(r, 40)
	case 2:
		return db + ":a:b::c:"
	case 3, 4: // the database-key part itself contains ':' (IPv6 addresses, host:port, scopes ...)
		return db + ":" + vlib.Pick(r, "intel/ipInfo/2001:db8::1", "tree/1234/udp-[::1]:53", "a:b", "a:b:c:d", ":leading", "trailing:", ":", "::", ":a:",
			"::1", "fe80::1%eth0", "host.example:8080/path", "urn:uuid:6e8bc430-9c3a-11d9-9669-0800200c9a66", "k:世界:x", "a: b", "x::y")
	case 5: // composed from parts and separators, one or several colons anywhere
		n := r.Range(2, 5)
		var sb strings.Builder
		if r.Chance(1, 4) {
			sb.WriteString(":")
		}
		for i := 0; i < n; i++ {
			sb.WriteString(vlib.Pick(r, "a", "intel", "2001", "db8", "", "53", "[::1]", "ü", "p q"))
			if i < n-1 || r.Chance(1, 4) {
				sb.WriteString(vlib.Pick(r, ":", ":", "::", "/", "|", ";", ",", "#", "?", "=", "\\", " ", "\t", ":/", "/:"))
			}
		}
		return db + ":" + sb.String()
	default:
		return db + ":" + vlib.Pick(r, "config/core/devMode", "k", "some/longer/key/with/many/parts", "世界/key", "a b", "../x")
	}
}

func c08Payload(r *vlib.Rand) []byte {
	switch r.Intn(40) {
	case 0:
		return r.Bytes(65536)
	case 1, 2, 3:
		return nil
	case 4, 5:
		return []byte{}
	case 6, 7, 8, 9:
		return r.Bytes(1)
	case 10, 11:
		return append([]byte{0x01}, r.Bytes(r.Intn(8))...) // looks like the second byte of a two-byte format varint
	case 12, 13:
		return r.Bytes(r.Range(1000, 4096))
	default:
		return r.Bytes(r.Range(2, 200))
	}
}

func c08Nest(r *vlib.Rand) c08Nested {
	n := c08Nested{A: c08String(r, 12), B: c08Int64(r)}
	switch r.Intn(3) {
	case 0:
		n.C = r.Bytes(r.Intn(20))
	case 1:
		n.C = []byte{}
	}
	if r.Bool() {
		n.D = map[string]string{}
		for i := r.Intn(4); i > 0; i-- {
			n.D[c08String(r, 6)] = c08String(r, 6)
		}
	}
	return n
}

func c08Typed(r *vlib.Rand) *c08Rec {
	t := &c08Rec{S: c08String(r, 30), I: c08Int64(r), U: r.Uint64Boundary(), U8: uint8(r.Intn(256)), B: r.Bool(), T: c08String(r, 5)}
	switch r.Intn(5) {
	case 0:
		t.F = 0
	case 1:
		t.F = math.Float64frombits(r.Uint64())
		if math.IsNaN(t.F) || math.IsInf(t.F, 0) {
			t.F = 1.5
		}
	case 2:
		t.F = vlib.Pick(r, math.MaxFloat64, math.SmallestNonzeroFloat64, -math.MaxFloat64, 1e21, 1e-7, 0.1, -2.5)
	default:
		t.F = float64(c08Int64(r)) / 8
	}
	switch r.Intn(3) {
	case 0:
		t.Bytes = r.Bytes(r.Intn(64))
	case 1:
		t.Bytes = []byte{}
	}
	if r.Bool() {
		t.L = []string{}
		for i := r.Intn(4); i > 0; i-- {
			t.L = append(t.L, c08String(r, 8))
		}
	}
	if r.Bool() {
		for i := r.Intn(5); i > 0; i-- {
			t.IL = append(t.IL, int32(c08Int64(r)))
		}
	}
	if r.Bool() {
		t.M = map[string]int64{}
		for i := r.Intn(4); i > 0; i-- {
			t.M[c08String(r, 6)] = c08Int64(r)
		}
	}
	if r.Bool() {
		n := c08Nest(r)
		t.N = &n
	}
	t.Sub = c08Nest(r)
	return t
}

// ---------------------------------------------------------------------------------
// comparison helpers

func c08MetaBytes(m *record.Meta) []byte {
	if m == nil {
		return nil
	}
	b, _ := m.GenCodeMarshal(nil)
	return b
}

func c08MetaEqual(a, b *record.Meta) bool {
	if a == nil || b == nil {
		return false
	}
	if a.Created != b.Created || a.Modified != b.Modified || a.Expires != b.Expires || a.Deleted != b.Deleted {
		return false
	}
	for _, l := range []bool{false, true} {
		for _, i := range []bool{false, true} {
			if a.CheckPermission(l, i) != b.CheckPermission(l, i) {
				return false
			}
		}
	}
	return bytes.Equal(c08MetaBytes(a), c08MetaBytes(b))
}

func c08MetaString(m *record.Meta) string {
	if m == nil {
		return "<nil>"
	}
	return fmt.Sprintf("{Created:%d Modified:%d Expires:%d Deleted:%d secret:%v crownjewel:%v}", m.Created, m.Modified, m.Expires, m.Deleted,
		!m.CheckPermission(true, false), !m.CheckPermission(false, true))
}

// c08Expect is what a parse of a stored record has to yield.
type c08Expect struct {
	key     string
	meta    *record.Meta
	format  uint8
	data    []byte
	deleted bool
}

// c08ParseBoth parses stored from an exact-capacity copy and from a canary-embedded
// view and compares each result with want. path names the serialising side in the
// signature. It returns the record parsed from the exact copy (nil after a violation).
func c08ParseBoth(c *ctx, class string, id []byte, path string, dbName, dbKey string, stored []byte, want c08Expect) *record.Wrapper {
	pre := ""
	if want.deleted {
		pre = ":deleted"
	} else if want.format >= 128 {
		pre = ":format>=128"
	}
	ok := true
	bad := func(kind, what string) {
		ok = false
		c.b.Violation("C08:"+kind+":"+path+pre, what, map[string]any{"class": class, "input_hex": hex.EncodeToString(id), "build": c.spec.Kind,
			"stored_hex": hex.EncodeToString(trunc(stored, 300)), "stored_len": len(stored), "key": want.key, "meta": c08MetaString(want.meta), "format": want.format,
			"data_hex": hex.EncodeToString(trunc(want.data, 64)), "data_len": len(want.data)})
	}
	var first *record.Wrapper
	for _, variant := range []string{"exact", "embedded"} {
		var view []byte
		if variant == "exact" {
			view = exact(stored)
		} else {
			view, _, _ = embed(stored)
		}
		var w *record.Wrapper
		var err error
		if c.call(class, id, func() { w, err = record.NewRawWrapper(dbName, dbKey, view) }) {
			return nil
		}
		switch {
		case err != nil:
			bad("roundtrip-parse-error", fmt.Sprintf("NewRawWrapper rejects what MarshalRecord produced (format %d, %d data bytes, deleted=%v): %v", want.format, len(want.data), want.deleted, err))
		case w == nil:
			bad("roundtrip-parse-error", "NewRawWrapper returned neither a record nor an error")
		case w.Key() != want.key:
			bad("roundtrip-key", fmt.Sprintf("key %q came back as %q", want.key, w.Key()))
		case !c08MetaEqual(w.Meta(), want.meta):
			bad("roundtrip-meta", fmt.Sprintf("meta %s came back as %s", c08MetaString(want.meta), c08MetaString(w.Meta())))
		case want.deleted && len(w.Data) != 0:
			bad("roundtrip-deleted-has-data", fmt.Sprintf("a deleted record came back with %d data bytes", len(w.Data)))
		case !want.deleted && w.Format != want.format:
			bad("roundtrip-format", fmt.Sprintf("format %d came back as %d", want.format, w.Format))
		case !want.deleted && !bytes.Equal(w.Data, want.data):
			bad("roundtrip-data", fmt.Sprintf("%d data bytes %x… (format %d) came back as %d bytes %x…", len(want.data), trunc(want.data, 16), want.format, len(w.Data), trunc(w.Data, 16)))
		case !inside(w.Data, view, len(stored)):
			bad("slice-outside-input", "the returned Data slice does not lie inside the parsed input")
		}
		if !ok {
			return nil
		}
		if first == nil {
			first = w
		}
	}
	return first
}

// ---------------------------------------------------------------------------------
// round trip

func c08RoundTrip(c *ctx, seed, caseNo uint64) {
	b := c.b
	b.Eval(1)
	c08stats.rt++
	id := append(u64le(seed), u64le(caseNo)...)
	r := vlib.NewRand(seed, "C08/rt", caseNo)
	meta := c08Meta(r)
	key := c08Key(r)
	deleted := meta.Deleted > 0
	if deleted {
		c08stats.rtDeleted++
	}
	detail := func(extra map[string]any) map[string]any {
		d := map[string]any{"class": "c08.rt", "input_hex": hex.EncodeToString(id), "build": c.spec.Kind, "key": key, "meta": c08MetaString(meta)}
		for k, v := range extra {
			d[k] = v
		}
		return d
	}

	// the key as the caller wrote it is the reference: database name = everything before
	// the first ':', database key = everything after it (split here, not by portbase)
	hdb, hkey, _ := strings.Cut(key, ":")
	if strings.Contains(hkey, ":") {
		c08stats.rtKeyColon++
	}
	keyKept := func(op string, r record.Record) bool {
		if r.Key() == key && r.DatabaseName() == hdb && r.DatabaseKey() == hkey {
			return true
		}
		b.Violation("C08:roundtrip-key:"+op, fmt.Sprintf("%s(%q) holds key %q (database %q, key %q)", op, key, r.Key(), r.DatabaseName(), r.DatabaseKey()), detail(nil))
		return false
	}

	var src record.Record
	var typed *c08Rec
	var want c08Expect
	path := "Wrapper"
	kind := r.Intn(10)
	switch {
	case kind < 5: // wrapped raw data, any format
		format := uint8(r.Intn(256))
		if r.Chance(1, 4) {
			format = vlib.Pick(r, uint8(0), 1, 67, 71, 74, 77, 89, 90, 127, 128, 129, 255)
		}
		payload := c08Payload(r)
		if int64(len(payload)) > c08stats.payloadMax {
			c08stats.payloadMax = int64(len(payload))
		}
		w, err := record.NewWrapper(key, meta, format, payload)
		if err != nil {
			b.Violation("C08:roundtrip-marshal-error:NewWrapper", "NewWrapper failed: "+err.Error(), detail(nil))
			return
		}
		src = w
		if !keyKept("NewWrapper", w) {
			return
		}
		want = c08Expect{key: key, meta: meta, format: format, data: payload, deleted: deleted}
		c08stats.rtWrapper++
		if format >= 128 && !deleted {
			c08stats.rtFmtHigh++
		}
	case kind < 8: // typed struct, Base.MarshalRecord
		path = "Base"
		typed = c08Typed(r)
		typed.SetKey(key)
		typed.SetMeta(meta)
		src = typed
		if !keyKept("SetKey", typed) {
			return
		}
		want = c08Expect{key: key, meta: meta, format: dsd.JSON, deleted: deleted}
		c08stats.rtTyped++
	default: // typed struct carried in a wrapper in a binary or text format
		path = "Wrapper+Unwrap"
		typed = c08Typed(r)
		format := vlib.Pick(r, uint8(dsd.JSON), dsd.CBOR, dsd.MsgPack)
		var dumped []byte
		var err error
		if c.call("c08.rt", id, func() { dumped, err = dsd.Dump(typed, format) }) {
			return
		}
		if err != nil || len(dumped) < 1 || dumped[0] != format {
			b.Note("C08: dsd.Dump of the harness struct in format %d failed (%v); case skipped", format, err)
			return
		}
		w, _ := record.NewWrapper(key, meta, format, dumped[1:])
		src = w
		if !keyKept("NewWrapper", w) {
			return
		}
		want = c08Expect{key: key, meta: meta, format: format, data: dumped[1:], deleted: deleted}
		c08stats.rtCarried++
	}

	var stored []byte
	var err error
	if c.call("c08.rt", id, func() { stored, err = src.MarshalRecord(src) }) {
		return
	}
	if err != nil {
		b.Violation("C08:roundtrip-marshal-error:"+path, "MarshalRecord failed: "+err.Error(), detail(nil))
		return
	}
	if path == "Base" && !deleted {
		// the data of a typed record is its JSON document (independent expectation)
		want.data, err = json.Marshal(typed)
		if err != nil {
			b.Note("C08: harness struct not JSON-encodable: %v", err)
			return
		}
	}
	w2 := c08ParseBoth(c, "c08.rt", id, path, hdb, hkey, stored, want)
	if w2 == nil {
		return
	}

	// a typed record unwrapped from the result equals the original
	if typed != nil && !deleted {
		fresh := &c08Rec{}
		var uerr error
		if c.call("c08.rt", id, func() { uerr = record.Unwrap(w2, fresh) }) {
			return
		}
		expect := typed
		if path == "Wrapper+Unwrap" {
			// what the payload decodes to without any record framing (the codec's own
			// fidelity is C09's subject); key and meta as Unwrap sets them
			direct := &c08Rec{}
			if derr := dsd.LoadAsFormat(want.data, want.format, direct); derr != nil {
				b.Note("C08: harness struct does not load back in format %d (%v); unwrap comparison skipped", want.format, derr)
				expect = nil
			} else {
				direct.SetKey(key)
				direct.SetMeta(meta)
				expect = direct
			}
		}
		if expect != nil {
			c08stats.unwraps++
			switch {
			case uerr != nil:
				b.Violation("C08:roundtrip-unwrap-error:"+path, "Unwrap of the parsed record failed: "+uerr.Error(), detail(map[string]any{"stored_hex": hex.EncodeToString(trunc(stored, 400))}))
				return
			case fresh.Key() != key || fresh.DatabaseName() != hdb || fresh.DatabaseKey() != hkey:
				b.Violation("C08:roundtrip-unwrap-key:"+path, fmt.Sprintf("the typed record unwrapped from the parsed stored form has key %q, the original key is %q", fresh.Key(), key), detail(nil))
				return
			case !reflect.DeepEqual(fresh, expect):
				b.Violation("C08:roundtrip-unwrap-value:"+path, "the typed record unwrapped from the parsed stored form differs from the original",
					detail(map[string]any{"original": fmt.Sprintf("%+v", expect), "unwrapped": fmt.Sprintf("%+v", fresh), "stored_hex": hex.EncodeToString(trunc(stored, 400))}))
				return
			}
		}
	}

	// the parsed record is a record: serialise and parse it once more
	if !c08Reparse(c, "c08.rt", id, "roundtrip", w2) {
		return
	}
	b.Distinct([]byte("rt"), id)
}

// c08Reparse serialises a parsed wrapper and parses the result; everything must come
// back (no data for deleted records).
func c08Reparse(c *ctx, class string, id []byte, prefix string, w *record.Wrapper) bool {
	var again []byte
	var err error
	if c.call(class, id, func() { again, err = w.MarshalRecord(w) }) {
		return false
	}
	pre := ""
	if w.Meta().IsDeleted() {
		pre = ":deleted"
	} else if w.Format >= 128 {
		pre = ":format>=128"
	}
	if err != nil {
		c.b.Violation("C08:"+prefix+"-marshal-error:Reparse"+pre, "MarshalRecord of a record returned by NewRawWrapper failed: "+err.Error(),
			map[string]any{"class": class, "input_hex": hex.EncodeToString(id), "build": c.spec.Kind})
		return false
	}
	c08stats.reparses++
	want := c08Expect{key: w.Key(), meta: w.Meta(), format: w.Format, data: w.Data, deleted: w.Meta().IsDeleted()}
	path := "Reparse"
	if prefix != "roundtrip" {
		path = "Reparse-of-hostile"
	}
	return c08ParseBoth(c, class, id, path, w.DatabaseName(), w.DatabaseKey(), again, want) != nil
}

// ---------------------------------------------------------------------------------
// totality

func c08Parse(c *ctx, in []byte) {
	b := c.b
	b.Eval(1)
	c08stats.hostile++
	bad := func(kind, what string) {
		b.Violation("C08:"+kind+":NewRawWrapper", what, map[string]any{"class": "c08.parse", "input_hex": hex.EncodeToString(in), "build": c.spec.Kind})
	}
	type res struct {
		w   *record.Wrapper
		err error
	}
	var rs [2]res
	for vi, variant := range []string{"exact", "embedded"} {
		var view []byte
		if variant == "exact" {
			view = exact(in)
		} else {
			view, _, _ = embed(in)
		}
		var w *record.Wrapper
		var err error
		if c.call("c08.parse", in, func() { w, err = record.NewRawWrapper("db", "hostile/key", view) }) {
			return
		}
		switch {
		case w == nil && err == nil:
			bad("totality-neither-record-nor-error", "NewRawWrapper returned (nil, nil)")
			return
		case w != nil && err != nil:
			bad("totality-record-and-error", fmt.Sprintf("NewRawWrapper returned a record and the error %v", err))
			return
		case w != nil && w.Meta() == nil:
			bad("totality-record-without-meta", "NewRawWrapper returned a record whose Meta() is nil")
			return
		case w != nil && !inside(w.Data, view, len(in)):
			bad("slice-outside-input", "the returned Data slice does not lie inside the input")
			return
		case w != nil && variant == "embedded" && bytes.IndexByte(w.Data, canaryByte) >= 0 && bytes.IndexByte(in, canaryByte) < 0:
			bad("canary-in-output", "the returned Data contains bytes from outside the input")
			return
		}
		rs[vi] = res{w, err}
	}
	a, e := rs[0], rs[1]
	switch {
	case (a.err == nil) != (e.err == nil):
		bad("totality-depends-on-surroundings", fmt.Sprintf("parsing the same bytes gives error=%v from an exact-capacity slice and error=%v from a slice embedded in a larger buffer", a.err, e.err))
		return
	case a.err != nil:
		c08stats.hostileErr++
		msg := a.err.Error()
		if i := strings.Index(msg, ":"); i > 0 {
			msg = msg[:i]
		}
		if len(msg) > 40 {
			msg = msg[:40]
		}
		b.Seen("hostile_error_kinds", msg)
	default:
		c08stats.hostileOK++
		if !c08MetaEqual(a.w.Meta(), e.w.Meta()) || a.w.Format != e.w.Format || !bytes.Equal(a.w.Data, e.w.Data) {
			bad("totality-depends-on-surroundings", "parsing the same bytes from an exact-capacity slice and from an embedded slice gives different records")
			return
		}
		if len(in) > 2 {
			// which serialisation the meta section used (coverage only): layout is
			// version | varint length | dsd format id | ...
			if _, n, st := refDecode(in[1:]); st == refOK && 1+n < len(in) {
				b.Seen("meta_section_formats_accepted", fmt.Sprint(in[1+n]))
			}
		}
		if a.w.Meta().IsDeleted() {
			b.Count("hostile_parsed_deleted", 1)
		}
		if !c08Reparse(c, "c08.parse", in, "totality", a.w) {
			return
		}
	}
	b.Distinct([]byte("h"), in)
}

func c08Block(body []byte) []byte { return append(refEncode(uint64(len(body))), body...) }

// c08Bases builds valid stored records (some with the metadata section re-encoded in
// the other serialisations the decoder accepts) that the hostile generators mutate.
func c08Bases(c *ctx) (bases [][]byte) {
	add := func(meta *record.Meta, format uint8, payload []byte) {
		w, _ := record.NewWrapper("db:hostile/key", meta, format, payload)
		var out []byte
		c.call("c08.parse", nil, func() { out, _ = w.MarshalRecord(w) })
		if out != nil {
			bases = append(bases, out)
		}
	}
	live := &record.Meta{Created: 1600000000, Modified: 1600000001, Expires: 1700000000}
	secret := &record.Meta{Created: math.MaxInt64, Modified: math.MinInt64, Expires: -1, Deleted: -3600}
	secret.MakeSecret()
	secret.MakeCrownJewel()
	dead := &record.Meta{Created: 1, Modified: 2, Expires: 3, Deleted: 1600000002}
	add(live, dsd.JSON, []byte(`{"a":"b"}`))
	add(live, dsd.RAW, []byte{0x01, 0x02, 0x03})
	add(live, 0, nil)
	add(secret, 127, []byte{0x01})
	add(secret, dsd.CBOR, []byte{0xa1, 0x61, 0x61, 0x01})
	add(dead, dsd.JSON, []byte("ignored"))
	add(live, dsd.JSON, bytes.Repeat([]byte("x"), 200))
	t := &c08Rec{S: "typed", I: 7}
	t.SetKey("db:hostile/key")
	t.SetMeta(live)
	c.call("c08.parse", nil, func() {
		if out, err := t.MarshalRecord(t); err == nil {
			bases = append(bases, out)
		}
	})
	// other metadata serialisations
	for _, ml := range []c08MetaLike{{1600000000, 1600000001, 0, 0}, {1, 2, 3, 1600000002}, {math.MinInt64, math.MaxInt64, -1, -5}} {
		for _, f := range []uint8{dsd.JSON, dsd.CBOR, dsd.MsgPack, dsd.YAML} {
			ml := ml
			var sec []byte
			var err error
			c.call("c08.parse", nil, func() { sec, err = dsd.Dump(&ml, f) })
			if err == nil {
				bases = append(bases, cat([]byte{1}, c08Block(sec), []byte{dsd.JSON}, []byte(`{"k":1}`)))
			}
		}
		var z []byte
		var err error
		c.call("c08.parse", nil, func() {
			z, err = dsd.DumpAndCompress(&record.Meta{Created: ml.Created, Modified: ml.Modified, Expires: ml.Expires, Deleted: ml.Deleted}, dsd.GenCode, dsd.GZIP)
		})
		if err == nil {
			bases = append(bases, cat([]byte{1}, c08Block(z), []byte{dsd.RAW}, []byte{9, 9, 9}))
		}
	}
	return bases
}

func runC08(c *ctx) {
	s, ns := c.spec.Shard, c.spec.NShards
	idx := 0
	mine := func() bool { idx++; return (idx-1)%ns == s }

	// ---- round trips
	nrt := c.n(48000, 480000)
	for i := 0; i < nrt; i++ {
		if mine() {
			c08RoundTrip(c, c.spec.Seed, uint64(i))
		}
	}

	// ---- hostile inputs
	bases := c08Bases(c)
	if s == 0 {
		for _, bs := range [][]byte{bases[0], bases[5]} {
			w, err := record.NewRawWrapper("db", "hostile/key", exact(bs))
			smp := map[string]any{"class": "c08.parse", "input_hex": hex.EncodeToString(bs), "error": fmt.Sprint(err)}
			if w != nil {
				smp["parsed"] = map[string]any{"key": w.Key(), "meta": c08MetaString(w.Meta()), "format": w.Format, "data_hex": hex.EncodeToString(w.Data)}
			}
			c.b.Sample(smp)
			_, err = record.NewRawWrapper("db", "hostile/key", exact(bs[:20]))
			c.b.Sample(map[string]any{"class": "c08.parse", "input_hex": hex.EncodeToString(bs[:20]), "error": fmt.Sprint(err)})
		}
	}
	try := func(in []byte) {
		if mine() {
			if len(in) > 4096 {
				in = in[:4096]
			}
			c08Parse(c, in)
		}
	}
	try(nil)
	lens := []uint64{0, 1, 2, 33, 34, 35, 36, 37, 127, 128, 255, 256, 16383, 16384, 1 << 31, 1<<31 - 1, 1 << 32, 1<<63 - 1, 1 << 63, 1<<63 + 1,
		math.MaxUint64 - 36, math.MaxUint64 - 35, math.MaxUint64 - 1, math.MaxUint64}
	for bi, bs := range bases {
		// (a) every truncation
		for n := 0; n <= len(bs); n++ {
			try(bs[:n])
		}
		// (b) single-field corruptions. Layout: version | varint(len) | meta section | format | data
		_, ln, _ := refDecode(bs[1:])
		mv, _, _ := refDecode(bs[1:])
		mlen := int(mv.Uint64())
		metaStart := 1 + ln
		rest := bs[metaStart:]
		for v := 0; v < 256; v++ { // version byte
			try(cat([]byte{byte(v)}, bs[1:]))
			try(cat([]byte{byte(v), 0x01}, bs[1:])) // two-byte version varints
		}
		for _, l := range append(lens, uint64(len(rest)), uint64(len(rest))+1, uint64(len(rest))-1, uint64(mlen)-1, uint64(mlen)+1, uint64(mlen)+2) {
			try(cat(bs[:1], refEncode(l), rest))
		}
		for _, raw := range [][]byte{{0x80}, {0xff, 0xff}, bytes.Repeat([]byte{0xff}, 9), bytes.Repeat([]byte{0xff}, 10), append(bytes.Repeat([]byte{0x80}, 9), 0x02), append(bytes.Repeat([]byte{0x80}, 10), 0x00), {0x80, 0x00}} {
			try(cat(bs[:1], raw, rest)) // malformed / non-canonical length varints
		}
		for i := metaStart; i < metaStart+mlen && i < len(bs); i++ { // each meta byte
			for _, f := range []func(byte) byte{func(x byte) byte { return x ^ 0xff }, func(x byte) byte { return x ^ 1 }, func(byte) byte { return 0x80 }, func(byte) byte { return 1 }, func(byte) byte { return 0 }} {
				m := cat(bs)
				m[i] = f(m[i])
				try(m)
			}
		}
		for v := 0; v < 256; v++ { // dsd format id of the meta section
			m := cat(bs)
			m[metaStart] = byte(v)
			try(m)
			try(cat(bs[:metaStart], []byte{byte(v) | 0x80, 0x01}, bs[metaStart+1:]))
		}
		// format varint of the data: all one-byte forms everywhere, all two-byte forms on a few bases
		fpos := metaStart + mlen
		if fpos < len(bs) {
			for v := 0; v < 256; v++ {
				m := cat(bs)
				m[fpos] = byte(v)
				try(m)
			}
			if bi == 0 || bi == 3 || bi == 8 {
				for v := 0; v < 65536; v++ {
					try(cat(bs[:fpos], []byte{byte(v >> 8), byte(v)}, bs[fpos+1:]))
				}
			}
		}
	}
	// (c) PRNG strings
	r := c.rand("hostile")
	nh := c.n(160000, 1600000) / ns
	for i := 0; i < nh; i++ {
		var in []byte
		switch r.Intn(6) {
		case 0:
			in = r.Bytes(r.Intn(257))
		case 1: // valid header, random rest
			in = cat([]byte{1}, refEncode(uint64(r.Intn(40))), r.Bytes(r.Intn(80)))
		case 2: // valid prefix of a base + random tail
			bs := bases[r.Intn(len(bases))]
			in = cat(bs[:r.Intn(len(bs)+1)], r.Bytes(r.Intn(40)))
		case 3: // gencode-shaped: version, 35, 'G', 34 random bytes, format, data
			in = cat([]byte{1, 35, dsd.GenCode}, r.Bytes(34), r.Bytes(r.Intn(12)))
			if r.Bool() {
				in[3+24+7] &= 0x7f // make Deleted non-negative more often
			}
		default: // mutated base
			in = cat(bases[r.Intn(len(bases))])
			for k := r.Range(1, 4); k > 0 && len(in) > 0; k-- {
				p := r.Intn(len(in))
				switch r.Intn(4) {
				case 0:
					in[p] = byte(r.Intn(256))
				case 1:
					in = append(in[:p], in[p+1:]...)
				case 2:
					in = cat(in[:p], r.Bytes(r.Range(1, 3)), in[p:])
				default:
					in[p] ^= 1 << uint(r.Intn(8))
				}
			}
		}
		idx = s // PRNG cases are already per shard
		try(in)
	}

	b := c.b
	b.Count("roundtrips", c08stats.rt)
	b.Count("roundtrips_wrapper", c08stats.rtWrapper)
	b.Count("roundtrips_typed", c08stats.rtTyped)
	b.Count("roundtrips_typed_carried_in_wrapper", c08stats.rtCarried)
	b.Count("roundtrips_deleted", c08stats.rtDeleted)
	b.Count("roundtrips_key_with_colon_in_db_key", c08stats.rtKeyColon)
	b.Count("roundtrips_format_ge_128", c08stats.rtFmtHigh)
	b.Count("roundtrips_typed_unwrapped", c08stats.unwraps)
	b.Count("reparses_of_parsed_records", c08stats.reparses)
	b.Count("hostile_inputs", c08stats.hostile)
	b.Count("hostile_parsed_ok", c08stats.hostileOK)
	b.Count("hostile_rejected", c08stats.hostileErr)
	b.Max("max_payload_bytes", c08stats.payloadMax)
}
