package main

import (
	"bytes"
	"compress/gzip"
	"encoding/binary"
	"encoding/hex"
	"encoding/json"
	"fmt"
	"math"
	"os"
	"path/filepath"
	"reflect"
	"runtime/metrics"
	"strings"
	"sync"
	"sync/atomic"
	"syscall"
	"time"

	"github.com/safing/portbase/database/record"
	"github.com/safing/portbase/formats/dsd"

	"verifharness/internal/vlib"
)

// C08 — the stored-record format round-trips and its decoder is total.
//
// Round trip (class c08.rt; a case is regenerated from its 16-byte input = seed and
// case number): a record (wrapped raw data in any format 0..255, a typed harness struct
// through Base.MarshalRecord, or a typed struct carried in a Wrapper as JSON/CBOR/MsgPack)
// is serialised with MarshalRecord and parsed with NewRawWrapper (once from an
// exact-capacity copy, once from a canary-embedded view); key, the six meta fields,
// format and data must come back; deleted records come back without data; Unwrap must
// reproduce the typed struct. The parsed record is itself a record, so it is serialised
// and parsed once more and must again come back unchanged.
//
// Totality (class c08.parse; the case is the byte string): truncations, single-field
// corruptions of valid encodings (including metadata sections re-encoded as
// JSON/CBOR/MsgPack/YAML/GZIP, which the decoder accepts) and PRNG byte strings are
// given to NewRawWrapper: record xor error, no panic, Data inside the input, the same
// result for the exact and the embedded view, and a returned record must round-trip.

type c08Nested struct {
	A string
	B int64
	C []byte
	D map[string]string
}

type c08Rec struct {
	record.Base
	sync.Mutex

	S     string
	I     int64
	U     uint64
	U8    uint8
	F     float64
	B     bool
	Bytes []byte
	L     []string
	IL    []int32
	M     map[string]int64
	N     *c08Nested
	Sub   c08Nested
	T     string `json:"renamed" cbor:"renamed" msgpack:"renamed"`
}

type c08MetaLike struct {
	Created  int64
	Modified int64
	Expires  int64
	Deleted  int64
}

var c08stats struct {
	rt, rtWrapper, rtTyped, rtCarried, rtDeleted, rtFmtHigh, unwraps, reparses                                                                                            int64
	rtKeyColon                                                                                                                                                            int64
	typedLarge, typedStoredMax, unwrapHostile, unwrapHostileErr, unwrapSkippedMsgPack, canaries, allocMax, allocRatioMax, allocPermille, allocCalls, gzipFamily, lenBombs int64
	hostile, hostileOK, hostileErr, payloadMax                                                                                                                            int64
}

func init() {
	props["C08"] = &propImpl{
		shards: func(cfg vlib.Cfg) int { return cfg.N(8, 32) },
		run:    runC08,
		rule: "round trip: PRNG records = meta tuple (four int64 from {0,+-1,+-2^31,+-2^53,min,max} and PRNG values, both flags, deleted >0 / relative <0 / 0) x key (compared with the original full key; database-key part ASCII/UTF-8/empty, with one or several ':' incl. leading/trailing/IPv6-like/host:port, and other separators) x " +
			"{wrapped raw data with every format id 0..255 and payloads empty/1 byte/<=4KiB/64KiB, typed harness struct via Base.MarshalRecord, typed struct carried as JSON/CBOR/MsgPack}; " +
			"hostile: every truncation, version byte 0..255, meta length prefix in {0,1,33..37,len-1..len+1,2^31,2^32,2^63-1,2^63,2^64-1,...}, every meta byte flipped five ways, meta format id 0..255, " +
			"all one- and two-byte format varints, meta re-encoded as JSON/CBOR/MsgPack/YAML/GZIP, gzip-compressed meta sections with every gzip field corrupted (header bytes, flags, XLEN, deflate bytes and cuts, stored-block LEN/NLEN, CRC32, ISIZE up to 2^32-1), " +
			"CBOR/MsgPack length headers of up to 2^64-1 at every position of the meta section, and PRNG strings <= 256 B (random / valid prefix + random tail / mutated valid encoding); typed records in size classes up to 1 MiB. " +
			"Every parse (and Unwrap of hostile-parsed records, MsgPack excepted) runs under an allocation monitor (bound 160 MiB + 32 KiB per input byte) and must give the same record / error text for the exact-capacity and the canary-embedded copy. " +
			"distinct = distinct (class,input); non-trivial = the input was parsed from both an exact-capacity and a canary-embedded copy and every returned record was compared (round trip: with the original; hostile: with its own re-serialisation)",
		finish: func(cfg vlib.Cfg, r *vlib.Report) {
			r.Floor(r.Counter("roundtrips") >= int64(cfg.N(10000, 100000)), "roundtrips=%d", r.Counter("roundtrips"))
			r.Floor(r.Counter("hostile_inputs") >= int64(cfg.N(100000, 1000000)), "hostile_inputs=%d", r.Counter("hostile_inputs"))
			r.Floor(r.Counter("hostile_parsed_ok") > 1000 && r.Counter("hostile_rejected") > 1000, "hostile ok=%d rejected=%d", r.Counter("hostile_parsed_ok"), r.Counter("hostile_rejected"))
			r.Floor(r.Counter("roundtrips_typed_unwrapped") > 1000 && r.Counter("roundtrips_deleted") > 1000 && r.Counter("roundtrips_format_ge_128") > 500,
				"typed=%d deleted=%d format>=128=%d", r.Counter("roundtrips_typed_unwrapped"), r.Counter("roundtrips_deleted"), r.Counter("roundtrips_format_ge_128"))
			r.Floor(r.SeenCount("meta_section_formats_accepted") >= 5, "meta section formats accepted: %d", r.SeenCount("meta_section_formats_accepted"))
			r.Floor(r.Counter("roundtrips_key_with_colon_in_db_key") > 1000, "roundtrips_key_with_colon_in_db_key=%d", r.Counter("roundtrips_key_with_colon_in_db_key"))
			r.Assume("typed harness schema: valid UTF-8 strings, finite floats, integers of all widths, byte slices, slices, maps, pointer and nested struct (values a JSON document can carry)")
			r.Assume("allocation monitor = runtime/metrics /gc/heap/allocs:bytes read before and after each call; children run under RLIMIT_AS 6 GiB (plain, checkptr) and a 1 GiB resident-set watchdog (all builds), whose firing is reported as a process-fatal violation")
			r.Assume("Unwrap of hostile-parsed records with a MsgPack payload is not exercised (the MsgPack decoder's allocation by length header is C09's known finding)")
			r.Assume("for deleted records the format identifier is not stored and therefore not compared; payloads above 64 KiB are not generated")
		},
	}
	classes["c08.rt"] = func(c *ctx, in []byte) {
		if len(in) >= 16 {
			c08RoundTrip(c, binary.LittleEndian.Uint64(in), binary.LittleEndian.Uint64(in[8:]))
		}
	}
	classes["c08.parse"] = c08Parse
}

// ---------------------------------------------------------------------------------
// generators

var c08Int64s = []int64{0, 1, -1, 1 << 31, -(1 << 31), 1 << 53, -(1 << 53), math.MinInt64, math.MaxInt64, 1<<31 - 1, 255, 256, 1600000000}

func c08Int64(r *vlib.Rand) int64 {
	if r.Chance(1, 2) {
		return c08Int64s[r.Intn(len(c08Int64s))]
	}
	return r.Int64Boundary()
}

func c08Meta(r *vlib.Rand) *record.Meta {
	m := &record.Meta{Created: c08Int64(r), Modified: c08Int64(r), Expires: c08Int64(r)}
	switch r.Intn(5) {
	case 0, 1:
		m.Deleted = 0
	case 2:
		m.Deleted = int64(r.Uint64()>>1) | 1 // deleted
		if r.Bool() {
			m.Deleted = vlib.Pick(r, int64(1), math.MaxInt64, 1<<31, 1<<53, 1600000000)
		}
	case 3:
		m.Deleted = -(int64(r.Uint64()>>1) | 1) // relative expiry, not deleted
		if r.Bool() {
			m.Deleted = vlib.Pick(r, int64(-1), math.MinInt64, -(1 << 31), -3600)
		}
	default:
		m.Deleted = c08Int64(r)
	}
	if r.Bool() {
		m.MakeSecret()
	}
	if r.Bool() {
		m.MakeCrownJewel()
	}
	return m
}

var c08Runes = []rune("abcXYZ019 _-./:\\\"'<>&{}[]\x00\x01\x1f\x7fäß€  �世界\U0001F600\U0010FFFF")

func c08String(r *vlib.Rand, max int) string {
	n := r.Intn(max + 1)
	var sb strings.Builder
	for i := 0; i < n; i++ {
		sb.WriteRune(c08Runes[r.Intn(len(c08Runes))])
	}
	return sb.String()
}

func c08Key(r *vlib.Rand) string {
	db := vlib.Pick(r, "core", "cache", "db", "t", "a-b_c", "ädb", "x")
	if r.Chance(1, 20) {
		db = c08String(r, 6)
		db = strings.ReplaceAll(db, ":", "")
	}
	switch r.Intn(9) {
	case 0:
		return db + ":"
	case 1:
		return db + ":" + c08String(r, 40)
	case 2:
		return db + ":a:b::c:"
	case 3, 4: // the database-key part itself contains ':' (IPv6 addresses, host:port, scopes ...)
		return db + ":" + vlib.Pick(r, "intel/ipInfo/2001:db8::1", "tree/1234/udp-[::1]:53", "a:b", "a:b:c:d", ":leading", "trailing:", ":", "::", ":a:",
			"::1", "fe80::1%eth0", "host.example:8080/path", "urn:uuid:6e8bc430-9c3a-11d9-9669-0800200c9a66", "k:世界:x", "a: b", "x::y")
	case 5: // composed from parts and separators, one or several colons anywhere
		n := r.Range(2, 5)
		var sb strings.Builder
		if r.Chance(1, 4) {
			sb.WriteString(":")
		}
		for i := 0; i < n; i++ {
			sb.WriteString(vlib.Pick(r, "a", "intel", "2001", "db8", "", "53", "[::1]", "ü", "p q"))
			if i < n-1 || r.Chance(1, 4) {
				sb.WriteString(vlib.Pick(r, ":", ":", "::", "/", "|", ";", ",", "#", "?", "=", "\\", " ", "\t", ":/", "/:"))
			}
		}
		return db + ":" + sb.String()
	default:
		return db + ":" + vlib.Pick(r, "config/core/devMode", "k", "some/longer/key/with/many/parts", "世界/key", "a b", "../x")
	}
}

func c08Payload(r *vlib.Rand) []byte {
	switch r.Intn(40) {
	case 0:
		return r.Bytes(65536)
	case 1, 2, 3:
		return nil
	case 4, 5:
		return []byte{}
	case 6, 7, 8, 9:
		return r.Bytes(1)
	case 10, 11:
		return append([]byte{0x01}, r.Bytes(r.Intn(8))...) // looks like the second byte of a two-byte format varint
	case 12, 13:
		return r.Bytes(r.Range(1000, 4096))
	default:
		return r.Bytes(r.Range(2, 200))
	}
}

func c08Nest(r *vlib.Rand) c08Nested {
	n := c08Nested{A: c08String(r, 12), B: c08Int64(r)}
	switch r.Intn(3) {
	case 0:
		n.C = r.Bytes(r.Intn(20))
	case 1:
		n.C = []byte{}
	}
	if r.Bool() {
		n.D = map[string]string{}
		for i := r.Intn(4); i > 0; i-- {
			n.D[c08String(r, 6)] = c08String(r, 6)
		}
	}
	return n
}

func c08Typed(r *vlib.Rand) *c08Rec {
	t := &c08Rec{S: c08String(r, 30), I: c08Int64(r), U: r.Uint64Boundary(), U8: uint8(r.Intn(256)), B: r.Bool(), T: c08String(r, 5)}
	switch r.Intn(5) {
	case 0:
		t.F = 0
	case 1:
		t.F = math.Float64frombits(r.Uint64())
		if math.IsNaN(t.F) || math.IsInf(t.F, 0) {
			t.F = 1.5
		}
	case 2:
		t.F = vlib.Pick(r, math.MaxFloat64, math.SmallestNonzeroFloat64, -math.MaxFloat64, 1e21, 1e-7, 0.1, -2.5)
	default:
		t.F = float64(c08Int64(r)) / 8
	}
	switch r.Intn(3) {
	case 0:
		t.Bytes = r.Bytes(r.Intn(64))
	case 1:
		t.Bytes = []byte{}
	}
	if r.Bool() {
		t.L = []string{}
		for i := r.Intn(4); i > 0; i-- {
			t.L = append(t.L, c08String(r, 8))
		}
	}
	if r.Bool() {
		for i := r.Intn(5); i > 0; i-- {
			t.IL = append(t.IL, int32(c08Int64(r)))
		}
	}
	if r.Bool() {
		t.M = map[string]int64{}
		for i := r.Intn(4); i > 0; i-- {
			t.M[c08String(r, 6)] = c08Int64(r)
		}
	}
	if r.Bool() {
		n := c08Nest(r)
		t.N = &n
	}
	t.Sub = c08Nest(r)
	// size classes: the stored form of most typed records is a few hundred bytes; one in
	// six is made large (1 KiB .. 64 KiB, rarely 1 MiB) by a long string, a big byte
	// slice or many-element slices / maps
	if r.Chance(1, 6) {
		size := r.Range(1<<10, 8<<10)
		switch {
		case r.Chance(1, 100):
			size = 1 << 20
		case r.Chance(1, 6):
			size = r.Range(8<<10, 64<<10)
		}
		c08stats.typedLarge++
		kind := r.Intn(5)
		if kind >= 2 && size > 256<<10 {
			size = 256 << 10 // many-element values: stay below the CBOR decoder's default element limit
		}
		switch kind {
		case 0:
			var sb strings.Builder
			for sb.Len() < size {
				sb.WriteString(c08String(r, 40))
				sb.WriteByte('x')
			}
			t.S = sb.String()
		case 1:
			t.Bytes = r.Bytes(size)
		case 2:
			for len(t.L)*6 < size {
				t.L = append(t.L, c08String(r, 8))
			}
		case 3:
			for len(t.IL)*8 < size {
				t.IL = append(t.IL, int32(c08Int64(r)))
			}
		default:
			if t.M == nil {
				t.M = map[string]int64{}
			}
			for i := 0; len(t.M)*16 < size && i < size; i++ {
				t.M[fmt.Sprintf("k%d-%s", i, c08String(r, 4))] = c08Int64(r)
			}
		}
	}
	return t
}

// ---------------------------------------------------------------------------------
// comparison helpers

func c08MetaBytes(m *record.Meta) []byte {
	if m == nil {
		return nil
	}
	b, _ := m.GenCodeMarshal(nil)
	return b
}

func c08MetaEqual(a, b *record.Meta) bool {
	if a == nil || b == nil {
		return false
	}
	if a.Created != b.Created || a.Modified != b.Modified || a.Expires != b.Expires || a.Deleted != b.Deleted {
		return false
	}
	for _, l := range []bool{false, true} {
		for _, i := range []bool{false, true} {
			if a.CheckPermission(l, i) != b.CheckPermission(l, i) {
				return false
			}
		}
	}
	return bytes.Equal(c08MetaBytes(a), c08MetaBytes(b))
}

func c08MetaString(m *record.Meta) string {
	if m == nil {
		return "<nil>"
	}
	return fmt.Sprintf("{Created:%d Modified:%d Expires:%d Deleted:%d secret:%v crownjewel:%v}", m.Created, m.Modified, m.Expires, m.Deleted,
		!m.CheckPermission(true, false), !m.CheckPermission(false, true))
}

// ---------------------------------------------------------------------------------
// allocation monitor and memory ceilings
//
// "never ... trusts an unvalidated length field": every parse call is bracketed by two
// reads of the runtime's cumulative allocation counter (runtime/metrics
// /gc/heap/allocs:bytes; no stop-the-world; large objects are accounted immediately,
// small ones when their span is flushed - exactly the resolution needed here). A call on
// n input bytes may allocate c08AllocBase + c08AllocPerByte*n bytes; the bound was set
// from the maxima observed on the unchanged tree with a factor > 8 of headroom: 16.2 MiB
// in one call, reached both by a 3.6 KiB gzip member that inflates 1:1000 into a doubling
// buffer and by a 34-byte MsgPack metadata section with a bin32/str32 header of 2^32-1 (the
// MsgPack decoder reads announced lengths in chunks that grow to a few MiB before it
// notices the end of input - bounded, independent of the claim; its unbounded cases are
// C09's known finding).
//
// So that a decoder which does trust a length ends the child within seconds instead of
// thrashing: plain and checkptr children run under RLIMIT_AS (the allocation fails, the
// Go runtime dies with "out of memory", the engine names the input by its journal
// re-run); every build additionally has a resident-set watchdog (the sanitizer builds
// cannot live under an address-space limit) that names the current input and exits.

const (
	c08AllocBase    = 160 << 20
	c08AllocPerByte = 32768
	c08ASLimit      = 6 << 30 // RLIMIT_AS of plain/checkptr children (an unchanged-tree child peaks at ~2 GiB of address space: cgo thread arenas)
	c08RSSLimit     = 1 << 30 // resident-set ceiling enforced by the watchdog (all builds; an unchanged-tree child stays below 200 MiB)
)

var (
	c08AllocSample = []metrics.Sample{{Name: "/gc/heap/allocs:bytes"}}
	c08SetupOnce   sync.Once
	c08Current     atomic.Pointer[c08Call]
	c08RSSMax      atomic.Int64
	c08VMMax       atomic.Int64
)

type c08Call struct {
	class, fn string
	input     []byte
}

func c08Allocated() uint64 {
	metrics.Read(c08AllocSample)
	if c08AllocSample[0].Value.Kind() != metrics.KindUint64 {
		return 0
	}
	return c08AllocSample[0].Value.Uint64()
}

func c08RSS() int64 {
	b, err := os.ReadFile("/proc/self/statm")
	if err != nil {
		return 0
	}
	var size, rss int64
	fmt.Sscan(string(b), &size, &rss)
	if vm := size * int64(os.Getpagesize()); vm > c08VMMax.Load() {
		c08VMMax.Store(vm)
	}
	return rss * int64(os.Getpagesize())
}

// c08Persist writes what the child has observed so far (without the completion marker):
// a child that is later ended by the address-space limit or the watchdog still delivers
// the violations it had already recorded.
func c08Persist(c *ctx) {
	if c.dir == "" {
		return
	}
	if b, err := json.Marshal(c.b); err == nil {
		tmp := filepath.Join(c.dir, "out.json.tmp")
		if os.WriteFile(tmp, b, 0o644) == nil {
			_ = os.Rename(tmp, filepath.Join(c.dir, "out.json"))
		}
	}
}

// c08Setup installs the ceilings once per child process.
func c08Setup(c *ctx) {
	c08SetupOnce.Do(func() {
		if c.spec.Kind == "plain" || c.spec.Kind == "checkptr" {
			lim := syscall.Rlimit{Cur: c08ASLimit, Max: c08ASLimit}
			if err := syscall.Setrlimit(syscall.RLIMIT_AS, &lim); err != nil {
				c.b.Note("C08: setrlimit(RLIMIT_AS) failed: %v", err)
			} else {
				c.b.Count("children_under_rlimit_as", 1)
			}
		}
		go func() {
			for {
				time.Sleep(20 * time.Millisecond)
				rss := c08RSS()
				if rss > c08RSSMax.Load() {
					c08RSSMax.Store(rss)
				}
				if rss > c08RSSLimit {
					cur := c08Current.Load()
					msg := "fatal error: C08 memory watchdog: resident set above the ceiling during a codec call\n"
					if cur != nil {
						msg += fmt.Sprintf("C08 memory watchdog: current call %s on class %s input %s (%d bytes), resident %d MiB\n", cur.fn, cur.class,
							hex.EncodeToString(trunc(cur.input, 4096)), len(cur.input), rss>>20)
					}
					os.Stderr.WriteString(msg)
					os.Exit(97)
				}
			}
		}()
	})
}

// c08Monitored runs one portbase call that consumes n input bytes: guarded by c.call
// (journal + panic), with the allocation monitor around it. excessive = the monitor fired.
func c08Monitored(c *ctx, class string, id []byte, fn string, n int, call func()) (panicked, excessive bool) {
	c08Setup(c)
	c08Current.Store(&c08Call{class: class, fn: fn, input: id})
	before := c08Allocated()
	panicked = c.call(class, id, call)
	got := int64(c08Allocated() - before)
	c08Current.Store(nil)
	c08stats.allocCalls++
	if got > c08stats.allocMax {
		c08stats.allocMax = got
	}
	if n >= 16 {
		if r := got / int64(n); r > c08stats.allocRatioMax {
			c08stats.allocRatioMax = r
		}
	}
	bound := int64(c08AllocBase) + int64(c08AllocPerByte)*int64(n)
	if pm := got * 1000 / bound; pm > c08stats.allocPermille {
		c08stats.allocPermille = pm
		if os.Getenv("C08_ALLOC_DEBUG") != "" {
			fmt.Fprintf(os.Stderr, "ALLOCDBG pm=%d fn=%s n=%d got=%d class=%s id=%x\n", pm, fn, n, got, class, trunc(id, 48))
		}
	}
	if got > bound {
		excessive = true
		c.b.Violation("C08:alloc-out-of-proportion:"+fn, fmt.Sprintf("%s allocated %d bytes (%d MiB) while processing an input of %d bytes (bound %d MiB): an unvalidated length field is trusted", fn, got, got>>20, n, bound>>20),
			map[string]any{"class": class, "input_hex": hex.EncodeToString(trunc(id, 65536)), "input_len": n, "allocated_bytes": got, "bound_bytes": bound, "build": c.spec.Kind})
		c08Persist(c)
	}
	return panicked, excessive
}

// c08Expect is what a parse of a stored record has to yield.
type c08Expect struct {
	key     string
	meta    *record.Meta
	format  uint8
	data    []byte
	deleted bool
}

// c08ParseBoth parses stored from an exact-capacity copy and from a canary-embedded
// view and compares each result with want. path names the serialising side in the
// signature. It returns the record parsed from the exact copy (nil after a violation).
func c08ParseBoth(c *ctx, class string, id []byte, path string, dbName, dbKey string, stored []byte, want c08Expect) *record.Wrapper {
	pre := ""
	if want.deleted {
		pre = ":deleted"
	} else if want.format >= 128 {
		pre = ":format>=128"
	}
	ok := true
	bad := func(kind, what string) {
		ok = false
		c.b.Violation("C08:"+kind+":"+path+pre, what, map[string]any{"class": class, "input_hex": hex.EncodeToString(id), "build": c.spec.Kind,
			"stored_hex": hex.EncodeToString(trunc(stored, 300)), "stored_len": len(stored), "key": want.key, "meta": c08MetaString(want.meta), "format": want.format,
			"data_hex": hex.EncodeToString(trunc(want.data, 64)), "data_len": len(want.data)})
	}
	var first *record.Wrapper
	for _, variant := range []string{"exact", "embedded"} {
		var view []byte
		if variant == "exact" {
			view = exact(stored)
		} else {
			view, _, _ = embed(stored)
		}
		var w *record.Wrapper
		var err error
		if p, x := c08Monitored(c, class, id, "NewRawWrapper", len(stored), func() { w, err = record.NewRawWrapper(dbName, dbKey, view) }); p || x {
			return nil
		}
		switch {
		case err != nil:
			bad("roundtrip-parse-error", fmt.Sprintf("NewRawWrapper rejects what MarshalRecord produced (format %d, %d data bytes, deleted=%v): %v", want.format, len(want.data), want.deleted, err))
		case w == nil:
			bad("roundtrip-parse-error", "NewRawWrapper returned neither a record nor an error")
		case w.Key() != want.key:
			bad("roundtrip-key", fmt.Sprintf("key %q came back as %q", want.key, w.Key()))
		case !c08MetaEqual(w.Meta(), want.meta):
			bad("roundtrip-meta", fmt.Sprintf("meta %s came back as %s", c08MetaString(want.meta), c08MetaString(w.Meta())))
		case want.deleted && len(w.Data) != 0:
			bad("roundtrip-deleted-has-data", fmt.Sprintf("a deleted record came back with %d data bytes", len(w.Data)))
		case !want.deleted && w.Format != want.format:
			bad("roundtrip-format", fmt.Sprintf("format %d came back as %d", want.format, w.Format))
		case !want.deleted && !bytes.Equal(w.Data, want.data):
			bad("roundtrip-data", fmt.Sprintf("%d data bytes %x… (format %d) came back as %d bytes %x…", len(want.data), trunc(want.data, 16), want.format, len(w.Data), trunc(w.Data, 16)))
		case !inside(w.Data, view, len(stored)):
			bad("slice-outside-input", "the returned Data slice does not lie inside the parsed input")
		}
		if !ok {
			return nil
		}
		if first == nil {
			first = w
		}
	}
	return first
}

// ---------------------------------------------------------------------------------
// round trip

func c08RoundTrip(c *ctx, seed, caseNo uint64) {
	b := c.b
	b.Eval(1)
	c08stats.rt++
	id := append(u64le(seed), u64le(caseNo)...)
	r := vlib.NewRand(seed, "C08/rt", caseNo)
	meta := c08Meta(r)
	key := c08Key(r)
	deleted := meta.Deleted > 0
	if deleted {
		c08stats.rtDeleted++
	}
	detail := func(extra map[string]any) map[string]any {
		d := map[string]any{"class": "c08.rt", "input_hex": hex.EncodeToString(id), "build": c.spec.Kind, "key": key, "meta": c08MetaString(meta)}
		for k, v := range extra {
			d[k] = v
		}
		return d
	}

	// the key as the caller wrote it is the reference: database name = everything before
	// the first ':', database key = everything after it (split here, not by portbase)
	hdb, hkey, _ := strings.Cut(key, ":")
	if strings.Contains(hkey, ":") {
		c08stats.rtKeyColon++
	}
	keyKept := func(op string, r record.Record) bool {
		if r.Key() == key && r.DatabaseName() == hdb && r.DatabaseKey() == hkey {
			return true
		}
		b.Violation("C08:roundtrip-key:"+op, fmt.Sprintf("%s(%q) holds key %q (database %q, key %q)", op, key, r.Key(), r.DatabaseName(), r.DatabaseKey()), detail(nil))
		return false
	}

	var src record.Record
	var typed *c08Rec
	var want c08Expect
	path := "Wrapper"
	kind := r.Intn(10)
	switch {
	case kind < 5: // wrapped raw data, any format
		format := uint8(r.Intn(256))
		if r.Chance(1, 4) {
			format = vlib.Pick(r, uint8(0), 1, 67, 71, 74, 77, 89, 90, 127, 128, 129, 255)
		}
		payload := c08Payload(r)
		if int64(len(payload)) > c08stats.payloadMax {
			c08stats.payloadMax = int64(len(payload))
		}
		w, err := record.NewWrapper(key, meta, format, payload)
		if err != nil {
			b.Violation("C08:roundtrip-marshal-error:NewWrapper", "NewWrapper failed: "+err.Error(), detail(nil))
			return
		}
		src = w
		if !keyKept("NewWrapper", w) {
			return
		}
		want = c08Expect{key: key, meta: meta, format: format, data: payload, deleted: deleted}
		c08stats.rtWrapper++
		if format >= 128 && !deleted {
			c08stats.rtFmtHigh++
		}
	case kind < 8: // typed struct, Base.MarshalRecord
		path = "Base"
		typed = c08Typed(r)
		typed.SetKey(key)
		typed.SetMeta(meta)
		src = typed
		if !keyKept("SetKey", typed) {
			return
		}
		want = c08Expect{key: key, meta: meta, format: dsd.JSON, deleted: deleted}
		c08stats.rtTyped++
	default: // typed struct carried in a wrapper in a binary or text format
		path = "Wrapper+Unwrap"
		typed = c08Typed(r)
		format := vlib.Pick(r, uint8(dsd.JSON), dsd.CBOR, dsd.MsgPack)
		var dumped []byte
		var err error
		if c.call("c08.rt", id, func() { dumped, err = dsd.Dump(typed, format) }) {
			return
		}
		if err != nil || len(dumped) < 1 || dumped[0] != format {
			b.Note("C08: dsd.Dump of the harness struct in format %d failed (%v); case skipped", format, err)
			return
		}
		w, _ := record.NewWrapper(key, meta, format, dumped[1:])
		src = w
		if !keyKept("NewWrapper", w) {
			return
		}
		want = c08Expect{key: key, meta: meta, format: format, data: dumped[1:], deleted: deleted}
		c08stats.rtCarried++
	}

	var stored []byte
	var err error
	if c.call("c08.rt", id, func() { stored, err = src.MarshalRecord(src) }) {
		return
	}
	if err != nil {
		b.Violation("C08:roundtrip-marshal-error:"+path, "MarshalRecord failed: "+err.Error(), detail(nil))
		return
	}
	if typed != nil && int64(len(stored)) > c08stats.typedStoredMax {
		c08stats.typedStoredMax = int64(len(stored))
	}
	if path == "Base" && !deleted {
		// the data of a typed record is its JSON document (independent expectation)
		want.data, err = json.Marshal(typed)
		if err != nil {
			b.Note("C08: harness struct not JSON-encodable: %v", err)
			return
		}
	}
	w2 := c08ParseBoth(c, "c08.rt", id, path, hdb, hkey, stored, want)
	if w2 == nil {
		return
	}

	// a typed record unwrapped from the result equals the original
	if typed != nil && !deleted {
		fresh := &c08Rec{}
		var uerr error
		if c.call("c08.rt", id, func() { uerr = record.Unwrap(w2, fresh) }) {
			return
		}
		expect := typed
		if path == "Wrapper+Unwrap" {
			// what the payload decodes to without any record framing (the codec's own
			// fidelity is C09's subject); key and meta as Unwrap sets them
			direct := &c08Rec{}
			if derr := dsd.LoadAsFormat(want.data, want.format, direct); derr != nil {
				b.Note("C08: harness struct does not load back in format %d (%v); unwrap comparison skipped", want.format, derr)
				expect = nil
			} else {
				direct.SetKey(key)
				direct.SetMeta(meta)
				expect = direct
			}
		}
		if expect != nil {
			c08stats.unwraps++
			switch {
			case uerr != nil:
				b.Violation("C08:roundtrip-unwrap-error:"+path, "Unwrap of the parsed record failed: "+uerr.Error(), detail(map[string]any{"stored_hex": hex.EncodeToString(trunc(stored, 400))}))
				return
			case fresh.Key() != key || fresh.DatabaseName() != hdb || fresh.DatabaseKey() != hkey:
				b.Violation("C08:roundtrip-unwrap-key:"+path, fmt.Sprintf("the typed record unwrapped from the parsed stored form has key %q, the original key is %q", fresh.Key(), key), detail(nil))
				return
			case !reflect.DeepEqual(fresh, expect):
				b.Violation("C08:roundtrip-unwrap-value:"+path, "the typed record unwrapped from the parsed stored form differs from the original",
					detail(map[string]any{"original": fmt.Sprintf("%+v", expect), "unwrapped": fmt.Sprintf("%+v", fresh), "stored_hex": hex.EncodeToString(trunc(stored, 400))}))
				return
			}
		}
	}

	// the parsed record is a record: serialise and parse it once more
	if !c08Reparse(c, "c08.rt", id, "roundtrip", w2) {
		return
	}
	b.Distinct([]byte("rt"), id)
}

// c08Reparse serialises a parsed wrapper and parses the result; everything must come
// back (no data for deleted records).
func c08Reparse(c *ctx, class string, id []byte, prefix string, w *record.Wrapper) bool {
	var again []byte
	var err error
	if c.call(class, id, func() { again, err = w.MarshalRecord(w) }) {
		return false
	}
	pre := ""
	if w.Meta().IsDeleted() {
		pre = ":deleted"
	} else if w.Format >= 128 {
		pre = ":format>=128"
	}
	if err != nil {
		c.b.Violation("C08:"+prefix+"-marshal-error:Reparse"+pre, "MarshalRecord of a record returned by NewRawWrapper failed: "+err.Error(),
			map[string]any{"class": class, "input_hex": hex.EncodeToString(id), "build": c.spec.Kind})
		return false
	}
	c08stats.reparses++
	want := c08Expect{key: w.Key(), meta: w.Meta(), format: w.Format, data: w.Data, deleted: w.Meta().IsDeleted()}
	path := "Reparse"
	if prefix != "roundtrip" {
		path = "Reparse-of-hostile"
	}
	return c08ParseBoth(c, class, id, path, w.DatabaseName(), w.DatabaseKey(), again, want) != nil
}

// ---------------------------------------------------------------------------------
// totality

func c08Parse(c *ctx, in []byte) {
	b := c.b
	b.Eval(1)
	c08stats.hostile++
	bad := func(kind, what string) {
		b.Violation("C08:"+kind+":NewRawWrapper", what, map[string]any{"class": "c08.parse", "input_hex": hex.EncodeToString(in), "build": c.spec.Kind})
	}
	type res struct {
		w   *record.Wrapper
		err error
	}
	var rs [2]res
	for vi, variant := range []string{"exact", "embedded"} {
		var view []byte
		if variant == "exact" {
			view = exact(in)
		} else {
			view, _, _ = embed(in)
		}
		var w *record.Wrapper
		var err error
		if p, x := c08Monitored(c, "c08.parse", in, "NewRawWrapper", len(in), func() { w, err = record.NewRawWrapper("db", "hostile/key", view) }); p || x {
			return
		}
		switch {
		case w == nil && err == nil:
			bad("totality-neither-record-nor-error", "NewRawWrapper returned (nil, nil)")
			return
		case w != nil && err != nil:
			bad("totality-record-and-error", fmt.Sprintf("NewRawWrapper returned a record and the error %v", err))
			return
		case w != nil && w.Meta() == nil:
			bad("totality-record-without-meta", "NewRawWrapper returned a record whose Meta() is nil")
			return
		case w != nil && !inside(w.Data, view, len(in)):
			bad("slice-outside-input", "the returned Data slice does not lie inside the input")
			return
		case w != nil && variant == "embedded" && bytes.IndexByte(w.Data, canaryByte) >= 0 && bytes.IndexByte(in, canaryByte) < 0:
			bad("canary-in-output", "the returned Data contains bytes from outside the input")
			return
		}
		rs[vi] = res{w, err}
	}
	a, e := rs[0], rs[1]
	switch {
	case (a.err == nil) != (e.err == nil):
		bad("totality-depends-on-surroundings", fmt.Sprintf("parsing the same bytes gives error=%v from an exact-capacity slice and error=%v from a slice embedded in a larger buffer", a.err, e.err))
		return
	case a.err != nil:
		c08stats.hostileErr++
		if !c08SameErrorText(c, in, "NewRawWrapper", a.err, e.err) {
			return
		}
		msg := a.err.Error()
		if i := strings.Index(msg, ":"); i > 0 {
			msg = msg[:i]
		}
		if len(msg) > 40 {
			msg = msg[:40]
		}
		b.Seen("hostile_error_kinds", msg)
	default:
		c08stats.hostileOK++
		if !c08MetaEqual(a.w.Meta(), e.w.Meta()) || a.w.Format != e.w.Format || !bytes.Equal(a.w.Data, e.w.Data) {
			bad("totality-depends-on-surroundings", "parsing the same bytes from an exact-capacity slice and from an embedded slice gives different records")
			return
		}
		if len(in) > 2 {
			// which serialisation the meta section used (coverage only): layout is
			// version | varint length | dsd format id | ...
			if _, n, st := refDecode(in[1:]); st == refOK && 1+n < len(in) {
				b.Seen("meta_section_formats_accepted", fmt.Sprint(in[1+n]))
			}
		}
		if a.w.Meta().IsDeleted() {
			b.Count("hostile_parsed_deleted", 1)
		}
		if !c08Reparse(c, "c08.parse", in, "totality", a.w) {
			return
		}
		if !c08UnwrapHostile(c, in, a.w, e.w) {
			return
		}
	}
	b.Distinct([]byte("h"), in)
}

// c08SameErrorText: the error returned for the exact-capacity copy and for the view
// embedded in a canary-filled buffer must read the same and must not show canary bytes -
// an error text that quotes bytes from behind the input has read beyond the input.
func c08SameErrorText(c *ctx, in []byte, fn string, exactErr, embErr error) bool {
	x, m := fmt.Sprint(exactErr), fmt.Sprint(embErr)
	detail := map[string]any{"class": "c08.parse", "input_hex": hex.EncodeToString(in), "build": c.spec.Kind, "error_exact_capacity": x, "error_embedded": m}
	if x != m {
		c.b.Violation("C08:error-text-depends-on-surroundings:"+fn, fmt.Sprintf("%s of the same %d bytes returns %q for an exact-capacity slice and %q for a sub-slice of a larger buffer: the text contains bytes from behind the input", fn, len(in), x, m), detail)
		return false
	}
	if bytes.IndexByte(in, canaryByte) < 0 && (strings.Contains(m, "a7 a7") || strings.Contains(m, "\xa7\xa7") || strings.Contains(m, "\\xa7\\xa7")) {
		c.b.Violation("C08:canary-in-error-text:"+fn, fmt.Sprintf("%s error text %q shows bytes from behind the input", fn, m), detail)
		return false
	}
	return true
}

// c08UnwrapHostile unwraps a record parsed from hostile bytes into the typed harness
// struct, for the exact and the embedded parse: value or error, no panic, allocation in
// proportion, and the same outcome (value, error text) for both. MsgPack payloads are left
// to C09 (its known finding: the MsgPack decoder allocates by length header).
func c08UnwrapHostile(c *ctx, in []byte, wa, we *record.Wrapper) bool {
	if wa.Meta().IsDeleted() {
		return true
	}
	if wa.Format == dsd.MsgPack {
		c08stats.unwrapSkippedMsgPack++
		return true
	}
	c08stats.unwrapHostile++
	ra, re := &c08Rec{}, &c08Rec{}
	var ea, ee error
	if p, x := c08Monitored(c, "c08.parse", in, "Unwrap", len(in), func() { ea = record.Unwrap(wa, ra) }); p || x {
		return false
	}
	if p, x := c08Monitored(c, "c08.parse", in, "Unwrap", len(in), func() { ee = record.Unwrap(we, re) }); p || x {
		return false
	}
	detail := map[string]any{"class": "c08.parse", "input_hex": hex.EncodeToString(in), "build": c.spec.Kind, "error_exact_capacity": fmt.Sprint(ea), "error_embedded": fmt.Sprint(ee)}
	switch {
	case (ea == nil) != (ee == nil):
		c.b.Violation("C08:totality-depends-on-surroundings:Unwrap", fmt.Sprintf("Unwrap of the record parsed from the same bytes gives error=%v (exact-capacity input) and error=%v (embedded input)", ea, ee), detail)
		return false
	case ea != nil:
		c08stats.unwrapHostileErr++
		return c08SameErrorText(c, in, "Unwrap", ea, ee)
	case !reflect.DeepEqual(ra, re):
		c.b.Violation("C08:totality-depends-on-surroundings:Unwrap", "Unwrap of the record parsed from the same bytes yields different values for the exact-capacity and the embedded input", detail)
		return false
	}
	return true
}

func c08Block(body []byte) []byte { return append(refEncode(uint64(len(body))), body...) }

// c08Bases builds valid stored records (some with the metadata section re-encoded in
// the other serialisations the decoder accepts) that the hostile generators mutate.
func c08Bases(c *ctx) (bases [][]byte) {
	add := func(meta *record.Meta, format uint8, payload []byte) {
		w, _ := record.NewWrapper("db:hostile/key", meta, format, payload)
		var out []byte
		c.call("c08.parse", nil, func() { out, _ = w.MarshalRecord(w) })
		if out != nil {
			bases = append(bases, out)
		}
	}
	live := &record.Meta{Created: 1600000000, Modified: 1600000001, Expires: 1700000000}
	secret := &record.Meta{Created: math.MaxInt64, Modified: math.MinInt64, Expires: -1, Deleted: -3600}
	secret.MakeSecret()
	secret.MakeCrownJewel()
	dead := &record.Meta{Created: 1, Modified: 2, Expires: 3, Deleted: 1600000002}
	add(live, dsd.JSON, []byte(`{"a":"b"}`))
	add(live, dsd.RAW, []byte{0x01, 0x02, 0x03})
	add(live, 0, nil)
	add(secret, 127, []byte{0x01})
	add(secret, dsd.CBOR, []byte{0xa1, 0x61, 0x61, 0x01})
	add(dead, dsd.JSON, []byte("ignored"))
	add(live, dsd.JSON, bytes.Repeat([]byte("x"), 200))
	t := &c08Rec{S: "typed", I: 7}
	t.SetKey("db:hostile/key")
	t.SetMeta(live)
	c.call("c08.parse", nil, func() {
		if out, err := t.MarshalRecord(t); err == nil {
			bases = append(bases, out)
		}
	})
	// other metadata serialisations
	for _, ml := range []c08MetaLike{{1600000000, 1600000001, 0, 0}, {1, 2, 3, 1600000002}, {math.MinInt64, math.MaxInt64, -1, -5}} {
		for _, f := range []uint8{dsd.JSON, dsd.CBOR, dsd.MsgPack, dsd.YAML} {
			ml := ml
			var sec []byte
			var err error
			c.call("c08.parse", nil, func() { sec, err = dsd.Dump(&ml, f) })
			if err == nil {
				bases = append(bases, cat([]byte{1}, c08Block(sec), []byte{dsd.JSON}, []byte(`{"k":1}`)))
			}
		}
		var z []byte
		var err error
		c.call("c08.parse", nil, func() {
			z, err = dsd.DumpAndCompress(&record.Meta{Created: ml.Created, Modified: ml.Modified, Expires: ml.Expires, Deleted: ml.Deleted}, dsd.GenCode, dsd.GZIP)
		})
		if err == nil {
			bases = append(bases, cat([]byte{1}, c08Block(z), []byte{dsd.RAW}, []byte{9, 9, 9}))
		}
	}
	return bases
}

// tags of generated hostile inputs
const (
	c08Plain = iota
	c08Claim // a length field claims 256..400 MiB: run first in every shard (monitor canary)
	c08Last  // a length field claims a gigabyte or more: run last, in shard 0 only
)

// c08Gzip is the harness-side compressor (compress/gzip, not portbase).
func c08Gzip(p []byte) []byte {
	var buf bytes.Buffer
	w, _ := gzip.NewWriterLevel(&buf, gzip.BestCompression)
	_, _ = w.Write(p)
	_ = w.Close()
	return buf.Bytes()
}

// c08WithMeta frames a metadata section (dsd blob) as a stored record.
func c08WithMeta(section []byte) []byte {
	return cat([]byte{1}, c08Block(section), []byte{dsd.JSON}, []byte(`{"k":1}`))
}

func c08LE32(v uint32) []byte { var b [4]byte; binary.LittleEndian.PutUint32(b[:], v); return b[:] }

// c08GzipFamily produces stored records whose metadata section is a gzip-compressed dsd
// blob ('Z' + RFC 1952 member), valid and with single-field corruptions of every gzip
// field: header bytes and flag bits (FEXTRA/XLEN, FNAME, FCOMMENT, FHCRC), deflate stream
// (byte flips, truncations, stored-block LEN/NLEN), CRC32 and ISIZE trailer; plus other
// inner blobs, multi-member streams, legitimately highly compressible sections, and records
// whose data section is compressed. emit(input, last): last = claims of a gigabyte and
// more, which are run at the very end of shard 0 only.
func c08GzipFamily(emit func(in []byte, tag int)) {
	metas := []*record.Meta{{Created: 1600000000, Modified: 1600000001, Expires: 1700000000}, {Created: 1, Modified: 2, Expires: 3, Deleted: 1600000002},
		{Created: math.MinInt64, Modified: math.MaxInt64, Expires: -1, Deleted: -5}}
	z := func(gz []byte) []byte { return c08WithMeta(cat([]byte{dsd.GZIP}, gz)) }
	for mi, m := range metas {
		g34, _ := m.GenCodeMarshal(nil)
		inner := cat([]byte{dsd.GenCode}, g34)
		gz := c08Gzip(inner)
		n := len(gz)
		hdr, body, crc, isize := gz[:10], gz[10:n-8], gz[n-8:n-4], gz[n-4:]
		emit(z(gz), c08Plain)
		// ISIZE trailer (the one length field of the container format)
		for _, v := range []uint32{0, 1, uint32(len(inner)) - 1, uint32(len(inner)) + 1, 34, 255, 256, 65535, 65536, 1 << 20, 1 << 24} {
			emit(z(cat(hdr, body, crc, c08LE32(v))), c08Plain)
		}
		for _, v := range []uint32{256 << 20, 400 << 20} { // above what any input of this size may make the decoder allocate
			emit(z(cat(hdr, body, crc, c08LE32(v))), c08Claim)
		}
		if mi == 0 {
			for _, v := range []uint32{1 << 30, 1 << 31, math.MaxUint32} {
				emit(z(cat(hdr, body, crc, c08LE32(v))), c08Last)
			}
		}
		// CRC32
		emit(z(cat(hdr, body, c08LE32(0), isize)), c08Plain)
		emit(z(cat(hdr, body, c08LE32(math.MaxUint32), isize)), c08Plain)
		for i := 0; i < 4; i++ {
			x := cat(gz)
			x[n-8+i] ^= 0x01
			emit(z(x), c08Plain)
		}
		// header bytes and flags
		for i := 0; i < 10; i++ {
			for _, f := range []func(byte) byte{func(b byte) byte { return 0 }, func(b byte) byte { return 0xff }, func(b byte) byte { return b ^ 1 }, func(b byte) byte { return b ^ 0x80 }} {
				x := cat(gz)
				x[i] = f(x[i])
				emit(z(x), c08Plain)
			}
		}
		for bit := 0; bit < 8; bit++ {
			x := cat(gz)
			x[3] |= 1 << uint(bit)
			emit(z(x), c08Plain)
		}
		flagged := func(flg byte, extra []byte) []byte {
			h := cat(hdr)
			h[3] = flg
			return z(cat(h, extra, body, crc, isize))
		}
		for _, xlen := range []uint16{0, 1, 4, 255, 4096, 65535} { // FEXTRA with XLEN
			l := []byte{byte(xlen), byte(xlen >> 8)}
			emit(flagged(0x04, l), c08Plain)
			if xlen <= 4096 {
				emit(flagged(0x04, cat(l, bytes.Repeat([]byte{0x55}, int(xlen)))), c08Plain)
			}
		}
		emit(flagged(0x08, []byte("name\x00")), c08Plain)
		emit(flagged(0x08, []byte("unterminated name")), c08Plain)
		emit(flagged(0x10, []byte("comment\x00")), c08Plain)
		emit(flagged(0x10, bytes.Repeat([]byte("c"), 600)), c08Plain)
		emit(flagged(0x02, []byte{0x12, 0x34}), c08Plain)
		emit(flagged(0x1e, cat([]byte{2, 0, 7, 7}, []byte("n\x00c\x00"), []byte{0, 0})), c08Plain)
		// deflate stream
		for i := range body {
			for _, f := range []func(byte) byte{func(b byte) byte { return ^b }, func(b byte) byte { return b ^ 1 }, func(b byte) byte { return 0 }, func(b byte) byte { return 0xff }} {
				x := cat(body)
				x[i] = f(x[i])
				emit(z(cat(hdr, x, crc, isize)), c08Plain)
			}
			emit(z(cat(hdr, body[:i], crc, isize)), c08Plain) // stream cut, trailer kept
		}
		for k := 0; k <= n; k++ { // member cut anywhere
			emit(z(gz[:k]), c08Plain)
		}
		// stored (uncompressed) deflate block: 01 LEN NLEN data
		stored := func(l, nl uint16, data []byte) []byte {
			return z(cat(hdr, []byte{0x01, byte(l), byte(l >> 8), byte(nl), byte(nl >> 8)}, data, crc, isize))
		}
		L := uint16(len(inner))
		emit(stored(L, ^L, inner), c08Plain)
		for _, l := range []uint16{0, 1, L - 1, L + 1, 0x7fff, 0xffff} {
			emit(stored(l, ^l, inner), c08Plain)
			emit(stored(l, ^L, inner), c08Plain)
			emit(stored(L, ^l, inner), c08Plain)
		}
		// several members; trailing garbage
		emit(z(cat(gz, gz)), c08Plain)
		emit(z(cat(gz, gz[:12])), c08Plain)
		emit(z(cat(gz, []byte{0, 0, 0, 0})), c08Plain)
		// the data section compressed (opaque to the record parser)
		rw, _ := record.NewWrapper("db:hostile/key", m, dsd.GZIP, gz)
		if out, err := rw.MarshalRecord(rw); err == nil {
			emit(out, c08Plain)
			for _, v := range []uint32{0, 1 << 24, 400 << 20, math.MaxUint32} {
				emit(cat(out[:len(out)-4], c08LE32(v)), c08Plain)
			}
		}
	}
	// other inner blobs
	g34, _ := metas[0].GenCodeMarshal(nil)
	js := []byte(`{"Created":1600000000,"Modified":1600000001,"Expires":0,"Deleted":0}`)
	for _, inner := range [][]byte{
		nil, {dsd.GenCode}, cat([]byte{dsd.GenCode}, g34[:33]), cat([]byte{dsd.GenCode}, g34, []byte{1, 2, 3}), cat([]byte{dsd.JSON}, js), cat([]byte{dsd.JSON}, js[:20]),
		cat([]byte{dsd.YAML}, []byte("Created: 5\nDeleted: 0\n")), {dsd.RAW, 1, 2, 3}, {dsd.AUTO, 1, 2, 3}, {dsd.LIST, 1}, {0x80, 0x01, 1},
		cat([]byte{dsd.GZIP}, c08Gzip(cat([]byte{dsd.GenCode}, g34))), // nested compression
		cat([]byte{dsd.MsgPack}, []byte{0xdf, 0xff, 0xff, 0xff, 0xff}), cat([]byte{dsd.MsgPack}, []byte{0x81, 0xa1, 0x78, 0xc6, 0xff, 0xff, 0xff, 0xff}),
		cat([]byte{dsd.CBOR}, []byte{0xbb, 0xff, 0xff, 0xff, 0xff, 0xff, 0xff, 0xff, 0xff}), cat([]byte{dsd.CBOR}, []byte{0xa1, 0x61, 0x78, 0x5a, 0xff, 0xff, 0xff, 0xff}),
		// legitimately compressible sections (the calibration of the allocation bound)
		cat([]byte{dsd.GenCode}, g34, make([]byte, 64<<10)), cat([]byte{dsd.GenCode}, g34, make([]byte, 1<<20)), cat([]byte{dsd.GenCode}, g34, make([]byte, 3500<<10)),
		cat([]byte{dsd.JSON}, bytes.Repeat([]byte(" "), 2<<20), js),
	} {
		emit(z(c08Gzip(inner)), c08Plain)
	}
}

// c08LengthBombs replaces every byte of a CBOR / MsgPack metadata section by a length
// header that announces far more than follows (the dsd-level length fields).
func c08LengthBombs(emit func(in []byte, tag int)) {
	bombs := map[uint8][][]byte{
		dsd.MsgPack: {{0xc6, 0xff, 0xff, 0xff, 0xff}, {0xc6, 0x7f, 0xff, 0xff, 0xff}, {0xdb, 0xff, 0xff, 0xff, 0xff}, {0xdd, 0xff, 0xff, 0xff, 0xff}, {0xdf, 0xff, 0xff, 0xff, 0xff},
			{0xdf, 0x00, 0xff, 0xff, 0xff}, {0xdc, 0xff, 0xff}, {0xde, 0xff, 0xff}, {0xc5, 0xff, 0xff}, {0xda, 0xff, 0xff}, {0xc9, 0xff, 0xff, 0xff, 0xff, 0x01}, {0xc4, 0xff}, {0xd9, 0xff}},
		dsd.CBOR: {{0x5b, 0xff, 0xff, 0xff, 0xff, 0xff, 0xff, 0xff, 0xff}, {0x5a, 0xff, 0xff, 0xff, 0xff}, {0x7b, 0x7f, 0xff, 0xff, 0xff, 0xff, 0xff, 0xff, 0xff}, {0x7a, 0xff, 0xff, 0xff, 0xff},
			{0x9b, 0xff, 0xff, 0xff, 0xff, 0xff, 0xff, 0xff, 0xff}, {0x9a, 0x00, 0xff, 0xff, 0xff}, {0xbb, 0xff, 0xff, 0xff, 0xff, 0xff, 0xff, 0xff, 0xff}, {0xba, 0x00, 0xff, 0xff, 0xff},
			{0x59, 0xff, 0xff}, {0x79, 0xff, 0xff}, {0x99, 0xff, 0xff}, {0xb9, 0xff, 0xff}, {0x5f}, {0x9f}, {0xbf}, {0xdb, 0xff, 0xff, 0xff, 0xff, 0xff, 0xff, 0xff, 0xff}},
	}
	ml := c08MetaLike{1600000000, 1600000001, -1, 0}
	for _, f := range []uint8{dsd.MsgPack, dsd.CBOR} {
		sec, err := dsd.Dump(&ml, f)
		if err != nil {
			continue
		}
		for i := 1; i <= len(sec); i++ {
			for _, bomb := range bombs[f] {
				if i < len(sec) {
					emit(c08WithMeta(cat(sec[:i], bomb, sec[i+1:])), c08Plain)
				}
				emit(c08WithMeta(cat(sec[:i], bomb)), c08Plain)
			}
		}
	}
}

func runC08(c *ctx) {
	s, ns := c.spec.Shard, c.spec.NShards
	idx := 0
	mine := func() bool { idx++; return (idx-1)%ns == s }

	// ---- round trips
	nrt := c.n(48000, 480000)
	for i := 0; i < nrt; i++ {
		if mine() {
			c08RoundTrip(c, c.spec.Seed, uint64(i))
		}
	}

	// ---- hostile inputs
	bases := c08Bases(c)
	if s == 0 {
		for _, bs := range [][]byte{bases[0], bases[5]} {
			w, err := record.NewRawWrapper("db", "hostile/key", exact(bs))
			smp := map[string]any{"class": "c08.parse", "input_hex": hex.EncodeToString(bs), "error": fmt.Sprint(err)}
			if w != nil {
				smp["parsed"] = map[string]any{"key": w.Key(), "meta": c08MetaString(w.Meta()), "format": w.Format, "data_hex": hex.EncodeToString(w.Data)}
			}
			c.b.Sample(smp)
			_, err = record.NewRawWrapper("db", "hostile/key", exact(bs[:20]))
			c.b.Sample(map[string]any{"class": "c08.parse", "input_hex": hex.EncodeToString(bs[:20]), "error": fmt.Sprint(err)})
		}
	}
	try := func(in []byte) {
		if mine() {
			if len(in) > 4096 {
				in = in[:4096]
			}
			c08Parse(c, in)
		}
	}
	// every shard first parses two records whose gzip size trailer claims 256 / 400 MiB for
	// 35 bytes: on a tree that trusts the trailer each child reports it through the
	// allocation monitor before any larger claim can end the process
	c08GzipFamily(func(in []byte, tag int) {
		if tag == c08Claim && c08stats.canaries < 2 {
			c08stats.canaries++
			c08Parse(c, in)
		}
	})
	try(nil)
	lens := []uint64{0, 1, 2, 3, 4, 5, 6, 7, 8, 9, 10, 11, 12, 13, 14, 15, 16, 17, 33, 34, 35, 36, 37, 127, 128, 255, 256, 16383, 16384, 1 << 31, 1<<31 - 1, 1 << 32, 1<<63 - 1, 1 << 63, 1<<63 + 1,
		math.MaxUint64 - 36, math.MaxUint64 - 35, math.MaxUint64 - 1, math.MaxUint64}
	for bi, bs := range bases {
		// (a) every truncation
		for n := 0; n <= len(bs); n++ {
			try(bs[:n])
		}
		// (b) single-field corruptions. Layout: version | varint(len) | meta section | format | data
		_, ln, _ := refDecode(bs[1:])
		mv, _, _ := refDecode(bs[1:])
		mlen := int(mv.Uint64())
		metaStart := 1 + ln
		rest := bs[metaStart:]
		for v := 0; v < 256; v++ { // version byte
			try(cat([]byte{byte(v)}, bs[1:]))
			try(cat([]byte{byte(v), 0x01}, bs[1:])) // two-byte version varints
		}
		for _, l := range append(lens, uint64(len(rest)), uint64(len(rest))+1, uint64(len(rest))-1, uint64(mlen)-1, uint64(mlen)+1, uint64(mlen)+2) {
			try(cat(bs[:1], refEncode(l), rest))
		}
		for _, raw := range [][]byte{{0x80}, {0xff, 0xff}, bytes.Repeat([]byte{0xff}, 9), bytes.Repeat([]byte{0xff}, 10), append(bytes.Repeat([]byte{0x80}, 9), 0x02), append(bytes.Repeat([]byte{0x80}, 10), 0x00), {0x80, 0x00}} {
			try(cat(bs[:1], raw, rest)) // malformed / non-canonical length varints
		}
		for i := metaStart; i < metaStart+mlen && i < len(bs); i++ { // each meta byte
			for _, f := range []func(byte) byte{func(x byte) byte { return x ^ 0xff }, func(x byte) byte { return x ^ 1 }, func(byte) byte { return 0x80 }, func(byte) byte { return 1 }, func(byte) byte { return 0 }} {
				m := cat(bs)
				m[i] = f(m[i])
				try(m)
			}
		}
		for v := 0; v < 256; v++ { // dsd format id of the meta section
			m := cat(bs)
			m[metaStart] = byte(v)
			try(m)
			try(cat(bs[:metaStart], []byte{byte(v) | 0x80, 0x01}, bs[metaStart+1:]))
		}
		// format varint of the data: all one-byte forms everywhere, all two-byte forms on a few bases
		fpos := metaStart + mlen
		if fpos < len(bs) {
			for v := 0; v < 256; v++ {
				m := cat(bs)
				m[fpos] = byte(v)
				try(m)
			}
			if bi == 0 || bi == 3 || bi == 8 {
				for v := 0; v < 65536; v++ {
					try(cat(bs[:fpos], []byte{byte(v >> 8), byte(v)}, bs[fpos+1:]))
				}
			}
		}
	}
	// (b') compressed sections and dsd-level length headers
	var last [][]byte
	c08GzipFamily(func(in []byte, tag int) {
		if tag == c08Last {
			last = append(last, in)
			return
		}
		if mine() {
			c08stats.gzipFamily++
			c08Parse(c, in)
		}
	})
	c08LengthBombs(func(in []byte, _ int) {
		if mine() {
			c08stats.lenBombs++
			c08Parse(c, in)
		}
	})
	// (c) PRNG strings
	r := c.rand("hostile")
	nh := c.n(160000, 1600000) / ns
	for i := 0; i < nh; i++ {
		var in []byte
		switch r.Intn(6) {
		case 0:
			in = r.Bytes(r.Intn(257))
		case 1: // valid header, random rest
			in = cat([]byte{1}, refEncode(uint64(r.Intn(40))), r.Bytes(r.Intn(80)))
		case 2: // valid prefix of a base + random tail
			bs := bases[r.Intn(len(bases))]
			in = cat(bs[:r.Intn(len(bs)+1)], r.Bytes(r.Intn(40)))
		case 3: // gencode-shaped: version, 35, 'G', 34 random bytes, format, data
			in = cat([]byte{1, 35, dsd.GenCode}, r.Bytes(34), r.Bytes(r.Intn(12)))
			if r.Bool() {
				in[3+24+7] &= 0x7f // make Deleted non-negative more often
			}
		default: // mutated base
			in = cat(bases[r.Intn(len(bases))])
			for k := r.Range(1, 4); k > 0 && len(in) > 0; k-- {
				p := r.Intn(len(in))
				switch r.Intn(4) {
				case 0:
					in[p] = byte(r.Intn(256))
				case 1:
					in = append(in[:p], in[p+1:]...)
				case 2:
					in = cat(in[:p], r.Bytes(r.Range(1, 3)), in[p:])
				default:
					in[p] ^= 1 << uint(r.Intn(8))
				}
			}
		}
		idx = s // PRNG cases are already per shard
		try(in)
	}

	// claims of a gigabyte and more: a decoder that trusts them does not survive (address-
	// space limit / watchdog); they come last and in one shard so that everything else of
	// the run is still reported
	if s == 0 {
		for _, in := range last {
			c08stats.gzipFamily++
			c08Parse(c, in)
		}
	}

	b := c.b
	b.Count("roundtrips", c08stats.rt)
	b.Count("roundtrips_wrapper", c08stats.rtWrapper)
	b.Count("roundtrips_typed", c08stats.rtTyped)
	b.Count("roundtrips_typed_carried_in_wrapper", c08stats.rtCarried)
	b.Count("roundtrips_deleted", c08stats.rtDeleted)
	b.Count("roundtrips_key_with_colon_in_db_key", c08stats.rtKeyColon)
	b.Count("roundtrips_format_ge_128", c08stats.rtFmtHigh)
	b.Count("roundtrips_typed_unwrapped", c08stats.unwraps)
	b.Count("reparses_of_parsed_records", c08stats.reparses)
	b.Count("hostile_inputs", c08stats.hostile)
	b.Count("hostile_parsed_ok", c08stats.hostileOK)
	b.Count("hostile_rejected", c08stats.hostileErr)
	b.Max("max_payload_bytes", c08stats.payloadMax)
	b.Count("roundtrips_typed_large", c08stats.typedLarge)
	b.Max("max_typed_stored_bytes", c08stats.typedStoredMax)
	b.Count("hostile_unwraps", c08stats.unwrapHostile)
	b.Count("hostile_unwraps_rejected", c08stats.unwrapHostileErr)
	b.Count("hostile_unwraps_skipped_msgpack", c08stats.unwrapSkippedMsgPack)
	b.Count("alloc_monitored_calls", c08stats.allocCalls)
	b.Max("alloc_max_bytes_in_one_parse_call", c08stats.allocMax)
	b.Max("alloc_max_bytes_per_input_byte", c08stats.allocRatioMax)
	b.Max("alloc_max_permille_of_bound", c08stats.allocPermille)
	b.Max("max_resident_set_mib", c08RSSMax.Load()>>20)
	if c.spec.Kind == "plain" || c.spec.Kind == "checkptr" {
		b.Max("max_address_space_mib_under_6144_limit", c08VMMax.Load()>>20)
	}
	b.Count("hostile_gzip_family_inputs", c08stats.gzipFamily)
	b.Count("hostile_length_header_bombs", c08stats.lenBombs)
}
