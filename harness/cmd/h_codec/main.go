// h_codec — engine for the pure-function properties C08 C09 C10 C11 C16.
//
// Parent mode: derives the shard list from VERIF_SEED, runs every shard in a child
// process once per available build (plain, -race (= checkptr), -d=checkptr, -asan),
// merges what the children observed and turns dead children into witnesses (the shard
// is re-run with input journaling to name the input that killed it).
// Child mode: generates its shard's cases and runs the monitors in-process; every call
// into portbase is wrapped so that a recovered panic is a violation with its input.
package main

import (
	"bufio"
	"encoding/hex"
	"encoding/json"
	"fmt"
	"os"
	"path/filepath"
	"runtime/debug"
	"strings"
	"time"
	"unsafe"

	"verifharness/internal/vlib"
)

type shardSpec struct {
	Prop    string `json:"prop"`
	Tier    string `json:"tier"`
	Seed    uint64 `json:"seed"`
	Shard   int    `json:"shard"`
	NShards int    `json:"nshards"`
	Kind    string `json:"kind"`
	Journal bool   `json:"journal"`
	// replay of a single recorded input (class-specific)
	ReplayClass string `json:"replay_class,omitempty"`
	ReplayInput string `json:"replay_input,omitempty"` // hex
}

type propImpl struct {
	shards func(cfg vlib.Cfg) int
	run    func(c *ctx)
	finish func(cfg vlib.Cfg, r *vlib.Report)
	rule   string
}

var props = map[string]*propImpl{}

// ctx is the per-child context handed to a property's shard runner.
type ctx struct {
	spec    shardSpec
	b       *vlib.Batch
	dir     string
	journal *os.File
}

func (c *ctx) thorough() bool { return c.spec.Tier == "thorough" }
func (c *ctx) n(q, t int) int {
	if c.thorough() {
		return t
	}
	return q
}
func (c *ctx) rand(label string) *vlib.Rand {
	return vlib.NewRand(c.spec.Seed, c.spec.Prop+"/"+label, uint64(c.spec.Shard))
}

// call runs fn guarded: the input is journaled first when journaling is on (so that a
// process-fatal error names it), and a recovered panic becomes a violation.
func (c *ctx) call(class string, input []byte, fn func()) (panicked bool) {
	if c.journal != nil {
		fmt.Fprintf(c.journal, "%s %s\n", class, hex.EncodeToString(input))
	}
	defer func() {
		if r := recover(); r != nil {
			panicked = true
			st := string(debug.Stack())
			c.b.Violation(c.spec.Prop+":panic:"+class+":"+panicSite(st),
				fmt.Sprintf("%s panicked: %v", class, r),
				map[string]any{"class": class, "input_hex": hex.EncodeToString(trunc(input, 65536)), "input_len": len(input),
					"panic": fmt.Sprint(r), "stack": trimStack(st), "build": c.spec.Kind})
		}
	}()
	fn()
	return false
}

func trunc(b []byte, n int) []byte {
	if len(b) > n {
		return b[:n]
	}
	return b
}

// panicSite returns the innermost portbase (or dependency) function on a panic stack;
// it is part of the violation signature so that different crash sites stay distinct.
func panicSite(st string) string {
	lines := strings.Split(st, "\n")
	seenPanic := false
	for _, ln := range lines {
		if strings.HasPrefix(ln, "panic(") {
			seenPanic = true
			continue
		}
		if !seenPanic || strings.HasPrefix(ln, "\t") || ln == "" {
			continue
		}
		if strings.HasPrefix(ln, "runtime.") || strings.HasPrefix(ln, "runtime/") {
			continue
		}
		fn := ln
		if i := strings.LastIndex(fn, "("); i > 0 {
			fn = fn[:i]
		}
		fn = strings.TrimPrefix(fn, "github.com/safing/portbase/")
		return fn
	}
	return "unknown"
}

func trimStack(st string) string {
	if len(st) > 3000 {
		return st[:3000]
	}
	return st
}

// ---------------------------------------------------------------------------------
// over-read monitor helpers (§3.4 of DESIGN.md)

const canaryByte = 0xA7

// exact returns a copy of in whose capacity equals its length: any re-slice beyond
// the input panics instead of silently reading neighbouring bytes.
func exact(in []byte) []byte {
	out := make([]byte, len(in))
	copy(out, in)
	return out[:len(in):len(in)]
}

// embed returns the input placed in the middle of a larger canary-filled buffer; the
// returned slice has len(in) but a capacity that reaches into the canary area.
func embed(in []byte) (view []byte, whole []byte, off int) {
	const pad = 64
	whole = make([]byte, len(in)+2*pad)
	for i := range whole {
		whole[i] = canaryByte
	}
	copy(whole[pad:], in)
	return whole[pad : pad+len(in)], whole, pad
}

// inside reports whether sub lies within the first n bytes of base's backing array
// window [base, base+n).
func inside(sub, base []byte, n int) bool {
	if len(sub) == 0 {
		return true
	}
	if len(base) == 0 && cap(base) == 0 {
		return false
	}
	bp := uintptr(unsafe.Pointer(unsafe.SliceData(base)))
	sp := uintptr(unsafe.Pointer(unsafe.SliceData(sub)))
	return sp >= bp && sp+uintptr(len(sub)) <= bp+uintptr(n)
}

// ---------------------------------------------------------------------------------

func main() {
	if dir, ok := vlib.IsChild(); ok {
		childMain(dir)
		return
	}
	cfg := vlib.Load()
	p := props[cfg.Prop]
	if p == nil {
		fmt.Println("h_codec: unknown property", cfg.Prop)
		os.Exit(2)
	}
	rep := vlib.NewReport(cfg)
	rep.Rule(p.rule)
	n := p.shards(cfg)
	type bk struct{ kind, bin string }
	builds := []bk{{"plain", cfg.BinPlain}}
	if cfg.BinRace != "" {
		builds = append(builds, bk{"race", cfg.BinRace})
	}
	if cfg.BinCptr != "" {
		builds = append(builds, bk{"checkptr", cfg.BinCptr})
	}
	if cfg.BinAsan != "" {
		builds = append(builds, bk{"asan", cfg.BinAsan})
	}
	var specs []vlib.ChildSpec
	var sspecs []shardSpec
	for _, b := range builds {
		for s := 0; s < n; s++ {
			// the sanitizer builds repeat a subset of the shards (they watch for
			// memory errors on the same inputs; the oracles run in all builds)
			if b.kind != "plain" && !cfg.Thorough() && s%2 == 1 && n > 4 {
				continue
			}
			sp := shardSpec{Prop: cfg.Prop, Tier: cfg.Tier, Seed: cfg.Seed, Shard: s, NShards: n, Kind: b.kind}
			sspecs = append(sspecs, sp)
			specs = append(specs, vlib.ChildSpec{Name: fmt.Sprintf("%s-%03d", b.kind, s), Bin: b.bin, Spec: sp,
				Timeout: 20 * time.Minute, Race: b.kind == "race",
				Env: []string{"ASAN_OPTIONS=abort_on_error=0:halt_on_error=1:detect_leaks=0"}})
		}
	}
	if cfg.Replay != "" {
		specs, sspecs = replaySpecs(cfg, builds[0].bin)
	}
	vlib.RunChildren(cfg, specs, func(i int, c *vlib.ChildResult) {
		sp := sspecs[i]
		rep.Seen("builds_run", sp.Kind)
		if sp.Kind != "plain" {
			// same case list as the plain build: count executions, not new cases
			if b := rep.MergeChildNoDistinct(c); b != nil {
				_ = b
			}
		} else {
			rep.MergeChild(c)
		}
		for _, rr := range c.Races {
			if rr.HarnessOnly() {
				rep.Note("race report in harness-only frames (build %s): %s", sp.Kind, rr.Signature())
			} else {
				rep.Violation(cfg.Prop+":race:"+rr.Signature(), "data race reported in a pure codec function", map[string]any{"report": rr.Text})
			}
		}
		if c.TimedOut {
			rep.Inconclusive("shard %s timed out (watchdog %s); stderr tail: %s", c.Name, specs[i].Timeout, c.StderrTail(1500))
			return
		}
		if !c.Done {
			// process-fatal: find the input by re-running with journaling
			killer := findKiller(cfg, specs[i], sp)
			tail := c.StderrTail(2500)
			site := fatalSite(firstFatalLine(c) + "\n" + tail)
			rep.Violation(cfg.Prop+":fatal:"+site, fmt.Sprintf("child %s died (exit=%d signal=%q) inside a codec call", c.Name, c.Exit, c.Signal),
				map[string]any{"shard": sp, "last_journaled_call": killer, "stderr_tail": tail})
		}
	})
	if p.finish != nil {
		p.finish(cfg, rep)
	}
	if err := rep.Finish(); err != nil {
		fmt.Println("h_codec: cannot write result:", err)
		os.Exit(2)
	}
}

// firstFatalLine scans the child's whole stderr for the first "fatal error:" / "panic:" /
// sanitizer line (the tail usually only holds goroutine dumps).
func firstFatalLine(c *vlib.ChildResult) string {
	f, err := os.Open(filepath.Join(c.Dir, "stderr"))
	if err != nil {
		return ""
	}
	defer f.Close()
	sc := bufio.NewScanner(f)
	sc.Buffer(make([]byte, 1<<20), 1<<24)
	for sc.Scan() {
		ln := sc.Text()
		if strings.HasPrefix(ln, "fatal error:") || strings.HasPrefix(ln, "panic:") || strings.Contains(ln, "ERROR: AddressSanitizer") {
			return ln
		}
	}
	return ""
}

func fatalSite(tail string) string {
	for _, ln := range strings.Split(tail, "\n") {
		if strings.HasPrefix(ln, "fatal error:") || strings.HasPrefix(ln, "panic:") || strings.Contains(ln, "ERROR: AddressSanitizer") {
			s := strings.TrimSpace(ln)
			if len(s) > 80 {
				s = s[:80]
			}
			return s
		}
	}
	return "unknown"
}

func findKiller(cfg vlib.Cfg, cs vlib.ChildSpec, sp shardSpec) string {
	sp.Journal = true
	cs.Spec = sp
	cs.Name += "-journal"
	cs.Keep = true
	c := vlib.RunChild(cfg, cs)
	defer os.RemoveAll(c.Dir)
	b, err := os.ReadFile(filepath.Join(c.Dir, "journal"))
	if err != nil || len(b) == 0 {
		return ""
	}
	lines := strings.Split(strings.TrimSpace(string(b)), "\n")
	last := lines[len(lines)-1]
	if len(last) > 9000 {
		last = last[:9000]
	}
	if c.Done {
		return "(did not reproduce with journaling) " + last
	}
	return last
}

func childMain(dir string) {
	var sp shardSpec
	if err := vlib.ChildSpecInto(dir, &sp); err != nil {
		fmt.Println("bad spec:", err)
		os.Exit(3)
	}
	c := &ctx{spec: sp, b: vlib.NewBatch(), dir: dir}
	if sp.Journal {
		c.journal, _ = os.Create(filepath.Join(dir, "journal"))
	}
	p := props[sp.Prop]
	if p == nil {
		os.Exit(3)
	}
	if sp.ReplayClass != "" {
		fn := classes[sp.ReplayClass]
		if fn == nil {
			fmt.Println("unknown replay class", sp.ReplayClass)
			os.Exit(3)
		}
		in, _ := hex.DecodeString(sp.ReplayInput)
		c.b.Eval(1)
		fn(c, in)
		c.b.DistinctS("replay-a")
		c.b.DistinctS("replay-b")
		c.b.Finish(dir)
		return
	}
	p.run(c)
	c.b.Finish(dir)
}

// classes maps a case class to the function that runs one input of that class; it is
// what --replay uses to re-execute exactly one recorded input.
var classes = map[string]func(c *ctx, input []byte){}

func replaySpecs(cfg vlib.Cfg, bin string) ([]vlib.ChildSpec, []shardSpec) {
	var doc struct {
		Detail struct {
			Class    string `json:"class"`
			InputHex string `json:"input_hex"`
		} `json:"detail"`
	}
	b, err := os.ReadFile(cfg.Replay)
	if err == nil {
		err = json.Unmarshal(b, &doc)
	}
	if err != nil || doc.Detail.Class == "" {
		fmt.Println("h_codec: replay file has no class/input_hex:", err)
		os.Exit(2)
	}
	sp := shardSpec{Prop: cfg.Prop, Tier: cfg.Tier, Seed: cfg.Seed, Kind: "plain", NShards: 1,
		ReplayClass: doc.Detail.Class, ReplayInput: doc.Detail.InputHex}
	return []vlib.ChildSpec{{Name: "replay", Bin: bin, Spec: sp, Timeout: 5 * time.Minute}}, []shardSpec{sp}
}
