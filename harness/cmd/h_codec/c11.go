package main

import (
	"encoding/binary"
	"encoding/hex"
	"encoding/json"
	"fmt"
	"math"
	"os"
	"regexp"
	"runtime"
	"sort"
	"strconv"
	"strings"
	"sync"
	"sync/atomic"
	"time"
	"unicode/utf8"

	"github.com/safing/portbase/database/query"
	"github.com/safing/portbase/database/record"
	"github.com/safing/portbase/formats/dsd"

	"verifharness/internal/vlib"
)

// C11 — query text and query objects convert into each other without change of meaning.
//
// Case classes (class + input bytes identify a case; --replay re-runs it):
//   c11.tree     input = 8-byte case seed -> query built through the API (Q1): print ->
//                parse -> print fixpoint, witness records and keys agree before/after
//   c11.edge     input = 1-byte index into a fixed list of API queries outside the main
//                generator's class (keyword keys, In operands with commas / fewer than two
//                operands, empty and single-child groups) — same oracle as c11.tree
//   c11.grammar  input = 8-byte case seed -> text of the documented grammar together with
//                its intended AST (Q3): accepted, and matches exactly what the harness's
//                own evaluator of the AST matches
//   c11.text     input = the text (Q2): a checked query or an error, no panic, terminates;
//                an accepted text's query must itself survive print -> parse -> print
//

func init() {
	props["C11"] = &propImpl{
		shards: func(cfg vlib.Cfg) int { return cfg.N(16, 32) },
		run:    runC11,
		rule: "c11.tree: PRNG query trees over all 18 operators, and/or/not nesting (depth <= 4 quick / 6 thorough, arity 1-4), key prefixes, orderby/limit/offset, operands: int64 boundaries, floats, booleans, In lists of 2-40 unsorted operands with duplicates and prefixes of one another, strings and keys over an alphabet with space, tab, newline, quote, backslash, parentheses, comma, multi-byte runes, leading/trailing specials; only trees passing Check(); " +
			"c11.recheck: query trees with one deliberately invalid leaf (operand of the wrong type, unparsable number/bool, bad regex, one-element In text, unknown operator): Check() must fail, and keep failing / IsChecked() stay false on the same object; c11.grammar: texts of the README grammar (grouping, no and/or mixing, both not forms, every operator alias, quoted and backslash-escaped tokens, free whitespace, numeric operands in every decimal spelling strconv accepts - zero-padded, signed, .5, 5., exponents - and, expected to be rejected, in non-decimal ones) with their intended AST, also built through the API with the numeric operands as text; c11.text: token soups, mutations of valid texts (drop/duplicate/swap tokens, unbalanced quotes and parentheses, trailing backslash, truncation inside multi-byte runes), random bytes. " +
			"Witnesses: per query ~48 records derived from its own operands (each as struct record and as JSON wrapper) plus fixed ones, and sample keys around the prefix. distinct = distinct (class,input); non-trivial = the query passed Check() and was compared (tree/grammar), or ParseQuery returned (text)",
		finish: func(cfg vlib.Cfg, r *vlib.Report) {
			r.Floor(r.Counter("q1_trees_compared") >= int64(cfg.N(8000, 100000)), "q1_trees_compared=%d", r.Counter("q1_trees_compared"))
			r.Floor(r.Counter("q3_texts") >= int64(cfg.N(8000, 100000)), "q3_texts=%d", r.Counter("q3_texts"))
			r.Floor(r.Counter("q2_texts") >= int64(cfg.N(100000, 3000000)), "q2_texts=%d", r.Counter("q2_texts"))
			r.Floor(r.Counter("recheck_histories") >= int64(cfg.N(3000, 20000)), "recheck_histories=%d", r.Counter("recheck_histories"))
			r.Floor(r.SeenCount("operators") >= 18, "operators seen: %d of 18", r.SeenCount("operators"))
			r.Floor(r.Counter("witness_true") > 0 && r.Counter("witness_false") > 0, "witness records did not discriminate")
			r.Assume("witness agreement is demanded between the same query before and after the text round trip (Q1) and between the parsed query and the harness evaluator of the intended AST on typed keys (Q3); struct-vs-JSON accessor differences are never compared")
			r.Assume("main generator stays inside what the text syntax can express: keys other than and/or/not/(/), In with >= 2 comma-free operands, non-empty groups, limit/offset within 0..2^31-1; the excluded shapes are exercised by the fixed c11.edge list")
		},
	}
	classes["c11.tree"] = func(c *ctx, in []byte) {
		if len(in) >= 8 {
			c11Tree(c, binary.LittleEndian.Uint64(in))
		}
	}
	classes["c11.edge"] = func(c *ctx, in []byte) {
		if len(in) >= 1 {
			c11Edge(c, int(in[0]))
		}
	}
	classes["c11.grammar"] = func(c *ctx, in []byte) {
		if len(in) >= 8 {
			c11Grammar(c, binary.LittleEndian.Uint64(in))
		}
	}
	classes["c11.text"] = c11Text
	classes["c11.recheck"] = func(c *ctx, in []byte) {
		if len(in) >= 8 {
			c11Recheck(c, binary.LittleEndian.Uint64(in))
		}
	}
}

// ---------------------------------------------------------------------------------
// harness AST

type c11Node struct {
	Kind string // and | or | not | leaf
	Kids []*c11Node
	Key  string
	Op   uint8
	I    int64
	F    float64
	S    string // string operand / regex source
	L    []string
	B    bool
	// how the operand is handed to query.Where (Q1 only): 0 native, 1 as string, 2 narrow Go type
	Via int
	// Bad > 0: the leaf is built invalid on purpose (c11.recheck), see c11BadLeaf
	Bad int
	// Spell: the spelling the grammar renderer chose for a numeric operand (Q3); when set,
	// build() hands exactly this text to query.Where
	Spell string
}

type c11Query struct {
	Prefix  string
	Where   *c11Node
	OrderBy string
	Limit   int
	Offset  int
}

func (n *c11Node) clone() *c11Node {
	if n == nil {
		return nil
	}
	m := *n
	m.L = append([]string(nil), n.L...)
	m.Kids = nil
	for _, k := range n.Kids {
		m.Kids = append(m.Kids, k.clone())
	}
	return &m
}

func (q c11Query) clone() c11Query { q.Where = q.Where.clone(); return q }

var c11OpNames = map[uint8]string{
	query.Equals: "Equals", query.GreaterThan: "GreaterThan", query.GreaterThanOrEqual: "GreaterThanOrEqual", query.LessThan: "LessThan", query.LessThanOrEqual: "LessThanOrEqual",
	query.FloatEquals: "FloatEquals", query.FloatGreaterThan: "FloatGreaterThan", query.FloatGreaterThanOrEqual: "FloatGreaterThanOrEqual", query.FloatLessThan: "FloatLessThan", query.FloatLessThanOrEqual: "FloatLessThanOrEqual",
	query.SameAs: "SameAs", query.Contains: "Contains", query.StartsWith: "StartsWith", query.EndsWith: "EndsWith", query.In: "In", query.Matches: "Matches", query.Is: "Is", query.Exists: "Exists",
}

// operator class: i f s l r b e
func c11OpClass(op uint8) byte {
	switch {
	case op <= query.LessThanOrEqual:
		return 'i'
	case op <= query.FloatLessThanOrEqual:
		return 'f'
	case op <= query.EndsWith:
		return 's'
	case op == query.In:
		return 'l'
	case op == query.Matches:
		return 'r'
	case op == query.Is:
		return 'b'
	default:
		return 'e'
	}
}

// String renders the tree as the API calls that build it (for witnesses).
func (n *c11Node) String() string {
	if n == nil {
		return "nil"
	}
	switch n.Kind {
	case "leaf":
		var v string
		switch c11OpClass(n.Op) {
		case 'i':
			v = strconv.FormatInt(n.I, 10)
		case 'f':
			v = strconv.FormatFloat(n.F, 'g', -1, 64)
		case 's', 'r':
			v = strconv.Quote(n.S)
		case 'l':
			v = fmt.Sprintf("%q", n.L)
		case 'b':
			v = fmt.Sprint(n.B)
		default:
			v = "nil"
		}
		return fmt.Sprintf("Where(%q, %s, %s)", n.Key, c11OpNames[n.Op], v)
	case "not":
		return "Not(" + n.Kids[0].String() + ")"
	default:
		var ks []string
		for _, k := range n.Kids {
			ks = append(ks, k.String())
		}
		return strings.Title(n.Kind) + "(" + strings.Join(ks, ", ") + ")"
	}
}

func (q c11Query) String() string {
	s := fmt.Sprintf("New(%q)", q.Prefix)
	if q.Where != nil {
		s += ".Where(" + q.Where.String() + ")"
	}
	if q.OrderBy != "" {
		s += fmt.Sprintf(".OrderBy(%q)", q.OrderBy)
	}
	if q.Limit != 0 {
		s += fmt.Sprintf(".Limit(%d)", q.Limit)
	}
	if q.Offset != 0 {
		s += fmt.Sprintf(".Offset(%d)", q.Offset)
	}
	return s
}

// build constructs the portbase condition through the public API.
func (n *c11Node) build() query.Condition {
	switch n.Kind {
	case "and", "or":
		cs := make([]query.Condition, 0, len(n.Kids))
		for _, k := range n.Kids {
			cs = append(cs, k.build())
		}
		if n.Kind == "and" {
			return query.And(cs...)
		}
		return query.Or(cs...)
	case "not":
		return query.Not(n.Kids[0].build())
	}
	if n.Bad > 0 {
		return c11BadLeaf(n.Key, n.Bad)
	}
	var v interface{}
	switch c11OpClass(n.Op) {
	case 'i':
		switch {
		case n.Spell != "":
			v = n.Spell
		case n.Via == 1:
			v = strconv.FormatInt(n.I, 10)
		case n.Via == 2 && n.I >= math.MinInt8 && n.I <= math.MaxInt8:
			v = int8(n.I)
		case n.Via == 2 && n.I >= 0 && n.I <= math.MaxUint16:
			v = uint16(n.I)
		case n.Via == 2 && n.I >= math.MinInt32 && n.I <= math.MaxInt32:
			v = int32(n.I)
		case n.Via == 3:
			v = int(n.I)
		default:
			v = n.I
		}
	case 'f':
		switch {
		case n.Spell != "":
			v = n.Spell
		case n.Via == 1:
			v = strconv.FormatFloat(n.F, 'g', -1, 64)
		case n.Via == 2 && float64(float32(n.F)) == n.F:
			v = float32(n.F)
		case n.Via == 3 && n.F == math.Trunc(n.F) && math.Abs(n.F) < 1<<31:
			v = int(n.F)
		default:
			v = n.F
		}
	case 's', 'r':
		v = n.S
	case 'l':
		if n.Via == 1 && len(n.L) >= 2 {
			v = strings.Join(n.L, ",")
		} else {
			v = append([]string(nil), n.L...)
		}
	case 'b':
		if n.Via == 1 {
			v = strconv.FormatBool(n.B)
		} else {
			v = n.B
		}
	}
	return query.Where(n.Key, n.Op, v)
}

func (q c11Query) build() *query.Query {
	pq := query.New(q.Prefix)
	if q.Where != nil {
		pq.Where(q.Where.build())
	}
	if q.OrderBy != "" {
		pq.OrderBy(q.OrderBy)
	}
	if q.Limit != 0 {
		pq.Limit(q.Limit)
	}
	if q.Offset != 0 {
		pq.Offset(q.Offset)
	}
	return pq
}

func (n *c11Node) leaves(out *[]*c11Node) {
	if n == nil {
		return
	}
	if n.Kind == "leaf" {
		*out = append(*out, n)
		return
	}
	for _, k := range n.Kids {
		k.leaves(out)
	}
}

// ---------------------------------------------------------------------------------
// witness records

type c11Val struct {
	T byte // i f s b
	I int64
	F float64
	S string
	B bool
}

// c11Rec is the struct witness; field names are the typed struct keys of the generators.
type c11Rec struct {
	record.Base
	sync.Mutex
	I  int64
	J  int
	K8 int8
	U  uint16
	F  float64
	G  float32
	S  string
	T  string
	N  string
	B  bool
	C  bool
}

var c11StructKeys = map[byte][]string{'i': {"I", "J", "K8", "U"}, 'f': {"F", "G"}, 's': {"S", "T", "N"}, 'b': {"B", "C"}}
var c11StructKeyType = map[string]byte{"I": 'i', "J": 'i', "K8": 'i', "U": 'i', "F": 'f', "G": 'f', "S": 's', "T": 's', "N": 's', "B": 'b', "C": 'b'}

// c11StructView fills a struct record from the witness values and returns, for the
// harness evaluator, what the struct actually holds (every field exists; narrow fields
// hold the narrowed value).
func c11StructView(w map[string]c11Val) (*c11Rec, map[string]c11Val) {
	r := &c11Rec{}
	for k, v := range w {
		if c11StructKeyType[k] != v.T {
			continue
		}
		switch k {
		case "I":
			r.I = v.I
		case "J":
			r.J = int(v.I)
		case "K8":
			r.K8 = int8(v.I)
		case "U":
			r.U = uint16(v.I)
		case "F":
			r.F = v.F
		case "G":
			r.G = float32(v.F)
		case "S":
			r.S = v.S
		case "T":
			r.T = v.S
		case "N":
			r.N = v.S
		case "B":
			r.B = v.B
		case "C":
			r.C = v.B
		}
	}
	view := map[string]c11Val{
		"I": {T: 'i', I: r.I}, "J": {T: 'i', I: int64(r.J)}, "K8": {T: 'i', I: int64(r.K8)}, "U": {T: 'i', I: int64(r.U)},
		"F": {T: 'f', F: r.F}, "G": {T: 'f', F: float64(r.G)}, "S": {T: 's', S: r.S}, "T": {T: 's', S: r.T}, "N": {T: 's', S: r.N},
		"B": {T: 'b', B: r.B}, "C": {T: 'b', B: r.C},
	}
	r.SetKey("t:w")
	return r, view
}

// c11JSONRec wraps the witness values as a JSON record (flat object, member name = key).
func c11JSONRec(w map[string]c11Val) record.Record {
	m := make(map[string]any, len(w))
	for k, v := range w {
		switch v.T {
		case 'i':
			m[k] = v.I
		case 'f':
			if math.IsNaN(v.F) || math.IsInf(v.F, 0) {
				continue
			}
			m[k] = v.F
		case 's':
			m[k] = v.S
		case 'b':
			m[k] = v.B
		}
	}
	data, err := json.Marshal(m)
	if err != nil {
		data = []byte("{}")
	}
	r, _ := record.NewWrapper("t:w", &record.Meta{}, dsd.JSON, data)
	return r
}

// c11Match: 0 false, 1 true, 2 the accessor/matcher panicked (compared like a value)
func c11Match(q *query.Query, r record.Record) (res int) {
	defer func() {
		if x := recover(); x != nil {
			res = 2
		}
	}()
	if q.MatchesRecord(r) {
		return 1
	}
	return 0
}

// c11Eval is the harness's own evaluator of the intended AST over typed values.
func c11Eval(n *c11Node, view map[string]c11Val) bool {
	switch n.Kind {
	case "and":
		for _, k := range n.Kids {
			if !c11Eval(k, view) {
				return false
			}
		}
		return true
	case "or":
		for _, k := range n.Kids {
			if c11Eval(k, view) {
				return true
			}
		}
		return false
	case "not":
		return !c11Eval(n.Kids[0], view)
	}
	v, ok := view[n.Key]
	if !ok {
		return false
	}
	switch c11OpClass(n.Op) {
	case 'e':
		return true
	case 'i':
		if v.T != 'i' {
			return false
		}
		switch n.Op {
		case query.Equals:
			return v.I == n.I
		case query.GreaterThan:
			return v.I > n.I
		case query.GreaterThanOrEqual:
			return v.I >= n.I
		case query.LessThan:
			return v.I < n.I
		default:
			return v.I <= n.I
		}
	case 'f':
		if v.T != 'f' {
			return false
		}
		switch n.Op {
		case query.FloatEquals:
			return v.F == n.F
		case query.FloatGreaterThan:
			return v.F > n.F
		case query.FloatGreaterThanOrEqual:
			return v.F >= n.F
		case query.FloatLessThan:
			return v.F < n.F
		default:
			return v.F <= n.F
		}
	case 's':
		if v.T != 's' {
			return false
		}
		switch n.Op {
		case query.SameAs:
			return v.S == n.S
		case query.Contains:
			return strings.Contains(v.S, n.S)
		case query.StartsWith:
			return strings.HasPrefix(v.S, n.S)
		default:
			return strings.HasSuffix(v.S, n.S)
		}
	case 'l':
		if v.T != 's' {
			return false
		}
		for _, e := range n.L {
			if e == v.S {
				return true
			}
		}
		return false
	case 'r':
		if v.T != 's' {
			return false
		}
		re, err := regexp.Compile(n.S)
		return err == nil && re.MatchString(v.S)
	case 'b':
		return v.T == 'b' && v.B == n.B
	}
	return false
}

// ---------------------------------------------------------------------------------
// generators

var c11Runes = []rune{'a', 'b', 'k', 'x', 'Z', '0', '7', '_', '-', ':', '.', '#', ' ', ' ', '\t', '\n', '\r', '"', '"', '\\', '\\', '(', ')', ',', 'é', 'ß', '漢', '😀', '\'', '=', '<', '*', '?', '|', '/'}

// c11Str returns a token over the C11 alphabet. plain=true: alphanumeric only.
func c11Str(r *vlib.Rand, plain bool, allowEmpty bool) string {
	if plain {
		n := r.Range(1, 7)
		b := make([]byte, n)
		for i := range b {
			b[i] = "abcdefghijklmnopqrstuvwxyzABCXYZ0123456789"[r.Intn(42)]
		}
		return string(b)
	}
	if allowEmpty && r.Chance(1, 25) {
		return ""
	}
	switch r.Intn(6) {
	case 0: // one special at the front or the end
		core := c11Str(r, true, false)
		sp := string(vlib.Pick(r, ' ', '"', '\\', '(', ')', 'é', '漢', '😀', '\t', '\n'))
		switch r.Intn(3) {
		case 0:
			return sp + core
		case 1:
			return core + sp
		default:
			return sp + core + sp
		}
	case 1: // words with spaces
		return c11Str(r, true, false) + " " + c11Str(r, true, false)
	case 2: // only specials
		n := r.Range(1, 3)
		var sb strings.Builder
		for i := 0; i < n; i++ {
			sb.WriteRune(vlib.Pick(r, ' ', '"', '\\', '(', ')', ',', 'é', '😀', '\t'))
		}
		return sb.String()
	default:
		n := r.Range(1, 8)
		var sb strings.Builder
		for i := 0; i < n; i++ {
			sb.WriteRune(c11Runes[r.Intn(len(c11Runes))])
		}
		return sb.String()
	}
}

func c11IsKeyword(s string) bool {
	switch s {
	case "and", "or", "not", "(", ")":
		return true
	}
	return false
}

type c11Regex struct {
	re       string
	examples []string
}

var c11Regexes = []c11Regex{
	{`^ab+c$`, []string{"abc", "abbbc", "ac", "xabc"}},
	{`a\.b`, []string{"a.b", "axb", "xa.by"}},
	{`\d+`, []string{"123", "abc", "a1"}},
	{`^King `, []string{"King Kong", "King", "Kingdom"}},
	{`[a-z]+\s[a-z]+`, []string{"ab cd", "abcd", "AB CD"}},
	{`\\`, []string{`a\b`, "ab", `\`}},
	{`\(x\)`, []string{"(x)", "x", "a(x)b"}},
	{`^é+$`, []string{"é", "ééé", "e"}},
	{`"q"`, []string{`"q"`, "q", `a"q"b`}},
	{`a{1,2}b`, []string{"ab", "aab", "b"}},
	{`^(foo|bar) baz$`, []string{"foo baz", "bar baz", "foobaz"}},
	{`^\s*$`, []string{"", "  ", "a"}},
	{`x\\y`, []string{`x\y`, "xy"}},
	{`^[^"\\]+$`, []string{"plain", `a"b`, `a\b`}},
	{`漢+`, []string{"漢漢", "汉"}},
	{`a`, []string{"a", "b", "banana"}},
	{`\bend$`, []string{"the end", "bend", "end"}},
	{`^\(`, []string{"(a", "a("}},
	{`,`, []string{"a,b", "ab"}},
	{`^ `, []string{" a", "a "}},
}

type c11Gen struct {
	r       *vlib.Rand
	typed   bool            // Q3: every key has exactly one type, operators only on keys of their type
	keyType map[string]byte // exotic keys generated so far
	maxD    int
}

func (g *c11Gen) key(class byte) string {
	r := g.r
	t := class
	if t == 'l' || t == 'r' {
		t = 's'
	}
	if t == 'e' {
		t = vlib.Pick(r, byte('i'), 'f', 's', 'b')
	}
	if !g.typed && r.Chance(1, 10) { // Q1: sometimes an operator on a key of another type
		t = vlib.Pick(r, byte('i'), 'f', 's', 'b')
	}
	if r.Chance(3, 5) {
		ks := c11StructKeys[t]
		return ks[r.Intn(len(ks))]
	}
	// reuse an exotic key of that type
	if len(g.keyType) > 0 && r.Bool() {
		var ks []string
		for k, kt := range g.keyType {
			if kt == t {
				ks = append(ks, k)
			}
		}
		sort.Strings(ks)
		if len(ks) > 0 {
			return ks[r.Intn(len(ks))]
		}
	}
	for {
		k := c11Str(r, r.Chance(1, 3), !g.typed)
		if c11IsKeyword(k) {
			continue
		}
		if g.typed {
			// Q3 compares with the harness evaluator on JSON members named like the key:
			// keep characters with a meaning in the JSON accessor's path syntax out of it
			k = strings.Map(func(c rune) rune {
				if strings.ContainsRune(".#*?|\\@!%[]{}<>=~^", c) {
					return 'p'
				}
				return c
			}, k)
			if c11IsKeyword(k) {
				continue
			}
		}
		if _, isStruct := c11StructKeyType[k]; isStruct {
			continue
		}
		if kt, ok := g.keyType[k]; ok && kt != t {
			continue
		}
		g.keyType[k] = t
		return k
	}
}

func (g *c11Gen) leaf() *c11Node {
	r := g.r
	op := uint8(r.Intn(18))
	n := &c11Node{Kind: "leaf", Op: op, Via: r.Intn(4)}
	cl := c11OpClass(op)
	n.Key = g.key(cl)
	switch cl {
	case 'i':
		n.I = r.Int64Boundary()
	case 'f':
		switch r.Intn(5) {
		case 0:
			n.F = vlib.Pick(r, 0.0, 1, -1, 1.1, 0.1, 1e21, 1e-7, -2.5, 1<<53, math.MaxFloat64, math.SmallestNonzeroFloat64, 100, 1e6)
		case 1:
			n.F = float64(r.Intn(2000)-1000) / 4
		case 2:
			n.F = float64(r.Int64Boundary())
		case 3:
			if !g.typed {
				n.F = vlib.Pick(r, math.Inf(1), math.Inf(-1))
				break
			}
			fallthrough
		default:
			for {
				n.F = math.Float64frombits(r.Uint64())
				if !math.IsNaN(n.F) && !math.IsInf(n.F, 0) {
					break
				}
			}
		}
	case 's':
		n.S = c11Str(r, r.Chance(1, 4), true)
	case 'l':
		// 2..40 operands, in no particular order, with duplicates and operands that are
		// prefixes / extensions of one another
		cnt := r.Range(2, 4)
		switch r.Intn(4) {
		case 0:
			cnt = r.Range(5, 12)
		case 1:
			cnt = r.Range(8, 40)
		}
		for i := 0; i < cnt; i++ {
			e := strings.ReplaceAll(c11Str(r, r.Chance(1, 3), true), ",", ";")
			if i > 0 && r.Chance(1, 4) {
				prev := n.L[r.Intn(len(n.L))]
				switch r.Intn(3) {
				case 0:
					e = prev // duplicate
				case 1:
					e = prev + vlib.Pick(r, "a", "0", "z", " ")
				default:
					if len(prev) > 0 {
						_, w := utf8.DecodeLastRuneInString(prev)
						e = prev[:len(prev)-w]
					}
				}
			}
			n.L = append(n.L, e)
		}
		if cnt >= 8 && r.Chance(1, 6) {
			sort.Sort(sort.Reverse(sort.StringSlice(n.L))) // descending is "unsorted" as well
		}
	case 'r':
		n.S = c11Regexes[r.Intn(len(c11Regexes))].re
	case 'b':
		n.B = r.Bool()
	}
	return n
}

func (g *c11Gen) tree(depth int) *c11Node {
	r := g.r
	if depth >= g.maxD || r.Chance(2, 5) {
		l := g.leaf()
		if r.Chance(1, 5) {
			return &c11Node{Kind: "not", Kids: []*c11Node{l}}
		}
		return l
	}
	switch r.Intn(6) {
	case 0:
		return &c11Node{Kind: "not", Kids: []*c11Node{g.tree(depth + 1)}}
	default:
		n := &c11Node{Kind: vlib.Pick(r, "and", "or")}
		cnt := r.Range(2, 4)
		if r.Chance(1, 6) {
			cnt = 1 // single-condition group, also nested in each other and between negations
		}
		for i := 0; i < cnt; i++ {
			n.Kids = append(n.Kids, g.tree(depth+1))
		}
		return n
	}
}

func (g *c11Gen) query() c11Query {
	r := g.r
	var q c11Query
	switch r.Intn(5) {
	case 0:
		q.Prefix = vlib.Pick(r, "t:", "core:/", "db:a/b/", "x", ":", "")
	case 1:
		q.Prefix = c11Str(r, true, false) + ":" + c11Str(r, false, true)
	default:
		q.Prefix = c11Str(r, true, false) + ":" + c11Str(r, true, false) + vlib.Pick(r, "", "/", "/é", " ")
	}
	if r.Chance(9, 10) {
		q.Where = g.tree(0)
	}
	if r.Chance(1, 3) {
		q.OrderBy = c11Str(r, r.Chance(2, 3), false)
	}
	if r.Chance(1, 3) {
		q.Limit = vlib.Pick(r, 1, 10, r.Intn(1000), math.MaxInt32, 1<<31-2)
	}
	if r.Chance(1, 3) {
		q.Offset = vlib.Pick(r, 1, 20, r.Intn(1000), math.MaxInt32)
	}
	return q
}

// c11InMainClass: the shapes the main generator is allowed to produce (the shrinker
// must not leave this class, the rest belongs to the c11.edge list).
func c11InMainClass(q c11Query) bool {
	ok := true
	var walk func(n *c11Node)
	walk = func(n *c11Node) {
		if n == nil {
			return
		}
		switch n.Kind {
		case "and", "or":
			if len(n.Kids) < 1 { // a group of one prints as its condition (since the C11-7 fix)
				ok = false
			}
		case "not":
			if len(n.Kids) != 1 {
				ok = false
			}
		case "leaf":
			if c11IsKeyword(n.Key) {
				ok = false
			}
			if n.Op == query.In {
				if len(n.L) < 2 {
					ok = false
				}
				for _, e := range n.L {
					if strings.Contains(e, ",") {
						ok = false
					}
				}
			}
		}
		for _, k := range n.Kids {
			walk(k)
		}
	}
	walk(q.Where)
	return ok && q.Limit >= 0 && q.Offset >= 0 && q.Limit <= math.MaxInt32 && q.Offset <= math.MaxInt32
}

// ---------------------------------------------------------------------------------
// witnesses derived from a query's own operands

func c11ValFor(r *vlib.Rand, l *c11Node) (c11Val, bool) {
	if r.Chance(1, 8) {
		return c11Val{}, false // key absent
	}
	switch c11OpClass(l.Op) {
	case 'i':
		switch r.Intn(4) {
		case 0:
			return c11Val{T: 'i', I: l.I}, true
		case 1:
			if l.I < math.MaxInt64 {
				return c11Val{T: 'i', I: l.I + 1}, true
			}
			return c11Val{T: 'i', I: l.I}, true
		case 2:
			if l.I > math.MinInt64 {
				return c11Val{T: 'i', I: l.I - 1}, true
			}
			return c11Val{T: 'i', I: l.I}, true
		default:
			return c11Val{T: 'i', I: r.Int64Boundary()}, true
		}
	case 'f':
		f := l.F
		if math.IsNaN(f) || math.IsInf(f, 0) {
			f = math.MaxFloat64
		}
		switch r.Intn(4) {
		case 0:
			return c11Val{T: 'f', F: f}, true
		case 1:
			if g := math.Nextafter(f, math.Inf(1)); !math.IsInf(g, 0) {
				return c11Val{T: 'f', F: g}, true
			}
			return c11Val{T: 'f', F: f}, true
		case 2:
			if g := math.Nextafter(f, math.Inf(-1)); !math.IsInf(g, 0) {
				return c11Val{T: 'f', F: g}, true
			}
			return c11Val{T: 'f', F: f}, true
		default:
			return c11Val{T: 'f', F: float64(r.Intn(4000)-2000) / 8}, true
		}
	case 's':
		s := l.S
		switch r.Intn(8) {
		case 0, 1:
			return c11Val{T: 's', S: s}, true
		case 2:
			return c11Val{T: 's', S: s + "x"}, true
		case 3:
			return c11Val{T: 's', S: "x" + s}, true
		case 4:
			return c11Val{T: 's', S: "x" + s + "y"}, true
		case 5:
			if len(s) > 0 {
				_, w := utf8.DecodeLastRuneInString(s)
				return c11Val{T: 's', S: s[:len(s)-w]}, true
			}
			return c11Val{T: 's', S: "q"}, true
		case 6: // what a backslash-dropping or doubling parser would look for
			return c11Val{T: 's', S: vlib.Pick(r, strings.ReplaceAll(s, `\`, ""), strings.ReplaceAll(s, `\`, `\\`), strings.Trim(s, `"`), s+`\`)}, true
		default:
			return c11Val{T: 's', S: c11Str(r, false, true)}, true
		}
	case 'l':
		joined := strings.Join(l.L, ",")
		switch r.Intn(8) {
		case 0, 1, 5, 6: // each operand gets its turn as the record's value
			if len(l.L) > 0 {
				return c11Val{T: 's', S: l.L[r.Intn(len(l.L))]}, true
			}
			return c11Val{T: 's', S: ""}, true
		case 7: // near misses of an operand
			if len(l.L) > 0 {
				e := l.L[r.Intn(len(l.L))]
				if r.Bool() || e == "" {
					return c11Val{T: 's', S: e + vlib.Pick(r, "a", "x", " ", "0")}, true
				}
				_, w := utf8.DecodeLastRuneInString(e)
				return c11Val{T: 's', S: e[:len(e)-w]}, true
			}
			return c11Val{T: 's', S: "q"}, true
		case 2:
			parts := strings.Split(joined, ",")
			return c11Val{T: 's', S: parts[r.Intn(len(parts))]}, true
		case 3:
			return c11Val{T: 's', S: joined}, true
		default:
			return c11Val{T: 's', S: c11Str(r, true, true)}, true
		}
	case 'r':
		for _, rx := range c11Regexes {
			if rx.re == l.S {
				return c11Val{T: 's', S: rx.examples[r.Intn(len(rx.examples))]}, true
			}
		}
		return c11Val{T: 's', S: vlib.Pick(r, "a", "a.b", "axb", `a\b`, "ab", "", " ", l.S)}, true
	case 'b':
		return c11Val{T: 'b', B: r.Bool()}, true
	default: // exists
		switch r.Intn(4) {
		case 0:
			return c11Val{T: 'i', I: int64(r.Intn(5))}, true
		case 1:
			return c11Val{T: 's', S: "v"}, true
		case 2:
			return c11Val{T: 'b', B: true}, true
		default:
			return c11Val{T: 'f', F: 1.5}, true
		}
	}
}

// c11Witnesses builds the witness value maps for a query (deterministic in the query).
func c11Witnesses(q c11Query, typed map[string]byte, n int) []map[string]c11Val {
	var ls []*c11Node
	q.Where.leaves(&ls)
	h := uint64(1469598103934665603)
	for _, b := range []byte(q.String()) {
		h = (h ^ uint64(b)) * 1099511628211
	}
	r := vlib.NewRand(h, "c11.witness", 0)
	byKey := map[string][]*c11Node{}
	var keys []string
	for _, l := range ls {
		if _, ok := byKey[l.Key]; !ok {
			keys = append(keys, l.Key)
		}
		byKey[l.Key] = append(byKey[l.Key], l)
	}
	out := make([]map[string]c11Val, 0, n+2)
	out = append(out, map[string]c11Val{}) // the empty record
	for i := 0; i < n; i++ {
		w := map[string]c11Val{}
		for _, k := range keys {
			cands := byKey[k]
			// prefer leaves that carry an operand of the key's type
			l := cands[r.Intn(len(cands))]
			if t, ok := typed[k]; ok {
				var same []*c11Node
				for _, c := range cands {
					cl := c11OpClass(c.Op)
					if cl == 'l' || cl == 'r' {
						cl = 's'
					}
					if cl == t {
						same = append(same, c)
					}
				}
				if len(same) > 0 {
					l = same[r.Intn(len(same))]
				} else if c11OpClass(l.Op) == 'e' {
					// exists on a typed key: give it a value of its type
					switch t {
					case 'i':
						w[k] = c11Val{T: 'i', I: int64(r.Intn(9)) - 4}
					case 'f':
						w[k] = c11Val{T: 'f', F: float64(r.Intn(9)) / 2}
					case 's':
						w[k] = c11Val{T: 's', S: c11Str(r, true, true)}
					default:
						w[k] = c11Val{T: 'b', B: r.Bool()}
					}
					if r.Chance(1, 4) {
						delete(w, k)
					}
					continue
				}
			}
			if v, ok := c11ValFor(r, l); ok {
				w[k] = v
			}
		}
		out = append(out, w)
	}
	return out
}

// ---------------------------------------------------------------------------------
// Q3: rendering an AST as text of the documented grammar (database/query/README.md)

var c11Aliases = map[uint8][]string{
	query.Equals: {"=="}, query.GreaterThan: {">"}, query.GreaterThanOrEqual: {">="}, query.LessThan: {"<"}, query.LessThanOrEqual: {"<="},
	query.FloatEquals: {"f=="}, query.FloatGreaterThan: {"f>"}, query.FloatGreaterThanOrEqual: {"f>="}, query.FloatLessThan: {"f<"}, query.FloatLessThanOrEqual: {"f<="},
	query.SameAs: {"sameas", "s=="}, query.Contains: {"contains", "co"}, query.StartsWith: {"startswith", "sw"}, query.EndsWith: {"endswith", "ew"},
	query.In: {"in"}, query.Matches: {"matches", "re"}, query.Is: {"is"}, query.Exists: {"exists", "ex"},
}

// c11Token writes a token by the README's escaping rules: inside quotes escape " and \;
// outside quotes escape ( ) " \ tab cr lf and space with a backslash.
func c11Token(r *vlib.Rand, s string) string {
	needs := s == "" || strings.ContainsAny(s, "()\"\\\t\r\n ")
	quoted := s == "" || (needs && r.Chance(2, 3)) || (!needs && r.Chance(1, 6))
	var sb strings.Builder
	if quoted {
		sb.WriteByte('"')
		for _, c := range s {
			if c == '"' || c == '\\' {
				sb.WriteByte('\\')
			}
			sb.WriteRune(c)
		}
		sb.WriteByte('"')
		return sb.String()
	}
	for _, c := range s {
		switch c {
		case '(', ')', '"', '\\', '\t', '\r', '\n', ' ':
			sb.WriteByte('\\')
		}
		sb.WriteRune(c)
	}
	return sb.String()
}

type c11Render struct {
	r *vlib.Rand
	// malformed: a numeric operand was written in a spelling that the documented operand
	// types (decimal int64: strconv.ParseInt(s, 10, 64); float64: strconv.ParseFloat(s, 64))
	// do not accept: the text has to be rejected
	malformed string
}

// c11SpellInt writes n in one of the spellings a decimal integer operand may have, or
// (rarely) in a spelling that is not a decimal integer. The meaning of a spelling is what
// strconv.ParseInt(s, 10, 64) says, never the harness's idea of it.
func (x *c11Render) spellInt(n int64) string {
	r := x.r
	dec := strconv.FormatInt(n, 10)
	neg := strings.HasPrefix(dec, "-")
	digits := strings.TrimPrefix(dec, "-")
	sign := ""
	if neg {
		sign = "-"
	}
	sp := dec
	switch r.Intn(14) {
	case 0:
		sp = sign + "0" + digits // 010, -07
	case 1:
		sp = sign + strings.Repeat("0", r.Range(2, 4)) + digits // 0010
	case 2:
		if !neg {
			sp = "+" + digits
		}
	case 3:
		if !neg {
			sp = "+0" + digits
		}
	case 4:
		if r.Chance(1, 3) { // not a decimal integer
			u := uint64(n)
			if neg {
				u = uint64(-n)
			}
			sp = vlib.Pick(r, sign+"0x"+strconv.FormatUint(u, 16), sign+"0o"+strconv.FormatUint(u, 8), sign+"0b"+strconv.FormatUint(u%1024, 2),
				sign+"1_000", digits+".0", digits+"e0", "0x", sign+digits+"_", "1 000")
		}
	}
	got, err := strconv.ParseInt(sp, 10, 64)
	switch {
	case err != nil:
		x.malformed = sp
	case got != n:
		sp = dec // never trust a spelling the reference reads differently
	}
	return sp
}

func (x *c11Render) spellFloat(f float64) string {
	r := x.r
	g := strconv.FormatFloat(f, 'g', -1, 64)
	sp := g
	switch r.Intn(14) {
	case 0:
		sp = strconv.FormatFloat(f, 'e', -1, 64)
	case 1:
		sp = strconv.FormatFloat(f, 'f', -1, 64)
	case 2:
		sp = strings.ToUpper(strconv.FormatFloat(f, 'e', -1, 64)) // 1E+03
	case 3: // .5 / -.5
		sp = strconv.FormatFloat(f, 'f', -1, 64)
		if strings.HasPrefix(sp, "0.") {
			sp = sp[1:]
		} else if strings.HasPrefix(sp, "-0.") {
			sp = "-" + sp[2:]
		}
	case 4: // 5.
		sp = strconv.FormatFloat(f, 'f', -1, 64)
		if !strings.Contains(sp, ".") {
			sp += "."
		}
	case 5: // 5.0 / 5.000
		sp = strconv.FormatFloat(f, 'f', -1, 64)
		if !strings.Contains(sp, ".") {
			sp += "." + strings.Repeat("0", r.Range(1, 3))
		}
	case 6: // zero padded: 01.5, -007
		sp = strconv.FormatFloat(f, 'f', -1, 64)
		if strings.HasPrefix(sp, "-") {
			sp = "-00" + sp[1:]
		} else {
			sp = "0" + sp
		}
	case 7:
		if !strings.HasPrefix(g, "-") {
			sp = "+" + g
		}
	case 8:
		if f == 0 {
			sp = vlib.Pick(r, "-0", "0.0", "0e0", "-0.0", "00")
		}
	case 9:
		if r.Chance(1, 3) { // not a float
			sp = vlib.Pick(r, g+"_0", "1_000.5", "1,5", g+"f", "0x", "1e", "e5", "--1", "1.2.3")
		}
	}
	got, err := strconv.ParseFloat(sp, 64)
	switch {
	case err != nil:
		x.malformed = sp
	case got != f:
		sp = g
	}
	return sp
}

func (x *c11Render) ws() string {
	switch x.r.Intn(12) {
	case 0:
		return "  "
	case 1:
		return "\t"
	case 2:
		return "\n"
	case 3:
		return " \r\n "
	default:
		return " "
	}
}

func (x *c11Render) leaf(n *c11Node, negate bool) string {
	r := x.r
	op := vlib.Pick(r, c11Aliases[n.Op]...)
	var v string
	switch c11OpClass(n.Op) {
	case 'i':
		n.Spell = x.spellInt(n.I)
		v = c11Token(r, n.Spell)
	case 'f':
		n.Spell = x.spellFloat(n.F)
		v = c11Token(r, n.Spell)
	case 's', 'r':
		v = c11Token(r, n.S)
	case 'l':
		v = c11Token(r, strings.Join(n.L, ","))
	case 'b':
		if n.B {
			v = vlib.Pick(r, "1", "t", "T", "true", "True", "TRUE")
		} else {
			v = vlib.Pick(r, "0", "f", "F", "false", "False", "FALSE")
		}
	}
	s := c11Token(r, n.Key)
	if negate {
		s += x.ws() + "not"
	}
	s += x.ws() + op
	if c11OpClass(n.Op) != 'e' {
		s += x.ws() + v
	}
	return s
}

// cond renders a condition. top: the caller provides the delimiters of an and/or chain.
// open/close tell whether the text starts/ends with a grouping parenthesis (only then
// may the whitespace next to it be left out).
func (x *c11Render) cond(n *c11Node, top bool) (text string, open, close bool) {
	r := x.r
	switch n.Kind {
	case "leaf":
		if !top && r.Chance(1, 12) {
			return "(" + x.leaf(n, false) + ")", true, true // redundant grouping
		}
		return x.leaf(n, false), false, false
	case "not":
		k := n.Kids[0]
		if k.Kind == "leaf" && r.Chance(2, 3) {
			return x.leaf(k, true), false, false // inside expression for clause
		}
		sp := vlib.Pick(r, " ", "", "  ")
		inner, _, _ := x.cond(k, true)
		return "not" + sp + "(" + x.pad() + inner + x.pad() + ")", false, true // in front of expression for group
	default:
		body := ""
		prevClose := false
		for i, k := range n.Kids {
			p, o, c := x.cond(k, false)
			if i > 0 {
				// the tokenizer splits at parentheses, so "(a)and(b)" is legal too
				l, rr := x.ws(), x.ws()
				if prevClose && r.Chance(1, 4) {
					l = ""
				}
				if o && r.Chance(1, 4) {
					rr = ""
				}
				body += l + n.Kind + rr
			}
			body += p
			prevClose = c
		}
		if top && r.Chance(2, 3) {
			return body, false, false
		}
		return "(" + x.pad() + body + x.pad() + ")", true, true
	}
}

func (x *c11Render) pad() string {
	if x.r.Chance(1, 4) {
		return " "
	}
	return ""
}

func (x *c11Render) query(q c11Query) string {
	r := x.r
	s := "query" + x.ws() + c11Token(r, q.Prefix)
	if q.Where != nil {
		w, _, _ := x.cond(q.Where, true)
		s += x.ws() + "where" + x.ws() + w
	}
	if q.OrderBy != "" {
		s += x.ws() + "orderby" + x.ws() + c11Token(r, q.OrderBy)
	}
	if q.Limit > 0 {
		s += x.ws() + "limit" + x.ws() + strconv.Itoa(q.Limit)
	}
	if q.Offset > 0 {
		s += x.ws() + "offset" + x.ws() + strconv.Itoa(q.Offset)
	}
	if r.Chance(1, 10) {
		s += vlib.Pick(r, " ", "\n", "\t")
	}
	return s
}

// ---------------------------------------------------------------------------------
// shrinking a failing case, and naming it

func c11SimplerStrings(s string) []string {
	var out []string
	if s != "v" && s != "" {
		out = append(out, "v")
	}
	rs := []rune(s)
	if len(rs) > 3 { // halves first
		out = append(out, string(rs[:len(rs)/2]), string(rs[len(rs)/2:]))
	}
	if len(rs) > 1 {
		for i := range rs {
			out = append(out, string(rs[:i])+string(rs[i+1:]))
		}
	}
	for i, c := range rs {
		if c != 'v' && (c >= 'A' && c <= 'Z' || c >= 'a' && c <= 'z' || c >= '0' && c <= '9') {
			cp := append([]rune(nil), rs...)
			cp[i] = 'v'
			out = append(out, string(cp))
			break
		}
	}
	return out
}

// c11TryCandidates offers one-step simplifications of q to try (largest steps first)
// and returns the first one it accepts.
func c11TryCandidates(q c11Query, typed map[string]byte, try func(c11Query) bool) (c11Query, bool) {
	var hit c11Query
	offer := func(mut func(c *c11Query)) bool {
		c := q.clone()
		mut(&c)
		if c11InMainClass(c) && try(c) {
			hit = c
			return true
		}
		return false
	}
	at := func(root *c11Node, p []int) *c11Node {
		n := root
		for _, i := range p {
			n = n.Kids[i]
		}
		return n
	}
	replace := func(c *c11Query, p []int, with *c11Node) {
		if len(p) == 0 {
			c.Where = with
			return
		}
		at(c.Where, p[:len(p)-1]).Kids[p[len(p)-1]] = with
	}
	if q.Where != nil {
		if offer(func(c *c11Query) { c.Where = nil }) {
			return hit, true
		}
		var paths [][]int
		var walk func(n *c11Node, p []int)
		walk = func(n *c11Node, p []int) {
			paths = append(paths, append([]int(nil), p...))
			for i, k := range n.Kids {
				walk(k, append(p, i))
			}
		}
		walk(q.Where, nil)
		// structure: hoist a child, drop a child
		for _, p := range paths {
			n := at(q.Where, p)
			if n.Kind == "leaf" {
				continue
			}
			for i := range n.Kids {
				i := i
				if offer(func(c *c11Query) { replace(c, p, at(c.Where, p).Kids[i]) }) {
					return hit, true
				}
			}
			if n.Kind != "not" && len(n.Kids) > 2 {
				for i := range n.Kids {
					i := i
					if offer(func(c *c11Query) { m := at(c.Where, p); m.Kids = append(m.Kids[:i:i], m.Kids[i+1:]...) }) {
						return hit, true
					}
				}
			}
		}
	}
	if q.OrderBy != "" && offer(func(c *c11Query) { c.OrderBy = "" }) {
		return hit, true
	}
	if q.Limit != 0 && offer(func(c *c11Query) { c.Limit = 0 }) {
		return hit, true
	}
	if q.Offset != 0 && offer(func(c *c11Query) { c.Offset = 0 }) {
		return hit, true
	}
	if q.Prefix != "t:" {
		if offer(func(c *c11Query) { c.Prefix = "t:" }) {
			return hit, true
		}
		if i := strings.Index(q.Prefix, ":"); i >= 0 {
			if i != 1 || q.Prefix[0] != 't' {
				if offer(func(c *c11Query) { c.Prefix = "t:" + q.Prefix[i+1:] }) {
					return hit, true
				}
			}
			for _, s := range c11SimplerStrings(q.Prefix[i+1:]) {
				s := s
				if offer(func(c *c11Query) { c.Prefix = q.Prefix[:i+1] + s }) {
					return hit, true
				}
			}
		}
	}
	for _, s := range c11SimplerStrings(q.OrderBy) {
		s := s
		if s != "" && offer(func(c *c11Query) { c.OrderBy = s }) {
			return hit, true
		}
	}
	if q.Where == nil {
		return q, false
	}
	// leaves
	var lpaths [][]int
	var walk2 func(n *c11Node, p []int)
	walk2 = func(n *c11Node, p []int) {
		if n.Kind == "leaf" {
			lpaths = append(lpaths, append([]int(nil), p...))
		}
		for i, k := range n.Kids {
			walk2(k, append(p, i))
		}
	}
	walk2(q.Where, nil)
	for _, p := range lpaths {
		n := at(q.Where, p)
		if n.Via != 0 && offer(func(c *c11Query) { at(c.Where, p).Via = 0 }) {
			return hit, true
		}
		if c11OpClass(n.Op) != 'e' && offer(func(c *c11Query) { at(c.Where, p).Op = query.Exists }) {
			return hit, true
		}
		simple := "v"
		if typed != nil {
			simple = map[byte]string{'i': "I", 'f': "F", 's': "S", 'b': "B"}[typed[n.Key]]
		}
		if simple != "" && n.Key != simple && offer(func(c *c11Query) { at(c.Where, p).Key = simple }) {
			return hit, true
		}
		switch c11OpClass(n.Op) {
		case 'i':
			if n.I != 1 && offer(func(c *c11Query) { at(c.Where, p).I = 1 }) {
				return hit, true
			}
		case 'f':
			if n.F != 1.5 && offer(func(c *c11Query) { at(c.Where, p).F = 1.5 }) {
				return hit, true
			}
		case 'r':
			if n.S != "a" && offer(func(c *c11Query) { at(c.Where, p).S = "a" }) {
				return hit, true
			}
		case 'l':
			if len(n.L) > 2 && offer(func(c *c11Query) { m := at(c.Where, p); m.L = m.L[:2] }) {
				return hit, true
			}
			if len(n.L) > 4 && offer(func(c *c11Query) { m := at(c.Where, p); m.L = m.L[:len(m.L)/2] }) {
				return hit, true
			}
			for i := range n.L {
				i := i
				if len(n.L) > 2 && offer(func(c *c11Query) { m := at(c.Where, p); m.L = append(m.L[:i:i], m.L[i+1:]...) }) {
					return hit, true
				}
			}
		}
	}
	for _, p := range lpaths {
		n := at(q.Where, p)
		for _, s := range c11SimplerStrings(n.Key) {
			s := s
			if typed != nil { // the simpler key must carry the same type
				if s == "" || s == "v" {
					continue
				}
				if t, ok := typed[s]; ok && t != typed[n.Key] {
					continue
				}
				typed[s] = typed[n.Key]
			}
			if offer(func(c *c11Query) { at(c.Where, p).Key = s }) {
				return hit, true
			}
		}
		switch c11OpClass(n.Op) {
		case 's':
			for _, s := range c11SimplerStrings(n.S) {
				s := s
				if offer(func(c *c11Query) { at(c.Where, p).S = s }) {
					return hit, true
				}
			}
		case 'l':
			for i, e := range n.L {
				i := i
				for _, s := range c11SimplerStrings(e) {
					s := s
					if offer(func(c *c11Query) { at(c.Where, p).L[i] = s }) {
						return hit, true
					}
				}
			}
		}
	}
	return q, false
}

// c11Shrink greedily simplifies q while fails(q) keeps reporting the same kind.
func c11Shrink(q c11Query, typed map[string]byte, kind string, fails func(c11Query) string) c11Query {
	budget := 1500
	for {
		next, ok := c11TryCandidates(q, typed, func(c c11Query) bool {
			budget--
			return budget > 0 && fails(c) == kind
		})
		if !ok || budget <= 0 {
			return q
		}
		q = next
	}
}

// c11ShrinkQuota bounds the shrinking work per failure kind and process: once a kind
// has produced that many named witnesses, further failures of the kind are only counted
// (the run is red anyway; they get their names once the named ones are repaired).
var c11ShrinkQuota = map[string]int{}

func c11TakeQuota(kind string) bool {
	c11ShrinkQuota[kind]++
	return c11ShrinkQuota[kind] <= 15
}

func c11CharClasses(s string) []string {
	set := map[string]bool{}
	if s == "" {
		set["empty"] = true
	}
	for _, c := range s {
		switch {
		case c == '\\':
			set["backslash"] = true
		case c == '"':
			set["quote"] = true
		case c == ' ':
			set["space"] = true
		case c == '\t' || c == '\n' || c == '\r':
			set["ctlspace"] = true
		case c == '(' || c == ')':
			set["paren"] = true
		case c == ',':
			set["comma"] = true
		case c >= 0x80:
			set["multibyte"] = true
		}
	}
	var out []string
	for k := range set {
		out = append(out, k)
	}
	sort.Strings(out)
	return out
}

// c11Shape names a (shrunk) query: structure skeleton plus the character classes left
// in its tokens. It is the case-class part of a violation signature.
func c11Shape(q c11Query) string {
	var skel func(n *c11Node) string
	feats := map[string]bool{}
	note := func(where, s string) {
		for _, c := range c11CharClasses(s) {
			feats[where+"="+c] = true
		}
	}
	skel = func(n *c11Node) string {
		switch n.Kind {
		case "leaf":
			note("key", n.Key)
			if cl := c11OpClass(n.Op); (cl == 'i' && n.Spell != "" && n.Spell != strconv.FormatInt(n.I, 10)) || (cl == 'f' && n.Spell != "" && n.Spell != strconv.FormatFloat(n.F, 'g', -1, 64)) {
				feats["num=spelled"] = true // an operand written other than Print() would write it
			}
			switch c11OpClass(n.Op) {
			case 's':
				note("val", n.S)
			case 'r':
				note("regex", n.S)
			case 'l':
				for _, e := range n.L {
					if e != "" { // an empty In element is ordinary
						note("val", e)
					}
				}
				if len(n.L) > 2 { // the failure needs a list of that length
					feats[fmt.Sprintf("inlist=%d", len(n.L))] = true
				}
			}
			return "L"
		case "not":
			return "not(" + skel(n.Kids[0]) + ")"
		default:
			var ks []string
			for _, k := range n.Kids {
				ks = append(ks, skel(k))
			}
			return "grp(" + strings.Join(ks, ",") + ")"
		}
	}
	s := "none"
	if q.Where != nil {
		s = skel(q.Where)
	}
	if q.Prefix != "t:" {
		if i := strings.Index(q.Prefix, ":"); i >= 0 {
			note("prefix", q.Prefix[i+1:])
		} else {
			feats["prefix=nocolon"] = true
		}
	}
	if q.OrderBy != "" {
		note("orderby", q.OrderBy)
	}
	var fs []string
	for f := range feats {
		if !strings.HasSuffix(f, "=empty") || strings.HasPrefix(f, "val=") || strings.HasPrefix(f, "key=") {
			fs = append(fs, f)
		}
	}
	sort.Strings(fs)
	if len(fs) > 0 {
		s += ":" + strings.Join(fs, "+")
	}
	return s
}

// ---------------------------------------------------------------------------------
// Q1 oracle

const c11NWitness = 48

var c11FixedWitnesses = []map[string]c11Val{
	{"I": {T: 'i', I: 1}, "F": {T: 'f', F: 1.5}, "S": {T: 's', S: "v"}, "B": {T: 'b', B: true}},
	{"I": {T: 'i', I: -1}, "J": {T: 'i', I: 100}, "K8": {T: 'i', I: 127}, "U": {T: 'i', I: 65535}, "F": {T: 'f', F: -0.5}, "G": {T: 'f', F: 1e10}, "S": {T: 's', S: ""}, "T": {T: 's', S: "King Kong"}, "N": {T: 's', S: `a\b "c" (d)`}, "C": {T: 'b', B: true}},
	{"S": {T: 's', S: "a,b"}, "T": {T: 's', S: "é"}, "N": {T: 's', S: " "}},
}

func c11SampleKeys(prefix string) []string {
	_, p := record.ParseKey(prefix)
	keys := []string{"", p, p + "x", "x" + p, "other"}
	if len(p) > 0 {
		_, w := utf8.DecodeLastRuneInString(p)
		keys = append(keys, p[:len(p)-w], p[:len(p)-1])
	}
	return keys
}

type c11Fail struct {
	kind string // reparse-error | print-differs | meaning-differs | key-match-differs | panic | check-rejected | ""
	what string
	text string
}

// c11RoundTrip applies the Q1 oracle to one API-built query. It never panics.
func c11RoundTrip(q c11Query, b *vlib.Batch) (f c11Fail) {
	defer func() {
		if x := recover(); x != nil {
			f = c11Fail{kind: "panic", what: fmt.Sprintf("panic: %v", x), text: f.text}
		}
	}()
	pq, err := q.build().Check()
	if err != nil {
		return c11Fail{kind: "check-rejected", what: err.Error()}
	}
	t := pq.Print()
	f.text = t
	pq2, err := query.ParseQuery(t)
	if err != nil {
		return c11Fail{kind: "reparse-error", what: fmt.Sprintf("Print() = %q does not parse back: %v", t, err), text: t}
	}
	if pq2 == nil || !pq2.IsChecked() {
		return c11Fail{kind: "reparse-error", what: fmt.Sprintf("ParseQuery(%q) returned an unchecked or nil query without error", t), text: t}
	}
	if t2 := pq2.Print(); t2 != t {
		return c11Fail{kind: "print-differs", what: fmt.Sprintf("Print() = %q parses back to a query that prints %q", t, t2), text: t}
	}
	wits := append(c11Witnesses(q, nil, c11NWitness), c11FixedWitnesses...)
	nt, nf := 0, 0
	for _, w := range wits {
		sr, _ := c11StructView(w)
		for wi, rec := range []record.Record{sr, c11JSONRec(w)} {
			m1, m2 := c11Match(pq, rec), c11Match(pq2, rec)
			if m1 == 1 {
				nt++
			} else {
				nf++
			}
			if m1 != m2 {
				kind := []string{"struct", "JSON"}[wi]
				return c11Fail{kind: "meaning-differs", what: fmt.Sprintf("Print() = %q prints identically after parsing, but the %s record %s is matched=%d by the built query and matched=%d by the parsed one", t, kind, c11WitText(w), m1, m2), text: t}
			}
		}
	}
	if b != nil {
		b.Count("witness_true", int64(nt))
		b.Count("witness_false", int64(nf))
		if nt > 0 && nf > 0 {
			b.Count("queries_with_discriminating_witnesses", 1)
		}
	}
	for _, k := range c11SampleKeys(q.Prefix) {
		if pq.MatchesKey(k) != pq2.MatchesKey(k) {
			return c11Fail{kind: "key-match-differs", what: fmt.Sprintf("Print() = %q: MatchesKey(%q) is %v before and %v after the round trip", t, k, pq.MatchesKey(k), pq2.MatchesKey(k)), text: t}
		}
	}
	if pq.DatabaseName() != pq2.DatabaseName() || pq.DatabaseKeyPrefix() != pq2.DatabaseKeyPrefix() {
		return c11Fail{kind: "key-match-differs", what: fmt.Sprintf("Print() = %q: database %q prefix %q became %q %q", t, pq.DatabaseName(), pq.DatabaseKeyPrefix(), pq2.DatabaseName(), pq2.DatabaseKeyPrefix()), text: t}
	}
	return c11Fail{text: t}
}

func c11WitText(w map[string]c11Val) string {
	var ks []string
	for k := range w {
		ks = append(ks, k)
	}
	sort.Strings(ks)
	var sb strings.Builder
	sb.WriteByte('{')
	for i, k := range ks {
		if i > 0 {
			sb.WriteString(", ")
		}
		v := w[k]
		switch v.T {
		case 'i':
			fmt.Fprintf(&sb, "%q: %d", k, v.I)
		case 'f':
			fmt.Fprintf(&sb, "%q: %g", k, v.F)
		case 's':
			fmt.Fprintf(&sb, "%q: %q", k, v.S)
		default:
			fmt.Fprintf(&sb, "%q: %v", k, v.B)
		}
	}
	sb.WriteByte('}')
	return sb.String()
}

func c11Tree(c *ctx, seed uint64) {
	b := c.b
	in := u64le(seed)
	b.Eval(1)
	c.call("c11.tree", in, func() {
		g := &c11Gen{r: vlib.NewRand(seed, "c11.tree", 0), keyType: map[string]byte{}, maxD: c.n(4, 6)}
		q := g.query()
		var ls []*c11Node
		q.Where.leaves(&ls)
		f := c11RoundTrip(q, b)
		if f.kind == "check-rejected" {
			b.Count("q1_check_rejected", 1)
			return
		}
		b.Count("q1_trees_compared", 1)
		b.Max("q1_max_leaves", int64(len(ls)))
		for _, l := range ls {
			b.Seen("operators", c11OpNames[l.Op])
		}
		b.Distinct([]byte("c11.tree"), in)
		if f.kind == "" {
			return
		}
		if !c11TakeQuota("q1:" + f.kind) {
			b.Count("q1_failures_not_named:"+f.kind, 1)
			return
		}
		min := c11Shrink(q, nil, f.kind, func(x c11Query) string { return c11RoundTrip(x, nil).kind })
		mf := c11RoundTrip(min, nil)
		b.Violation("C11:"+f.kind+":"+c11Shape(min), mf.what,
			map[string]any{"class": "c11.tree", "input_hex": hex.EncodeToString(in), "query": q.String(), "printed": f.text, "failure": f.what,
				"shrunk_query": min.String(), "shrunk_printed": mf.text, "build": c.spec.Kind})
	})
}

// ---------------------------------------------------------------------------------
// c11.edge: API queries outside the main generator's class (fixed list)

type c11EdgeCase struct {
	name string
	q    c11Query
}

func c11L(key string, op uint8) *c11Node {
	n := &c11Node{Kind: "leaf", Key: key, Op: op}
	switch c11OpClass(op) {
	case 'i':
		n.I = 1
	case 's':
		n.S = "v"
	}
	return n
}

func c11G(kind string, kids ...*c11Node) *c11Node { return &c11Node{Kind: kind, Kids: kids} }

var c11Edges = []c11EdgeCase{
	{"keyword-key-and", c11Query{Prefix: "t:", Where: c11L("and", query.Equals)}},
	{"keyword-key-or", c11Query{Prefix: "t:", Where: c11G("and", c11L("I", query.Equals), c11L("or", query.Equals))}},
	{"keyword-key-not", c11Query{Prefix: "t:", Where: c11L("not", query.Exists)}},
	{"keyword-key-paren-open", c11Query{Prefix: "t:", Where: c11L("(", query.Equals)}},
	{"keyword-key-paren-close", c11Query{Prefix: "t:", Where: c11G("or", c11L("I", query.Equals), c11L(")", query.SameAs))}},
	{"in-operand-with-comma", c11Query{Prefix: "t:", Where: &c11Node{Kind: "leaf", Key: "S", Op: query.In, L: []string{"a,b", "c"}}}},
	{"in-single-operand", c11Query{Prefix: "t:", Where: &c11Node{Kind: "leaf", Key: "S", Op: query.In, L: []string{"a"}}}},
	{"in-no-operand", c11Query{Prefix: "t:", Where: &c11Node{Kind: "leaf", Key: "S", Op: query.In, L: []string{}}}},
	{"empty-group-root", c11Query{Prefix: "t:", Where: c11G("and")}},
	{"empty-or-nested", c11Query{Prefix: "t:", Where: c11G("or", c11G("or"), c11L("I", query.Equals))}},
	{"empty-and-under-not", c11Query{Prefix: "t:", Where: c11G("and", c11L("I", query.Equals), c11G("not", c11G("and")))}},
	{"single-child-group-nested", c11Query{Prefix: "t:", Where: c11G("and", c11G("and", c11L("I", query.Equals)), c11L("S", query.SameAs))}},
	{"single-child-group-root", c11Query{Prefix: "t:", Where: c11G("or", c11L("I", query.Equals))}},
	{"single-child-group-under-not", c11Query{Prefix: "t:", Where: c11G("not", c11G("or", c11L("S", query.SameAs)))}},
	{"not-over-single-group-over-not", c11Query{Prefix: "t:", Where: c11G("not", c11G("and", c11G("not", c11L("I", query.Equals))))}},
	{"not-over-nested-single-groups-over-not", c11Query{Prefix: "t:", Where: c11G("not", c11G("or", c11G("and", c11G("or", c11G("not", c11L("S", query.SameAs))))))}},
	{"not-over-single-group-over-not-group", c11Query{Prefix: "t:", Where: c11G("and", c11L("B", query.Exists), c11G("not", c11G("and", c11G("not", c11G("or", c11L("I", query.Equals), c11L("S", query.SameAs))))))}},
	{"limit-above-int31", c11Query{Prefix: "t:", Limit: 1 << 31}},
	{"negative-limit", c11Query{Prefix: "t:", Limit: -1, Offset: -5}},
}

func c11Edge(c *ctx, idx int) {
	if idx < 0 || idx >= len(c11Edges) {
		return
	}
	b := c.b
	e := c11Edges[idx]
	in := []byte{byte(idx)}
	b.Eval(1)
	c.call("c11.edge", in, func() {
		f := c11RoundTrip(e.q, nil)
		b.Distinct([]byte("c11.edge"), in)
		switch f.kind {
		case "":
			b.Seen("edge_cases_holding", e.name)
		case "check-rejected":
			b.Seen("edge_cases_rejected_by_check", e.name)
		default:
			b.Seen("edge_cases_violating", e.name)
			b.Violation("C11:"+f.kind+":edge:"+e.name, f.what,
				map[string]any{"class": "c11.edge", "input_hex": hex.EncodeToString(in), "query": e.q.String(), "printed": f.text, "build": c.spec.Kind})
		}
	})
}

// ---------------------------------------------------------------------------------
// Q3 oracle

func c11GrammarCheck(q c11Query, typed map[string]byte, styleSeed uint64, b *vlib.Batch) (f c11Fail) {
	defer func() {
		if x := recover(); x != nil {
			f = c11Fail{kind: "panic", what: fmt.Sprintf("panic: %v", x), text: f.text}
		}
	}()
	x := &c11Render{r: vlib.NewRand(styleSeed, "c11.style", 0)}
	t := x.query(q)
	f.text = t
	pq, err := query.ParseQuery(t)
	if x.malformed != "" {
		// a numeric operand that is no decimal integer / no float: error expected, from the
		// text parser and from the API handed the same text
		if err == nil {
			return c11Fail{kind: "grammar-accepts-malformed-number", what: fmt.Sprintf("text %q is accepted although its operand %q is not a number of the documented operand type (strconv reference: rejected)", t, x.malformed), text: t}
		}
		if _, aerr := q.build().Check(); aerr == nil {
			return c11Fail{kind: "api-accepts-malformed-number", what: fmt.Sprintf("the query built through the API with the textual operand %q (as in text %q) passes Check() although the operand is not a number of the documented operand type", x.malformed, t), text: t}
		}
		if b != nil {
			b.Count("q3_malformed_numbers_rejected", 1)
		}
		return f
	}
	if err != nil {
		return c11Fail{kind: "grammar-rejected", what: fmt.Sprintf("documented-grammar text %q (intended: %s) is rejected: %v", t, q.String(), err), text: t}
	}
	wantDB, wantPrefix := record.ParseKey(q.Prefix)
	if pq.DatabaseName() != wantDB || pq.DatabaseKeyPrefix() != wantPrefix {
		return c11Fail{kind: "grammar-token", what: fmt.Sprintf("text %q: prefix token %q arrives as database %q, key prefix %q", t, q.Prefix, pq.DatabaseName(), pq.DatabaseKeyPrefix()), text: t}
	}
	for _, k := range c11SampleKeys(q.Prefix) {
		if pq.MatchesKey(k) != strings.HasPrefix(k, wantPrefix) {
			return c11Fail{kind: "grammar-token", what: fmt.Sprintf("text %q: MatchesKey(%q) = %v, the prefix token is %q", t, k, pq.MatchesKey(k), wantPrefix), text: t}
		}
	}
	if q.Where == nil {
		return f
	}
	// the same conditions through the API, numeric operands handed over as the texts
	// written above (Where(k, op, "0100")): same expectations
	aq, aerr := q.build().Check()
	if aerr != nil {
		return c11Fail{kind: "api-text-operand-rejected", what: fmt.Sprintf("the query of text %q built through the API with its numeric operands as text is rejected by Check(): %v", t, aerr), text: t}
	}
	nt, nf := 0, 0
	for _, w := range append(c11Witnesses(q, typed, c11NWitness), c11FixedWitnesses...) {
		sr, sview := c11StructView(w)
		for wi, rec := range []record.Record{sr, c11JSONRec(w)} {
			view := w
			if wi == 0 {
				view = sview
			}
			want := 0
			if c11Eval(q.Where, view) {
				want = 1
				nt++
			} else {
				nf++
			}
			if got := c11Match(pq, rec); got != want {
				kind := []string{"struct", "JSON"}[wi]
				return c11Fail{kind: "grammar-meaning", what: fmt.Sprintf("text %q is accepted, but the %s record %s is matched=%d; the intended query %s matches=%d", t, kind, c11WitText(view), got, q.Where.String(), want), text: t}
			}
			if got := c11Match(aq, rec); got != want {
				kind := []string{"struct", "JSON"}[wi]
				return c11Fail{kind: "api-text-operand-meaning", what: fmt.Sprintf("built through the API with numeric operands as text (as written in %q), the %s record %s is matched=%d; the intended query %s matches=%d", t, kind, c11WitText(view), got, q.Where.String(), want), text: t}
			}
		}
	}
	if b != nil {
		b.Count("witness_true", int64(nt))
		b.Count("witness_false", int64(nf))
		if nt > 0 && nf > 0 {
			b.Count("queries_with_discriminating_witnesses", 1)
		}
	}
	return f
}

func c11Grammar(c *ctx, seed uint64) {
	b := c.b
	in := u64le(seed)
	b.Eval(1)
	c.call("c11.grammar", in, func() {
		r := vlib.NewRand(seed, "c11.grammar", 0)
		g := &c11Gen{r: r, typed: true, keyType: map[string]byte{}, maxD: c.n(4, 6)}
		q := g.query()
		if q.Where == nil && r.Bool() {
			q.Where = g.tree(0)
		}
		typed := map[string]byte{}
		for k, t := range c11StructKeyType {
			typed[k] = t
		}
		for k, t := range g.keyType {
			typed[k] = t
		}
		style := r.Uint64()
		var ls []*c11Node
		q.Where.leaves(&ls)
		for _, l := range ls {
			b.Seen("operators", c11OpNames[l.Op])
		}
		b.Count("q3_texts", 1)
		b.Distinct([]byte("c11.grammar"), in)
		f := c11GrammarCheck(q, typed, style, b)
		if len(ls) > 0 && strings.HasSuffix(strings.TrimRight(f.text, " \t\r\n"), ")") {
			b.Count("q3_texts_ending_in_group", 1)
		}
		if f.kind == "" {
			return
		}
		if !c11TakeQuota("q3:" + f.kind) {
			b.Count("q3_failures_not_named:"+f.kind, 1)
			return
		}
		min := c11Shrink(q, typed, f.kind, func(x c11Query) string { return c11GrammarCheck(x, typed, style, nil).kind })
		mf := c11GrammarCheck(min, typed, style, nil)
		b.Violation("C11:"+f.kind+":"+c11Shape(min), mf.what,
			map[string]any{"class": "c11.grammar", "input_hex": hex.EncodeToString(in), "intended": q.String(), "text": f.text, "failure": f.what,
				"shrunk_intended": min.String(), "shrunk_text": mf.text, "build": c.spec.Kind})
	})
}

// ---------------------------------------------------------------------------------
// Q2: totality

var (
	c11Busy      atomic.Int64 // unix nanos when the current ParseQuery call started (0 = idle)
	c11BusyInput atomic.Value // string
	c11WatchOnce sync.Once
)

const c11HangLimit = 30 * time.Second

// c11Watch is the per-call watchdog (DESIGN §3.8): a call that exceeds the limit is
// confirmed structurally (its goroutine is inside the query package) and by an isolated
// replay with a 10x limit before it is called non-termination; otherwise inconclusive.
func c11Watch(c *ctx) {
	c11WatchOnce.Do(func() {
		go func() {
			for {
				time.Sleep(time.Second)
				st := c11Busy.Load()
				if st == 0 || time.Since(time.Unix(0, st)) < c11HangLimit {
					continue
				}
				in, _ := c11BusyInput.Load().(string)
				buf := make([]byte, 1<<20)
				buf = buf[:runtime.Stack(buf, true)]
				inQuery := strings.Contains(string(buf), "portbase/database/query.")
				done := make(chan struct{})
				go func() {
					defer func() { _ = recover(); close(done) }()
					_, _ = query.ParseQuery(in)
				}()
				select {
				case <-done:
					c.b.Inconclusive("ParseQuery exceeded %s once for input %q but returned in an isolated replay", c11HangLimit, trunc([]byte(in), 200))
				case <-time.After(10 * c11HangLimit):
					if inQuery {
						c.b.Violation("C11:non-termination:ParseQuery", fmt.Sprintf("ParseQuery does not return for %q (> %s, goroutine inside the query package, isolated replay > %s)", trunc([]byte(in), 200), c11HangLimit, 10*c11HangLimit),
							map[string]any{"class": "c11.text", "input_hex": hex.EncodeToString(trunc([]byte(in), 4096)), "goroutines": string(trunc(buf, 6000))})
					} else {
						c.b.Inconclusive("ParseQuery call for %q exceeded the watchdog outside the query package", trunc([]byte(in), 200))
					}
				}
				c.b.Finish(c.dir)
				exitNow()
			}
		}()
	})
}

var exitNow = func() { os.Exit(0) }

func c11Text(c *ctx, in []byte) {
	b := c.b
	b.Eval(1)
	b.Count("q2_texts", 1)
	c11Watch(c)
	text := string(in)
	var q *query.Query
	var err error
	returned := false
	c.call("c11.text", in, func() {
		c11BusyInput.Store(text)
		c11Busy.Store(time.Now().UnixNano())
		q, err = query.ParseQuery(text)
		c11Busy.Store(0)
		returned = true
	})
	c11Busy.Store(0)
	if !returned {
		return
	}
	b.Distinct([]byte("c11.text"), in)
	detail := func() map[string]any {
		return map[string]any{"class": "c11.text", "input_hex": hex.EncodeToString(trunc(in, 4096)), "text": string(trunc(in, 400)), "build": c.spec.Kind}
	}
	switch {
	case err != nil && q != nil:
		b.Violation("C11:result-shape:query-and-error", fmt.Sprintf("ParseQuery(%q) returned both a query and the error %v", trunc(in, 200), err), detail())
		return
	case err == nil && q == nil:
		b.Violation("C11:result-shape:neither", fmt.Sprintf("ParseQuery(%q) returned neither a query nor an error", trunc(in, 200)), detail())
		return
	case err != nil:
		b.Count("q2_rejected", 1)
		return
	}
	b.Count("q2_accepted", 1)
	if !q.IsChecked() {
		b.Violation("C11:result-shape:unchecked", fmt.Sprintf("ParseQuery(%q) returned a query that is not checked", trunc(in, 200)), detail())
		return
	}
	// an accepted text yields a query object built through the same API: it must
	// itself survive print -> parse -> print and keep its meaning on the fixed witnesses
	c.call("c11.text", in, func() {
		t := q.Print()
		kind, what := c11AcceptedRoundTrip(q, t)
		if kind == "" {
			return
		}
		// Empty groups are a known limitation of the text form (c11.edge empty-group cases):
		// And() and Or() both print "()", nothing at the root. The failure is put into that
		// class if and only if the empty groups are its sole cause: the same printed text
		// with the empty groups (and the connective next to each) taken out must be a clean
		// fixpoint. Any other cause keeps the general class.
		class := "accepted-text"
		if stripped, had := c11StripEmptyGroups(t); had {
			func() {
				defer func() { _ = recover() }()
				if qs, err := query.ParseQuery(stripped); err == nil {
					ts := qs.Print()
					if k, _ := c11AcceptedRoundTrip(qs, ts); k == "" {
						class = "accepted-text-empty-group"
					}
				}
			}()
		}
		d := detail()
		d["printed"] = t
		b.Violation("C11:"+kind+":"+class, fmt.Sprintf("ParseQuery accepts %q; %s", trunc(in, 200), what), d)
	})
}

// c11AcceptedRoundTrip: q printed as t must parse, print identically and match the fixed
// witnesses like q.
func c11AcceptedRoundTrip(q *query.Query, t string) (kind, what string) {
	q2, err := query.ParseQuery(t)
	if err != nil {
		return "reparse-error", fmt.Sprintf("the resulting query prints %q, which is rejected: %v", t, err)
	}
	if t2 := q2.Print(); t2 != t {
		return "print-differs", fmt.Sprintf("the resulting query prints %q, which parses to a query printing %q", t, t2)
	}
	for _, w := range c11FixedWitnesses {
		sr, _ := c11StructView(w)
		for _, rec := range []record.Record{sr, c11JSONRec(w)} {
			if c11Match(q, rec) != c11Match(q2, rec) {
				return "meaning-differs", fmt.Sprintf("printed as %q and parsed again it matches %s differently", t, c11WitText(w))
			}
		}
	}
	return "", ""
}

// c11StripEmptyGroups removes every empty group "()" (outside quoted tokens) from a
// printed query together with a "not" in front of it and one neighbouring and/or; an
// empty root group (a "where" with nothing after it) loses the "where". had reports
// whether there was one.
func c11StripEmptyGroups(t string) (stripped string, had bool) {
	toks := c11Tokens(t)
	isConn := func(s string) bool { return s == "and" || s == "or" }
	for changed := true; changed; {
		changed = false
		for i := 0; i+1 < len(toks); i++ {
			if toks[i] != "(" || toks[i+1] != ")" {
				continue
			}
			lo, hi := i, i+2
			if lo > 0 && toks[lo-1] == "not" {
				lo--
			}
			if lo > 0 && isConn(toks[lo-1]) {
				lo--
			} else if hi < len(toks) && isConn(toks[hi]) {
				hi++
			}
			toks = append(toks[:lo:lo], toks[hi:]...)
			had, changed = true, true
			break
		}
	}
	for i := 0; i < len(toks); i++ { // dangling where
		if toks[i] == "where" && i >= 2 && (i+1 == len(toks) || toks[i+1] == "orderby" || toks[i+1] == "limit" || toks[i+1] == "offset") {
			toks = append(toks[:i:i], toks[i+1:]...)
			had = true
			break
		}
	}
	return strings.Join(toks, " "), had
}

// ---------------------------------------------------------------------------------
// c11.recheck: Check() is asked more than once about the same invalid query

var c11BadKinds = []string{"", "int-op-text-operand", "int-op-float-operand", "float-op-text-operand", "bool-op-text-operand", "bad-regex", "in-single-element-text",
	"string-op-int-operand", "unknown-operator", "in-op-int-operand", "regex-op-int-operand", "bool-op-int-operand", "int-op-nil-operand"}

func c11BadLeaf(key string, bad int) query.Condition {
	switch bad {
	case 1:
		return query.Where(key, query.Equals, "banana")
	case 2:
		return query.Where(key, query.GreaterThan, 1.5)
	case 3:
		return query.Where(key, query.FloatLessThan, "x1")
	case 4:
		return query.Where(key, query.Is, "maybe")
	case 5:
		return query.Where(key, query.Matches, "[a")
	case 6:
		return query.Where(key, query.In, "single")
	case 7:
		return query.Where(key, query.SameAs, 5)
	case 8:
		return query.Where(key, 200, "v")
	case 9:
		return query.Where(key, query.In, 7)
	case 10:
		return query.Where(key, query.Matches, 7)
	case 11:
		return query.Where(key, query.Is, 1)
	default:
		return query.Where(key, query.LessThanOrEqual, nil)
	}
}

func c11Recheck(c *ctx, seed uint64) {
	b := c.b
	in := u64le(seed)
	b.Eval(1)
	c.call("c11.recheck", in, func() {
		r := vlib.NewRand(seed, "c11.recheck", 0)
		g := &c11Gen{r: r, keyType: map[string]byte{}, maxD: 3}
		q := g.query()
		if q.Where == nil {
			q.Where = g.tree(0)
		}
		var ls []*c11Node
		q.Where.leaves(&ls)
		victim := ls[r.Intn(len(ls))]
		victim.Bad = 1 + r.Intn(len(c11BadKinds)-1)
		kind := c11BadKinds[victim.Bad]
		pq := q.build()
		_, err1 := pq.Check()
		b.Distinct([]byte("c11.recheck"), in)
		if err1 == nil {
			b.Count("recheck_invalid_leaf_accepted_by_first_check:"+kind, 1) // not what this class is about
			return
		}
		b.Count("recheck_histories", 1)
		b.Seen("recheck_invalid_kinds", kind)
		detail := map[string]any{"class": "c11.recheck", "input_hex": hex.EncodeToString(in), "invalid_leaf": kind, "first_check_error": err1.Error(), "build": c.spec.Kind}
		if pq.IsChecked() {
			b.Violation("C11:check-history:is-checked-after-failed-check", fmt.Sprintf("Check() failed (%v), yet IsChecked() reports true on the same query", err1), detail)
		}
		q2, err2 := pq.Check()
		mustPanicked := func() (p bool) {
			defer func() { p = recover() != nil }()
			pq.MustBeValid()
			return false
		}()
		if err2 == nil {
			what := fmt.Sprintf("the first Check() fails with %q; a second Check() on the same object returns no error", err1)
			if q2 != nil { // it claims to pass its own check: then its text has to parse back
				func() {
					defer func() { _ = recover() }()
					t := q2.Print()
					if _, perr := query.ParseQuery(t); perr != nil {
						what += fmt.Sprintf("; its text %q does not parse: %v", t, perr)
					}
					detail["printed"] = t
				}()
			}
			b.Violation("C11:check-history:second-check-accepts-invalid-query", what, detail)
		} else if !mustPanicked {
			b.Violation("C11:check-history:must-be-valid-accepts-invalid-query", fmt.Sprintf("Check() fails twice (%v), but MustBeValid() on the same object does not panic", err1), detail)
		}
	})
}

// ---------------------------------------------------------------------------------
// shard runner

var c11Vocab = []string{"query", "where", "and", "or", "not", "(", ")", "orderby", "limit", "offset", "t:", "db:key/", "a", "b", "name", "I", "S", "B",
	"==", ">", ">=", "<", "<=", "f==", "f>", "f<=", "sameas", "s==", "contains", "co", "startswith", "sw", "endswith", "ew", "in", "matches", "re", "is", "exists", "ex",
	"1", "-1", "10", "1.5", "1e3", "true", "f", "a,b", "a,b,c", ",", "^King ", "\"", "\\", "\"a b\"", "\"a\\\"b\"", "\"\"", "é", "漢字", "😀", "x\\ y", "x\\", "\\\"", "9223372036854775808", "2147483648", "NaN", "[a", "a(b", "\t", "\n", " ", "  "}

// c11Tokens splits a text roughly into the parser's tokens (for mutation only).
func c11Tokens(s string) []string {
	var out []string
	cur := ""
	inq := false
	flush := func() {
		if cur != "" {
			out = append(out, cur)
			cur = ""
		}
	}
	for i := 0; i < len(s); i++ {
		ch := s[i]
		switch {
		case ch == '\\' && i+1 < len(s):
			cur += s[i : i+2]
			i++
		case inq:
			cur += string(ch)
			if ch == '"' {
				inq = false
				flush()
			}
		case ch == '"':
			flush()
			cur = `"`
			inq = true
		case ch == ' ' || ch == '\t' || ch == '\n' || ch == '\r':
			flush()
		case ch == '(' || ch == ')':
			flush()
			out = append(out, string(ch))
		default:
			cur += string(ch)
		}
	}
	flush()
	return out
}

func c11Mutate(r *vlib.Rand, text string) string {
	toks := c11Tokens(text)
	if len(toks) == 0 {
		return text
	}
	switch r.Intn(11) {
	case 0: // drop a token
		i := r.Intn(len(toks))
		toks = append(toks[:i:i], toks[i+1:]...)
	case 1: // duplicate a token
		i := r.Intn(len(toks))
		toks = append(toks[:i+1], toks[i:]...)
	case 2: // swap two tokens
		i, j := r.Intn(len(toks)), r.Intn(len(toks))
		toks[i], toks[j] = toks[j], toks[i]
	case 3: // insert a vocabulary token
		i := r.Intn(len(toks) + 1)
		toks = append(toks[:i:i], append([]string{vlib.Pick(r, c11Vocab...)}, toks[i:]...)...)
	case 4: // unbalanced quote or parenthesis
		i := r.Intn(len(toks) + 1)
		toks = append(toks[:i:i], append([]string{vlib.Pick(r, "\"", "(", ")", "((", "))", "\"x", "x\"")}, toks[i:]...)...)
	case 5: // trailing backslash
		return text + vlib.Pick(r, "\\", " \\", "\\\\", "\\\"")
	case 6: // cut anywhere (also inside a multi-byte rune)
		return text[:r.Intn(len(text)+1)]
	case 7: // replace a token
		toks[r.Intn(len(toks))] = vlib.Pick(r, c11Vocab...)
	case 8: // overwrite a byte
		bs := []byte(text)
		bs[r.Intn(len(bs))] = byte(r.Uint64())
		return string(bs)
	case 9: // remove all whitespace around one token
		i := r.Intn(len(toks))
		return strings.Join(toks[:i], " ") + toks[i] + strings.Join(toks[i+1:], " ")
	default: // append a clause
		toks = append(toks, vlib.Pick(r, "orderby", "limit", "offset", "where", "and", "or"), vlib.Pick(r, c11Vocab...))
	}
	return strings.Join(toks, vlib.Pick(r, " ", " ", " ", "  ", "\t", "\n"))
}

func runC11(c *ctx) {
	s, ns := c.spec.Shard, c.spec.NShards
	b := c.b
	runtime.GOMAXPROCS(2)
	div := 1
	if c.spec.Kind != "plain" {
		div = 3
	}
	if s == 0 {
		// samples: real conversions
		for _, q := range []c11Query{
			{Prefix: "t:", Where: c11G("or", c11G("and", c11L("I", query.Equals), c11L("S", query.SameAs)), c11G("and", c11L("J", query.GreaterThan), c11L("T", query.Contains)))},
			{Prefix: "t:", Where: &c11Node{Kind: "leaf", Key: "S", Op: query.SameAs, S: `a\b é`}},
			{Prefix: "t:", Where: c11G("not", c11L("my key", query.SameAs))},
		} {
			f := c11RoundTrip(q, nil)
			b.Sample(map[string]any{"class": "c11.tree", "query": q.String(), "printed": f.text, "verdict": f.kind, "detail": f.what})
		}
		for i := range c11Edges {
			c11Edge(c, i)
		}
	}
	// Q1
	var texts []string
	rt := c.rand("tree")
	nt := c.n(16000, 120000) / ns / div
	for i := 0; i < nt; i++ {
		seed := rt.Uint64()
		c11Tree(c, seed)
		if i%4 == 0 { // keep some printed texts as mutation seeds
			g := &c11Gen{r: vlib.NewRand(seed, "c11.tree", 0), keyType: map[string]byte{}, maxD: 3}
			q := g.query()
			if c11InMainClass(q) {
				func() {
					defer func() { _ = recover() }()
					if pq, err := q.build().Check(); err == nil {
						texts = append(texts, pq.Print())
					}
				}()
			}
		}
	}
	// check histories
	rr := c.rand("recheck")
	for i, n := 0, c.n(6400, 40000)/ns/div; i < n; i++ {
		c11Recheck(c, rr.Uint64())
	}
	// Q3
	rg := c.rand("grammar")
	ng := c.n(16000, 120000) / ns / div
	for i := 0; i < ng; i++ {
		seed := rg.Uint64()
		c11Grammar(c, seed)
		if i%4 == 0 {
			r := vlib.NewRand(seed, "c11.grammar", 0)
			g := &c11Gen{r: r, typed: true, keyType: map[string]byte{}, maxD: 3}
			texts = append(texts, (&c11Render{r: r}).query(g.query()))
		}
	}
	// Q2
	if s == 0 {
		for _, t := range []string{"", "query", "query ", "query t:", "query t: where", "query t: where (", "query t: where )", "query t: where ()", "query t: where (())", "query t: where not", "query t: where not not a == 1",
			"query t: where a == 1 and", "query t: where a == 1 and b == 2 or c == 3", "query t: where (a == 1 and b == 2) or (c == 1 and d == 2)", "query t: where a sameas \"", "query t: where a sameas \\", "query t: where a sameas \"x\\",
			"query t: limit", "query t: limit -1", "query t: limit 2147483648", "query t: limit 1 limit 2", "query t: offset x", "query t: orderby", "query t: where a in a", "query t: where a in ,", "query t: where a matches [",
			"query t: where a == 9223372036854775808", "query t: where a f== 1e999", "query t: where a is maybe", "query \"t: where a == 1", "query t: where \"a\"b == 1", "where", "query t: where where where",
			"query t: where a == 1 orderby", "query t: where a == 1 ) orderby x", "query t: where ((((((((((a == 1))))))))))", strings.Repeat("(", 3000), "query t: where " + strings.Repeat("not ", 1000) + "a == 1",
			"query t: where " + strings.Repeat("(", 500) + "a == 1" + strings.Repeat(")", 500), "query t: where a sameas \xc3", "query t:\xff", "query t: where \xe6\xbc == 1", "query t: where a sameas \"\xf0\x9f\x98\""} {
			c11Text(c, []byte(t))
		}
	}
	r2 := c.rand("text")
	n2 := c.n(200000, 3600000) / ns / div
	for i := 0; i < n2; i++ {
		var t string
		switch x := r2.Intn(10); {
		case x < 3: // token soup
			var sb strings.Builder
			if r2.Chance(4, 5) {
				sb.WriteString("query ")
				if r2.Chance(4, 5) {
					sb.WriteString(vlib.Pick(r2, "t: ", "db:k ", "\"a b:c\" ", "é: "))
					if r2.Chance(3, 4) {
						sb.WriteString("where ")
					}
				}
			}
			for k, n := 0, r2.Range(0, 14); k < n; k++ {
				sb.WriteString(vlib.Pick(r2, c11Vocab...))
				if !r2.Chance(1, 8) {
					sb.WriteByte(' ')
				}
			}
			t = sb.String()
		case x < 9 && len(texts) > 0: // mutation of a valid text
			t = texts[r2.Intn(len(texts))]
			for k, n := 0, r2.Range(1, 3); k < n; k++ {
				t = c11Mutate(r2, t)
			}
		default:
			t = string(r2.Bytes(r2.Intn(40)))
			if r2.Bool() {
				t = "query t: where " + t
			}
		}
		if len(t) > 4096 {
			t = t[:4096]
		}
		c11Text(c, []byte(t))
	}
}
